"""genx_faults.py -- plug-in generator for C17 (I/O failures) and C18 (partial files): writes coq/Gen/Faults.v.

Extracted from the CURRENT sources with Python `ast`, fail closed (an unrecognised shape raises, which gen.py records
as a translation failure of `Faults`; a RECOGNISED but unsafe shape -- no length check, a dropped future, a padded
short read -- is emitted as `false` / as a different term, so that the lemmas of Proofs/Faults.v that tie the model to
the code stop checking):

 (i)   utils.check_range_length: the guard expression, as a boolean function of (len(data), length);
       utils.read_range_file / read_range_blob: whether the bytes returned by the backend go through the guard;
       loader.SgzLoader._get_compressed_bytes: the (offset, length) handed to the choke point;
       every call site of `.read_range(` in read.py / loader.py, and every raw `.read(`/`.readall(`/`.readinto(`/
       `.download_blob(` call outside the choke point (must be none);
 (ii)  every `ThreadPoolExecutor` fan-out in loader.py: whether each `executor.submit` future is kept and
       `.result()` is called on every kept future after the pool has drained; the buffer length, the task count and the
       (destination, length) slot of each task as arithmetic terms;
 (iii) the order of write events of a conversion: writer (header, blocks), run_conversion_loop (join, join, flush),
       SeismicFileConverter.run / NumpyConverter.run (loop, write_headers, write_hash), write_headers (thorough
       patches at 64 and 980, then the footer), write_hash (960), with the byte lengths of the patches;
 (iv)  every constant slice `self.headerbytes[a:b]` of read.py with the method it occurs in (which reader attributes
       can depend on the bytes that are patched after the data section has been written).
"""
import ast, os

OUTPUTS = ['Faults']


class Fail(Exception):
    pass


def _parse(srcdir, mod):
    p = os.path.join(srcdir, mod + '.py')
    return ast.parse(open(p).read(), filename=p)


def _funcs(tree):
    """qualified name -> FunctionDef (module level functions and methods of module level classes)"""
    out = {}
    for n in tree.body:
        if isinstance(n, ast.FunctionDef):
            out[n.name] = n
        elif isinstance(n, ast.ClassDef):
            for m in n.body:
                if isinstance(m, ast.FunctionDef):
                    out[f'{n.name}.{m.name}'] = m
    return out


def _body(fn):
    """statements without the docstring"""
    b = list(fn.body)
    if b and isinstance(b[0], ast.Expr) and isinstance(b[0].value, ast.Constant) and isinstance(b[0].value.value, str):
        b = b[1:]
    return b


def _u(n):
    return ast.unparse(n)


def _constants(srcdir):
    t = _parse(srcdir, 'sgzconstants')
    c = {}
    for n in t.body:
        if isinstance(n, ast.Assign) and len(n.targets) == 1 and isinstance(n.targets[0], ast.Name) \
                and isinstance(n.value, ast.Constant) and isinstance(n.value.value, int):
            c[n.targets[0].id] = n.value.value
    return c


# ------------------------------------------------------------------------------------------------ arithmetic terms
class Arith:
    """Python integer expression -> Gallina Z term over named free variables (collected in self.vars).
    `//` and `%` become Z `/` and `mod` (floor semantics: identical to Python's for every sign).
    int(E) with E mentioning self.rate becomes an opaque variable (the rate may be a float)."""
    def __init__(self, env=None, consts=None):
        self.env = dict(env or {})      # local name -> ast expression (already a parameter or an inlined assignment)
        self.vars = []
        self.bound = set()              # loop variables: parameters of the emitted functions, not section variables
        self.opaque = {}
        self.consts = consts or {}

    def var(self, name):
        if name not in self.vars:
            self.vars.append(name)
        return name

    def tr(self, n):
        if isinstance(n, ast.Constant) and isinstance(n.value, int) and not isinstance(n.value, bool):
            return str(n.value) if n.value >= 0 else f'({n.value})'
        if isinstance(n, ast.Name):
            if n.id in self.env:
                v = self.env[n.id]
                if isinstance(v, str):
                    return self.var(v) if v.isidentifier() and v not in self.bound else v
                return '(' + self.tr(v) + ')'
            if n.id in self.consts:
                return str(self.consts[n.id])
            raise Fail(f'free name {n.id} in arithmetic term')
        if isinstance(n, ast.Attribute) and isinstance(n.value, ast.Name) and n.value.id == 'self':
            if n.attr == 'rate':
                raise Fail('self.rate outside int(...)')
            return self.var(n.attr)
        if isinstance(n, ast.Subscript) and isinstance(n.slice, ast.Constant) and isinstance(n.slice.value, int):
            base = n.value
            if isinstance(base, ast.Attribute) and isinstance(base.value, ast.Name) and base.value.id == 'self':
                return self.var(f'{base.attr}{n.slice.value}')
            if isinstance(base, ast.Name):
                if base.id in self.env and isinstance(self.env[base.id], str):
                    return self.var(f'{self.env[base.id]}{n.slice.value}')
                raise Fail(f'subscript of unknown name {base.id}')
        if isinstance(n, ast.BinOp):
            ops = {ast.Add: '+', ast.Sub: '-', ast.Mult: '*', ast.FloorDiv: '/', ast.Mod: 'mod'}
            if type(n.op) not in ops:
                raise Fail('operator ' + type(n.op).__name__)
            return f'({self.tr(n.left)} {ops[type(n.op)]} {self.tr(n.right)})'
        if isinstance(n, ast.Call) and isinstance(n.func, ast.Name) and n.func.id == 'int' and len(n.args) == 1 \
                and 'self.rate' in _u(n.args[0]):
            key = _u(n)
            if key not in self.opaque:
                self.opaque[key] = f'rate_int_{len(self.opaque) + 1}'
            return self.var(self.opaque[key])
        raise Fail('arithmetic term not recognised: ' + _u(n))


def _defn(name, vars_, body, comment=None, ty='Z'):
    args = (' (' + ' '.join(vars_) + ' : Z)') if vars_ else ''
    c = f'(* {comment} *)\n' if comment else ''
    return f'{c}Definition {name}{args} : {ty} := {body}.\n'


# ------------------------------------------------------------------------------------------------ (i) choke point
def gen_choke(srcdir, out):
    ut = _funcs(_parse(srcdir, 'utils'))
    ld = _funcs(_parse(srcdir, 'loader'))
    # --- the guard
    guard = 'fun _ _ => false'
    guard_src = 'absent'
    if 'check_range_length' in ut:
        f = ut['check_range_length']
        if [a.arg for a in f.args.args] != ['data', 'offset', 'length']:
            raise Fail('check_range_length: parameters changed')
        b = _body(f)
        if not (len(b) == 2 and isinstance(b[0], ast.If) and not b[0].orelse and len(b[0].body) == 1
                and isinstance(b[0].body[0], ast.Raise) and isinstance(b[1], ast.Return) and _u(b[1].value) == 'data'):
            raise Fail('check_range_length: body is not `if <guard>: raise ...; return data`')
        exc = b[0].body[0].exc
        excname = exc.func.id if isinstance(exc, ast.Call) and isinstance(exc.func, ast.Name) else _u(exc)
        if excname not in ('IOError', 'OSError', 'EOFError', 'RuntimeError', 'ValueError'):
            raise Fail('check_range_length: raises ' + excname)
        t = b[0].test
        if not (isinstance(t, ast.Compare) and len(t.ops) == 1):
            raise Fail('check_range_length: guard is not a single comparison')

        def side(n):
            if _u(n) == 'len(data)':
                return 'len_data'
            if _u(n) == 'length':
                return 'length'
            if isinstance(n, ast.Constant) and isinstance(n.value, int):
                return str(n.value)
            raise Fail('check_range_length: guard operand ' + _u(n))
        l, r = side(t.left), side(t.comparators[0])
        ops = {ast.NotEq: f'negb ({l} =? {r})', ast.Eq: f'({l} =? {r})', ast.Lt: f'({l} <? {r})',
               ast.LtE: f'({l} <=? {r})', ast.Gt: f'({r} <? {l})', ast.GtE: f'({r} <=? {l})'}
        if type(t.ops[0]) not in ops:
            raise Fail('check_range_length: comparison operator')
        guard = f'fun len_data length => {ops[type(t.ops[0])]}'
        guard_src = _u(t)
    out.append(f'(* utils.check_range_length raises when: {guard_src} *)\n'
               f'Definition check_range_length_raises : Z -> Z -> bool := {guard}.\n')
    # --- the two backends
    shapes = {
        'read_range_file': {
            ('file.seek(offset)', 'return check_range_length(file.read(length), offset, length)'): 'true',
            ('file.seek(offset)', 'return file.read(length)'): 'false'},
        'read_range_blob': {
            ('return check_range_length(file.download_blob(offset=offset, length=length).readall(), offset, length)',): 'true',
            ('return file.download_blob(offset=offset, length=length).readall()',): 'false'}}
    for fn, table in shapes.items():
        if fn not in ut:
            raise Fail(fn + ' missing')
        if [a.arg for a in ut[fn].args.args] != ['file', 'offset', 'length']:
            raise Fail(fn + ': parameters changed')
        key = tuple(_u(s) for s in _body(ut[fn]))
        if key not in table:
            raise Fail(f'{fn}: body not recognised: {key}')
        out.append(f'(* utils.{fn}: {"; ".join(key)} *)\nDefinition {fn}_checked : bool := {table[key]}.\n')
    # --- loader._get_compressed_bytes
    g = ld.get('SgzLoader._get_compressed_bytes')
    if g is None:
        raise Fail('_get_compressed_bytes missing')
    b = _body(g)
    if [a.arg for a in g.args.args] != ['self', 'offset', 'length_bytes']:
        raise Fail('_get_compressed_bytes: parameters changed')
    if not (len(b) == 1 and isinstance(b[0], ast.If) and _u(b[0].test) == 'self.compressed_volume is not None'
            and len(b[0].body) == 1 and len(b[0].orelse) == 1
            and _u(b[0].body[0]) == 'return self.compressed_volume[offset:offset + length_bytes]'
            and isinstance(b[0].orelse[0], ast.Return)):
        raise Fail('_get_compressed_bytes: shape not recognised')
    call = b[0].orelse[0].value
    if not (isinstance(call, ast.Call) and _u(call.func) == 'self.file.read_range' and len(call.args) == 3
            and _u(call.args[0]) == 'self.file' and not call.keywords):
        raise Fail('_get_compressed_bytes: does not return self.file.read_range(self.file, off, len): ' + _u(call))
    ar = Arith(env={'offset': 'offset', 'length_bytes': 'length_bytes'})
    ar.bound |= {'offset', 'length_bytes'}
    off, ln = ar.tr(call.args[1]), ar.tr(call.args[2])
    if sorted(ar.vars) != ['data_start_bytes']:
        raise Fail('_get_compressed_bytes: unexpected variables ' + repr(ar.vars))
    out.append(_defn('get_compressed_bytes_range', ['data_start_bytes', 'offset', 'length_bytes'], f'({off}, {ln})',
                     'loader._get_compressed_bytes (no preload): the range handed to self.file.read_range', ty='Z * Z'))
    lv = ld.get('SgzLoader.load_compressed_volume')
    if lv is None:
        raise Fail('load_compressed_volume missing')
    txt = ' '.join(_u(s) for s in _body(lv))
    want = 'if self.compressed_volume is None:\n    self.compressed_volume = self.file.read_range(self.file, ' \
           'self.data_start_bytes, self.compressed_data_diskblocks * self.block_bytes)\nelse:\n    pass'
    if txt != want:
        raise Fail('load_compressed_volume changed: ' + txt)
    out.append('(* loader.load_compressed_volume: one checked read of the whole data section; the preload branch of\n'
               '   _get_compressed_bytes then slices that bytes object *)\n'
               'Definition preload_through_read_range : bool := true.\n')
    # --- which backend the reader installs
    rtree = _parse(srcdir, 'read')
    rd = _funcs(rtree)
    init = rd['SgzReader.__init__']
    installs = []
    for n in ast.walk(init):
        if isinstance(n, ast.Assign) and len(n.targets) == 1 and _u(n.targets[0]) == 'self.file.read_range':
            installs.append(_u(n.value))
    if sorted(set(installs)) != ['seismic_zfp.utils.read_range_blob', 'seismic_zfp.utils.read_range_file'] or len(installs) != 4:
        raise Fail('SgzReader.__init__: read_range installation changed: ' + repr(installs))
    inside = set(id(n) for n in ast.walk(init))
    for n in ast.walk(rtree):
        if isinstance(n, ast.Assign) and any('read_range' in _u(t) for t in n.targets) and id(n) not in inside:
            raise Fail('read_range assigned outside SgzReader.__init__')
    out.append('Definition reader_installs_only_choke_points : bool := true.\n')


def gen_io_sites(srcdir, out):
    """call sites of the choke point and raw I/O calls, per function, for read.py and loader.py"""
    sites, raw = [], []
    for mod in ('read', 'loader'):
        fs = _funcs(_parse(srcdir, mod))
        for q, f in fs.items():
            n_rr = 0
            for n in ast.walk(f):
                if isinstance(n, ast.Call) and isinstance(n.func, ast.Attribute):
                    a = n.func.attr
                    if a == 'read_range':
                        if _u(n.func) != 'self.file.read_range' or len(n.args) != 3 or _u(n.args[0]) != 'self.file':
                            raise Fail(f'{mod}.{q}: unusual read_range call {_u(n)}')
                        n_rr += 1
                    elif a in ('read', 'readall', 'readinto', 'download_blob', 'readline', 'readlines', 'read1', 'peek'):
                        raw.append(f'{mod}.{q}:{_u(n)}')
                elif isinstance(n, (ast.Try,)):
                    # an exception handler around I/O could swallow the error: none exists in the pinned tree
                    raw.append(f'{mod}.{q}:try')
            if n_rr:
                sites.append((f'{mod}.{q}', n_rr))
        # module-level code must not do I/O either
        tree = _parse(srcdir, mod)
        for n in tree.body:
            if not isinstance(n, (ast.FunctionDef, ast.ClassDef, ast.Import, ast.ImportFrom)):
                if isinstance(n, ast.Try) and 'BlobServiceClient' in _u(n):
                    continue
                raise Fail(f'{mod}: unexpected module-level statement {_u(n)[:60]}')
    out.append('(* every call of the range-read choke point in read.py / loader.py: (function, number of call sites) *)\n'
               'Definition read_range_sites : list (string * Z) :=\n  [' +
               ';\n   '.join(f'("{q}", {k})' for q, k in sites) + '].\n')
    out.append('(* raw I/O calls (.read, .readall, .download_blob, ...) or try-blocks in read.py / loader.py *)\n'
               'Definition raw_io_outside_choke_point : list string := [' + '; '.join(f'"{r}"' for r in raw) + '].\n')


# ------------------------------------------------------------------------------------------------ (ii) fan-outs
def _insert_helpers(ld):
    """_insert_into_buffer: read, then one slice assignment of exactly the read length"""
    f = ld.get('SgzLoader3d._insert_into_buffer')
    if f is None or [a.arg for a in f.args.args] != ['self', 'buffer', 'buffer_start', 'data_offset', 'length']:
        raise Fail('_insert_into_buffer changed')
    b = [_u(s) for s in _body(f)]
    if b != ['part = self._get_compressed_bytes(data_offset, length)', 'buffer[buffer_start:buffer_start + length] = part']:
        raise Fail('_insert_into_buffer: body changed: ' + repr(b))
    lens = {}
    for nm in ('_insert_chunk_into_buffer', '_insert_unit_into_buffer'):
        g = ld.get('SgzLoader3d.' + nm)
        if g is None or [a.arg for a in g.args.args] != ['self', 'buffer', 'buffer_start', 'data_offset']:
            raise Fail(nm + ' changed')
        b = _body(g)
        if not (len(b) == 1 and isinstance(b[0], ast.Expr) and isinstance(b[0].value, ast.Call)
                and _u(b[0].value.func) == 'self._insert_into_buffer' and len(b[0].value.args) == 4
                and [_u(x) for x in b[0].value.args[:3]] == ['buffer', 'buffer_start', 'data_offset']):
            raise Fail(nm + ': body changed')
        lens[nm] = b[0].value.args[3]
    return lens


def _fanout(fn):
    """Analyse one method with a ThreadPoolExecutor. Returns dict(collected, loopvar, count, submit_args, pre)"""
    body = _body(fn)
    withs = [(i, s) for i, s in enumerate(body) if isinstance(s, ast.With) and 'ThreadPoolExecutor' in _u(s.items[0].context_expr)]
    if len(withs) != 1:
        # the pool may be nested in an if (read_and_decompress_chunk_range)
        for s in body:
            if isinstance(s, ast.If):
                inner = [(i, t) for i, t in enumerate(s.body) if isinstance(t, ast.With) and 'ThreadPoolExecutor' in _u(t.items[0].context_expr)]
                if len(inner) == 1:
                    pre = [t for t in body if t is not s and body.index(t) < body.index(s)] + s.body[:inner[0][0]]
                    return _fanout_at(fn, pre, inner[0][1], s.body[inner[0][0] + 1:])
        raise Fail(f'{fn.name}: expected exactly one ThreadPoolExecutor block')
    i, w = withs[0]
    return _fanout_at(fn, body[:i], w, body[i + 1:])


def _fanout_at(fn, pre, w, post):
    ex = w.items[0].optional_vars
    if not isinstance(ex, ast.Name):
        raise Fail(f'{fn.name}: executor not bound to a name')
    exn = ex.id
    if not (len(w.body) == 1 and isinstance(w.body[0], ast.For) and not w.body[0].orelse):
        raise Fail(f'{fn.name}: pool body is not a single for loop')
    loop = w.body[0]
    if not (isinstance(loop.target, ast.Name) and isinstance(loop.iter, ast.Call) and _u(loop.iter.func) == 'range'
            and len(loop.iter.args) == 1):
        raise Fail(f'{fn.name}: loop is not `for v in range(n)`')
    if len(loop.body) != 1 or not isinstance(loop.body[0], ast.Expr):
        raise Fail(f'{fn.name}: loop body is not a single expression statement')
    e = loop.body[0].value
    kept = None
    if isinstance(e, ast.Call) and _u(e.func) == f'{exn}.submit':
        sub = e                                            # future dropped
    elif isinstance(e, ast.Call) and isinstance(e.func, ast.Attribute) and e.func.attr == 'append' \
            and isinstance(e.func.value, ast.Name) and len(e.args) == 1 and isinstance(e.args[0], ast.Call) \
            and _u(e.args[0].func) == f'{exn}.submit':
        sub = e.args[0]
        kept = e.func.value.id
    else:
        raise Fail(f'{fn.name}: loop body not recognised: {_u(e)[:80]}')
    if sub.keywords:
        raise Fail(f'{fn.name}: submit with keywords')
    n_submits = sum(1 for n in ast.walk(fn) if isinstance(n, ast.Call) and isinstance(n.func, ast.Attribute) and n.func.attr == 'submit')
    if n_submits != 1:
        raise Fail(f'{fn.name}: {n_submits} submit calls')
    collected = False
    if kept is not None:
        # the list must start empty before the pool and every element must have .result() called after the pool
        init_ok = any(_u(s) == f'{kept} = []' for s in pre)
        for s in post:
            if isinstance(s, ast.For) and isinstance(s.target, ast.Name) and _u(s.iter) == kept and len(s.body) == 1 \
                    and _u(s.body[0]) == f'{s.target.id}.result()' and not s.orelse:
                collected = init_ok
        # nothing between may rebind / clear the list
        for s in post:
            if isinstance(s, (ast.Assign, ast.AugAssign)) and kept in _u(s):
                raise Fail(f'{fn.name}: futures list reassigned')
    return dict(collected=collected, loopvar=loop.target.id, count=loop.iter.args[0], submit=sub, pre=pre)


def gen_fanouts(srcdir, out):
    ld = _funcs(_parse(srcdir, 'loader'))
    lens = _insert_helpers(ld)
    pools = sorted(q for q, f in ld.items() if 'ThreadPoolExecutor' in _u(f))
    want = ['SgzLoader3d.read_and_decompress_chunk_range', 'SgzLoader3d.read_and_decompress_xl_set',
            'SgzLoader3d.read_and_decompress_zslice_set', 'SgzLoader3d.read_and_decompress_zslice_set_adv']
    if pools != want:
        raise Fail('set of thread-pool fan-outs changed: ' + repr(pools))
    out.append('Definition fanouts : list string := [' + '; '.join(f'"{q.split(".")[1]}"' for q in pools) + '].\n')
    for q in pools:
        fn = ld[q]
        short = {'read_and_decompress_chunk_range': 'chunk_range_mt', 'read_and_decompress_xl_set': 'xl_set',
                 'read_and_decompress_zslice_set': 'zslice_set', 'read_and_decompress_zslice_set_adv': 'zslice_set_adv'}[fn.name]
        fo = _fanout(fn)
        out.append(f'(* loader.{q}: every submitted future kept in a list and .result() called on each after the pool drained *)\n'
                   f'Definition {short}_collected : bool := {"true" if fo["collected"] else "false"}.\n')
        # environment: parameters are variables, simple assignments before the pool are inlined
        params = [a.arg for a in fn.args.args if a.arg != 'self']
        env = {p: p for p in params}
        buflen = None
        for s in fo['pre']:
            if isinstance(s, ast.Assign) and len(s.targets) == 1 and isinstance(s.targets[0], ast.Name):
                nm = s.targets[0].id
                if isinstance(s.value, ast.Call) and _u(s.value.func) == 'bytearray' and len(s.value.args) == 1:
                    buflen = (nm, s.value.args[0])
                elif isinstance(s.value, ast.Call) and _u(s.value.func) == 'np.zeros':
                    buflen = (nm, s.value.args[0].elts[0])          # first axis of the cube
                elif isinstance(s.value, ast.List) and not s.value.elts:
                    pass
                elif isinstance(s.value, ast.Call) and _u(s.value.func) in ('self.read_chunk_range',):
                    env[nm] = 'opaque_' + nm
                else:
                    env[nm] = s.value
        if buflen is None:
            raise Fail(f'{q}: no buffer allocation found')
        sub = fo['submit']
        extra = ''
        target = _u(sub.args[0])
        lv = fo['loopvar']
        ar = Arith(env=dict(env, **{lv: lv}))
        ar.bound.add(lv)
        if target in ('self._insert_chunk_into_buffer', 'self._insert_unit_into_buffer'):
            if len(sub.args) != 4 or _u(sub.args[1]) != buflen[0]:
                raise Fail(f'{q}: submit arguments changed')
            slot_start, src_off = ar.tr(sub.args[2]), ar.tr(sub.args[3])
            ln = ar.tr(lens[target.split('.')[1]])
            moves = f'[(0, {ln}, {slot_start})]'
            read = f'({src_off}, {ln})'
        elif target == 'self._distribute_chunk_into_buffer':
            d = ld.get('SgzLoader3d._distribute_chunk_into_buffer')
            dp = [a.arg for a in d.args.args]
            if dp != ['self', 'buffer', 'block_id', 'blocks_per_dim', 'sub_block_size_bytes', 'zslice_first_block_offset'] \
                    or [_u(x) for x in sub.args[1:]] != [buflen[0], lv, 'blocks_per_dim', 'sub_block_size_bytes', 'zslice_first_block_offset']:
                raise Fail(f'{q}: _distribute_chunk_into_buffer signature / call changed')
            db = _body(d)
            # locals, one read, then a loop of slice assignments
            env2 = {'block_id': lv, 'blocks_per_dim': 'blocks_per_dim', 'zslice_first_block_offset': 'zslice_first_block_offset',
                    'sub_block_size_bytes': '(' + ar.tr(ast.Name('sub_block_size_bytes')) + ')'}
            ar.env.update(env2)
            rd_call, loop = None, None
            for s in db:
                if isinstance(s, ast.Assign) and len(s.targets) == 1 and isinstance(s.targets[0], ast.Name):
                    if isinstance(s.value, ast.Call) and _u(s.value.func) == 'self._get_compressed_bytes':
                        if rd_call is not None or loop is not None:
                            raise Fail('_distribute_chunk_into_buffer: more than one read / read after the moves')
                        rd_call = (s.targets[0].id, s.value)
                    else:
                        ar.env[s.targets[0].id] = s.value
                elif isinstance(s, ast.For):
                    if loop is not None:
                        raise Fail('_distribute_chunk_into_buffer: two loops')
                    loop = s
                else:
                    raise Fail('_distribute_chunk_into_buffer: statement ' + _u(s)[:60])
            if rd_call is None or loop is None or len(rd_call[1].args) != 2:
                raise Fail('_distribute_chunk_into_buffer: shape')
            read = f'({ar.tr(rd_call[1].args[0])}, {ar.tr(rd_call[1].args[1])})'
            if not (isinstance(loop.target, ast.Name) and _u(loop.iter.func) == 'range' and len(loop.iter.args) == 1):
                raise Fail('_distribute_chunk_into_buffer: loop header')
            sv = loop.target.id
            ar.env[sv] = sv
            ar.bound.add(sv)
            nsub = ar.tr(loop.iter.args[0])
            lb = list(loop.body)
            for s in lb[:-1]:
                if isinstance(s, ast.Assign) and len(s.targets) == 1 and isinstance(s.targets[0], ast.Name):
                    ar.env[s.targets[0].id] = s.value
                else:
                    raise Fail('_distribute_chunk_into_buffer: loop statement ' + _u(s)[:60])
            asg = lb[-1]
            if not (isinstance(asg, ast.Assign) and isinstance(asg.targets[0], ast.Subscript) and _u(asg.targets[0].value) == 'buffer'
                    and isinstance(asg.targets[0].slice, ast.Slice) and isinstance(asg.value, ast.Subscript)
                    and _u(asg.value.value) == rd_call[0] and isinstance(asg.value.slice, ast.Slice)):
                raise Fail('_distribute_chunk_into_buffer: slice assignment changed')
            dlo, dhi = ar.tr(asg.targets[0].slice.lower), ar.tr(asg.targets[0].slice.upper)
            slo, shi = ar.tr(asg.value.slice.lower), ar.tr(asg.value.slice.upper)
            moves = f'map (fun {sv} => ({slo}, {shi} - {slo}, {dlo})) (zrange 0 {nsub})'
            extra = (f'(* length of the destination slice of one move (must equal the source slice length) *)\n'
                     f'Definition {short}_move_dst_len ({lv} {sv} : Z) : Z := {dhi} - {dlo}.\n')
        elif target == 'self._decompress_into_array':
            # no I/O inside the task: the slot is the first-axis slice of the cube handed to the task
            cube = sub.args[3]
            if not (isinstance(cube, ast.Subscript) and _u(cube.value) == buflen[0] and isinstance(cube.slice, ast.Tuple)
                    and isinstance(cube.slice.elts[0], ast.Slice) and all(_u(x) == ':' for x in cube.slice.elts[1:])):
                raise Fail(f'{q}: cube slice changed: ' + _u(cube))
            lo, hi = ar.tr(cube.slice.elts[0].lower), ar.tr(cube.slice.elts[0].upper)
            moves = f'[(0, {hi} - {lo}, {lo})]'
            read = None
        else:
            raise Fail(f'{q}: submits {target}')
        vs = sorted(set(ar.vars))
        comment = f'loader.{q}'
        if ar.opaque:
            comment += '; ' + '; '.join(f'{v} stands for {k}' for k, v in ar.opaque.items())
        ar2 = Arith(env=env)
        bl = ar2.tr(buflen[1])
        cnt = ar2.tr(fo['count'])
        vs = sorted(set(vs) | set(ar2.vars))
        if not vs:
            raise Fail(f'{q}: no free variables')
        out.append(f'(* {comment} *)\nSection {short.upper()}.\nVariables {" ".join(vs)} : Z.\n'
                   f'Definition {short}_buflen : Z := {bl}.\nDefinition {short}_ntasks : Z := {cnt}.\n'
                   + (f'Definition {short}_read ({lv} : Z) : Z * Z := {read}.\n' if read else '')
                   + f'(* (offset in the bytes read, length, destination in the buffer) of every slice assignment of task {lv} *)\n'
                   f'Definition {short}_moves ({lv} : Z) : list (Z * Z * Z) := {moves}.\n' + extra + f'End {short.upper()}.\n')


# ------------------------------------------------------------------------------------------------ (iii) write order
def gen_writes(srcdir, out, consts):
    cu = _funcs(_parse(srcdir, 'conversion_utils'))
    cv = _funcs(_parse(srcdir, 'conversion'))
    ut = _funcs(_parse(srcdir, 'utils'))
    hd = _funcs(_parse(srcdir, 'headers'))
    # byte lengths of the patches
    if [_u(s) for s in _body(ut['int_to_bytes'])] != ["return struct.pack('<I', bytes)"]:
        raise Fail('int_to_bytes changed')
    tb = _body(hd['HeaderwordInfo.to_buffer'])
    if not (_u(tb[0]).startswith('buf = bytearray(') and isinstance(tb[0].value.args[0], ast.Constant) and _u(tb[-1]) == 'return buf'):
        raise Fail('to_buffer changed')
    table_len = tb[0].value.args[0].value
    mh = cu['make_header']
    txt = _u(mh)
    if 'header_blocks = 2' not in txt or 'buffer = bytearray(DISK_BLOCK_BYTES * header_blocks)' not in txt:
        raise Fail('make_header: header size changed')
    header_len = 2 * consts['DISK_BLOCK_BYTES']
    rcl = cu['run_conversion_loop']
    rtxt = [_u(s) for s in _body(rcl)]
    if "hash_object = hashlib.new('sha1')" not in rtxt:
        raise Fail('run_conversion_loop: hash algorithm changed')
    hash_len = 20
    if rtxt[-4:] != ['compression_queue.join()', 'writing_queue.join()', 'out_filehandle.flush()', 'return hash_object.digest()']:
        raise Fail('run_conversion_loop: tail is not join, join, flush, return digest: ' + repr(rtxt[-4:]))
    if 't_write = Thread(target=writer, args=(writing_queue, out_filehandle, header))' not in rtxt:
        raise Fail('run_conversion_loop: writer thread changed')
    w = [_u(s) for s in _body(cu['writer'])]
    if w != ['out_filehandle.write(header)',
             'while True:\n    compressed = queue.get()\n    out_filehandle.write(compressed)\n    queue.task_done()']:
        raise Fail('writer changed: ' + repr(w))
    # no other write to the output handle inside the loop module
    for q, f in cu.items():
        if q != 'writer' and any(isinstance(n, ast.Call) and isinstance(n.func, ast.Attribute)
                                 and (n.func.attr in ('write', 'truncate', 'writelines')
                                      or (n.func.attr == 'seek' and 'out_filehandle' in _u(n.func)))
                                 for n in ast.walk(f)):
            raise Fail(f'conversion_utils.{q} writes / seeks the output')

    def handle_writes(fn, handle):
        """events of a write_headers / write_hash body, in program order"""
        ev = []

        def walk(stmts, cond):
            for s in stmts:
                if isinstance(s, ast.If):
                    t = _u(s.test)
                    if t == "header_detection == 'thorough'":
                        walk(s.body, 'OnlyThorough')
                    elif t == "header_detection != 'strip'":
                        walk(s.body, 'UnlessStrip')
                    elif not any(isinstance(n, ast.Call) and isinstance(n.func, ast.Attribute) and n.func.attr in ('write', 'seek')
                                 for n in ast.walk(s)):
                        continue
                    else:
                        raise Fail(f'{fn.name}: write under unknown condition {t}')
                    if s.orelse:
                        raise Fail(f'{fn.name}: else branch')
                elif isinstance(s, ast.With):
                    it = s.items[0]
                    if _u(it.context_expr) != f"open({handle}.name, 'r+b')" or not isinstance(it.optional_vars, ast.Name):
                        raise Fail(f'{fn.name}: with ' + _u(it.context_expr))
                    f2 = it.optional_vars.id
                    pos = None
                    for t in s.body:
                        u = _u(t)
                        if isinstance(t, ast.Expr) and isinstance(t.value, ast.Call) and _u(t.value.func) == f'{f2}.seek' \
                                and isinstance(t.value.args[0], ast.Constant):
                            pos = t.value.args[0].value
                        elif isinstance(t, ast.Expr) and isinstance(t.value, ast.Call) and _u(t.value.func) == f'{f2}.write':
                            arg = _u(t.value.args[0])
                            if pos is None:
                                raise Fail(f'{fn.name}: write without a preceding seek')
                            if arg.startswith('int_to_bytes('):
                                ln = 4
                            elif arg.endswith('.to_buffer()'):
                                ln = table_len
                            elif arg == 'hash':
                                ln = hash_len
                            else:
                                raise Fail(f'{fn.name}: patch payload {arg}')
                            ev.append(f'WPatch {pos} {ln} {cond}')
                            pos = None
                        else:
                            raise Fail(f'{fn.name}: statement in patch block: {u[:60]}')
                elif isinstance(s, ast.For):
                    ws = [n for n in ast.walk(s) if isinstance(n, ast.Call) and isinstance(n.func, ast.Attribute) and n.func.attr == 'write']
                    if not ws:
                        if any(isinstance(n, ast.Call) and isinstance(n.func, ast.Attribute) and n.func.attr == 'seek' for n in ast.walk(s)):
                            raise Fail(f'{fn.name}: seek in loop')
                        continue
                    if len(ws) != 1 or _u(ws[0].func) != f'{handle}.write' \
                            or _u(ws[0].args[0]) != 'header_array.tobytes() + bytes(-len(header_array.tobytes()) % 512)' \
                            or _u(s.iter) != 'header_info.headers_dict.values()':
                        raise Fail(f'{fn.name}: footer loop changed: ' + _u(s)[:120])
                    ev.append(f'WFooter {cond}')
                elif any(isinstance(n, ast.Call) and isinstance(n.func, ast.Attribute) and n.func.attr in ('write', 'seek', 'truncate')
                         for n in ast.walk(s)):
                    raise Fail(f'{fn.name}: write in statement {_u(s)[:60]}')
        walk(_body(fn), 'Always')
        return ev

    def run_order(cls, run, handle_name):
        """the statements inside `with open(out_filename, 'wb') as <h>:` of a converter's run"""
        blk = None
        for n in ast.walk(run):
            if isinstance(n, ast.With) and _u(n.items[0].context_expr) == "open(out_filename, 'wb')":
                if blk is not None:
                    raise Fail(f'{cls}.run: two output files')
                blk = n
        if blk is None:
            raise Fail(f'{cls}.run: output file not opened with open(out_filename, "wb")')
        h = blk.items[0].optional_vars.id
        ev = []
        for s in blk.body:
            u = _u(s)
            if isinstance(s, ast.Assign) and isinstance(s.value, ast.Call) and _u(s.value.func) == 'run_conversion_loop':
                if _u(s.value.args[1]) != h:
                    raise Fail(f'{cls}.run: loop writes to another handle')
                ev += ['WHeader', 'WBlocks']
            elif isinstance(s, ast.Expr) and isinstance(s.value, ast.Call) and _u(s.value.func) == 'self.write_headers':
                if _u(s.value.args[-1]) != h:
                    raise Fail(f'{cls}.run: write_headers handle')
                ev += handle_writes(cv[f'{cls}.write_headers'], 'out_filehandle')
            elif isinstance(s, ast.Expr) and isinstance(s.value, ast.Call) and _u(s.value.func) == 'self.write_hash':
                if _u(s.value.args[-1]) != h:
                    raise Fail(f'{cls}.run: write_hash handle')
                ev += handle_writes(cv[f'{cls}.write_hash'], 'out_filehandle')
            else:
                raise Fail(f'{cls}.run: statement inside the output block: {u[:80]}')
        return ev
    segy = run_order('SeismicFileConverter', cv['SeismicFileConverter.run'], 'out_file')
    nump = run_order('NumpyConverter', cv['NumpyConverter.run'], 'out_filehandle')
    out.append(f'''(* write events of a conversion, in program order.  WHeader: the {header_len}-byte header (sizes already final);
   WBlocks: the compressed blocks, appended; WPatch off len c: an in-place overwrite through a second handle that is
   opened, written and closed at once; WFooter c: the padded header arrays, appended through the main handle. *)
Inductive wcond := Always | OnlyThorough | UnlessStrip.
Inductive wev := WHeader | WBlocks | WPatch (off len : Z) (c : wcond) | WFooter (c : wcond).
Definition header_bytes_len : Z := {header_len}.
Definition loop_joins_then_flushes : bool := true.
Definition segy_write_order : list wev := [{"; ".join(segy)}].
Definition numpy_write_order : list wev := [{"; ".join(nump)}].
''')


# ------------------------------------------------------------------------------------------------ (iv) header slices
def gen_header_slices(srcdir, out, consts):
    rd = _funcs(_parse(srcdir, 'read'))
    rows = []
    for q, f in rd.items():
        if not q.startswith('SgzReader.'):
            continue
        for n in ast.walk(f):
            if isinstance(n, ast.Subscript) and _u(n.value) == 'self.headerbytes':
                if not isinstance(n.slice, ast.Slice) or n.slice.step is not None:
                    raise Fail(f'{q}: headerbytes indexed without a constant slice')
                ar = Arith(consts=consts)
                lo, hi = ar.tr(n.slice.lower), ar.tr(n.slice.upper)
                if ar.vars:
                    raise Fail(f'{q}: non-constant headerbytes slice')
                lo, hi = eval(lo.replace('/', '//')), eval(hi.replace('/', '//'))
                rows.append((q.split('.')[1], lo, hi))
            elif isinstance(n, ast.Attribute) and n.attr == 'headerbytes' and _u(n) == 'self.headerbytes':
                pass
        # uses of the whole byte string other than slicing / assignment from read_range are not expected
    for q, f in rd.items():
        for n in ast.walk(f):
            if isinstance(n, ast.Call):
                for x in list(n.args) + [k.value for k in n.keywords]:
                    if _u(x) == 'self.headerbytes':
                        raise Fail(f'{q}: headerbytes passed whole to {_u(n.func)}')
    rows = sorted(set(rows), key=lambda r: (r[1], r[2], r[0]))
    out.append('(* every constant slice self.headerbytes[lo:hi] in read.py: (method, lo, hi) *)\n'
               'Definition header_slices : list (string * Z * Z) :=\n  [' +
               ';\n   '.join(f'("{m}", {lo}, {hi})' for m, lo, hi in rows) + '].\n')


def generate(srcdir):
    consts = _constants(srcdir)
    out = ['(* GENERATED by tools/genx_faults.py from seismic_zfp/{utils,loader,read,conversion,conversion_utils,headers}.py'
           ' -- DO NOT EDIT.  Regenerated on every check run. *)\n'
           'From Coq Require Import ZArith List Bool String.\nImport ListNotations.\nFrom SZ Require Import Lib.Py.\n'
           'Open Scope string_scope.\nOpen Scope Z_scope.\n']
    gen_choke(srcdir, out)
    gen_io_sites(srcdir, out)
    gen_fanouts(srcdir, out)
    gen_writes(srcdir, out, consts)
    gen_header_slices(srcdir, out, consts)
    return {'Faults': '\n'.join(out)}


if __name__ == '__main__':
    import sys
    print(generate(sys.argv[1] if len(sys.argv) > 1 else '/repo/seismic_zfp')['Faults'])
