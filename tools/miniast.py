"""miniast: a tiny fail-closed translator of Python integer/boolean expressions (ast) to Gallina text, shared by the
genx_* plug-ins.  Everything not recognised raises Unsupported -- never a guess.

    env: dict  python-name -> Coq term (str)  |  tuple/list of Coq terms (for subscripting with a constant)
    E(node, env) -> Coq term of type Z          B(node, env) -> Coq term of type bool
"""
import ast


class Unsupported(Exception):
    pass


def zlit(k):
    return f'({k})' if k < 0 else str(k)


def key_of(node):
    """canonical text of a name / attribute chain / constant subscript, used to look names up in env"""
    return ast.unparse(node)


def E(node, env):
    k = key_of(node)
    if k in env and isinstance(env[k], str):
        return env[k]
    if isinstance(node, ast.Constant):
        if isinstance(node.value, bool) or not isinstance(node.value, int):
            raise Unsupported(f'constant {node.value!r}')
        return zlit(node.value)
    if isinstance(node, ast.Name):
        raise Unsupported(f'unknown name {node.id}')
    if isinstance(node, ast.UnaryOp) and isinstance(node.op, ast.USub):
        return f'(- {E(node.operand, env)})'
    if isinstance(node, ast.BinOp):
        a, b = E(node.left, env), E(node.right, env)
        op = {ast.Add: '+', ast.Sub: '-', ast.Mult: '*', ast.FloorDiv: '/', ast.Mod: 'mod'}.get(type(node.op))
        if op is None:
            raise Unsupported(f'operator {type(node.op).__name__} in {k}')
        return f'({a} {op} {b})'
    if isinstance(node, ast.Subscript):
        base = key_of(node.value)
        if base in env and isinstance(env[base], (tuple, list)):
            idx = node.slice
            if isinstance(idx, ast.Constant) and isinstance(idx.value, int):
                return env[base][idx.value]
            if isinstance(idx, ast.UnaryOp) and isinstance(idx.op, ast.USub) and isinstance(idx.operand, ast.Constant):
                return env[base][-idx.operand.value]
        raise Unsupported(f'subscript {k}')
    if isinstance(node, ast.Call):
        f = key_of(node.func)
        if node.keywords:
            raise Unsupported(f'keywords in call {k}')
        if f == 'pad' and len(node.args) == 2:
            return f'(pad {E(node.args[0], env)} {E(node.args[1], env)})'
        if f in ('min', 'max') and len(node.args) == 2:
            return f'(Z.{f} {E(node.args[0], env)} {E(node.args[1], env)})'
        if f == 'abs' and len(node.args) == 1:
            return f'(Z.abs {E(node.args[0], env)})'
        if f == 'int' and len(node.args) == 1:
            return E(node.args[0], env)          # int() of an int-kinded expression
        if f == 'len' and len(node.args) == 1:
            kk = 'len(' + key_of(node.args[0]) + ')'
            if kk in env:
                return env[kk]
        raise Unsupported(f'call {k}')
    if isinstance(node, ast.IfExp):
        return f'(if {B(node.test, env)} then {E(node.body, env)} else {E(node.orelse, env)})'
    raise Unsupported(f'expression {k} ({type(node).__name__})')


def B(node, env):
    k = key_of(node)
    if k in env and isinstance(env[k], str) and env.get('#bool', {}).get(k):
        return env[k]
    if isinstance(node, ast.Constant) and isinstance(node.value, bool):
        return 'true' if node.value else 'false'
    if isinstance(node, ast.BoolOp):
        op = '&&' if isinstance(node.op, ast.And) else '||'
        return '(' + f' {op} '.join(B(v, env) for v in node.values) + ')'
    if isinstance(node, ast.UnaryOp) and isinstance(node.op, ast.Not):
        return f'(negb {B(node.operand, env)})'
    if isinstance(node, ast.Compare):
        parts = []
        left = node.left
        for op, right in zip(node.ops, node.comparators):
            o = {ast.Lt: '<?', ast.LtE: '<=?', ast.Gt: '>?', ast.GtE: '>=?', ast.Eq: '=?'}.get(type(op))
            if o is not None:
                parts.append(f'({E(left, env)} {o} {E(right, env)})')
            elif isinstance(op, ast.NotEq):
                parts.append(f'(negb ({E(left, env)} =? {E(right, env)}))')
            else:
                raise Unsupported(f'comparison {k}')
            left = right
        return parts[0] if len(parts) == 1 else '(' + ' && '.join(parts) + ')'
    raise Unsupported(f'boolean expression {k} ({type(node).__name__})')


def find_function(tree, qualname):
    parts = qualname.split('.')
    body = tree.body
    node = None
    for p in parts:
        node = next((n for n in body if isinstance(n, (ast.FunctionDef, ast.ClassDef)) and n.name == p), None)
        if node is None:
            raise Unsupported(f'{qualname} not found')
        body = node.body
    return node


def strip_doc(body):
    if body and isinstance(body[0], ast.Expr) and isinstance(body[0].value, ast.Constant) and isinstance(body[0].value.value, str):
        return body[1:]
    return body


def expect(cond, msg):
    if not cond:
        raise Unsupported(msg)


def norm(node):
    """source text with normalised formatting"""
    return ast.unparse(node)
