(* Spec/Version.v -- what C03 requires of the version field, independent of the code. *)
From Coq Require Import ZArith Bool Lia.
Open Scope Z_scope.

(* a library version: major.minor.patch, and whether local changes / a dev or rc suffix exist *)
Record ver := { vmaj : Z; vmin : Z; vpat : Z; vdev : bool }.

(* the domain on which the encoding is claimed to be a bijection: every major >= 0 (not only < 4) *)
Definition ver_ok (v : ver) : Prop := 0 <= vmaj v /\ 0 <= vmin v < 1024 /\ 0 <= vpat v < 1024.

(* release order: lexicographic on (major, minor, patch), a development build sorting just BEFORE the release *)
Definition ver_lt (a b : ver) : Prop :=
  vmaj a < vmaj b \/ (vmaj a = vmaj b /\ (vmin a < vmin b \/ (vmin a = vmin b /\
  (vpat a < vpat b \/ (vpat a = vpat b /\ vdev a = true /\ vdev b = false))))).

Definition rel (M m p : Z) : ver := {| vmaj := M; vmin := m; vpat := p; vdev := false |}.
