(* Spec/Container.v -- the SGZ container as docs/file-specification.md describes it, independent of the reader's
   and writers' code.  The header record `hdr` (one field per parsed (type, offset)) comes from Gen/Reader.v; the
   MEANING of each offset below is taken from the specification's table, not from the code. *)
From Coq Require Import ZArith List Bool Lia.
Import ListNotations.
From SZ Require Import Lib.Py Gen.Reader.
Open Scope Z_scope.

Definition s_nhb (H : hdr) := h_u32_0 H.        (* 0-3   number of 4K header blocks *)
Definition s_ns (H : hdr) := h_u32_4 H.         (* 4-7   samples per trace *)
Definition s_nxl (H : hdr) := h_u32_8 H.        (* 8-11  number of crosslines *)
Definition s_nil (H : hdr) := h_u32_12 H.       (* 12-15 number of inlines *)
Definition s_rate_code (H : hdr) := h_i32_40 H. (* 40-43 bits per voxel, negative = reciprocal *)
Definition s_bs0 (H : hdr) := h_u32_44 H.       (* 44-55 blockshape *)
Definition s_bs1 (H : hdr) := h_u32_48 H.
Definition s_bs2 (H : hdr) := h_u32_52 H.
Definition s_ndb (H : hdr) := h_u32_56 H.       (* 56-59 number of 4K disk blocks of data *)
Definition s_hel (H : hdr) := h_u32_60 H.       (* 60-63 bytes per header array *)
Definition s_nha (H : hdr) := h_u32_64 H.       (* 64-67 number of header arrays *)
Definition s_ntr (H : hdr) := h_u32_68 H.       (* 68-71 number of traces *)
Definition s_ver (H : hdr) := h_u32_72 H.       (* 72-75 encoded version *)

(* rate as a fraction num/den *)
Definition s_rn (H : hdr) : Z := if s_rate_code H <? 0 then 1 else s_rate_code H.
Definition s_rd (H : hdr) : Z := if s_rate_code H <? 0 then - s_rate_code H else 1.

(* ceiling to a multiple *)
Definition pad_to (n m : Z) : Z := m * ((n + m - 1) / m).

(* ---- 3D ---- *)
Definition s_PI H := pad_to (s_nil H) (s_bs0 H).
Definition s_PX H := pad_to (s_nxl H) (s_bs1 H).
Definition s_PZ H := pad_to (s_ns H) (s_bs2 H).
(* bytes of one 4x4x4 compression unit: 64 values * rate / 8 *)
Definition s_ub3 H : Z := (64 * s_rn H) / (8 * s_rd H).

(* Well-formed 3D header: positive dimensions; block dimensions positive multiples of 4; the unit size is a
   positive whole number of bytes; ONE BLOCK IS EXACTLY 4096 BYTES. *)
Definition wf3 (H : hdr) : bool :=
  (1 <=? s_nil H) && (1 <=? s_nxl H) && (1 <=? s_ns H) &&
  (4 <=? s_bs0 H) && (s_bs0 H mod 4 =? 0) && (4 <=? s_bs1 H) && (s_bs1 H mod 4 =? 0) &&
  (4 <=? s_bs2 H) && (s_bs2 H mod 4 =? 0) &&
  negb (s_rate_code H =? 0) && (0 <? s_ub3 H) && (8 * s_rd H * s_ub3 H =? 64 * s_rn H) &&
  ((s_bs0 H / 4) * (s_bs1 H / 4) * (s_bs2 H / 4) * s_ub3 H =? 4096).

(* index of the compression unit (iu,xu,zu) in the data section: blocks inline-major, z fastest; inside a block
   units in C order *)
Definition unit_index3 (H : hdr) (iu xu zu : Z) : Z :=
  let u0 := s_bs0 H / 4 in let u1 := s_bs1 H / 4 in let u2 := s_bs2 H / 4 in
  let nbx := s_PX H / s_bs1 H in let nbz := s_PZ H / s_bs2 H in
  let blk := ((iu / u0) * nbx + xu / u1) * nbz + zu / u2 in
  let inb := ((iu mod u0) * u1 + xu mod u1) * u2 + zu mod u2 in
  blk * (u0 * u1 * u2) + inb.

(* THE SPECIFICATION DECODER: voxel (i,x,z) of the (padded) volume is cell (i%4,x%4,z%4) of the unit stored at byte
   ub * unit_index of the data section *)
Definition spec_cell3 (H : hdr) (i x z : Z) : prov :=
  PUnit (s_ub3 H * unit_index3 H (i / 4) (x / 4) (z / 4)) (((i mod 4) * 4 + x mod 4) * 4 + z mod 4).

(* the data section is exactly this many bytes: padded voxels * rate / 8 *)
Definition s_data_bytes3 (H : hdr) : Z := (s_PI H / 4) * (s_PX H / 4) * (s_PZ H / 4) * s_ub3 H.

(* ---- 2D (blockshape (1, b1, b2); units are 4x4) ---- *)
Definition s_ub2 H : Z := (16 * s_rn H) / (8 * s_rd H).
Definition s_PT H := pad_to (s_ntr H) (s_bs1 H).
Definition wf2 (H : hdr) : bool :=
  (s_bs0 H =? 1) && (1 <=? s_ntr H) && (1 <=? s_ns H) &&
  (4 <=? s_bs1 H) && (s_bs1 H mod 4 =? 0) && (4 <=? s_bs2 H) && (s_bs2 H mod 4 =? 0) &&
  negb (s_rate_code H =? 0) && (0 <? s_ub2 H) && (8 * s_rd H * s_ub2 H =? 16 * s_rn H) &&
  ((s_bs1 H / 4) * (s_bs2 H / 4) * s_ub2 H =? 4096).
Definition unit_index2 (H : hdr) (xu zu : Z) : Z :=
  let u1 := s_bs1 H / 4 in let u2 := s_bs2 H / 4 in
  let nbz := s_PZ H / s_bs2 H in
  ((xu / u1) * nbz + zu / u2) * (u1 * u2) + ((xu mod u1) * u2 + zu mod u2).
Definition spec_cell2 (H : hdr) (t z : Z) : prov :=
  PUnit (s_ub2 H * unit_index2 H (t / 4) (z / 4)) ((t mod 4) * 4 + z mod 4).
