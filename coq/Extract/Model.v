(* Extraction of the executable model (generated definitions + Lib) for the correspondence driver.
   ExtrOcamlBasic only; Z, positive, N stay the extracted inductive types. *)
From Coq Require Import ZArith List Bool String.
From Coq Require Extraction ExtrOcamlBasic.
From SZ Require Import Lib.Py Gen.Utils Gen.Version Gen.Reader Model.Version.
Extraction Language OCaml.
Extraction "model.ml"
  hdr_of_list rd_init
  rd_read_inline rd_read_crossline rd_read_zslice rd_read_subvolume rd_read_volume rd_read_subplane
  rd_get_trace rd_read_correlated_diagonal rd_read_anticorrelated_diagonal ld_read_chunk_range
  rd_n_ilines rd_n_xlines rd_n_samples rd_tracecount rd_shape_pad0 rd_shape_pad1 rd_shape_pad2
  rd_unit_bytes rd_block_bytes rd_chunk_bytes rd_padded_header_entry_length_bytes rd_data_start_bytes
  rd_blockshape0 rd_blockshape1 rd_blockshape2
  pad get_correlated_diagonal_length get_anticorrelated_diagonal_length get_chunk_cache_size
  version_reencode version_to_encoding enc dec parse_version
  av_shape av_cell av_reads in_shape.
