(* C13 segyio emulation: documented accessor expressions behave as on the SEG-Y.  ONLY statements.

   Emulator side: Gen/Accessors.v, GENERATED from seismic_zfp/accessors.py + segyio_emulator.py on every run.
   Oracle side: the hand model of segyio's Line / Sequence key resolution in Model/Accessors.v (validated against segyio
   itself on every run by tools/checks/emulation.py).  A "key" is what is handed to the reader (line number / ordinal);
   what the reader returns for a key is C02 / C04 / C14.
   Guards (boolean, Model/Accessors.v): axis_ok = regular axis with increment <> 0, at least 2 lines, no negative line
   number; line_slice_ok = the documented grammar (bounds absent or existing line numbers, step absent or a non-zero
   multiple of the increment, of either sign); oracle_ok excludes only a downward slice without stop on an axis
   containing line number 0, where segyio itself yields nothing (C13_oracle_guard_needed). *)
From Coq Require Import ZArith List Bool String.
Import ListNotations.
From SZ Require Import Lib.Py Model.Accessors Gen.Accessors Gen.Reader Proofs.Accessors Proofs.AccessorsBounds.
Open Scope Z_scope.

(* iline[a:b:c] / xline[a:b:c]: same lines, same order as segyio, for every axis (ascending or descending, any increment)
   and every slice of the grammar *)
Theorem C13_line_slice_agree : forall a s n sl,
  axis_ok a s n = true -> line_slice_ok a s n sl = true -> oracle_ok a s n sl = true ->
  sla_getitem_slice (axis a s n) sl = segyio_line_slice (axis a s n) sl.
Proof. exact line_slice_agree. Qed.
Print Assumptions C13_line_slice_agree.

(* ... and every line the emulator then asks the reader for exists (no rejection inside the grammar; segyio has none) *)
Theorem C13_line_slice_keys_exist : forall a s n sl,
  axis_ok a s n = true -> line_slice_ok a s n sl = true -> oracle_ok a s n sl = true ->
  exists l, sla_getitem_slice (axis a s n) sl = Return l /\ Forall (fun k => mem k (axis a s n) = true) l.
Proof. exact line_slice_keys_exist. Qed.
Print Assumptions C13_line_slice_keys_exist.

(* iteration over f.iline / f.xline *)
Theorem C13_line_iteration_agree : forall a s n, axis_ok a s n = true ->
  acc_iter (sla_getitem_slice (axis a s n)) = segyio_line_iter (axis a s n).
Proof. exact line_iter_agree. Qed.
Print Assumptions C13_line_iteration_agree.

(* ... it yields every line once, in ascending line-number order, also on a descending axis *)
Theorem C13_line_iteration_ascending : forall a s n, axis_ok a s n = true ->
  acc_iter (sla_getitem_slice (axis a s n)) = Return (axis (axis_lo a s n) (Z.abs s) n).
Proof. exact line_iter_ascending. Qed.
Print Assumptions C13_line_iteration_ascending.

(* iline[k] / xline[k]: rejected (segyio KeyError, emulator IndexError out of coord_to_index) for exactly the same k,
   for EVERY key list *)
Theorem C13_line_number_rejection_agrees : forall keys k,
  rejected (segyio_line_int keys k) = rejected (bind (sla_getitem_int keys k) (fun k' => coord_to_index k' keys)).
Proof. exact line_int_agree. Qed.
Print Assumptions C13_line_number_rejection_agrees.

Theorem C13_line_len_agree : forall keys, acc_len (zlen keys) = segyio_line_len keys.
Proof. exact line_len_agree. Qed.
Print Assumptions C13_line_len_agree.

(* trace[a:b:c], header[a:b:c], depth_slice[a:b:c]: any bounds, any step, negative ordinals *)
Theorem C13_ordinal_slice_agree : forall n sl, acc_getitem_slice n sl = segyio_seq_slice n sl.
Proof. exact ordinal_slice_agree. Qed.
Print Assumptions C13_ordinal_slice_agree.

Theorem C13_ordinal_slice_in_range : forall n sl, 0 <= n -> sl_step sl <> Some 0 ->
  exists l, acc_getitem_slice n sl = Return l /\ Forall (fun j => 0 <= j < n) l.
Proof. exact ordinal_slice_in_range. Qed.
Print Assumptions C13_ordinal_slice_in_range.

Theorem C13_ordinal_slice_zero_step_rejected : forall n sl, sl_step sl = Some 0 ->
  rejected (acc_getitem_slice n sl) = true /\ rejected (segyio_seq_slice n sl) = true.
Proof. exact ordinal_slice_zero_step. Qed.
Print Assumptions C13_ordinal_slice_zero_step_rejected.

(* trace[i], header[i], depth_slice[i] with a possibly negative i: accepted by segyio -> the same ordinal is read;
   rejected by segyio -> the ordinal handed to the reader is outside [0, n) *)
Theorem C13_ordinal_int_agree : forall n i,
  match segyio_wrapindex n i with
  | Return j => acc_getitem_int n i = Return j /\ 0 <= j < n
  | Raise _ => exists j, acc_getitem_int n i = Return j /\ ~ (0 <= j < n)
  end.
Proof. exact ordinal_int_agree. Qed.
Print Assumptions C13_ordinal_int_agree.

(* ... and the GENERATED reader rejects such an ordinal (C14's lemmas): depth_slice[i] and trace[i] *)
Theorem C13_depth_slice_rejection_agrees : forall H, (rd_blockshape0_v1 H =? 1) = false -> forall i,
  rejected (segyio_wrapindex (rd_n_samples H) i) = true ->
  exists j, acc_getitem_int (rd_n_samples H) i = Return j /\ rd_read_zslice H j = Raise IndexErr.
Proof. exact depth_slice_rejection_agrees. Qed.
Print Assumptions C13_depth_slice_rejection_agrees.

Theorem C13_trace_rejection_agrees : forall H mask_nth, (rd_blockshape0_v1 H =? 1) = false ->
  (rd_tracecount H =? rd_n_ilines H * rd_n_xlines H) = true -> forall i,
  rejected (segyio_wrapindex (rd_n_ilines H * rd_n_xlines H) i) = true ->
  exists j, acc_getitem_int (rd_n_ilines H * rd_n_xlines H) i = Return j /\
            rd_get_trace mask_nth H j None None false = Raise IndexErr.
Proof. exact trace_rejection_agrees. Qed.
Print Assumptions C13_trace_rejection_agrees.

(* the oracle on attributes(field)[i]: a ONE-ELEMENT ARRAY for an in-range i (finding D25: the emulator yields a scalar) *)
Theorem C13_attributes_int_oracle : forall n i, 0 <= i < n -> segyio_attr_int n i = Return [i].
Proof. exact attr_int_segyio_inrange. Qed.
Print Assumptions C13_attributes_int_oracle.

(* subvolume[a:b:c, ...], one axis of EITHER direction (s > 0 ascending, s < 0 descending; Gen/Accessors.v is generated
   from the repaired _check_subscripts, findings/D27s_subvolume_descending.patch): a slice of the documented form
   (sub_slice_ok: start a coordinate, stop a coordinate other than the first or one increment past the last, step a
   multiple of the increment in axis order) passes _check_subscripts, and the ordinal range handed to read_subvolume with
   the stride applied to the result selects exactly the coordinates of Python's range(start, stop, step), in axis order *)
Theorem C13_subvolume_axis_agree : forall a s n, s <> 0 -> (2 <= n)%nat -> forall sl, sub_slice_ok a s n sl = true ->
  sub_check_subscripts sl (axis a s n) = Return tt /\
  exists i0 k i1, sub_get_index_subscripts sl (axis a s n) = Return (i0, k, i1) /\ 0 <= i0 /\ i1 <= Z.of_nat n /\ 0 < k /\
    map (fun i => a + i * s) (range_list i0 i1 k) = sub_coords a s n sl.
Proof. exact subvolume_axis_agree. Qed.
Print Assumptions C13_subvolume_axis_agree.

(* the whole expression subvolume[il, xl, z] on three regular axes of any directions: sub_getitem (GENERATED
   SubvolumeAccessor.__getitem__) returns, per axis, (first ordinal, end ordinal, stride) such that the coordinates at
   range(first, end, stride) are range(start, stop, step) over coordinates (sub_axis_reads, Proofs/Accessors.v) *)
Theorem C13_subvolume_getitem_agree : forall a1 s1 a2 s2 a3 s3 n1 n2 n3,
  s1 <> 0 -> s2 <> 0 -> s3 <> 0 -> (2 <= n1)%nat -> (2 <= n2)%nat -> (2 <= n3)%nat -> forall il xl z,
  sub_slice_ok a1 s1 n1 il = true -> sub_slice_ok a2 s2 n2 xl = true -> sub_slice_ok a3 s3 n3 z = true ->
  exists ti tx tz, sub_getitem (axis a1 s1 n1) (axis a2 s2 n2) (axis a3 s3 n3) il xl z = Return (ti, tx, tz) /\
    sub_axis_reads a1 s1 n1 il ti /\ sub_axis_reads a2 s2 n2 xl tx /\ sub_axis_reads a3 s3 n3 z tz.
Proof. exact subvolume_getitem_agree. Qed.
Print Assumptions C13_subvolume_getitem_agree.

(* rejection, both directions.  sub_start_inside: a <= v < a + n*s when s > 0, a + n*s < v <= a when s < 0;
   sub_stop_inside: a < w <= a + n*s resp. a + n*s <= w < a (Model/Accessors.v) *)
Theorem C13_subvolume_start_outside_rejected : forall a s n, s <> 0 -> (2 <= n)%nat -> forall sl v,
  sl_start sl = Some v -> ~ sub_start_inside a s n v -> sub_check_subscripts sl (axis a s n) = Raise IndexErr.
Proof. exact subvolume_start_outside_rejected. Qed.
Print Assumptions C13_subvolume_start_outside_rejected.

Theorem C13_subvolume_stop_outside_rejected : forall a s n, s <> 0 -> (2 <= n)%nat -> forall sl w,
  sl_stop sl = Some w -> ~ sub_stop_inside a s n w -> sub_check_subscripts sl (axis a s n) = Raise IndexErr.
Proof. exact subvolume_stop_outside_rejected. Qed.
Print Assumptions C13_subvolume_stop_outside_rejected.

Theorem C13_subvolume_step_not_multiple_rejected : forall a s n, s <> 0 -> (2 <= n)%nat -> forall sl c,
  sl_step sl = Some c -> c mod s <> 0 -> sub_check_subscripts sl (axis a s n) = Raise IndexErr.
Proof. exact subvolume_step_not_multiple_rejected. Qed.
Print Assumptions C13_subvolume_step_not_multiple_rejected.

Theorem C13_subvolume_start_off_axis_rejected : forall a s n, s <> 0 -> (2 <= n)%nat -> forall sl v,
  sl_start sl = Some v -> ~ In v (axis a s n) -> sub_get_index_subscripts sl (axis a s n) = Raise IndexErr.
Proof. exact subvolume_start_off_axis_rejected. Qed.
Print Assumptions C13_subvolume_start_off_axis_rejected.

Theorem C13_subvolume_stop_off_axis_rejected : forall a s n, s <> 0 -> (2 <= n)%nat -> forall sl w,
  sl_stop sl = Some w -> ~ In w (axis a s n) -> w <> a + Z.of_nat n * s ->
  sub_get_index_subscripts sl (axis a s n) = Raise IndexErr.
Proof. exact subvolume_stop_off_axis_rejected. Qed.
Print Assumptions C13_subvolume_stop_off_axis_rejected.

(* the whole expression: a start that is no coordinate of its axis, or a stop that is neither a coordinate nor the
   one-past-the-end value (lines segyio does not have), on any of the three axes, of any directions: IndexError *)
Theorem C13_subvolume_getitem_rejects : forall a1 s1 a2 s2 a3 s3 n1 n2 n3,
  s1 <> 0 -> s2 <> 0 -> s3 <> 0 -> (2 <= n1)%nat -> (2 <= n2)%nat -> (2 <= n3)%nat -> forall il xl z,
  (sub_start_bad a1 s1 n1 il \/ sub_stop_bad a1 s1 n1 il) \/ (sub_start_bad a2 s2 n2 xl \/ sub_stop_bad a2 s2 n2 xl) \/
  (sub_start_bad a3 s3 n3 z \/ sub_stop_bad a3 s3 n3 z) ->
  sub_getitem (axis a1 s1 n1) (axis a2 s2 n2) (axis a3 s3 n3) il xl z = Raise IndexErr.
Proof. exact subvolume_getitem_rejects. Qed.
Print Assumptions C13_subvolume_getitem_rejects.

(* which reader attribute / method each accessor and each emulator attribute is bound to (generated tables) *)
Example C13_wiring :
  acc_wiring =
  [("InlineAccessor", ("SliceAccessor", "n_ilines", "ilines", "read_inline_number"));
   ("CrosslineAccessor", ("SliceAccessor", "n_xlines", "xlines", "read_crossline_number"));
   ("ZsliceAccessor", ("Accessor", "n_samples", "zslices", "read_zslice"));
   ("HeaderAccessor", ("Accessor", "tracecount", "range(tracecount)", "gen_trace_header"));
   ("TraceAccessor", ("Accessor", "tracecount", "range(tracecount)", "get_trace"))]%string /\
  emu_wiring =
  [("", "trace", "TraceAccessor(file).__enter__()"); ("", "header", "HeaderAccessor(file).__enter__()");
   ("", "attributes", "get_tracefield_1d"); ("", "samples", "zslices"); ("", "bin", "get_file_binary_header()");
   ("", "text", "get_file_text_header()");
   ("is_3d", "iline", "InlineAccessor(file).__enter__()"); ("is_3d", "xline", "CrosslineAccessor(file).__enter__()");
   ("is_3d", "depth_slice", "ZsliceAccessor(file).__enter__()"); ("is_3d", "subvolume", "SubvolumeAccessor(file).__enter__()");
   ("is_3d", "unstructured", "False");
   ("not is_3d", "iline", "DimensionalityError()"); ("not is_3d", "xline", "DimensionalityError()");
   ("not is_3d", "depth_slice", "DimensionalityError()"); ("not is_3d", "unstructured", "True")]%string.
Proof. split; reflexivity. Qed.
Print Assumptions C13_wiring.

(* the oracle guard is needed: on the descending axis 4, 2, 0 the in-grammar slice [::-2] makes segyio yield nothing
   (its slice.indices call reads the sanitised stop -1 as "last"), while the emulator yields all three lines *)
Theorem C13_oracle_guard_needed : exists a s n sl,
  axis_ok a s n = true /\ line_slice_ok a s n sl = true /\ oracle_ok a s n sl = false /\
  sla_getitem_slice (axis a s n) sl = Return [4; 2; 0] /\ segyio_line_slice (axis a s n) sl = Return [].
Proof. exists 4, (-2), 3%nat, (mkslice None None (Some (-2))). repeat split; vm_compute; reflexivity. Qed.
Print Assumptions C13_oracle_guard_needed.

(* the hypotheses are satisfiable by a non-trivial input: descending axis 9,7,5,3,1, slice [7::-4] -> lines 7, 3;
   subvolume on the ascending axis 10,13,16,19 with [13:22:6] -> ordinals 1,3 = coordinates 13,19; on the DESCENDING axis
   9,7,5,3,1 with [7:1:-4] -> ordinals 1,3 = coordinates 7,3, and with the sentinel stop [5:-1:-2] -> 5,3,1 (formerly
   refused: finding D27-subvolume, repaired); a stop above the first line of a descending axis is still refused *)
Example C13_nonvacuous :
  axis_ok 9 (-2) 5 = true /\ line_slice_ok 9 (-2) 5 (mkslice (Some 7) None (Some (-4))) = true /\
  oracle_ok 9 (-2) 5 (mkslice (Some 7) None (Some (-4))) = true /\
  sla_getitem_slice (axis 9 (-2) 5) (mkslice (Some 7) None (Some (-4))) = Return [7; 3] /\
  acc_iter (sla_getitem_slice (axis 9 (-2) 5)) = Return [1; 3; 5; 7; 9] /\
  acc_getitem_slice 7 (mkslice (Some (-2)) None (Some (-3))) = Return [5; 2] /\
  sub_slice_ok 10 3 4 (mkslice (Some 13) (Some 22) (Some 6)) = true /\
  sub_get_index_subscripts (mkslice (Some 13) (Some 22) (Some 6)) (axis 10 3 4) = Return (1, 2, 4) /\
  sub_coords 10 3 4 (mkslice (Some 13) (Some 22) (Some 6)) = [13; 19] /\
  sub_slice_ok 9 (-2) 5 (mkslice (Some 7) (Some 1) (Some (-4))) = true /\
  sub_check_subscripts (mkslice (Some 7) (Some 1) (Some (-4))) (axis 9 (-2) 5) = Return tt /\
  sub_get_index_subscripts (mkslice (Some 7) (Some 1) (Some (-4))) (axis 9 (-2) 5) = Return (1, 2, 4) /\
  sub_coords 9 (-2) 5 (mkslice (Some 7) (Some 1) (Some (-4))) = [7; 3] /\
  sub_slice_ok 9 (-2) 5 (mkslice (Some 5) (Some (-1)) (Some (-2))) = true /\
  sub_coords 9 (-2) 5 (mkslice (Some 5) (Some (-1)) (Some (-2))) = [5; 3; 1] /\
  sub_getitem (axis 9 (-2) 5) (axis 10 3 4) (axis 0 4 6) (mkslice (Some 7) (Some 1) (Some (-4))) (mkslice (Some 13) (Some 22) (Some 6))
              (mkslice None (Some 16) None) = Return ((1, 4, 2), (1, 4, 2), (0, 4, 1)) /\
  sub_check_subscripts (mkslice None (Some 11) None) (axis 9 (-2) 5) = Raise IndexErr /\
  sub_get_index_subscripts (mkslice (Some 6) None None) (axis 9 (-2) 5) = Raise IndexErr.
Proof. repeat split; vm_compute; reflexivity. Qed.
Print Assumptions C13_nonvacuous.
