(* C07 I/O proportionality.  ONLY statements. *)
From Coq Require Import ZArith List Bool Lia.
Import ListNotations.
From SZ Require Import Lib.Py Gen.Reader Spec.Container Proofs.Default.
Open Scope Z_scope.

(* Default layout: reading inline il issues exactly ONE range read: the contiguous bytes of the units
   (il/4, any, any), i.e. the inline set of 4 lines -- nothing else, nothing twice. *)
Theorem C07_inline_default_layout : forall H, wf3 H = true -> default_layout H -> forall il, 0 <= il < s_nil H ->
  exists v, rd_read_inline H il = Return v /\
    av_reads v = [(s_ub3 H * unit_index3 H (il / 4) 0 0, s_ub3 H * ((s_PX H / 4) * (s_PZ H / 4)))].
Proof.
  intros H W D il Hil. destruct (read_inline_default H W D il Hil) as (v & E & _ & _ & R). exists v. split; assumption.
Qed.
Print Assumptions C07_inline_default_layout.
