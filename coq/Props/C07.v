(* C07 I/O proportionality.  ONLY statements. *)
From Coq Require Import ZArith List Bool Lia.
Import ListNotations.
From SZ Require Import Lib.Py Gen.Reader Spec.Container Proofs.Default.
Open Scope Z_scope.

(* Default layout: reading inline il issues exactly ONE range read: the contiguous bytes of the units
   (il/4, any, any), i.e. the inline set of 4 lines -- nothing else, nothing twice. *)
Theorem C07_inline_default_layout : forall H, wf3 H = true -> default_layout H -> forall il, 0 <= il < s_nil H ->
  exists v, rd_read_inline H il = Return v /\
    av_reads v = [(s_ub3 H * unit_index3 H (il / 4) 0 0, s_ub3 H * ((s_PX H / 4) * (s_PZ H / 4)))].
Proof.
  intros H W D il Hil. destruct (read_inline_default H W D il Hil) as (v & E & _ & _ & R). exists v. split; assumption.
Qed.
Print Assumptions C07_inline_default_layout.

(* Default layout, crossline xl: one range read per inline set j (the units (j, xl/4, any z)): PI/4 reads of one
   chunk each; pairwise distinct offsets (unit_index3 is injective), nothing else. *)
Theorem C07_crossline_default_layout : forall H, wf3 H = true -> default_layout H -> forall xl, 0 <= xl < s_nxl H ->
  exists v, rd_read_crossline H xl = Return v /\
    av_reads v = map (fun j => (s_ub3 H * unit_index3 H j (xl / 4) 0, s_ub3 H * (s_PZ H / 4))) (zrange 0 (s_PI H / 4)).
Proof.
  intros H W D xl Hxl. destruct (read_crossline_default H W D xl Hxl) as (v & E & _ & _ & R). exists v. split; assumption.
Qed.
Print Assumptions C07_crossline_default_layout.

(* Default layout, z-slice z: one read of ONE unit (ub bytes) per 4x4 trace column k, at unit (k, z/4). *)
Theorem C07_zslice_default_layout : forall H, wf3 H = true -> default_layout H -> forall z, 0 <= z < s_ns H ->
  exists v, rd_read_zslice H z = Return v /\
    av_reads v = map (fun k => (s_ub3 H * (k * (s_PZ H / 4) + z / 4), s_ub3 H)) (zrange 0 ((s_PI H / 4) * (s_PX H / 4))).
Proof.
  intros H W D z Hz. destruct (read_zslice_default H W D z Hz) as (v & E & _ & _ & R). exists v. split; assumption.
Qed.
Print Assumptions C07_zslice_default_layout.
