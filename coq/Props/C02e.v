(* C02e Access-path coherence, continued: the xarray backend (seismic_zfp/sgz_xarray.py) and tools.cube.  ONLY statements.

   xa_raw H key (Model/Xarray.v) is SeismicZfpBackendArray._raw_indexing_method(key) on a file with container header H:
   its loop body, tests, bounds, post index and the arguments of the read_subvolume call are the definitions of
   Gen/Xarray.v, GENERATED from sgz_xarray.py on every run; the reader is the GENERATED rd_read_subvolume (Gen/Reader.v).
   A key is a triple with, per axis, KInt k (any integer) or KSlice (mkslice start stop step) (each an integer or None).

   numpy's basic indexing V[key] is the SPECIFICATION (Model/Xarray.v, np_ definitions; C02_numpy_..._meaning below spell
   them out): a slice selects range( *slice.indices(n)) -- CPython's PySlice_AdjustIndices and range length, modelled in
   Model/Accessors.v -- and keeps its axis; an int k must satisfy -n <= k < n, means k + n when negative, and drops its axis.

   For EVERY well-formed 3D header (any layout, any rate, any size) and EVERY key whose steps are not 0 -- negative and
   over-long bounds, negative steps, reversed, empty, past-the-end -- the backend returns numpy's shape and, in every cell,
   the provenance the specification decoder (Spec/Container.v: spec_cell3) assigns to the voxel numpy selects.  Proofs
   (Proofs/Xarray.v) are by arithmetic on top of the sub-volume theorems C02a / C02b; no enumeration.

   TRUSTED (outside /repo; validated on every run by tools/checks/xarrayx.py): xarray's
   indexing.explicit_indexing_adapter(key, shape, IndexingSupport.BASIC, raw) and indexing.LazilyIndexedArray hand the raw
   method one int or slice per axis and apply only numpy indexing of their own to what it returns. *)
From Coq Require Import ZArith List Bool Lia String.
Import ListNotations.
From SZ Require Import Lib.Py Model.Accessors Gen.Reader Gen.Xarray Spec.Container Model.Xarray Proofs.Xarray.
Open Scope Z_scope.

(* ---- the specification side, spelled out ---- *)
(* a slice on an axis of length n: (a, b, c) = slice.indices(n); the result axis has len(range(a, b, c)) positions and
   position j is source index a + j * c; its bounding box is [min(first, last), max(first, last) + 1) *)
Theorem C02_numpy_slice_meaning : forall s n a b c, slice_indices s n = Return (a, b, c) ->
  np_dims (KSlice s) n = [range_len a b c] /\ np_count (KSlice s) n = range_len a b c /\
  (forall j, np_src (KSlice s) n j = a + j * c) /\
  np_lo (KSlice s) n = Z.min a (a + (range_len a b c - 1) * c) /\
  np_hi (KSlice s) n = Z.max a (a + (range_len a b c - 1) * c) + 1.
Proof. exact np_slice_meaning. Qed.
Print Assumptions C02_numpy_slice_meaning.

(* an int: no result axis; source index k, or k + n when negative; accepted iff -n <= k < n *)
Theorem C02_numpy_int_meaning : forall k n,
  np_dims (KInt k) n = [] /\ np_count (KInt k) n = 1 /\ (forall j, np_src (KInt k) n j = if k <? 0 then k + n else k) /\
  int_in_range (KInt k) n = (- n <=? k) && (k <? n).
Proof. exact np_int_meaning. Qed.
Print Assumptions C02_numpy_int_meaning.

(* every selected index lies inside the axis and inside [np_lo, np_hi); both ends of that box are selected indices *)
Theorem C02_numpy_selection_inside_axis : forall k n j,
  0 < n -> step_nonzero k = true -> int_in_range k n = true -> 0 <= j < np_count k n ->
  0 <= np_lo k n <= np_src k n j /\ np_src k n j < np_hi k n <= n.
Proof. exact np_selection_inside. Qed.
Print Assumptions C02_numpy_selection_inside_axis.

Theorem C02_numpy_bounding_box_tight : forall k n,
  (np_lo k n = np_src k n 0 \/ np_lo k n = np_src k n (np_count k n - 1)) /\
  (np_hi k n = np_src k n 0 + 1 \/ np_hi k n = np_src k n (np_count k n - 1) + 1).
Proof. exact np_box_tight. Qed.
Print Assumptions C02_numpy_bounding_box_tight.

(* key_accepted H key: every int of the key is inside its axis of (n_ilines, n_xlines, n_samples) *)
Theorem C02_key_accepted_meaning : forall H k0 k1 k2,
  key_accepted H (k0, k1, k2) = int_in_range k0 (s_nil H) && int_in_range k1 (s_nxl H) && int_in_range k2 (s_ns H).
Proof. exact key_accepted_meaning. Qed.
Print Assumptions C02_key_accepted_meaning.

(* ---- the backend ---- *)
(* V[key]: numpy's shape, and every cell is the specification's voxel at numpy's source position.  np_shape3 = the
   lengths of the sliced axes in order; np_src3 distributes the result index over the sliced axes *)
Theorem C02_xarray_raw_indexing_is_numpy_slice_of_volume : forall H, wf3 H = true ->
  forall key, key_steps_ok key = true -> key_accepted H key = true ->
  exists v, xa_raw H key = Return v /\
    av_shape v = np_shape3 key (s_nil H) (s_nxl H) (s_ns H) /\
    (forall idx, in_shape (np_shape3 key (s_nil H) (s_nxl H) (s_ns H)) idx = true ->
       av_cell v idx = let '(i, x, z) := np_src3 key (s_nil H) (s_nxl H) (s_ns H) idx in spec_cell3 H i x z).
Proof. exact xarray_raw_value. Qed.
Print Assumptions C02_xarray_raw_indexing_is_numpy_slice_of_volume.

(* an int outside its axis (with every step non-zero): IndexError, as numpy.  The loop raises before read_subvolume is
   called, so nothing is read *)
Theorem C02_xarray_int_out_of_range_is_IndexError : forall H, wf3 H = true ->
  forall key, key_steps_ok key = true -> key_accepted H key = false -> xa_raw H key = Raise IndexErr.
Proof. exact xarray_raw_index_error. Qed.
Print Assumptions C02_xarray_int_out_of_range_is_IndexError.

(* a zero step on the first axis: ValueError (slice.indices), as numpy *)
Theorem C02_xarray_zero_step_is_ValueError : forall H, wf3 H = true -> forall k0 k1 k2,
  (match k0 with KSlice s => sl_step s = Some 0 | KInt _ => False end) -> xa_raw H (k0, k1, k2) = Raise ValueErr.
Proof. exact xarray_raw_zero_step. Qed.
Print Assumptions C02_xarray_zero_step_is_ValueError.

(* an empty selection (some slice selects nothing): np.zeros of numpy's shape, and NO read *)
Theorem C02_xarray_empty_selection_is_zeros : forall H, wf3 H = true ->
  forall key, key_steps_ok key = true -> key_accepted H key = true ->
  np_empty3 key (s_nil H) (s_nxl H) (s_ns H) = true ->
  xa_raw H key = Return (a_zeros (np_shape3 key (s_nil H) (s_nxl H) (s_ns H))).
Proof. exact xarray_raw_empty. Qed.
Print Assumptions C02_xarray_empty_selection_is_zeros.

Theorem C02_zeros_meaning : forall shape, av_shape (a_zeros shape) = shape /\ av_reads (a_zeros shape) = [] /\
  forall idx, in_shape shape idx = true -> av_cell (a_zeros shape) idx = PZero.
Proof. exact a_zeros_meaning. Qed.
Print Assumptions C02_zeros_meaning.

(* an all-int key: the one voxel, as a 0-d array *)
Theorem C02_xarray_voxel : forall H, wf3 H = true -> forall a b c,
  key_accepted H (KInt a, KInt b, KInt c) = true ->
  let i := np_src (KInt a) (s_nil H) 0 in let x := np_src (KInt b) (s_nxl H) 0 in let z := np_src (KInt c) (s_ns H) 0 in
  (0 <= i < s_nil H /\ 0 <= x < s_nxl H /\ 0 <= z < s_ns H) /\
  exists v, xa_raw H (KInt a, KInt b, KInt c) = Return v /\ av_shape v = [] /\ av_cell v [] = spec_cell3 H i x z /\
    av_reads v = (if (s_bs0 H =? 4) && (s_bs1 H =? 4)
                  then [(s_ub3 H * unit_index3 H (i / 4) (x / 4) (z / 4), s_ub3 H)]
                  else [(4096 * General.blk_no H (i / s_bs0 H) (x / s_bs1 H) (z / s_bs2 H), 4096)]).
Proof. exact xarray_raw_voxel. Qed.
Print Assumptions C02_xarray_voxel.

(* ---- wiring of open_dataset / __getitem__ (GENERATED constants) ---- *)
(* self.shape = (n_ilines, n_xlines, n_samples); dims ("il", "xl", "z") with coords reader.ilines / xlines / zslices; the
   backend array is wrapped in LazilyIndexedArray and declares BASIC indexing support; read_subvolume is called with
   its defaults access_padding=False, multithreading=True *)
Theorem C02_xarray_wiring : forall H,
  xa_shape H = (rd_n_ilines H, rd_n_xlines H, rd_n_samples H) /\
  xa_dims = ["il"; "xl"; "z"]%string /\
  xa_coords = [("il", "ilines"); ("xl", "xlines"); ("z", "zslices")]%string /\
  xa_indexing_support = "BASIC"%string /\ xa_lazily_indexed = true /\
  xa_access_padding = false /\ xa_multithreading = true.
Proof. exact xarray_wiring. Qed.
Print Assumptions C02_xarray_wiring.

(* ---- tools.cube ---- *)
Theorem C02_cube_is_read_volume : forall H, xa_cube H = rd_read_volume H.
Proof. exact cube_is_read_volume. Qed.
Print Assumptions C02_cube_is_read_volume.

(* ... hence the whole specification volume, on every layout *)
Theorem C02_cube_is_the_volume : forall H, wf3 H = true ->
  exists v, xa_cube H = Return v /\ av_shape v = [s_nil H; s_nxl H; s_ns H] /\
    (forall i x z, 0 <= i < s_nil H -> 0 <= x < s_nxl H -> 0 <= z < s_ns H -> av_cell v [i; x; z] = spec_cell3 H i x z) /\
    av_reads v = sv_reads H 0 (s_nil H) 0 (s_nxl H) 0 (s_ns H).
Proof. exact cube_value. Qed.
Print Assumptions C02_cube_is_the_volume.

(* ds.data[:, :, :] through the backend and tools.cube: same shape, same cells, same reads *)
Theorem C02_xarray_full_key_is_cube : forall H, wf3 H = true ->
  let full := KSlice (mkslice None None None) in
  exists v c, xa_raw H (full, full, full) = Return v /\ xa_cube H = Return c /\
    av_shape v = av_shape c /\ av_reads v = av_reads c /\
    (forall i x z, 0 <= i < s_nil H -> 0 <= x < s_nxl H -> 0 <= z < s_ns H -> av_cell v [i; x; z] = av_cell c [i; x; z]).
Proof. exact xarray_full_is_cube. Qed.
Print Assumptions C02_xarray_full_key_is_cube.

(* non-vacuity: a (8,8,64) file at 8 bits per voxel, 9 x 11 x 70; the key [-2::-3, 10, 5:100:7] has non-zero steps and an
   in-range int, selects 3 x 10 positions, and result cell (2, 9) is voxel (1, 10, 68); the key [5:2, :, 3] is empty with
   numpy shape (0, 11); the int 11 is rejected on the crossline axis *)
Example C02e_nonvacuous :
  let H := hdr_of_list [2; 70; 11; 9; 8; 8; 8; 64; 4; 396; 2; 99; 4199] in
  let key := (KSlice (mkslice (Some (-2)) None (Some (-3))), KInt 10, KSlice (mkslice (Some 5) (Some 100) (Some 7))) in
  let emp := (KSlice (mkslice (Some 5) (Some 2) None), KSlice (mkslice None None None), KInt 3) in
  wf3 H = true /\ key_steps_ok key = true /\ key_accepted H key = true /\
  np_shape3 key (s_nil H) (s_nxl H) (s_ns H) = [3; 10] /\ np_empty3 key (s_nil H) (s_nxl H) (s_ns H) = false /\
  np_src3 key (s_nil H) (s_nxl H) (s_ns H) [2; 9] = (1, 10, 68) /\
  key_steps_ok emp = true /\ key_accepted H emp = true /\ np_empty3 emp (s_nil H) (s_nxl H) (s_ns H) = true /\
  np_shape3 emp (s_nil H) (s_nxl H) (s_ns H) = [0; 11] /\
  key_accepted H (KInt 0, KInt 11, KInt 0) = false.
Proof. cbv zeta. repeat split; vm_compute; reflexivity. Qed.
