(* C08 Irregular 3D surveys: trace identity, inferred grid and zero-filled holes.  ONLY statements.

   The source is n traces with headers H (H t f = field f of trace t); s = survey_of n H is the list, in file order,
   of the two key fields (GENERATED: ig_key_field0 = 189 inline, ig_key_field1 = 193 crossline).  G is the true grid
   (starts, increments, counts).  survey_ok G s (boolean) = the hypotheses of the property: counts >= 2, increments >= 1,
   every trace on the grid, file order inline-ascending and crossline-ascending within an inline, every inline and every
   crossline of the grid carried by at least one trace.  no_zero_inline s is the D20 guard; segyio_unstructured s the D27
   guard (all theorems but the last two are about the irregular route itself).
   The models of get_range / InferredGeometry3d / unstructured_io_thread_func / make_header / the reader's mask are in
   Model/Irregular.v over the generated arithmetic of Gen/Irregular.v.
   Sample VALUES are outside this file: a buffer cell is CZero or CSample t z; that every volume-style read returns the
   codec image of that buffer is C01/C02 (reader = decode of the data section) composed with the harness oracle. *)
From Coq Require Import ZArith List Bool.
Import ListNotations.
From SZ Require Import Lib.Py Gen.Irregular Gen.Version Gen.Reader Model.Irregular Proofs.Irregular.
Open Scope Z_scope.

(* get_range, as the code computes it (min, max, (max-min) // (number of distinct ids - 1)), returns (first, last,
   increment) of an axis WHEN every line of the axis carries a trace.  (Proofs.get_range_needs_every_line: ids {0,4,6}
   give step 3.) *)
Theorem C08_get_range_full_axis : forall ids a st n, 1 <= st -> 2 <= n ->
  (forall x, In x ids -> exists k, 0 <= k < n /\ x = a + k * st) ->
  (forall k, 0 <= k < n -> In (a + k * st) ids) ->
  get_range ids = Return (a, a + (n - 1) * st, st).
Proof. exact get_range_full. Qed.
Print Assumptions C08_get_range_full_axis.

(* the inferred geometry is the true grid: each axis with its own start, last line, increment and count *)
Theorem C08_inferred_axes_correct : forall G s, survey_ok G s = true ->
  infer_geometry s = Return (geom_of_grid G) /\ n_il (geom_of_grid G) = gn_il G /\ n_xl (geom_of_grid G) = gn_xl G.
Proof. exact (fun G s OK => conj (inferred_is_grid G s OK) (conj (n_il_grid G s OK) (n_xl_grid G s OK))). Qed.
Print Assumptions C08_inferred_axes_correct.

(* header written by make_header (unstructured route), parsed back by _parse_coordinates: ilines and xlines are the true
   axes, each with its OWN increment (D4 was the swap); for int32 line numbers *)
Theorem C08_reported_axes : forall G s, survey_ok G s = true -> int32_ok G = true -> len s < two32 ->
  let h := header_of (geom_of_grid G) (len s) in
  reported_axis h ig_rd_ilines_fields = Return (map (fun k => ga_il G + k * gs_il G) (zrange 0 (gn_il G))) /\
  reported_axis h ig_rd_xlines_fields = Return (map (fun k => ga_xl G + k * gs_xl G) (zrange 0 (gn_xl G))).
Proof. exact reported_axes. Qed.
Print Assumptions C08_reported_axes.

(* grid extents, footer length and the SOURCE trace count in the header *)
Theorem C08_header_counts : forall G s, survey_ok G s = true ->
  let h := header_of (geom_of_grid G) (len s) in
  0 <= len s < two32 -> gn_il G * gn_xl G * 4 < two32 ->
  field_at h 12 = Return (gn_il G) /\ field_at h 8 = Return (gn_xl G) /\ field_at h 68 = Return (len s) /\
  field_at h 60 = Return (4 * (gn_il G * gn_xl G)).
Proof. exact header_counts. Qed.
Print Assumptions C08_header_counts.

(* a reader header with those three fields and fewer traces than grid cells: structured = False *)
Theorem C08_structured_false : forall (Hd : hdr) n nI nX,
  h_u32_68 Hd = n -> h_u32_12 Hd = nI -> h_u32_8 Hd = nX ->
  (rd_file_version_enc Hd >? version_to_encoding 0 2 1 false) = true -> n < nI * nX ->
  rd_n_ilines Hd = nI /\ rd_n_xlines Hd = nX /\ rd_tracecount Hd = n /\
  (rd_tracecount Hd =? rd_n_ilines Hd * rd_n_xlines Hd) = false.
Proof. exact unstructured_flag. Qed.
Print Assumptions C08_structured_false.

(* placement: cell [bi, bx, bz] of the buffer of plane set ps, as handed to the compressor, holds sample bz of THE source
   trace whose line numbers are those of grid position (ps*bs0+bi, bx); every other cell -- hole, crossline padding,
   sample padding, plane beyond the last inline -- is zero (no edge replication on this route) *)
Theorem C08_placement : forall G s, survey_ok G s = true -> forall bs0, 1 <= bs0 -> forall g, infer_geometry s = Return g ->
  forall ns ps bi bx bz,
  (forall t, 0 <= bi < bs0 -> 0 <= bx < gn_xl G -> 0 <= bz < ns -> 0 <= t < len s ->
     tr s t = gkey G (ps * bs0 + bi) bx -> buffer_cell s g bs0 ns ps bi bx bz = CSample t bz) /\
  ((forall t, 0 <= t < len s -> tr s t = gkey G (ps * bs0 + bi) bx -> ~ (0 <= bi < bs0 /\ 0 <= bx < gn_xl G /\ 0 <= bz < ns)) ->
     buffer_cell s g bs0 ns ps bi bx bz = CZero).
Proof. exact (fun G s OK bs0 BS g IG => top_placement G s OK bs0 g IG). Qed.
Print Assumptions C08_placement.

(* mask ordinal map: with no inline number 0 in the source, the i-th populated grid position (row-major) computed by
   the reader from the stored inline-number array is the grid position of source trace i *)
Theorem C08_mask_ordinal_map : forall G n H bs0 g F,
  0 <= n -> survey_ok G (survey_of n H) = true -> no_zero_inline (survey_of n H) = true -> 1 <= bs0 ->
  infer_geometry (survey_of n H) = Return g ->
  footer (survey_of n H) g bs0 (fun t => H t ig_mask_field) = Return F ->
  forall i, 0 <= i < n -> mask_nth (mask_of F) i = Return (cell_of G (H i ig_key_field0, H i ig_key_field1)).
Proof. exact mask_ordinal_map. Qed.
Print Assumptions C08_mask_ordinal_map.

(* ... and that grid position of the written volume holds source trace i: position c = k * n_xl + j lives in plane set
   k / bs0, plane k mod bs0, crossline j *)
Theorem C08_ordinal_cell_holds_trace : forall G s bs0 g ns i z,
  survey_ok G s = true -> 1 <= bs0 -> infer_geometry s = Return g -> 0 <= i < len s -> 0 <= z < ns ->
  let c := cell_of G (tr s i) in
  let k := c / n_xl g in let j := c mod n_xl g in
  0 <= k < n_il g /\ 0 <= j < n_xl g /\ buffer_cell s g bs0 ns (k / bs0) (k mod bs0) j z = CSample i z.
Proof. exact ordinal_cell_holds_trace. Qed.
Print Assumptions C08_ordinal_cell_holds_trace.

(* the generated get_trace on an unstructured 3D file IS the read of grid position mask_nth(i) *)
Theorem C08_get_trace_through_mask : forall (Hd : hdr) (mn : Z -> outcome Z) i c lo hi,
  (rd_blockshape0_v1 Hd =? 1) = false -> (rd_tracecount Hd =? rd_n_ilines Hd * rd_n_xlines Hd) = false ->
  0 <= i < rd_tracecount Hd ->
  mn i = Return c -> rd_get_trace mn Hd i lo hi false = rd_get_trace mn Hd c lo hi true.
Proof. exact get_trace_through_mask. Qed.
Print Assumptions C08_get_trace_through_mask.

(* an ordinal outside [0, tracecount) -- negative ones included -- is refused, whatever the mask holds (C14 for irregular files) *)
Theorem C08_get_trace_ordinal_out_of_range : forall (Hd : hdr) (mn : Z -> outcome Z) i lo hi,
  (rd_blockshape0_v1 Hd =? 1) = false -> (rd_tracecount Hd =? rd_n_ilines Hd * rd_n_xlines Hd) = false ->
  ~ (0 <= i < rd_tracecount Hd) -> rd_get_trace mn Hd i lo hi false = Raise IndexErr.
Proof. exact get_trace_ordinal_oob. Qed.
Print Assumptions C08_get_trace_ordinal_out_of_range.

(* header i of the SGZ is source header i, for every field stored as an array *)
Theorem C08_header_ordinal_map : forall G n H bs0 g F f Fv,
  0 <= n -> survey_ok G (survey_of n H) = true -> no_zero_inline (survey_of n H) = true -> 1 <= bs0 ->
  infer_geometry (survey_of n H) = Return g ->
  footer (survey_of n H) g bs0 (fun t => H t ig_mask_field) = Return F ->
  footer (survey_of n H) g bs0 (fun t => H t f) = Return Fv ->
  forall i, 0 <= i < n -> gen_header_field n (mask_of F) Fv i = Return (H i f).
Proof. exact header_ordinal_map. Qed.
Print Assumptions C08_header_ordinal_map.

(* get_tracefield_values: the grid, the source value where a trace exists, zero at holes (no D20 guard needed) *)
Theorem C08_tracefield_grid_with_zero_holes : forall G s, survey_ok G s = true -> forall bs0, 1 <= bs0 ->
  forall g, infer_geometry s = Return g -> forall hv F a b,
  footer s g bs0 hv = Return F -> 0 <= a < gn_il G -> 0 <= b < gn_xl G ->
  (forall t, 0 <= t < len s -> tr s t = gkey G a b -> tracefield_cell F (n_xl g) a b = hv t) /\
  ((forall t, 0 <= t < len s -> tr s t <> gkey G a b) -> tracefield_cell F (n_xl g) a b = 0).
Proof. exact (fun G s OK bs0 BS g IG => top_tracefield G s OK bs0 BS g IG). Qed.
Print Assumptions C08_tracefield_grid_with_zero_holes.

(* ... and for a field kept as a constant v in the header template (heuristic detection), get_tracefield_values gives
   v where a trace exists and zero at holes (D30 fix: np.full(v) zeroed outside the mask; needs the D20 guard) *)
Theorem C08_tracefield_constant_field : forall G s bs0 g F v a b,
  survey_ok G s = true -> no_zero_inline s = true -> 1 <= bs0 -> infer_geometry s = Return g ->
  footer s g bs0 (fun t => fst (tr s t)) = Return F -> 0 <= a < gn_il G -> 0 <= b < gn_xl G ->
  ((exists t, 0 <= t < len s /\ tr s t = gkey G a b) -> tracefield_cell (tracefield_const (mask_of F) v) (n_xl g) a b = v) /\
  ((forall t, 0 <= t < len s -> tr s t <> gkey G a b) -> tracefield_cell (tracefield_const (mask_of F) v) (n_xl g) a b = 0).
Proof. exact tracefield_constant. Qed.
Print Assumptions C08_tracefield_constant_field.

(* D20 (known finding D20-inline-zero-masked): a survey satisfying every hypothesis but containing inline 0: ordinal 0
   is mapped to grid position 2 (source trace 0 sits at position 0), the last ordinal raises IndexError, and header 0
   is the header of source trace 1 *)
Theorem C08_mask_refuted :
  survey_ok d20_grid d20_survey = true /\ no_zero_inline d20_survey = false /\
  exists g F, infer_geometry d20_survey = Return g /\
    footer d20_survey g 4 (fun t => fst (tr d20_survey t)) = Return F /\
    mask_nth (mask_of F) 0 = Return 2 /\ cell_of d20_grid (tr d20_survey 0) = 0 /\
    mask_nth (mask_of F) 2 = Raise IndexErr /\
    gen_header_field 3 (mask_of F) F 0 = Return 1.
Proof. exact d20_witness. Qed.
Print Assumptions C08_mask_refuted.

(* which route: under the hypotheses of C08 the converter takes the irregular route WHENEVER segyio reports the file
   unstructured (guard segyio_unstructured: hand model of segyio's count-based inference, compared with the real segyio
   on every harness sample) ... *)
Theorem C08_route_partial : forall G s, survey_ok G s = true -> segyio_unstructured s = true -> detect_route s = RIrregular.
Proof. exact route_irregular. Qed.
Print Assumptions C08_route_partial.

(* ... D27 (known finding D27-irregular-taken-as-regular): a 4 x 5 checkerboard (10 traces) satisfies every hypothesis, yet
   segyio infers a 2 x 5 structured cube and the REGULAR route is taken; a 3-trace survey is taken for a 2D line *)
Theorem C08_route_refuted :
  survey_ok d27_grid d27_survey = true /\ no_zero_inline d27_survey = true /\
  segyio_geometry d27_survey = Some (2, 5) /\ detect_route d27_survey = RRegular /\
  survey_ok d27_grid_2d d27_survey_2d = true /\ no_zero_inline d27_survey_2d = true /\
  detect_route d27_survey_2d = R2D.
Proof. exact d27_witness. Qed.
Print Assumptions C08_route_refuted.

(* non-vacuity: a 3 x 4 grid with inline increment 3 (start -7), crossline increment 2 (start 100), five holes; it
   satisfies the hypotheses, the D20 guard, the D27 guard and the int32 guard *)
Example C08_nonvacuous :
  let G := {| ga_il := -7; gs_il := 3; gn_il := 3; ga_xl := 100; gs_xl := 2; gn_xl := 4 |} in
  let s := [(-7, 102); (-7, 104); (-4, 100); (-4, 106); (-1, 100); (-1, 102); (-1, 106)] in
  survey_ok G s = true /\ no_zero_inline s = true /\ segyio_unstructured s = true /\ int32_ok G = true /\
  len s < gn_il G * gn_xl G.
Proof. vm_compute. repeat split; reflexivity. Qed.
