(* C12 Re-blocking to the z-slice layout changes layout only.  ONLY statements.
   Model: Model/Reblock.v (list-splice semantics of the bytearray code of SgzConverter.convert_to_adv_sgz) over the
   expressions GENERATED from the source (Gen/Reblock.v).  A byte of the output data section is represented by its
   provenance: None = zero byte, Some o = byte o of the source FILE.  H is the source header as the reader parses
   it, L the length of the source file, hb its header bytes, T its trace-header template.
   Hypotheses: wf3 H (Spec/Container.v), the two asserts of the code (rb_guard, generated), the source file holds its
   whole data section.  All sizes are arbitrary: nothing is enumerated. *)
From Coq Require Import ZArith List Bool.
Import ListNotations.
From SZ Require Import Lib.Py Gen.Utils Gen.Reader Gen.Reblock Spec.Container Model.Reblock Proofs.Reblock.
Open Scope Z_scope.

(* the header the specification decoder sees in the output: H with blockshape (64,64,4) and the new block count *)
Definition C12_out (H : hdr) : hdr := out_hdr H.

(* what the two asserts mean *)
Theorem C12_guard_meaning : forall H, wf3 H = true ->
  (rb_guard H = true <-> s_rate_code H = 2 /\ s_bs0 H = 4 /\ s_bs1 H = 4 /\ s_bs2 H = 1024).
Proof. exact guard_iff. Qed.
Print Assumptions C12_guard_meaning.

(* every other input is refused before anything is written *)
Theorem C12_reblock_refuses : forall H hb T L nlive, rb_guard H = false -> reblock H hb T L nlive = Raise AssertErr.
Proof. exact reblock_refuses_lemma. Qed.
Print Assumptions C12_reblock_refuses.

(* every read issued lies inside the source's data section: none is short, the staging buffer never shrinks *)
Theorem C12_reblock_reads_in_data_section : forall H, wf3 H = true -> rb_guard H = true ->
  forall off len, In (off, len) (rb_reads H) ->
    rd_data_start_bytes H <= off /\ 0 < len /\ off + len <= rd_data_start_bytes H + s_data_bytes3 H.
Proof. exact reads_in_data_section. Qed.
Print Assumptions C12_reblock_reads_in_data_section.

(* THE UNIT PERMUTATION: for every unit position of the output grid, the 16 bytes the specification locates there
   are the 16 bytes the specification locates at the same unit position of the source when the unit contains a real
   voxel (4*iu < n_il and 4*xu < n_xl; every zu of the output grid does), and zero bytes otherwise *)
Theorem C12_reblock_unit_permutation : forall H, wf3 H = true -> rb_guard H = true ->
  forall L, rd_data_start_bytes H + s_data_bytes3 H <= L ->
  forall iu xu zu j, 0 <= iu < s_PI (C12_out H) / 4 -> 0 <= xu < s_PX (C12_out H) / 4 ->
    0 <= zu < s_PZ (C12_out H) / 4 -> 0 <= j < s_ub3 (C12_out H) ->
    znth (rb_data H L) (s_ub3 (C12_out H) * unit_index3 (C12_out H) iu xu zu + j) None =
    if (4 * iu <? s_nil H) && (4 * xu <? s_nxl H)
    then Some (rd_data_start_bytes H + s_ub3 H * unit_index3 H iu xu zu + j) else None.
Proof. exact unit_permutation. Qed.
Print Assumptions C12_reblock_unit_permutation.

(* the same, as the table (position in the output, source offset or None) that tools/checks/reblock.py evaluates and
   compares with the bytes of the two files *)
Theorem C12_reblock_unit_table : forall H, wf3 H = true -> rb_guard H = true ->
  forall L, rd_data_start_bytes H + s_data_bytes3 H <= L ->
  forall iu xu zu j, 0 <= iu < fst (fst (unit_grid H)) -> 0 <= xu < snd (fst (unit_grid H)) ->
    0 <= zu < snd (unit_grid H) -> 0 <= j < 16 ->
    znth (rb_data H L) (fst (unit_expect H iu xu zu) + j) None =
    option_map (fun o => o + j) (snd (unit_expect H iu xu zu)).
Proof. exact unit_expect_ok. Qed.
Print Assumptions C12_reblock_unit_table.

(* hence every real voxel is decoded (specification decoder, both files) from the same 16 code bytes, same cell *)
Theorem C12_reblock_volume_equal : forall H, wf3 H = true -> rb_guard H = true ->
  forall L, rd_data_start_bytes H + s_data_bytes3 H <= L ->
  forall i x z, 0 <= i < s_nil H -> 0 <= x < s_nxl H -> 0 <= z < s_ns H ->
  exists o o' c, spec_cell3 (C12_out H) i x z = PUnit o c /\ spec_cell3 H i x z = PUnit o' c /\
    0 <= o /\ o + s_ub3 (C12_out H) <= zlen (rb_data H L) /\
    forall j, 0 <= j < s_ub3 (C12_out H) -> znth (rb_data H L) (o + j) None = Some (rd_data_start_bytes H + o' + j).
Proof. exact voxel_provenance. Qed.
Print Assumptions C12_reblock_volume_equal.

(* the header: same length, every byte outside 44..59 untouched (hash 960..979, axes, trace count, template, text and
   binary file headers), blockshape := (64,64,4), block count := the number of blocks written; the result is a
   well-formed header whose stated data section is exactly what was written *)
Theorem C12_reblock_header : forall H hb L, wf3 H = true -> rb_guard H = true ->
  rd_data_start_bytes H + s_data_bytes3 H <= L -> 60 <= zlen hb -> s_ndb (C12_out H) < 4294967296 ->
  exists hb', rb_header H hb = Return hb' /\ zlen hb' = zlen hb /\
    (forall k, k < 44 \/ 60 <= k -> znth hb' k 0 = znth hb k 0) /\
    hdr_of_bytes hb' = set_layout (hdr_of_bytes hb) 64 64 4 (s_ndb (C12_out H)) /\
    wf3 (C12_out H) = true /\
    s_data_bytes3 (C12_out H) = 4096 * s_ndb (C12_out H) /\
    zlen (rb_data H L) = s_data_bytes3 (C12_out H).
Proof. exact header_full. Qed.
Print Assumptions C12_reblock_header.

(* the footer: the stored arrays 0..nha-1, unmasked, each followed by stride - hel zero bytes, i.e. array k at
   k * stride after the data section, where stride, hel, nha and the trace count are what the reader derives from
   the OUTPUT header *)
Theorem C12_reblock_footer : forall H T nlive, wf_tmpl T = true -> template_ok T (rd_n_header_arrays H) = true ->
  let stride := rd_padded_header_entry_length_bytes H in let hel := rd_header_entry_length_bytes H in
  rb_footer H T nlive = Return (map (fun j => (j, false, stride - hel)) (zrange 0 (rd_n_header_arrays H))) /\
  0 <= stride - hel /\
  rd_padded_header_entry_length_bytes (C12_out H) = stride /\ rd_header_entry_length_bytes (C12_out H) = hel /\
  rd_n_header_arrays (C12_out H) = rd_n_header_arrays H /\ rd_tracecount (C12_out H) = rd_tracecount H.
Proof. exact footer_full. Qed.
Print Assumptions C12_reblock_footer.

(* the conversion as a whole returns exactly these three parts *)
Theorem C12_reblock_returns : forall H hb T L nlive,
  wf3 H = true -> rb_guard H = true -> 60 <= zlen hb -> s_ndb (C12_out H) < 4294967296 -> wf_tmpl T = true ->
  exists hb', rb_header H hb = Return hb' /\
    reblock H hb T L nlive =
    Return {| o_header := hb'; o_data := rb_data H L;
              o_footer := map (fun j => (j, false, rd_padded_header_entry_length_bytes H - rd_header_entry_length_bytes H))
                              (zrange 0 (snd (header_dict T))) |}.
Proof. exact reblock_returns. Qed.
Print Assumptions C12_reblock_returns.

(* non-vacuity: a 65 x 70 x 9 two-bit default-layout header (two 64-blocks along each line axis), a file that holds
   its 306 data blocks, and a template with a constant, two stored fields and a duplicate of the first *)
Example C12_nonvacuous :
  let H := hdr_of_list [2; 9; 70; 65; 2; 4; 4; 1024; 306; 18200; 2; 4550; 4199] in
  wf3 H = true /\ rb_guard H = true /\ rd_data_start_bytes H + s_data_bytes3 H <= 8192 + 306 * 4096 + 2 * 18432 /\
  s_ndb (C12_out H) = 12 /\ s_ndb (C12_out H) < 4294967296 /\
  wf_tmpl [(1, 0, 1); (5, 0, 1); (115, 9, 0); (189, 0, 189)] = true /\
  template_ok [(1, 0, 1); (5, 0, 1); (115, 9, 0); (189, 0, 189)] (rd_n_header_arrays H) = true /\
  rb_guard (hdr_of_list [2; 9; 70; 65; 4; 4; 4; 512; 306; 18200; 2; 4550; 4199]) = false.
Proof. cbv zeta. repeat split; vm_compute; try reflexivity; discriminate. Qed.
