(* C11 Conversion with an inline/crossline window.  ONLY statements; each closed by `exact <lemma>` and followed by
   Print Assumptions.  Model: Model/Window.v (hand-written glue) over Gen/Window.v (generated from conversion.py,
   conversion_utils.py, utils.py on every run).  The theorems are about the sources AFTER the repairs D5 and D6a-d.

   `convert trace zero codes mode window reduce_iops selftest bs0 bs1 S` is SeismicFileConverter(window).run(...) on the
   regular SEG-Y source S (abstract traces, abstract header values, regular axes); it returns the container model:
   dims / axis origins / increments / trace count / header-array length, the header-word table, every plane-set buffer
   before compression trace by trace, the rows given to the hash, and every stored header array entry by entry.
   `restrict S a b c d` is the SEG-Y file that contains only the traces of the window.  `selftest` is the outcome of the
   reduced-I/O reader's self-test on the respective file (any combination). *)
From Coq Require Import ZArith List Bool.
Import ListNotations.
From SZ Require Import Lib.Py Gen.Utils Gen.Window Model.Window Proofs.Window.
Open Scope Z_scope.

(* Main statement.  For EVERY source size, every window 0 <= a < b <= n_il, 0 <= c < d <= n_xl (ordinal 0 included) at
   least two lines wide on both axes, every first blockshape component, both readers, both self-test outcomes on both
   files, every detection mode: converting with the window gives the same container as converting the sub-cube file
   without a window -- under the guard `tables_agree` (heuristic detection classifies every field from the corners of
   the source as it would from the corners of the window; trivially true in the other three modes). *)
Theorem C11_window_equals_subcube :
  forall trace (zero_trace : trace) codes m reduce_iops selftest_src selftest_sub bs0 bs1 (S : source trace) a b c d,
  window_ok trace S a b c d = true -> 2 <= b - a -> 2 <= d - c -> 0 < bs0 ->
  tables_agree trace codes m S a b c d = true ->
  convert trace zero_trace codes m (win a b c d) reduce_iops selftest_src bs0 bs1 S
  = convert trace zero_trace codes m no_window reduce_iops selftest_sub bs0 bs1 (restrict trace S a b c d).
Proof. exact window_equals_subcube. Qed.
Print Assumptions C11_window_equals_subcube.

(* thorough, exhaustive and strip detection: no guard *)
Theorem C11_window_equals_subcube_modes :
  forall trace (zero_trace : trace) codes m reduce_iops selftest_src selftest_sub bs0 bs1 (S : source trace) a b c d,
  m <> Heuristic ->
  window_ok trace S a b c d = true -> 2 <= b - a -> 2 <= d - c -> 0 < bs0 ->
  convert trace zero_trace codes m (win a b c d) reduce_iops selftest_src bs0 bs1 S
  = convert trace zero_trace codes m no_window reduce_iops selftest_sub bs0 bs1 (restrict trace S a b c d).
Proof. exact window_equals_subcube_modes. Qed.
Print Assumptions C11_window_equals_subcube_modes.

(* Every valid window, ONE-LINE windows included (the one-line sub-cube file alone would be converted as a 2D line, so
   there is no 3D file to compare with): the conversion succeeds and the container is, in closed form, that of the
   sub-cube -- dims, axis origin = line numbers of the window's first lines, the source's increments, trace count and
   header-array length of the window; buffer cell (p, i, x) is the window's trace (min(p*bs0+i, n_il-1), min(x, n_xl-1))
   (the sub-cube edge-extended, as C01 prescribes); entry k of every stored header array is the header value of the
   k-th trace of the window. *)
Theorem C11_window_container :
  forall trace (zero_trace : trace) codes m reduce_iops selftest bs0 bs1 (S : source trace) a b c d,
  window_ok trace S a b c d = true -> 0 < bs0 ->
  exists C, convert trace zero_trace codes m (win a b c d) reduce_iops selftest bs0 bs1 S = Some (Return C) /\
    (c_n_il trace C = b - a /\ c_n_xl trace C = d - c /\
     c_origin_il trace C = s_il0 S + a * s_dil S /\ c_origin_xl trace C = s_xl0 S + c * s_dxl S /\
     c_inc_il trace C = s_dil S /\ c_inc_xl trace C = s_dxl S /\
     c_tracecount trace C = (b - a) * (d - c) /\ c_hel trace C = 4 * ((b - a) * (d - c)) /\
     c_alloc trace C = (b - a) * (d - c)) /\
    (forall p i x, 0 <= p < pad (b - a) bs0 / bs0 -> 0 <= i < bs0 -> 0 <= x < pad (d - c) bs1 ->
       nth (Z.to_nat x) (nth (Z.to_nat i) (nth (Z.to_nat p) (c_sets trace C) []) []) zero_trace
       = spec_cell trace S a b c d (p * bs0 + i) x) /\
    c_arrays trace C
    = (let tbl := table0 codes m (s_hdr S 0) (s_hdr S (s_tracecount trace S - 1)) in
       let arrays := match m with Strip => [] | _ => map (fun f => (f, spec_array trace S a b c d f)) (stored_fields tbl) end in
       match m with Thorough => prune_arrays arrays | _ => arrays end).
Proof. exact window_container_spec. Qed.
Print Assumptions C11_window_container.

(* the window is used exactly when all four bounds are given; a bound of 0 is a bound (D6a) *)
Theorem C11_window_accepted_iff_given :
  forall a b c d, w_window_accepted a b c d = true <-> (a <> None /\ b <> None /\ c <> None /\ d <> None).
Proof. exact window_accepted_iff_given. Qed.
Print Assumptions C11_window_accepted_iff_given.

(* known finding D6-heuristic-detection-from-source-corners: outside the guard the statement is false.  Witness: 4 x 5
   source, a field with value 3*i - 2*x, window (0,3,0,4): equal at the window's corners, different at the source's *)
Theorem C11_heuristic_refuted :
  exists (S : source unit) a b c d codes,
    window_ok unit S a b c d = true /\ 2 <= b - a /\ 2 <= d - c /\
    tables_agree unit codes Heuristic S a b c d = false /\
    convert unit tt codes Heuristic (win a b c d) false true 4 4 S
    <> convert unit tt codes Heuristic no_window false true 4 4 (restrict unit S a b c d).
Proof. exact window_heuristic_refuted. Qed.
Print Assumptions C11_heuristic_refuted.

(* the reduced-I/O reader seeks to the SEG-Y offset of line i exactly when there are no extended textual headers *)
Theorem C11_minimal_reader_offset :
  forall n_xl ns i ext, w_min_seek n_xl ns i = segy_trace_offset ext ns (i * n_xl) <-> ext = 0.
Proof. exact minimal_reader_offset. Qed.
Print Assumptions C11_minimal_reader_offset.

(* non-vacuity: a window that starts at ordinal 0 on both axes satisfies every hypothesis, heuristic guard included *)
Example C11_nonvacuous :
  window_ok unit refute_source 0 2 0 5 = true /\ 2 <= 2 - 0 /\ 2 <= 5 - 0 /\
  tables_agree unit [21; 189; 193] Heuristic refute_source 0 2 0 5 = true /\
  window_ok unit refute_source 1 4 2 5 = true /\ tables_agree unit [21; 189; 193] Heuristic refute_source 1 4 2 5 = true.
Proof. repeat split; vm_compute; try reflexivity; discriminate. Qed.
