(* C07d I/O proportionality, continued: the xarray backend.  ONLY statements.  (Property text: "for stepped sub-volume /
   xarray requests the request is their bounding box".)

   xa_raw H key is SeismicZfpBackendArray._raw_indexing_method(key) (Model/Xarray.v over the GENERATED Gen/Xarray.v and
   Gen/Reader.v); av_reads v is the sequence of range reads (offset in the data section, length) issued to build v.
   [np_lo k n, np_hi k n) is the tight bounding box, on one axis, of the indices numpy's key k selects (Props/C02e.v:
   C02_numpy_slice_meaning, C02_numpy_selection_inside_axis, C02_numpy_bounding_box_tight).

   For EVERY well-formed 3D header and EVERY key with non-zero steps and in-range ints:
     - an empty selection reads nothing (C02_xarray_empty_selection_is_zeros + C02_zeros_meaning in Props/C02e.v; restated here);
     - otherwise the reads are EXACTLY those of read_subvolume on the bounding box, whatever the steps and directions:
       general layout = the 4096-byte blocks the bounding box intersects, each once (proportional_reads, spelled out in
       Props/C07b.v C07_proportional_reads_meaning); default layout = the per-column unit ranges of Props/C02a.v / C07a.v;
     - an all-int key reads one block (general layout) / one compression unit (default layout).
   An int outside its axis raises before the reader is called (Props/C02e.v): no read. *)
From Coq Require Import ZArith List Bool Lia.
Import ListNotations.
From SZ Require Import Lib.Py Model.Accessors Gen.Reader Gen.Xarray Spec.Container Model.Xarray Proofs.Default
  Proofs.General Proofs.Xarray.
From SZ Require Proofs.Subvolume.
Open Scope Z_scope.

(* the reads of a non-empty selection = the reads of read_subvolume(bounding box), with the defaults access_padding=False,
   multithreading=True, which succeeds because the box lies inside the volume; any layout *)
Theorem C07_xarray_reads_are_those_of_the_bounding_box : forall H, wf3 H = true -> forall k0 k1 k2,
  key_steps_ok (k0, k1, k2) = true -> key_accepted H (k0, k1, k2) = true ->
  np_empty3 (k0, k1, k2) (s_nil H) (s_nxl H) (s_ns H) = false ->
  (0 <= np_lo k0 (s_nil H) < np_hi k0 (s_nil H) /\ np_hi k0 (s_nil H) <= s_nil H) /\
  (0 <= np_lo k1 (s_nxl H) < np_hi k1 (s_nxl H) /\ np_hi k1 (s_nxl H) <= s_nxl H) /\
  (0 <= np_lo k2 (s_ns H) < np_hi k2 (s_ns H) /\ np_hi k2 (s_ns H) <= s_ns H) /\
  exists v w, xa_raw H (k0, k1, k2) = Return v /\
    rd_read_subvolume H (np_lo k0 (s_nil H)) (np_hi k0 (s_nil H)) (np_lo k1 (s_nxl H)) (np_hi k1 (s_nxl H))
                        (np_lo k2 (s_ns H)) (np_hi k2 (s_ns H)) false true = Return w /\
    av_reads v = av_reads w.
Proof. exact xarray_raw_reads. Qed.
Print Assumptions C07_xarray_reads_are_those_of_the_bounding_box.

(* general layout (every blockshape that is not (4,4,N)): exactly the blocks the bounding box intersects, in loader
   order, each once, inside the data section *)
Theorem C07_xarray_general_layout : forall H, wf3 H = true -> general_layout H -> forall k0 k1 k2,
  key_steps_ok (k0, k1, k2) = true -> key_accepted H (k0, k1, k2) = true ->
  np_empty3 (k0, k1, k2) (s_nil H) (s_nxl H) (s_ns H) = false ->
  exists v, xa_raw H (k0, k1, k2) = Return v /\
    av_reads v = box_reads H (np_lo k0 (s_nil H)) (np_hi k0 (s_nil H)) (np_lo k1 (s_nxl H)) (np_hi k1 (s_nxl H))
                             (np_lo k2 (s_ns H)) (np_hi k2 (s_ns H)) /\
    proportional_reads H (np_lo k0 (s_nil H)) (np_hi k0 (s_nil H)) (np_lo k1 (s_nxl H)) (np_hi k1 (s_nxl H))
                         (np_lo k2 (s_ns H)) (np_hi k2 (s_ns H)) (av_reads v).
Proof. exact xarray_raw_reads_general. Qed.
Print Assumptions C07_xarray_general_layout.

(* default layout (4,4,N): one range read per 4x4 trace column of the bounding box, covering its z units *)
Theorem C07_xarray_default_layout : forall H, wf3 H = true -> default_layout H -> forall k0 k1 k2,
  key_steps_ok (k0, k1, k2) = true -> key_accepted H (k0, k1, k2) = true ->
  np_empty3 (k0, k1, k2) (s_nil H) (s_nxl H) (s_ns H) = false ->
  exists v, xa_raw H (k0, k1, k2) = Return v /\
    av_reads v =
      flat_map (fun iu => map (fun xu => (s_ub3 H * unit_index3 H iu xu (np_lo k2 (s_ns H) / 4),
                                          s_ub3 H * ((np_hi k2 (s_ns H) + 3) / 4 - np_lo k2 (s_ns H) / 4)))
                              (zrange (np_lo k1 (s_nxl H) / 4) ((np_hi k1 (s_nxl H) + 3) / 4)))
               (zrange (np_lo k0 (s_nil H) / 4) ((np_hi k0 (s_nil H) + 3) / 4)).
Proof. exact xarray_raw_reads_default. Qed.
Print Assumptions C07_xarray_default_layout.

(* an empty selection: the zeros array carries no read *)
Theorem C07_xarray_empty_selection_reads_nothing : forall H, wf3 H = true ->
  forall key, key_steps_ok key = true -> key_accepted H key = true ->
  np_empty3 key (s_nil H) (s_nxl H) (s_ns H) = true ->
  exists v, xa_raw H key = Return v /\ av_reads v = [].
Proof. exact xarray_raw_empty_reads. Qed.
Print Assumptions C07_xarray_empty_selection_reads_nothing.

(* an all-int key (one sample of one trace): ONE read -- the 4096-byte block of that voxel (general layout) or the
   compression unit of that voxel (default layout) *)
Theorem C07_xarray_voxel_reads_one_block : forall H, wf3 H = true -> forall a b c,
  key_accepted H (KInt a, KInt b, KInt c) = true ->
  let i := np_src (KInt a) (s_nil H) 0 in let x := np_src (KInt b) (s_nxl H) 0 in let z := np_src (KInt c) (s_ns H) 0 in
  (0 <= i < s_nil H /\ 0 <= x < s_nxl H /\ 0 <= z < s_ns H) /\
  exists v, xa_raw H (KInt a, KInt b, KInt c) = Return v /\ av_shape v = [] /\ av_cell v [] = spec_cell3 H i x z /\
    av_reads v = (if (s_bs0 H =? 4) && (s_bs1 H =? 4)
                  then [(s_ub3 H * unit_index3 H (i / 4) (x / 4) (z / 4), s_ub3 H)]
                  else [(4096 * blk_no H (i / s_bs0 H) (x / s_bs1 H) (z / s_bs2 H), 4096)]).
Proof. exact xarray_raw_voxel. Qed.
Print Assumptions C07_xarray_voxel_reads_one_block.

(* tools.cube and ds.data[:, :, :] issue the same reads (those of read_volume) *)
Theorem C07_xarray_full_key_reads_as_cube : forall H, wf3 H = true ->
  let full := KSlice (mkslice None None None) in
  exists v c, xa_raw H (full, full, full) = Return v /\ xa_cube H = Return c /\
    av_shape v = av_shape c /\ av_reads v = av_reads c /\
    (forall i x z, 0 <= i < s_nil H -> 0 <= x < s_nxl H -> 0 <= z < s_ns H -> av_cell v [i; x; z] = av_cell c [i; x; z]).
Proof. exact xarray_full_is_cube. Qed.
Print Assumptions C07_xarray_full_key_reads_as_cube.

(* non-vacuity: a (16,16,32) file at 4 bits per voxel (35 x 40 x 100).  The stepped, reversed key
   [30:2:-9, 1:17:5, ::33] selects 4 x 4 x 4 voxels; its bounding box [3,31) x [1,17) x [0,100) intersects
   2 x 2 x 4 blocks: 16 reads, although the 64 selected voxels lie in 2 x 2 x 4 blocks as well (rows 30, 21, 12, 3) *)
Example C07d_nonvacuous :
  let H := hdr_of_list [2; 100; 40; 35; 4; 16; 16; 32; 36; 100; 2; 1400; 4199] in
  let k0 := KSlice (mkslice (Some 30) (Some 2) (Some (-9))) in
  let k1 := KSlice (mkslice (Some 1) (Some 17) (Some 5)) in
  let k2 := KSlice (mkslice None None (Some 33)) in
  wf3 H = true /\ general_layout H /\ key_steps_ok (k0, k1, k2) = true /\ key_accepted H (k0, k1, k2) = true /\
  np_empty3 (k0, k1, k2) (s_nil H) (s_nxl H) (s_ns H) = false /\
  np_shape3 (k0, k1, k2) (s_nil H) (s_nxl H) (s_ns H) = [4; 4; 4] /\
  (np_lo k0 (s_nil H), np_hi k0 (s_nil H)) = (3, 31) /\ (np_lo k1 (s_nxl H), np_hi k1 (s_nxl H)) = (1, 17) /\
  (np_lo k2 (s_ns H), np_hi k2 (s_ns H)) = (0, 100) /\
  length (box_reads H 3 31 1 17 0 100) = 16%nat.
Proof.
  cbv zeta. split; [vm_compute; reflexivity |]. split; [intros [A _]; vm_compute in A; discriminate |].
  repeat split; vm_compute; reflexivity.
Qed.
