(* C02 Access-path coherence, continued: the GENERAL layout (every blockshape that is not (4,4,N), including the
   z-slice optimised (N,N,4)).  ONLY statements.  Each theorem: for EVERY header with wf3 and every in-range argument
   the GENERATED read method (Gen/Reader.v, translated from read.py / loader.py on every run) returns an array of the
   stated shape whose every cell has the provenance the SPECIFICATION decoder (Spec/Container.v: spec_cell3) assigns
   to the requested voxel, and whose range reads are exactly the 4096-byte blocks the box intersects.  Proofs
   (Proofs/General.v) are by arithmetic for arbitrary sizes, blockshapes and rates -- no enumeration. *)
From Coq Require Import ZArith List Bool Lia.
Import ListNotations.
From SZ Require Import Lib.Py Gen.Reader Spec.Container Proofs.Default Proofs.General.
Open Scope Z_scope.

(* general_layout H is  ~ (s_bs0 H = 4 /\ s_bs1 H = 4) *)
Theorem C02_general_layout_meaning : forall H, general_layout H <-> ~ (s_bs0 H = 4 /\ s_bs1 H = 4).
Proof. exact (fun H => conj (fun p => p) (fun p => p)). Qed.
Print Assumptions C02_general_layout_meaning.

(* box_reads spelled out: one read (4096 * block number, 4096) per block (bi, bx, bz) with
   i0/bs0 <= bi < ceil(i1/bs0) etc., in loader order (inline-major, z fastest);
   block number = (bi * (PX/bs1) + bx) * (PZ/bs2) + bz *)
Theorem C02_box_reads_meaning : forall H i0 i1 x0 x1 z0 z1,
  box_reads H i0 i1 x0 x1 z0 z1 =
  flat_map (fun bi => flat_map (fun bx => map (fun bz => (4096 * ((bi * (s_PX H / s_bs1 H) + bx) * (s_PZ H / s_bs2 H) + bz), 4096))
                                              (zrange (z0 / s_bs2 H) ((z1 + s_bs2 H - 1) / s_bs2 H)))
                               (zrange (x0 / s_bs1 H) ((x1 + s_bs1 H - 1) / s_bs1 H)))
           (zrange (i0 / s_bs0 H) ((i1 + s_bs0 H - 1) / s_bs0 H)).
Proof. exact box_reads_unfold. Qed.
Print Assumptions C02_box_reads_meaning.

(* read_subvolume(i0, i1, x0, x1, z0, z1), both values of the multithreading flag *)
Theorem C02_subvolume_general_layout : forall H, wf3 H = true -> general_layout H ->
  forall (mt : bool) i0 i1 x0 x1 z0 z1,
  0 <= i0 < i1 -> i1 <= s_nil H -> 0 <= x0 < x1 -> x1 <= s_nxl H -> 0 <= z0 < z1 -> z1 <= s_ns H ->
  exists v, rd_read_subvolume H i0 i1 x0 x1 z0 z1 false mt = Return v /\
    av_shape v = [i1 - i0; x1 - x0; z1 - z0] /\
    (forall i x z, 0 <= i < i1 - i0 -> 0 <= x < x1 - x0 -> 0 <= z < z1 - z0 ->
       av_cell v [i; x; z] = spec_cell3 H (i0 + i) (x0 + x) (z0 + z)) /\
    av_reads v = box_reads H i0 i1 x0 x1 z0 z1.
Proof. exact read_subvolume_general. Qed.
Print Assumptions C02_subvolume_general_layout.

(* the same with either value of access_padding (True: the box may extend into the padding; used by the trace
   reads through read_containing_chunk) *)
Theorem C02_subvolume_general_layout_any_padding : forall H, wf3 H = true -> general_layout H ->
  forall (ap mt : bool) i0 i1 x0 x1 z0 z1,
  0 <= i0 < i1 -> i1 <= (if ap then s_PI H else s_nil H) ->
  0 <= x0 < x1 -> x1 <= (if ap then s_PX H else s_nxl H) ->
  0 <= z0 < z1 -> z1 <= (if ap then s_PZ H else s_ns H) ->
  exists v, rd_read_subvolume H i0 i1 x0 x1 z0 z1 ap mt = Return v /\
    av_shape v = [i1 - i0; x1 - x0; z1 - z0] /\
    (forall i x z, 0 <= i < i1 - i0 -> 0 <= x < x1 - x0 -> 0 <= z < z1 - z0 ->
       av_cell v [i; x; z] = spec_cell3 H (i0 + i) (x0 + x) (z0 + z)) /\
    av_reads v = box_reads H i0 i1 x0 x1 z0 z1.
Proof. exact subvolume_gen. Qed.
Print Assumptions C02_subvolume_general_layout_any_padding.

(* read_volume() *)
Theorem C02_volume_general_layout : forall H, wf3 H = true -> general_layout H ->
  exists v, rd_read_volume H = Return v /\ av_shape v = [s_nil H; s_nxl H; s_ns H] /\
    (forall i x z, 0 <= i < s_nil H -> 0 <= x < s_nxl H -> 0 <= z < s_ns H -> av_cell v [i; x; z] = spec_cell3 H i x z) /\
    av_reads v = box_reads H 0 (s_nil H) 0 (s_nxl H) 0 (s_ns H).
Proof. exact read_volume_general. Qed.
Print Assumptions C02_volume_general_layout.

(* np.squeeze drops EVERY axis of length 1.  squeeze_index shape idx is the index into the squeezed array of the
   source cell idx (the coordinates of the length-1 axes removed); it is a right inverse of Lib/Py.v's
   unsqueeze_index and lands inside the squeezed shape. *)
Theorem C02_squeeze_index_sound : forall shape idx, in_shape shape idx = true ->
  in_shape (squeeze_shape shape) (squeeze_index shape idx) = true /\
  unsqueeze_index shape (squeeze_index shape idx) = idx.
Proof. exact squeeze_roundtrip. Qed.
Print Assumptions C02_squeeze_index_sound.

(* read_inline(il) = np.squeeze(read_subvolume(il, il+1, 0, n_xl, 0, n_samples)): every cube, also with one crossline
   or one sample (then that axis is dropped as well) *)
Theorem C02_inline_general_layout : forall H, wf3 H = true -> general_layout H -> forall il, 0 <= il < s_nil H ->
  exists v, rd_read_inline H il = Return v /\ av_shape v = squeeze_shape [1; s_nxl H; s_ns H] /\
    (forall x z, 0 <= x < s_nxl H -> 0 <= z < s_ns H ->
       av_cell v (squeeze_index [1; s_nxl H; s_ns H] [0; x; z]) = spec_cell3 H il x z) /\
    av_reads v = box_reads H il (il + 1) 0 (s_nxl H) 0 (s_ns H).
Proof. exact read_inline_general. Qed.
Print Assumptions C02_inline_general_layout.

Theorem C02_inline_general_layout_plain : forall H, wf3 H = true -> general_layout H ->
  forall il, 0 <= il < s_nil H -> 2 <= s_nxl H -> 2 <= s_ns H ->
  exists v, rd_read_inline H il = Return v /\ av_shape v = [s_nxl H; s_ns H] /\
    (forall x z, 0 <= x < s_nxl H -> 0 <= z < s_ns H -> av_cell v [x; z] = spec_cell3 H il x z) /\
    av_reads v = box_reads H il (il + 1) 0 (s_nxl H) 0 (s_ns H).
Proof. exact read_inline_general_plain. Qed.
Print Assumptions C02_inline_general_layout_plain.

(* read_crossline(xl) *)
Theorem C02_crossline_general_layout : forall H, wf3 H = true -> general_layout H -> forall xl, 0 <= xl < s_nxl H ->
  exists v, rd_read_crossline H xl = Return v /\ av_shape v = squeeze_shape [s_nil H; 1; s_ns H] /\
    (forall i z, 0 <= i < s_nil H -> 0 <= z < s_ns H ->
       av_cell v (squeeze_index [s_nil H; 1; s_ns H] [i; 0; z]) = spec_cell3 H i xl z) /\
    av_reads v = box_reads H 0 (s_nil H) xl (xl + 1) 0 (s_ns H).
Proof. exact read_crossline_general. Qed.
Print Assumptions C02_crossline_general_layout.

Theorem C02_crossline_general_layout_plain : forall H, wf3 H = true -> general_layout H ->
  forall xl, 0 <= xl < s_nxl H -> 2 <= s_nil H -> 2 <= s_ns H ->
  exists v, rd_read_crossline H xl = Return v /\ av_shape v = [s_nil H; s_ns H] /\
    (forall i z, 0 <= i < s_nil H -> 0 <= z < s_ns H -> av_cell v [i; z] = spec_cell3 H i xl z) /\
    av_reads v = box_reads H 0 (s_nil H) xl (xl + 1) 0 (s_ns H).
Proof. exact read_crossline_general_plain. Qed.
Print Assumptions C02_crossline_general_layout_plain.

(* read_zslice(z), blockshape with bs2 <> 4: a one-sample sub-volume, squeezed *)
Theorem C02_zslice_general_layout : forall H, wf3 H = true -> general_layout H ->
  forall z, s_bs2 H <> 4 -> 0 <= z < s_ns H ->
  exists v, rd_read_zslice H z = Return v /\ av_shape v = squeeze_shape [s_nil H; s_nxl H; 1] /\
    (forall i x, 0 <= i < s_nil H -> 0 <= x < s_nxl H ->
       av_cell v (squeeze_index [s_nil H; s_nxl H; 1] [i; x; 0]) = spec_cell3 H i x z) /\
    av_reads v = box_reads H 0 (s_nil H) 0 (s_nxl H) z (z + 1).
Proof. exact read_zslice_general. Qed.
Print Assumptions C02_zslice_general_layout.

Theorem C02_zslice_general_layout_plain : forall H, wf3 H = true -> general_layout H ->
  forall z, s_bs2 H <> 4 -> 0 <= z < s_ns H -> 2 <= s_nil H -> 2 <= s_nxl H ->
  exists v, rd_read_zslice H z = Return v /\ av_shape v = [s_nil H; s_nxl H] /\
    (forall i x, 0 <= i < s_nil H -> 0 <= x < s_nxl H -> av_cell v [i; x] = spec_cell3 H i x z) /\
    av_reads v = box_reads H 0 (s_nil H) 0 (s_nxl H) z (z + 1).
Proof. exact read_zslice_general_plain. Qed.
Print Assumptions C02_zslice_general_layout_plain.

(* read_zslice(z), blockshape (N, N, 4) (z-slice optimised layout; ld_read_and_decompress_zslice_set_adv): per tile
   (block id = bi * (PX/bs1) + bx) the bs0/4 sub-block reads of (bs1/4) * unit_bytes bytes each *)
Theorem C02_zslice_adv_reads_meaning : forall H z,
  zslice_adv_reads H z =
  flat_map (fun id => map (fun s => (4096 * (id * (s_PZ H / s_bs2 H) + z / 4) + s * ((s_bs1 H / 4) * s_ub3 H), (s_bs1 H / 4) * s_ub3 H))
                          (zrange 0 (s_bs0 H / 4)))
           (zrange 0 (s_PI H / s_bs0 H * (s_PX H / s_bs1 H))).
Proof. exact zslice_adv_reads_unfold. Qed.
Print Assumptions C02_zslice_adv_reads_meaning.

Theorem C02_zslice_nn4_layout : forall H, wf3 H = true -> general_layout H -> s_bs2 H = 4 ->
  forall z, 0 <= z < s_ns H ->
  exists v, rd_read_zslice H z = Return v /\ av_shape v = [s_nil H; s_nxl H] /\
    (forall i x, 0 <= i < s_nil H -> 0 <= x < s_nxl H -> av_cell v [i; x] = spec_cell3 H i x z) /\
    av_reads v = zslice_adv_reads H z.
Proof. exact read_zslice_nn4. Qed.
Print Assumptions C02_zslice_nn4_layout.

(* non-vacuity: a (64,64,4) file at 2 bits per voxel (70 inlines, 65 crosslines, 10 samples) and a (16,16,32) file at
   4 bits per voxel (35 inlines, 40 crosslines, 100 samples) satisfy the hypotheses, with boxes that cross block
   boundaries on every axis; the reads of the first box, computed *)
Example C02b_nonvacuous :
  let H1 := hdr_of_list [2; 10; 65; 70; 2; 64; 64; 4; 12; 100; 2; 4550; 4199] in
  let H2 := hdr_of_list [2; 100; 40; 35; 4; 16; 16; 32; 36; 100; 2; 1400; 4199] in
  (wf3 H1 = true /\ general_layout H1 /\ s_bs2 H1 = 4 /\
   (0 <= 60 < 70 /\ 70 <= s_nil H1) /\ (0 <= 10 < 20 /\ 20 <= s_nxl H1) /\ (0 <= 3 < 6 /\ 6 <= s_ns H1) /\
   box_reads H1 60 70 10 20 3 6 = [(0, 4096); (4096, 4096); (24576, 4096); (28672, 4096)]) /\
  (wf3 H2 = true /\ general_layout H2 /\ s_bs2 H2 <> 4 /\
   (0 <= 15 < 33 /\ 33 <= s_nil H2) /\ (0 <= 1 < 17 /\ 17 <= s_nxl H2) /\ (0 <= 31 < 65 /\ 65 <= s_ns H2) /\
   length (box_reads H2 15 33 1 17 31 65) = 18%nat).
Proof.
  cbv zeta. split.
  - split; [vm_compute; reflexivity|]. split; [intros [A _]; vm_compute in A; discriminate|].
    split; [vm_compute; reflexivity|]. repeat split; try (vm_compute; congruence).
  - split; [vm_compute; reflexivity|]. split; [intros [A _]; vm_compute in A; discriminate|].
    split; [vm_compute; discriminate|]. repeat split; try (vm_compute; congruence).
Qed.
