(* C12 continuation: the order of the footer arrays of the re-blocked file does not depend on what the same converter object
   was asked before the conversion (D45).  ONLY statements. *)
From Coq Require Import ZArith List Bool.
Import ListNotations.
From SZ Require Import Gen.Reblock Proofs.ReblockOrder.
Open Scope Z_scope.

(* with the loop head as GENERATED from the current source: for every table, every set of stored keys and EVERY sequence of
   earlier tracefield queries on the converter object, the arrays are written in the order in which a reader assigns offsets *)
Theorem C12_footer_order_any_history : forall primary stored queries,
  footer_order primary stored queries = expected_order primary stored.
Proof. exact current_code_any_history. Qed.
Print Assumptions C12_footer_order_any_history.

(* a fresh object writes in table order under either loop head (why the existing test could not see D45) *)
Theorem C12_footer_order_fresh_object : forall b primary stored, NoDup stored ->
  footer_order_of b primary stored [] = expected_order primary stored.
Proof. exact fresh_object_table_order. Qed.
Print Assumptions C12_footer_order_fresh_object.

(* the unrepaired loop head (iteration over the memo) is wrong after one query: witness replayed by findings/d45_reblock_footer_order.py *)
Theorem C12_footer_memo_order_refuted :
  exists primary stored queries, NoDup stored /\
    footer_order_of false primary stored queries <> expected_order primary stored.
Proof. exact memo_order_refuted. Qed.
Print Assumptions C12_footer_memo_order_refuted.

Example C12a_nonvacuous :
  footer_order_of false (fun k => negb (k =? 185)) [181; 185; 189; 193] [193; 7; 193; 181] = [193; 181; 189] /\
  expected_order (fun k => negb (k =? 185)) [181; 185; 189; 193] = [181; 189; 193].
Proof. vm_compute. split; reflexivity. Qed.

(* D46: whatever was exported to SEG-Y from the same converter object before, the header bytes the re-blocker copies into its
   output are the source file's (for every stored header and every stored format code) *)
Theorem C12_header_bytes_unchanged_by_earlier_export : forall hb code, headerbytes_after_export hb code = hb.
Proof. exact current_export_leaves_headerbytes. Qed.
Print Assumptions C12_header_bytes_unchanged_by_earlier_export.

(* the unrepaired convert_to_segy kept the substituted format code on the object: witness = a NumPy-route file (code 0),
   replayed by findings/d46_export_mutates_headerbytes.py *)
Theorem C12_export_kept_substituted_code_refuted : exists hb code, headerbytes_after_export_of false hb code <> hb.
Proof. exact nonrestoring_export_refuted. Qed.
Print Assumptions C12_export_kept_substituted_code_refuted.

(* D47: whatever header query the same converter object served before (memo empty, padded or unpadded; regular or irregular
   file), loading the header arrays inside convert_to_adv_sgz does not fail the padding-mode assertion *)
Theorem C12_footer_load_any_history : forall structured mode,
  load_headers rb_footer_reload_on_mode_switch structured mode rb_footer_include_padding <> LoadAssertionError.
Proof. exact reblock_load_never_refuses. Qed.
Print Assumptions C12_footer_load_any_history.

Theorem C12_direct_load_refuted : exists structured mode want, load_headers false structured mode want = LoadAssertionError.
Proof. exact direct_load_refuted. Qed.
Print Assumptions C12_direct_load_refuted.
