(* C14 Bounds safety, continued: the BY-NUMBER / BY-COORDINATE entry points.  ONLY statements.  A line number or coordinate
   that is not on the axis (between two lines, before the first, after the last) makes coord_to_index -- and through it
   get_*_index, read_inline_number, read_crossline_number, read_zslice_coord and get_trace_by_coord -- raise IndexError:
   never the neighbouring line, and the ordinal reader is not reached (no read is issued, there is no returned array).
   The model (Model/Coords.v) is assembled from pieces GENERATED from utils.py / read.py on every run (Gen/Coords.v);
   exact coordinates (see Props/C02d.v for what is outside the model).  The "on the axis -> the real item" half is
   Props/C02d.v; refusal of out-of-range ORDINALS is Props/C14.v. *)
From Coq Require Import ZArith List Bool Lia.
Import ListNotations.
From SZ Require Import Lib.Py Gen.Reader Gen.Coords Model.Coords Proofs.Coords.
Open Scope Z_scope.

(* coord_to_index raises IndexError iff the coordinate does not occur on the axis *)
Theorem C14b_coord_to_index_refuses_absent : forall C (O : coord_ops C), eq_ops O -> forall c coords,
  cm_coord_to_index O c coords false = Raise IndexErr <-> ~ In c coords.
Proof. exact (@cti_raises). Qed.
Print Assumptions C14b_coord_to_index_refuses_absent.

(* arithmetic axis s + d*k, 0 <= k < n: every value that is not s + d*i with 0 <= i < n is refused *)
Theorem C14b_arithmetic_axis_refused : forall s d n v,
  cm_coord_to_index Zops v (arith s d n) false = Raise IndexErr <-> ~ (exists i, 0 <= i < n /\ v = s + d * i).
Proof. exact arith_refused. Qed.
Print Assumptions C14b_arithmetic_axis_refused.

(* ... in particular a value between two lines, and the lines before the first / after the last *)
Theorem C14b_between_lines : forall s d n v, (v - s) mod d <> 0 -> ~ (exists i, 0 <= i < n /\ v = s + d * i).
Proof. exact arith_between. Qed.
Print Assumptions C14b_between_lines.
Theorem C14b_before_first_after_last : forall s d n i, d <> 0 -> i < 0 \/ n <= i ->
  ~ (exists j, 0 <= j < n /\ s + d * i = s + d * j).
Proof. exact arith_outside. Qed.
Print Assumptions C14b_before_first_after_last.

(* include_stop=True (n >= 2): everything except the n axis values and the one stop value is refused *)
Theorem C14b_include_stop_refused : forall s d n v, d <> 0 -> 2 <= n ->
  cm_coord_to_index Zops v (arith s d n) true = Raise IndexErr <-> ~ (exists i, 0 <= i <= n /\ v = s + d * i).
Proof. exact arith_stop_refused. Qed.
Print Assumptions C14b_include_stop_refused.

(* the index methods *)
Theorem C14b_get_index_refused : forall C (O : coord_ops C), eq_ops O -> forall A ix v,
  cm_get_index O A ix v None = Raise IndexErr <-> ~ In v (axis_of A (cx_indexer_axis ix)).
Proof. exact (@get_index_refused). Qed.
Print Assumptions C14b_get_index_refused.

(* read_inline_number / read_crossline_number / read_zslice_coord *)
Theorem C14b_read_by_number_refused : forall C (O : coord_ops C), eq_ops O -> forall A H e v,
  ~ In v (axis_of A (cx_indexer_axis (cx_entry_indexer e))) -> cm_read_by_number O A H e v = Raise IndexErr.
Proof. exact (@read_by_number_refused). Qed.
Print Assumptions C14b_read_by_number_refused.

(* the refusal happens in the lookup: whatever is done with the ordinal afterwards (any continuation f in place of the
   ordinal reader) is not reached -- no loader call, no read *)
Theorem C14b_refusal_precedes_the_reader : forall C (O : coord_ops C), eq_ops O -> forall A e v T (f : Z -> outcome T),
  ~ In v (axis_of A (cx_indexer_axis (cx_entry_indexer e))) ->
  bind (cm_get_index O A (cx_entry_indexer e) v (cx_entry_flag e)) f = Raise IndexErr.
Proof. exact (@by_number_no_reader_call). Qed.
Print Assumptions C14b_refusal_precedes_the_reader.

Theorem C14b_by_number_refused_arithmetic_axis : forall A H e s d n v,
  axis_of A (cx_indexer_axis (cx_entry_indexer e)) = arith s d n ->
  ~ (exists i, 0 <= i < n /\ v = s + d * i) -> cm_read_by_number Zops A H e v = Raise IndexErr.
Proof. exact by_number_refused_arith. Qed.
Print Assumptions C14b_by_number_refused_arithmetic_axis.

(* get_trace_by_coord: a given lower bound off the axis (this includes the stop coordinate), whatever the upper bound and
   the trace number *)
Theorem C14b_trace_by_coord_lower_bound_refused : forall C (O : coord_ops C), eq_ops O ->
  forall A H (mask_nth : Z -> outcome Z) t v hi,
  ~ In v (ax_z A) -> cm_get_trace_by_coord O A mask_nth H t (Some v) hi = Raise IndexErr.
Proof. exact (@trace_by_coord_lo_refused). Qed.
Print Assumptions C14b_trace_by_coord_lower_bound_refused.

(* ... a given upper bound that is neither on the axis nor the stop coordinate, whatever the lower bound *)
Theorem C14b_trace_by_coord_upper_bound_refused : forall C (O : coord_ops C), eq_ops O ->
  forall A H (mask_nth : Z -> outcome Z) t lo w,
  ~ In w (ax_z A) -> (forall st, stop_value O (ax_z A) = Some st -> w <> st) ->
  cm_get_trace_by_coord O A mask_nth H t lo (Some w) = Raise IndexErr.
Proof. exact (@trace_by_coord_hi_refused). Qed.
Print Assumptions C14b_trace_by_coord_upper_bound_refused.

Theorem C14b_trace_by_coord_lower_bound_refused_arithmetic_axis : forall A H s d n (mask_nth : Z -> outcome Z) t v hi,
  ax_z A = arith s d n -> ~ (exists i, 0 <= i < n /\ v = s + d * i) ->
  cm_get_trace_by_coord Zops A mask_nth H t (Some v) hi = Raise IndexErr.
Proof. exact trace_by_coord_lo_refused_arith. Qed.
Print Assumptions C14b_trace_by_coord_lower_bound_refused_arithmetic_axis.

Theorem C14b_trace_by_coord_upper_bound_refused_arithmetic_axis : forall A H s d n (mask_nth : Z -> outcome Z) t lo w,
  ax_z A = arith s d n -> ~ (exists i, 0 <= i <= n /\ w = s + d * i) ->
  cm_get_trace_by_coord Zops A mask_nth H t lo (Some w) = Raise IndexErr.
Proof. exact trace_by_coord_hi_refused_arith. Qed.
Print Assumptions C14b_trace_by_coord_upper_bound_refused_arithmetic_axis.

(* the coordinate part of get_trace_by_coord yields a window of ordinals or IndexError, nothing else; the window then goes
   through get_trace's own checks (Props/C14.v: C14_trace_index, C14_trace_window) *)
Theorem C14b_trace_by_coord_window_total : forall C (O : coord_ops C), eq_ops O -> forall A H lo hi,
  (exists ab, cm_gtbc_window O A H lo hi = Return ab) \/ cm_gtbc_window O A H lo hi = Raise IndexErr.
Proof. exact (@gtbc_window_total). Qed.
Print Assumptions C14b_trace_by_coord_window_total.

(* a refusal carries no array (the reads of a call are a component of the returned array) *)
Theorem C14b_refusal_has_no_value : forall T (m : outcome T) e, m = Raise e -> forall v, m <> Return v.
Proof. exact (@raise_no_value). Qed.
Print Assumptions C14b_refusal_has_no_value.

(* non-vacuity: concrete axes (ascending by 2, descending by 3, samples from -40 by 4) and concrete off-axis values: between
   two lines, before the first, after the last, the stop coordinate as a LOWER bound, a value past the stop coordinate *)
Example C14b_nonvacuous :
  let H := hdr_of_list [2; 50; 5; 5; 4; 4; 4; 512; 2; 100; 2; 25; 4199] in
  let A := {| ax_il := arith 10 2 5; ax_xl := arith 100 (-3) 5; ax_z := arith (-40) 4 50 |} in
  eq_ops Zops /\
  ~ In 15 (ax_il A) /\ ~ In 8 (ax_il A) /\ ~ In 20 (ax_il A) /\ ~ In 103 (ax_xl A) /\
  (15 - 10) mod 2 <> 0 /\
  cm_read_by_number Zops A H EnInlineNumber 15 = Raise IndexErr /\
  cm_read_by_number Zops A H EnCrosslineNumber 85 = Raise IndexErr /\
  cm_read_by_number Zops A H EnZsliceCoord (-42) = Raise IndexErr /\
  cm_gtbc_window Zops A H (Some 160) None = Raise IndexErr /\
  cm_gtbc_window Zops A H None (Some 164) = Raise IndexErr /\
  cm_gtbc_window Zops A H None (Some 160) = Return (0, 50).
Proof.
  cbv zeta. split; [exact Zops_eq|].
  repeat split; try (vm_compute; reflexivity); try (vm_compute; intuition discriminate).
Qed.
