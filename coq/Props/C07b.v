(* C07 I/O proportionality, continued: the GENERAL layout (every blockshape that is not (4,4,N), including the
   z-slice optimised (N,N,4)).  ONLY statements.  av_reads v is the sequence of range reads (offset in the data
   section, length) the GENERATED loader issues to build v.  For EVERY header with wf3 and every in-range argument:
   the reads are exactly the 4096-byte blocks that hold a requested voxel, they lie inside the data section, no two
   of them share a byte, and their number is the product of the per-axis block counts.  Proofs (Proofs/General.v)
   are by arithmetic for arbitrary sizes, blockshapes and rates -- no enumeration. *)
From Coq Require Import ZArith List Bool Lia.
Import ListNotations.
From SZ Require Import Lib.Py Gen.Reader Spec.Container Proofs.Default Proofs.General.
Open Scope Z_scope.

(* proportional_reads H i0 i1 x0 x1 z0 z1 R, spelled out.  R : the (offset, length) reads of one call for the box
   [i0,i1) x [x0,x1) x [z0,z1).  Block number of voxel (i, x, z) = ((i/bs0) * (PX/bs1) + x/bs1) * (PZ/bs2) + z/bs2. *)
Theorem C07_proportional_reads_meaning : forall H i0 i1 x0 x1 z0 z1 R,
  proportional_reads H i0 i1 x0 x1 z0 z1 R <->
  ((* exactly the blocks holding a requested voxel, each read being that whole block *)
   (forall r, In r R <-> exists i x z, i0 <= i < i1 /\ x0 <= x < x1 /\ z0 <= z < z1 /\
                          r = (4096 * ((i / s_bs0 H * (s_PX H / s_bs1 H) + x / s_bs1 H) * (s_PZ H / s_bs2 H) + z / s_bs2 H), 4096)) /\
   (* inside the data section *)
   (forall o l, In (o, l) R -> 0 <= o /\ o + l <= s_data_bytes3 H) /\
   (* no byte is fetched twice: any two reads (at different positions of the sequence) are disjoint *)
   ForallOrdPairs (fun r1 r2 => fst r1 + snd r1 <= fst r2 \/ fst r2 + snd r2 <= fst r1) R /\
   (* count = product of the per-axis block counts *)
   length R = Z.to_nat (((i1 + s_bs0 H - 1) / s_bs0 H - i0 / s_bs0 H) * ((x1 + s_bs1 H - 1) / s_bs1 H - x0 / s_bs1 H) *
                        ((z1 + s_bs2 H - 1) / s_bs2 H - z0 / s_bs2 H))).
Proof. exact proportional_reads_unfold. Qed.
Print Assumptions C07_proportional_reads_meaning.

(* the block read for voxel (i, x, z) is the block that holds its compressed unit, per the SPECIFICATION: the ub bytes
   of unit unit_index3 (i/4, x/4, z/4) lie inside [4096 * blk, 4096 * (blk + 1)) *)
Theorem C07_unit_inside_its_block : forall H, wf3 H = true -> forall i x z,
  4096 * blk_no H (i / s_bs0 H) (x / s_bs1 H) (z / s_bs2 H) <= s_ub3 H * unit_index3 H (i / 4) (x / 4) (z / 4) /\
  s_ub3 H * unit_index3 H (i / 4) (x / 4) (z / 4) + s_ub3 H <= 4096 * (blk_no H (i / s_bs0 H) (x / s_bs1 H) (z / s_bs2 H) + 1).
Proof. exact spec_unit_in_block. Qed.
Print Assumptions C07_unit_inside_its_block.

(* and the block's offset is where the specification puts the block's first unit *)
Theorem C07_block_offset_is_spec : forall H, wf3 H = true -> forall bi bx bz,
  4096 * blk_no H bi bx bz = s_ub3 H * unit_index3 H (s_bs0 H * bi / 4) (s_bs1 H * bx / 4) (s_bs2 H * bz / 4).
Proof. exact block_offset_spec3. Qed.
Print Assumptions C07_block_offset_is_spec.

(* the reads of any box inside the padded volume have the four properties (the loader's sequence is box_reads:
   Props/C02b.v, C02_box_reads_meaning) *)
Theorem C07_box_reads_proportional : forall H, wf3 H = true -> forall i0 i1 x0 x1 z0 z1,
  0 <= i0 < i1 -> i1 <= s_PI H -> 0 <= x0 < x1 -> x1 <= s_PX H -> 0 <= z0 < z1 -> z1 <= s_PZ H ->
  proportional_reads H i0 i1 x0 x1 z0 z1 (box_reads H i0 i1 x0 x1 z0 z1).
Proof. exact box_reads_proportional. Qed.
Print Assumptions C07_box_reads_proportional.

(* read_subvolume, both values of the multithreading flag *)
Theorem C07_subvolume_general_layout : forall H, wf3 H = true -> general_layout H ->
  forall (mt : bool) i0 i1 x0 x1 z0 z1,
  0 <= i0 < i1 -> i1 <= s_nil H -> 0 <= x0 < x1 -> x1 <= s_nxl H -> 0 <= z0 < z1 -> z1 <= s_ns H ->
  exists v, rd_read_subvolume H i0 i1 x0 x1 z0 z1 false mt = Return v /\
    proportional_reads H i0 i1 x0 x1 z0 z1 (av_reads v).
Proof. exact subvolume_io. Qed.
Print Assumptions C07_subvolume_general_layout.

(* read_subvolume with access to the padding (the chunk reads behind get_trace) *)
Theorem C07_subvolume_padded_general_layout : forall H, wf3 H = true -> general_layout H ->
  forall (mt : bool) i0 i1 x0 x1 z0 z1,
  0 <= i0 < i1 -> i1 <= s_PI H -> 0 <= x0 < x1 -> x1 <= s_PX H -> 0 <= z0 < z1 -> z1 <= s_PZ H ->
  exists v, rd_read_subvolume H i0 i1 x0 x1 z0 z1 true mt = Return v /\
    proportional_reads H i0 i1 x0 x1 z0 z1 (av_reads v).
Proof. exact subvolume_padded_io. Qed.
Print Assumptions C07_subvolume_padded_general_layout.

(* read_inline: the blocks of inline-block il/bs0, all crossline and sample blocks *)
Theorem C07_inline_general_layout : forall H, wf3 H = true -> general_layout H -> forall il, 0 <= il < s_nil H ->
  exists v, rd_read_inline H il = Return v /\ proportional_reads H il (il + 1) 0 (s_nxl H) 0 (s_ns H) (av_reads v).
Proof. exact inline_io. Qed.
Print Assumptions C07_inline_general_layout.

Theorem C07_crossline_general_layout : forall H, wf3 H = true -> general_layout H -> forall xl, 0 <= xl < s_nxl H ->
  exists v, rd_read_crossline H xl = Return v /\ proportional_reads H 0 (s_nil H) xl (xl + 1) 0 (s_ns H) (av_reads v).
Proof. exact crossline_io. Qed.
Print Assumptions C07_crossline_general_layout.

(* read_zslice, bs2 <> 4: one block per (inline block, crossline block) *)
Theorem C07_zslice_general_layout : forall H, wf3 H = true -> general_layout H ->
  forall z, s_bs2 H <> 4 -> 0 <= z < s_ns H ->
  exists v, rd_read_zslice H z = Return v /\ proportional_reads H 0 (s_nil H) 0 (s_nxl H) z (z + 1) (av_reads v).
Proof. exact zslice_io. Qed.
Print Assumptions C07_zslice_general_layout.

(* read_volume: every block of the data section exactly once, in file order; together they are the data section *)
Theorem C07_volume_general_layout : forall H, wf3 H = true -> general_layout H ->
  exists v, rd_read_volume H = Return v /\
    proportional_reads H 0 (s_nil H) 0 (s_nxl H) 0 (s_ns H) (av_reads v) /\
    av_reads v = map (fun k => (4096 * k, 4096)) (zrange 0 (nbi3 H * nbx3 H * nbz3 H)) /\
    4096 * (nbi3 H * nbx3 H * nbz3 H) = s_data_bytes3 H.
Proof. exact volume_io. Qed.
Print Assumptions C07_volume_general_layout.

(* read_zslice in the z-slice layout (N, N, 4): one block per tile -- adv_proportional_reads spelled out: the reads
   are, for every tile (bi, bx), the bs0/4 consecutive pieces of (bs1/4) * ub bytes that tile the 4096-byte block
   (bi, bx, z/4); inside the data section; pairwise disjoint; (PI/bs0) * (PX/bs1) * (bs0/4) of them *)
Theorem C07_adv_proportional_reads_meaning : forall H z R,
  adv_proportional_reads H z R <->
  ((s_bs0 H / 4) * ((s_bs1 H / 4) * s_ub3 H) = 4096 /\
   (forall r, In r R <-> exists bi bx s, 0 <= bi < s_PI H / s_bs0 H /\ 0 <= bx < s_PX H / s_bs1 H /\ 0 <= s < s_bs0 H / 4 /\
        r = (4096 * ((bi * (s_PX H / s_bs1 H) + bx) * (s_PZ H / s_bs2 H) + z / s_bs2 H) + s * ((s_bs1 H / 4) * s_ub3 H),
             (s_bs1 H / 4) * s_ub3 H)) /\
   (forall o l, In (o, l) R -> 0 <= o /\ o + l <= s_data_bytes3 H) /\
   ForallOrdPairs (fun r1 r2 => fst r1 + snd r1 <= fst r2 \/ fst r2 + snd r2 <= fst r1) R /\
   length R = Z.to_nat ((s_PI H / s_bs0 H) * (s_PX H / s_bs1 H) * (s_bs0 H / 4))).
Proof. exact adv_proportional_reads_unfold. Qed.
Print Assumptions C07_adv_proportional_reads_meaning.

Theorem C07_zslice_nn4_layout : forall H, wf3 H = true -> general_layout H -> s_bs2 H = 4 ->
  forall z, 0 <= z < s_ns H ->
  exists v, rd_read_zslice H z = Return v /\ adv_proportional_reads H z (av_reads v).
Proof. exact zslice_nn4_io. Qed.
Print Assumptions C07_zslice_nn4_layout.

(* non-vacuity: a (64,64,4) file at 2 bits per voxel (70 x 65 x 10): a z-slice touches the 4 tiles' blocks with
   z-block 1 (16 pieces of 256 bytes each), a sub-volume crossing block boundaries touches 2 x 1 x 2 blocks *)
Example C07b_nonvacuous :
  let H1 := hdr_of_list [2; 10; 65; 70; 2; 64; 64; 4; 12; 100; 2; 4550; 4199] in
  wf3 H1 = true /\ general_layout H1 /\ s_bs2 H1 = 4 /\ 0 <= 5 < s_ns H1 /\
  length (zslice_adv_reads H1 5) = 64%nat /\ nth 16 (zslice_adv_reads H1 5) (0, 0) = (4096 * 4, 256) /\
  (0 <= 60 < 70 /\ 70 <= s_nil H1) /\ (0 <= 10 < 20 /\ 20 <= s_nxl H1) /\ (0 <= 3 < 6 /\ 6 <= s_ns H1) /\
  length (box_reads H1 60 70 10 20 3 6) = 4%nat /\ s_data_bytes3 H1 = 4096 * 12.
Proof.
  cbv zeta. split; [vm_compute; reflexivity|]. split; [intros [A _]; vm_compute in A; discriminate|].
  repeat split; try (vm_compute; congruence).
Qed.
