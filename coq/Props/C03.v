(* C03 Container conformance -- version field.  ONLY statements. *)
From Coq Require Import ZArith List Bool String Lia.
From SZ Require Import Lib.Py Gen.Version Spec.Version Model.Version Proofs.Version.
Open Scope Z_scope.

(* the encoding (GENERATED from version.py) is a bijection between {(M,m,p,dev) | M >= 0, m,p < 1024} and the
   non-negative integers: for ALL majors, not only < 4 *)
Theorem C03_version_decode_encode : forall v, ver_ok v -> dec (enc v) = v.
Proof. exact dec_enc. Qed.
Print Assumptions C03_version_decode_encode.
Theorem C03_version_encode_decode : forall n, 0 <= n -> enc (dec n) = n /\ ver_ok (dec n).
Proof. intros n Hn. split; [exact (enc_dec n Hn) | exact (dec_ok n Hn)]. Qed.
Print Assumptions C03_version_encode_decode.
(* ... and preserves release order, a development build sorting before its release *)
Theorem C03_version_order : forall a b, ver_ok a -> ver_ok b -> (ver_lt a b <-> enc a < enc b).
Proof. exact enc_monotone. Qed.
Print Assumptions C03_version_order.
(* the reader's gates `file_version > SeismicZfpVersion("0.2.1")` / `("0.1.6")` mean what the specification says *)
Theorem C03_version_gates : forall v, ver_ok v ->
  (ver_gt_impl v (rel 0 2 1) = true <-> ver_lt (rel 0 2 1) v) /\ (ver_gt_impl v (rel 0 1 6) = true <-> ver_lt (rel 0 1 6) v).
Proof. intros v Hv. split; apply gate_after; (assumption || lia). Qed.
Print Assumptions C03_version_gates.
(* what the reader stores as file_version (decode then re-encode) is the stored integer *)
Theorem C03_version_reader_identity : forall n, 0 <= n -> version_reencode n = n.
Proof. exact reencode_id. Qed.
Print Assumptions C03_version_reader_identity.

Open Scope string_scope.
Theorem C03_version_string_release : parse_version "0.2.9" = Return (rel 0 2 9).
Proof. exact parse_release_example. Qed.
(* D19 (known finding): strings setuptools_scm emits without a patch component abort the constructor *)
Theorem C03_version_string_refuted :
  parse_version "0.1.dev1+g45bcf9689" = Raise ValueErr /\ parse_version "0.2.4+d20240101" = Raise ValueErr.
Proof. split; [exact parse_scm_refuted_nopatch | exact parse_scm_refuted_dirty]. Qed.
Print Assumptions C03_version_string_refuted.

Example C03_nonvacuous : ver_ok (rel 0 2 9) /\ ver_ok {| vmaj := 7; vmin := 1023; vpat := 1023; vdev := true |}.
Proof. unfold ver_ok; cbn; lia. Qed.

(* ------------------------------------------------------------------------------------------------------------
   Container layout (converters).  The size/format fields are GENERATED from make_header (Gen/Header.v); the
   footer padding from both write_headers (Gen/Header.v); the reader's derived sizes from SgzReader.__init__
   (Gen/Reader.v).  cfg3 is the property's notion of a valid 3D setting; fields_ok says the values fit their 32-bit
   slots (otherwise struct.pack raises and nothing is written). *)
From SZ Require Import Lib.Py Gen.Reader Gen.Header Spec.Container Model.Writer Proofs.Writer Model.HeaderW Proofs.ContainerW.

(* The header states the true dimensions, bit rate, blockshape, trace count, array length; it is well-formed (one
   block = 4096 bytes); the stated number of disk blocks is exactly padded voxels x bits / 8 = unit bytes x number
   of units -- and that number of units is what the producers write (C01_data_section_complete). *)
Theorem C03_converter_header_conforms : forall rn rd ns n_il n_xl bs0 bs1 bs2 n_arrays venc tc,
  cfg3 rn rd ns n_il n_xl bs0 bs1 bs2 = true ->
  fields_ok rn rd ns n_il n_xl 0 tc bs0 bs1 bs2 n_arrays venc false false = true ->
  exists H, written_hdr rn rd ns n_il n_xl 0 tc bs0 bs1 bs2 n_arrays venc false false = Return H /\
    wf3 H = true /\
    (s_nhb H = 2 /\ s_nil H = n_il /\ s_nxl H = n_xl /\ s_ns H = ns /\ s_bs0 H = bs0 /\ s_bs1 H = bs1 /\ s_bs2 H = bs2 /\
     s_rn H = rn /\ s_rd H = rd /\ s_hel H = 4 * (n_il * n_xl) /\ s_nha H = n_arrays /\ s_ntr H = n_il * n_xl /\ s_ver H = venc) /\
    s_ndb H * 4096 = s_data_bytes3 H /\ s_data_bytes3 H = s_ub3 H * data_units H /\
    List.length (dims_np H) = Z.to_nat (data_units H) /\ List.length (dims_sf H) = Z.to_nat (data_units H).
Proof.
  intros rn rd ns n_il n_xl bs0 bs1 bs2 n_arrays venc tc CFG FIT.
  exists (Hw rn rd ns n_il n_xl bs0 bs1 bs2 n_arrays venc tc).
  pose proof (written_wf _ _ _ _ _ _ _ _ n_arrays venc tc CFG FIT) as WF.
  split; [apply written_is_Hw; exact FIT|]. split; [exact WF|]. split; [apply written_states_truth; assumption|].
  destruct (written_diskblocks _ _ _ _ _ _ _ _ n_arrays venc tc CFG FIT) as [D1 D2]. split; [exact D1|]. split; [exact D2|].
  apply written_count. exact WF.
Qed.
Print Assumptions C03_converter_header_conforms.

(* Footer: each array is followed by (-len) mod 512 bytes (both converters, generated); for a file of a version after
   0.2.1 that is exactly the stride the GENERATED reader derives (512 + 512*((len-1)/512)); so array k starts where
   the reader looks for it, and the file ends after the last array. *)
Theorem C03_footer_stride_agrees : forall H, version_to_encoding 0 2 1 false < rd_file_version_enc H -> 1 <= s_hel H ->
  rd_padded_header_entry_length_bytes H = footer_stride_written (s_hel H) /\
  footer_pad_numpy (s_hel H) = footer_pad_segy (s_hel H) /\
  forall start n k, (k < n)%nat ->
    nth k (footer_positions start (s_hel H) n) 0 = start + Z.of_nat k * rd_padded_header_entry_length_bytes H.
Proof.
  intros H V L. pose proof (footer_stride_agrees H V L) as E. split; [exact E|]. split; [reflexivity|].
  intros start n k Hk. rewrite E. apply footer_positions_nth. exact Hk.
Qed.
Print Assumptions C03_footer_stride_agrees.

Example C03_container_nonvacuous :
  cfg3 1 2 300 9 10 4 4 4096 = true /\ fields_ok 1 2 300 9 10 0 0 4 4 4096 3 4199 false false = true /\
  cfg3 2 1 9 70 65 64 64 4 = true.
Proof. repeat split; vm_compute; reflexivity. Qed.
