(* C03 Container conformance -- version field.  ONLY statements. *)
From Coq Require Import ZArith List Bool String Lia.
From SZ Require Import Lib.Py Gen.Version Spec.Version Model.Version Proofs.Version.
Open Scope Z_scope.

(* the encoding (GENERATED from version.py) is a bijection between {(M,m,p,dev) | M >= 0, m,p < 1024} and the
   non-negative integers: for ALL majors, not only < 4 *)
Theorem C03_version_decode_encode : forall v, ver_ok v -> dec (enc v) = v.
Proof. exact dec_enc. Qed.
Print Assumptions C03_version_decode_encode.
Theorem C03_version_encode_decode : forall n, 0 <= n -> enc (dec n) = n /\ ver_ok (dec n).
Proof. intros n Hn. split; [exact (enc_dec n Hn) | exact (dec_ok n Hn)]. Qed.
Print Assumptions C03_version_encode_decode.
(* ... and preserves release order, a development build sorting before its release *)
Theorem C03_version_order : forall a b, ver_ok a -> ver_ok b -> (ver_lt a b <-> enc a < enc b).
Proof. exact enc_monotone. Qed.
Print Assumptions C03_version_order.
(* the reader's gates `file_version > SeismicZfpVersion("0.2.1")` / `("0.1.6")` mean what the specification says *)
Theorem C03_version_gates : forall v, ver_ok v ->
  (ver_gt_impl v (rel 0 2 1) = true <-> ver_lt (rel 0 2 1) v) /\ (ver_gt_impl v (rel 0 1 6) = true <-> ver_lt (rel 0 1 6) v).
Proof. intros v Hv. split; apply gate_after; (assumption || lia). Qed.
Print Assumptions C03_version_gates.
(* what the reader stores as file_version (decode then re-encode) is the stored integer *)
Theorem C03_version_reader_identity : forall n, 0 <= n -> version_reencode n = n.
Proof. exact reencode_id. Qed.
Print Assumptions C03_version_reader_identity.

Open Scope string_scope.
Theorem C03_version_string_release : parse_version "0.2.9" = Return (rel 0 2 9).
Proof. exact parse_release_example. Qed.
(* D19 (known finding): strings setuptools_scm emits without a patch component abort the constructor *)
Theorem C03_version_string_refuted :
  parse_version "0.1.dev1+g45bcf9689" = Raise ValueErr /\ parse_version "0.2.4+d20240101" = Raise ValueErr.
Proof. split; [exact parse_scm_refuted_nopatch | exact parse_scm_refuted_dirty]. Qed.
Print Assumptions C03_version_string_refuted.

Example C03_nonvacuous : ver_ok (rel 0 2 9) /\ ver_ok {| vmaj := 7; vmin := 1023; vpat := 1023; vdev := true |}.
Proof. unfold ver_ok; cbn; lia. Qed.
