(* C17  I/O failures are reported, never turned into samples.  ONLY statements; each closed by `exact <lemma>`.

   Reading.  B: the type of bytes (arbitrary).  file: the backing store, a list of bytes.  fa k: what the backend does to
   the k-th range read of the call (Full | Short n | Fail).  delivered file a off len = true: the read did not fail and
   returned len bytes (Full against a file that is too short is NOT delivered).  A call is a list of tasks: one range
   read each, followed by the slice assignments that copy parts of it into the shared buffer.  seq_run: a Python loop
   (first failure propagates).  fanout: a ThreadPoolExecutor; `sched` is the order in which the slice assignments of the
   successful tasks reached the buffer -- ANY permutation (schedule_of).  wired ranges over the two generated backend
   flags (local file, blob), collected over the four generated "every future is kept and .result() is called" flags; the
   guard is the generated term check_range_length_raises.  Deleting the length check, a `.result()`, or reading around
   the choke point changes a generated term and these statements stop type-checking / their proofs stop checking. *)
From Coq Require Import String.
From Coq Require Import ZArith List Bool Permutation.
Import ListNotations.
From SZ Require Import Lib.Py Gen.Reader Gen.Faults Model.Faults Proofs.Faults.
Close Scope string_scope.
Open Scope nat_scope.

(* the patched choke point returns exactly the requested bytes of the file, or raises: for both backends *)
Theorem C17_choke_point : forall (B : Type) (file : list B) a off len,
  read_range_file B file a off len = (if delivered B file a off len then Return (range_bytes B file off len) else Raise IOErr) /\
  read_range_blob B file a off len = (if delivered B file a off len then Return (range_bytes B file off len) else Raise IOErr).
Proof. exact c17_choke_point. Qed.
Print Assumptions C17_choke_point.

(* fault_raises: if ANY range read of the call is not delivered, the call raises -- sequential loops and every fan-out,
   every completion order, both backends; it never returns a value *)
Theorem C17_fault_raises : forall (B : Type) (file : list B) (fa : nat -> answer) (ts : list task) k t wired,
  In wired backends -> nth_error ts k = Some t -> delivered B file (fa k) (t_off t) (t_len t) = false ->
  (forall buf, raises (seq_run B wired check_range_length_raises file fa 0 ts buf)) /\
  (forall collected sched buf0, In collected collected_flags ->
     raises (fanout B wired check_range_length_raises file fa collected ts sched buf0)).
Proof. exact c17_fault_raises. Qed.
Print Assumptions C17_fault_raises.

(* no_fault_true_data: if every range read is delivered, the call returns the buffer assembled from the bytes of the
   file (true_buffer mentions neither the fault assignment nor the schedule) *)
Theorem C17_no_fault_true_data : forall (B : Type) (file : list B) (fa : nat -> answer) (ts : list task) wired,
  In wired backends ->
  (forall k t, nth_error ts k = Some t -> delivered B file (fa k) (t_off t) (t_len t) = true) ->
  (forall buf, seq_run B wired check_range_length_raises file fa 0 ts buf = Return (true_buffer B file ts buf)) /\
  (forall collected sched buf0, tasks_okb (length buf0) ts = true ->
     schedule_of B wired check_range_length_raises file fa ts sched ->
     fanout B wired check_range_length_raises file fa collected ts sched buf0 = Return (true_buffer B file ts buf0)).
Proof. exact c17_no_fault_true_data. Qed.
Print Assumptions C17_no_fault_true_data.

(* ... and the true buffer is, byte by byte, the byte of the file that the covering slice assignment copies *)
Theorem C17_true_buffer_byte : forall (B : Type) (file : list B) ts buf0 t s n d i x,
  tasks_okb (length buf0) ts = true -> (forall t', In t' ts -> t_off t' + t_len t' <= length file) ->
  In t ts -> In (s, n, d) (t_moves t) -> d <= i < d + n ->
  nth i (true_buffer B file ts buf0) x = nth (t_off t + s + (i - d)) file x.
Proof. exact c17_true_buffer_byte. Qed.
Print Assumptions C17_true_buffer_byte.

(* order_independent: two arbitrary completion orders, ANY fault assignment: the same outcome *)
Theorem C17_order_independent : forall (B : Type) (file : list B) (fa : nat -> answer) (ts : list task) wired collected s1 s2 buf0,
  In wired backends -> In collected collected_flags -> tasks_okb (length buf0) ts = true ->
  schedule_of B wired check_range_length_raises file fa ts s1 -> schedule_of B wired check_range_length_raises file fa ts s2 ->
  fanout B wired check_range_length_raises file fa collected ts s1 buf0 =
  fanout B wired check_range_length_raises file fa collected ts s2 buf0.
Proof. exact c17_order_independent. Qed.
Print Assumptions C17_order_independent.

(* the permutation lemma itself: pairwise disjoint, in-bounds slice assignments of the right length commute *)
Theorem C17_order_independent_buffer : forall (B : Type) (L : nat) (ops s1 s2 : list (op B)) buf,
  ops_okb B L ops = true -> length buf = L -> Permutation s1 ops -> Permutation s2 ops ->
  fold_left (apply_op B) s1 buf = fold_left (apply_op B) s2 buf.
Proof. exact order_independent_buffer. Qed.
Print Assumptions C17_order_independent_buffer.

(* the destination slots the CODE computes (generated terms) are disjoint, inside the buffer the code allocates and
   as long as the bytes read, for all parameter values *)
Theorem C17_xl_set_slots : forall cb P0 P1 x, (0 <= cb)%Z -> (0 <= P0)%Z -> (P0 mod 4 = 0)%Z ->
  tasks_okb (Z.to_nat (xl_set_buflen cb P0)) (xl_tasks cb P0 P1 x) = true.
Proof. exact xl_set_tasks_ok. Qed.
Print Assumptions C17_xl_set_slots.
Theorem C17_zslice_set_slots : forall bb bs2 cb ub zf zid b0 b1, (0 <= ub)%Z -> (0 <= b0)%Z -> (0 <= b1)%Z ->
  tasks_okb (Z.to_nat (zslice_set_buflen b0 b1 ub)) (zslice_tasks bb bs2 cb ub zf zid b0 b1) = true.
Proof. exact zslice_set_tasks_ok. Qed.
Print Assumptions C17_zslice_set_slots.
Theorem C17_chunk_range_mt_slots : forall max_il min_il,
  tasks_okb (Z.to_nat (chunk_range_mt_buflen max_il min_il)) (mt_tasks max_il min_il) = true.
Proof. exact chunk_range_mt_tasks_ok. Qed.
Print Assumptions C17_chunk_range_mt_slots.

(* read_and_decompress_zslice_set_adv (one block read, blockshape0/4 slice assignments per task): r1 and r2 stand for
   int(4*4*blockshape[1]*rate) and int(shape_pad[1]*4*4*rate); the two equations hold for every well-formed header *)
Theorem C17_zslice_set_adv_slots : forall bb b0 b1 b2 bs0 r1 r2 zf,
  (0 <= r1 / 8)%Z -> (0 <= bs0 / 4)%Z -> (0 <= b0)%Z -> (0 < b1)%Z -> bb = ((bs0 / 4) * (r1 / 8))%Z -> (r2 / 8 = b1 * (r1 / 8))%Z ->
  tasks_okb (Z.to_nat (zslice_set_adv_buflen bb b0 b1)) (adv_tasks bb b0 b1 b2 bs0 r1 r2 zf) = true.
Proof. exact zslice_set_adv_tasks_ok. Qed.
Print Assumptions C17_zslice_set_adv_slots.

(* ties to the code, by computation on generated terms *)
Theorem C17_guard_is_length_check : forall a b, check_range_length_raises a b = negb (a =? b)%Z.
Proof. exact guard_is_length_check. Qed.
Print Assumptions C17_guard_is_length_check.
Theorem C17_backends_checked : forall w, In w backends -> w = true.
Proof. exact backends_true. Qed.
Print Assumptions C17_backends_checked.
Theorem C17_futures_collected : forall c, In c collected_flags -> c = true.
Proof. exact collected_true. Qed.
Print Assumptions C17_futures_collected.
Theorem C17_futures_collected_reader :
  ld_read_and_decompress_xl_set_futures_checked = true /\ ld_read_and_decompress_zslice_set_futures_checked = true /\
  ld_read_and_decompress_zslice_set_adv_futures_checked = true /\ ld_read_and_decompress_chunk_range_futures_checked = true.
Proof. exact futures_collected_reader. Qed.
Print Assumptions C17_futures_collected_reader.
Theorem C17_io_through_choke_point :
  raw_io_outside_choke_point = [] /\ reader_installs_only_choke_points = true /\ preload_through_read_range = true /\
  read_range_sites = [("read.SgzReader.__init__", 2%Z); ("read.SgzReader.get_unstructured_mask", 1%Z);
                      ("read.SgzReader.read_variant_headers", 1%Z); ("read.SgzReader.gen_trace_header", 1%Z);
                      ("loader.SgzLoader.load_compressed_volume", 1%Z); ("loader.SgzLoader._get_compressed_bytes", 1%Z)]%string.
Proof. exact io_through_choke_point. Qed.
Print Assumptions C17_io_through_choke_point.

(* the evaluator the harness runs on the recorded read plans is the model's verdict *)
Theorem C17_predict_sound : forall (B : Type) (file : list B) fa zfa ts buf,
  (forall k, assoc_answer zfa (Z.of_nat k) = zans (fa k)) ->
  (predict_raises_file (Z.of_nat (length file)) zfa (map range_of ts) = true <->
   raises (seq_run B read_range_file_checked check_range_length_raises file fa 0 ts buf)) /\
  (predict_raises_blob (Z.of_nat (length file)) zfa (map range_of ts) = true <->
   forall sched buf0, raises (fanout B read_range_blob_checked check_range_length_raises file fa true ts sched buf0)).
Proof. exact predict_raises_sound. Qed.
Print Assumptions C17_predict_sound.

Example C17_nonvacuous :
  let file := [10; 11; 12; 13; 14; 15; 16; 17; 18; 19] in
  let ts := [ {| t_off := 0; t_len := 4; t_moves := [(0, 4, 4)] |}; {| t_off := 4; t_len := 4; t_moves := [(0, 2, 0); (2, 2, 2)] |} ] in
  let buf0 := repeat 0 8 in
  tasks_okb (length buf0) ts = true /\
  (forall k t, nth_error ts k = Some t -> delivered nat file Full (t_off t) (t_len t) = true) /\
  true_buffer nat file ts buf0 = [14; 15; 16; 17; 10; 11; 12; 13] /\
  delivered nat file (Short 2) 4 4 = false /\ delivered nat (firstn 7 file) Full 4 4 = false /\ delivered nat file Fail 0 4 = false.
Proof. exact c17_witness. Qed.
Print Assumptions C17_nonvacuous.
