(* C06 continuation: the SEG-Y export does not depend on what the same converter object was asked before (D46, D47).
   ONLY statements. *)
From Coq Require Import ZArith List Bool.
Import ListNotations.
From SZ Require Import Gen.Export Gen.Reblock Proofs.ReblockOrder.
Open Scope Z_scope.

(* loading the header arrays inside write_segy never fails the padding-mode assertion, whatever was queried before *)
Theorem C06_export_load_any_history : forall structured mode,
  load_headers export_headers_reload_on_mode_switch structured mode false <> LoadAssertionError.
Proof. exact export_load_never_refuses. Qed.
Print Assumptions C06_export_load_any_history.

(* an export leaves the object's header bytes as they were: a second export, or a re-blocking, from the same object starts
   from the source file's header *)
Theorem C06_export_leaves_header_bytes : forall hb code, headerbytes_after_export hb code = hb.
Proof. exact current_export_leaves_headerbytes. Qed.
Print Assumptions C06_export_leaves_header_bytes.
