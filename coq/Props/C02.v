(* C02 Access-path coherence.  ONLY statements.  Each theorem: for every well-formed header and every in-range
   argument the GENERATED read method returns an array whose every cell has the provenance the SPECIFICATION
   decoder (Spec/Container.v, written from docs/file-specification.md) assigns to the requested voxel.  Equality of
   provenance gives bitwise equality of values for every codec that is unit-local (the ZFP structural assumption,
   validated against zfpy on every run). *)
From Coq Require Import ZArith List Bool Lia.
Import ListNotations.
From SZ Require Import Lib.Py Gen.Reader Spec.Container Proofs.Default.
Open Scope Z_scope.

Theorem C02_inline_default_layout : forall H, wf3 H = true -> default_layout H -> forall il, 0 <= il < s_nil H ->
  exists v, rd_read_inline H il = Return v /\ av_shape v = [s_nxl H; s_ns H] /\
    (forall x z, 0 <= x < s_nxl H -> 0 <= z < s_ns H -> av_cell v [x; z] = spec_cell3 H il x z) /\
    av_reads v = [(s_ub3 H * unit_index3 H (il / 4) 0 0, s_ub3 H * ((s_PX H / 4) * (s_PZ H / 4)))].
Proof. exact read_inline_default. Qed.
Print Assumptions C02_inline_default_layout.

Example C02_nonvacuous :
  let H := hdr_of_list [2; 50; 5; 5; 4; 4; 4; 512; 2; 100; 2; 25; 4199] in
  wf3 H = true /\ default_layout H /\ 0 <= 3 < s_nil H.
Proof. cbv zeta. split; [vm_compute; reflexivity | split; [split; vm_compute; reflexivity | vm_compute; split; [discriminate | reflexivity]]]. Qed.
