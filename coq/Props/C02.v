(* C02 Access-path coherence.  ONLY statements.  Each theorem: for every well-formed header and every in-range
   argument the GENERATED read method returns an array whose every cell has the provenance the SPECIFICATION
   decoder (Spec/Container.v, written from docs/file-specification.md) assigns to the requested voxel.  Equality of
   provenance gives bitwise equality of values for every codec that is unit-local (the ZFP structural assumption,
   validated against zfpy on every run). *)
From Coq Require Import ZArith List Bool Lia.
Import ListNotations.
From SZ Require Import Lib.Py Gen.Reader Spec.Container Proofs.Default.
Open Scope Z_scope.

Theorem C02_inline_default_layout : forall H, wf3 H = true -> default_layout H -> forall il, 0 <= il < s_nil H ->
  exists v, rd_read_inline H il = Return v /\ av_shape v = [s_nxl H; s_ns H] /\
    (forall x z, 0 <= x < s_nxl H -> 0 <= z < s_ns H -> av_cell v [x; z] = spec_cell3 H il x z) /\
    av_reads v = [(s_ub3 H * unit_index3 H (il / 4) 0 0, s_ub3 H * ((s_PX H / 4) * (s_PZ H / 4)))].
Proof. exact read_inline_default. Qed.
Print Assumptions C02_inline_default_layout.

Theorem C02_crossline_default_layout : forall H, wf3 H = true -> default_layout H -> forall xl, 0 <= xl < s_nxl H ->
  exists v, rd_read_crossline H xl = Return v /\ av_shape v = [s_nil H; s_ns H] /\
    (forall i z, 0 <= i < s_nil H -> 0 <= z < s_ns H -> av_cell v [i; z] = spec_cell3 H i xl z) /\
    av_reads v = map (fun j => (s_ub3 H * unit_index3 H j (xl / 4) 0, s_ub3 H * (s_PZ H / 4))) (zrange 0 (s_PI H / 4)).
Proof. exact read_crossline_default. Qed.
Print Assumptions C02_crossline_default_layout.

Theorem C02_zslice_default_layout : forall H, wf3 H = true -> default_layout H -> forall z, 0 <= z < s_ns H ->
  exists v, rd_read_zslice H z = Return v /\ av_shape v = [s_nil H; s_nxl H] /\
    (forall i x, 0 <= i < s_nil H -> 0 <= x < s_nxl H -> av_cell v [i; x] = spec_cell3 H i x z) /\
    av_reads v = map (fun k => (s_ub3 H * (k * (s_PZ H / 4) + z / 4), s_ub3 H)) (zrange 0 ((s_PI H / 4) * (s_PX H / 4))).
Proof. exact read_zslice_default. Qed.
Print Assumptions C02_zslice_default_layout.

Example C02_nonvacuous :
  let H := hdr_of_list [2; 50; 5; 5; 4; 4; 4; 512; 2; 100; 2; 25; 4199] in
  wf3 H = true /\ default_layout H /\ 0 <= 3 < s_nil H.
Proof. cbv zeta. split; [vm_compute; reflexivity | split; [split; vm_compute; reflexivity | vm_compute; split; [discriminate | reflexivity]]]. Qed.
