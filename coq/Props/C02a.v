(* C02a Access-path coherence, sub-volumes / whole volume / traces of the default layout (blockshape (4, 4, N)).
   ONLY statements.  Each theorem: for EVERY well-formed header of the default layout and EVERY in-range argument the
   GENERATED read method (Gen/Reader.v, translated from seismic_zfp/read.py and loader.py on every run) returns an
   array of the stated shape whose every cell has the provenance the SPECIFICATION decoder (Spec/Container.v) assigns
   to the requested voxel, and issues exactly the stated list of range reads (offset, length) of the data section, in
   the stated order.  Proved by arithmetic for all sizes and all boxes: no enumeration. *)
From Coq Require Import ZArith List Bool Lia.
Import ListNotations.
From SZ Require Import Lib.Py Gen.Reader Spec.Container Proofs.Default Proofs.TwoD Proofs.Subvolume.
Open Scope Z_scope.

(* read_subvolume(min_il, max_il, min_xl, max_xl, min_z, max_z), public entry (access_padding = False), for BOTH
   values of the `multithreading` flag: the box of the specification's volume; one range read per (inline unit
   row iu, crossline unit column xu) of the box, covering the z units z0/4 .. (z1+3)/4 - 1 of that column, issued
   row-major. *)
Theorem C02_subvolume_default_layout : forall H, wf3 H = true -> default_layout H ->
  forall (multithreading : bool) i0 i1 x0 x1 z0 z1,
  0 <= i0 < i1 -> i1 <= s_nil H -> 0 <= x0 < x1 -> x1 <= s_nxl H -> 0 <= z0 < z1 -> z1 <= s_ns H ->
  exists v, rd_read_subvolume H i0 i1 x0 x1 z0 z1 false multithreading = Return v /\
    av_shape v = [i1 - i0; x1 - x0; z1 - z0] /\
    (forall i x z, 0 <= i < i1 - i0 -> 0 <= x < x1 - x0 -> 0 <= z < z1 - z0 ->
       av_cell v [i; x; z] = spec_cell3 H (i0 + i) (x0 + x) (z0 + z)) /\
    av_reads v =
      flat_map (fun iu => map (fun xu => (s_ub3 H * unit_index3 H iu xu (z0 / 4), s_ub3 H * ((z1 + 3) / 4 - z0 / 4)))
                              (zrange (x0 / 4) ((x1 + 3) / 4)))
               (zrange (i0 / 4) ((i1 + 3) / 4)).
Proof. exact read_subvolume_default. Qed.
Print Assumptions C02_subvolume_default_layout.

(* the same with access_padding = True (internal callers: read_containing_chunk, get_trace): bounds are the padded
   extents, the cells are the specification's cells of the padded volume *)
Theorem C02_subvolume_padded_default_layout : forall H, wf3 H = true -> default_layout H ->
  forall (multithreading : bool) i0 i1 x0 x1 z0 z1,
  0 <= i0 < i1 -> i1 <= s_PI H -> 0 <= x0 < x1 -> x1 <= s_PX H -> 0 <= z0 < z1 -> z1 <= s_PZ H ->
  exists v, rd_read_subvolume H i0 i1 x0 x1 z0 z1 true multithreading = Return v /\
    av_shape v = [i1 - i0; x1 - x0; z1 - z0] /\
    (forall i x z, 0 <= i < i1 - i0 -> 0 <= x < x1 - x0 -> 0 <= z < z1 - z0 ->
       av_cell v [i; x; z] = spec_cell3 H (i0 + i) (x0 + x) (z0 + z)) /\
    av_reads v =
      flat_map (fun iu => map (fun xu => (s_ub3 H * unit_index3 H iu xu (z0 / 4), s_ub3 H * ((z1 + 3) / 4 - z0 / 4)))
                              (zrange (x0 / 4) ((x1 + 3) / 4)))
               (zrange (i0 / 4) ((i1 + 3) / 4)).
Proof. exact read_subvolume_padded. Qed.
Print Assumptions C02_subvolume_padded_default_layout.

(* read_volume(): the whole specification volume *)
Theorem C02_volume_default_layout : forall H, wf3 H = true -> default_layout H ->
  exists v, rd_read_volume H = Return v /\ av_shape v = [s_nil H; s_nxl H; s_ns H] /\
    (forall i x z, 0 <= i < s_nil H -> 0 <= x < s_nxl H -> 0 <= z < s_ns H -> av_cell v [i; x; z] = spec_cell3 H i x z) /\
    av_reads v =
      flat_map (fun iu => map (fun xu => (s_ub3 H * unit_index3 H iu xu (0 / 4), s_ub3 H * ((s_ns H + 3) / 4 - 0 / 4)))
                              (zrange (0 / 4) ((s_nxl H + 3) / 4)))
               (zrange (0 / 4) ((s_nil H + 3) / 4)).
Proof. exact read_volume_default. Qed.
Print Assumptions C02_volume_default_layout.

(* get_trace(t, lo, hi) on a structured 3D file: samples lo..hi-1 of the trace at inline t / n_xl, crossline
   t mod n_xl; ONE range read: the whole 4096-byte blocks lo / bs2 .. ceil(hi / bs2) - 1 of that trace's 4x4 column *)
Theorem C02_get_trace_window_default_layout : forall H (mask_nth : Z -> outcome Z), wf3 H = true -> default_layout H ->
  forall t lo hi, rd_tracecount H = s_nil H * s_nxl H ->
  0 <= t < s_nil H * s_nxl H -> 0 <= lo < hi -> hi <= s_ns H ->
  exists v, rd_get_trace mask_nth H t (Some lo) (Some hi) false = Return v /\ av_shape v = [hi - lo] /\
    (forall z, 0 <= z < hi - lo -> av_cell v [z] = spec_cell3 H (t / s_nxl H) (t mod s_nxl H) (lo + z)) /\
    av_reads v = [(s_ub3 H * unit_index3 H (t / s_nxl H / 4) (t mod s_nxl H / 4) ((s_bs2 H / 4) * (lo / s_bs2 H)),
                   4096 * ((hi + s_bs2 H - 1) / s_bs2 H - lo / s_bs2 H))].
Proof. exact get_trace_window_default. Qed.
Print Assumptions C02_get_trace_window_default_layout.

(* get_trace(t): the whole trace; one read of the whole chunk (all blocks of the 4x4 column) *)
Theorem C02_get_trace_whole_default_layout : forall H (mask_nth : Z -> outcome Z), wf3 H = true -> default_layout H ->
  forall t, rd_tracecount H = s_nil H * s_nxl H -> 0 <= t < s_nil H * s_nxl H ->
  exists v, rd_get_trace mask_nth H t None None false = Return v /\ av_shape v = [s_ns H] /\
    (forall z, 0 <= z < s_ns H -> av_cell v [z] = spec_cell3 H (t / s_nxl H) (t mod s_nxl H) z) /\
    av_reads v = [(s_ub3 H * unit_index3 H (t / s_nxl H / 4) (t mod s_nxl H / 4) 0, 4096 * (s_PZ H / s_bs2 H))].
Proof. exact get_trace_whole_default. Qed.
Print Assumptions C02_get_trace_whole_default_layout.

(* every shape of the optional window (None = first / last sample: win_lo, win_hi of Proofs/TwoD.v), and also with
   override_unstructured_mapping = True (the way the diagonal readers call get_trace, on any 3D file) *)
Theorem C02_get_trace_default_layout : forall H (mask_nth : Z -> outcome Z), wf3 H = true -> default_layout H ->
  forall t lo hi override_unstructured_mapping,
  override_unstructured_mapping = true \/ rd_tracecount H = s_nil H * s_nxl H ->
  0 <= t < s_nil H * s_nxl H -> 0 <= win_lo lo < win_hi H hi -> win_hi H hi <= s_ns H ->
  exists v, rd_get_trace mask_nth H t lo hi override_unstructured_mapping = Return v /\
    av_shape v = [win_hi H hi - win_lo lo] /\
    (forall z, 0 <= z < win_hi H hi - win_lo lo ->
       av_cell v [z] = spec_cell3 H (t / s_nxl H) (t mod s_nxl H) (win_lo lo + z)) /\
    av_reads v = [(s_ub3 H * unit_index3 H (t / s_nxl H / 4) (t mod s_nxl H / 4)
                                          ((s_bs2 H / 4) * (win_lo lo / s_bs2 H)),
                   4096 * ((win_hi H hi + s_bs2 H - 1) / s_bs2 H - win_lo lo / s_bs2 H))].
Proof. exact get_trace_default. Qed.
Print Assumptions C02_get_trace_default_layout.

(* the hypotheses are satisfiable by a non-trivial input: 6 x 5 traces of 1100 samples at 4 bits per sample
   (blocks of 4 x 4 x 512, three blocks per column); a box and a trace window that cross unit and block boundaries *)
Example C02a_nonvacuous :
  let H := hdr_of_list [2; 1100; 5; 6; 4; 4; 4; 512; 12; 100; 2; 30; 4199] in
  wf3 H = true /\ default_layout H /\ rd_tracecount H = s_nil H * s_nxl H /\
  (0 <= 1 < 6 /\ 6 <= s_nil H) /\ (0 <= 2 < 5 /\ 5 <= s_nxl H) /\ (0 <= 509 < 1031 /\ 1031 <= s_ns H) /\
  0 <= 17 < s_nil H * s_nxl H.
Proof.
  cbv zeta. unfold default_layout. repeat split; vm_compute; try reflexivity; discriminate.
Qed.
