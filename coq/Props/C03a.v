(* C03 (continued): compositions of writers.  ONLY statements.
   Conforms H: the header is well-formed (one block = 4096 bytes), its stated number of disk blocks is exactly the data
   section (padded voxels x bits / 8) and a header array is 4 bytes per grid trace.  The converters establish it
   (their header fields are GENERATED from make_header); the cropper (GENERATED from cropping.py) and the re-blocker
   (GENERATED from convert_to_adv_sgz) preserve it; therefore EVERY finite sequence of writers applied to a converter
   output conforms -- by induction over the sequence, not up to length 3. *)
From Coq Require Import ZArith List Bool Lia.
Import ListNotations.
From SZ Require Import Lib.Py Gen.Reader Spec.Container Model.HeaderW Proofs.ContainerW Proofs.Compose.
Open Scope Z_scope.

Theorem C03_converter_output_conforms : forall rn rd ns n_il n_xl bs0 bs1 bs2 n_arrays venc tc,
  cfg3 rn rd ns n_il n_xl bs0 bs1 bs2 = true ->
  fields_ok rn rd ns n_il n_xl 0 tc bs0 bs1 bs2 n_arrays venc false false = true ->
  Conforms (Hw rn rd ns n_il n_xl bs0 bs1 bs2 n_arrays venc tc).
Proof. exact converter_conforms. Qed.
Print Assumptions C03_converter_output_conforms.

Theorem C03_writer_preserves_conformance : forall H H', Conforms H -> writer_step H H' -> Conforms H'.
Proof. exact crop_preserves. Qed.
Print Assumptions C03_writer_preserves_conformance.

Theorem C03_every_composition_conforms : forall H H', Conforms H -> writer_steps H H' -> Conforms H'.
Proof. exact compositions_conform. Qed.
Print Assumptions C03_every_composition_conforms.

(* non-vacuity: a 2-bit default-layout header conforms and admits a re-blocking step *)
Example C03a_nonvacuous :
  let H := hdr_of_list [2; 9; 70; 65; 2; 4; 4; 1024; 306; 18200; 2; 4550; 4199] in
  wf3 H = true /\ 4096 * s_ndb H = s_data_bytes3 H /\ s_hel H = 4 * (s_nil H * s_nxl H) /\
  SZ.Model.Reblock.rb_guard H = true.
Proof. cbv zeta. repeat split; vm_compute; reflexivity. Qed.
