(* C02 Access-path coherence, continued: get_trace of the GENERAL layout, and BOTH diagonal readers (with their
   cropping arguments) of EVERY 3D layout.  ONLY statements.  Each theorem: for EVERY header with wf3 and every
   in-range argument the GENERATED read method (Gen/Reader.v, translated from read.py / loader.py on every run; the
   length functions from utils.py in Gen/Utils.v) returns an array of the stated shape whose every cell has the
   provenance the SPECIFICATION decoder (Spec/Container.v: spec_cell3) assigns to the requested voxel, and whose
   range reads are exactly the stated ones, in program order.  Proofs (Proofs/Traces.v) are by arithmetic for
   arbitrary sizes, blockshapes and rates -- no enumeration. *)
From Coq Require Import ZArith List Bool Lia.
Import ListNotations.
From SZ Require Import Lib.Py Gen.Utils Gen.Reader Spec.Container Proofs.Default Proofs.TwoD Proofs.General Proofs.Traces.
Open Scope Z_scope.

(* ------------------------------------------------------------------------------------------------------------ *)
(* get_trace, general layout *)

(* trace_blocks spelled out: one read (4096 * block number, 4096) per block (i / bs0, x / bs1, bz) with
   a / bs2 <= bz < ceil(b / bs2), ascending; block number = ((i/bs0) * (PX/bs1) + x/bs1) * (PZ/bs2) + bz *)
Theorem C02_trace_blocks_meaning : forall H i x a b,
  trace_blocks H i x a b =
  map (fun bz => (4096 * (((i / s_bs0 H) * (s_PX H / s_bs1 H) + x / s_bs1 H) * (s_PZ H / s_bs2 H) + bz), 4096))
      (zrange (a / s_bs2 H) ((b + s_bs2 H - 1) / s_bs2 H)).
Proof. exact trace_blocks_unfold. Qed.
Print Assumptions C02_trace_blocks_meaning.

(* get_trace(t, min_sample_id, max_sample_id, override_unstructured_mapping), every shape of the optional window
   (None = first / last sample: win_lo, win_hi of Proofs/TwoD.v), on a structured file or with the override (the way
   the diagonal readers call it): the window of the trace at (t / n_xl, t mod n_xl); reads = the blocks of the
   trace's block column that the window touches *)
Theorem C02_get_trace_general_layout : forall H (mask_nth : Z -> outcome Z), wf3 H = true -> general_layout H ->
  forall t lo hi override_unstructured_mapping,
  override_unstructured_mapping = true \/ rd_tracecount H = s_nil H * s_nxl H ->
  0 <= t < s_nil H * s_nxl H -> 0 <= win_lo lo < win_hi H hi -> win_hi H hi <= s_ns H ->
  exists v, rd_get_trace mask_nth H t lo hi override_unstructured_mapping = Return v /\
    av_shape v = [win_hi H hi - win_lo lo] /\
    (forall z, 0 <= z < win_hi H hi - win_lo lo ->
       av_cell v [z] = spec_cell3 H (t / s_nxl H) (t mod s_nxl H) (win_lo lo + z)) /\
    av_reads v = trace_blocks H (t / s_nxl H) (t mod s_nxl H) (win_lo lo) (win_hi H hi).
Proof. exact get_trace_general. Qed.
Print Assumptions C02_get_trace_general_layout.

(* get_trace(t, lo, hi) on a structured file *)
Theorem C02_get_trace_window_general_layout : forall H (mask_nth : Z -> outcome Z), wf3 H = true -> general_layout H ->
  forall t lo hi, rd_tracecount H = s_nil H * s_nxl H ->
  0 <= t < s_nil H * s_nxl H -> 0 <= lo < hi -> hi <= s_ns H ->
  exists v, rd_get_trace mask_nth H t (Some lo) (Some hi) false = Return v /\ av_shape v = [hi - lo] /\
    (forall z, 0 <= z < hi - lo -> av_cell v [z] = spec_cell3 H (t / s_nxl H) (t mod s_nxl H) (lo + z)) /\
    av_reads v = trace_blocks H (t / s_nxl H) (t mod s_nxl H) lo hi.
Proof. exact get_trace_window_general. Qed.
Print Assumptions C02_get_trace_window_general_layout.

(* get_trace(t): the whole trace; all PZ/bs2 blocks of the block column *)
Theorem C02_get_trace_whole_general_layout : forall H (mask_nth : Z -> outcome Z), wf3 H = true -> general_layout H ->
  forall t, rd_tracecount H = s_nil H * s_nxl H -> 0 <= t < s_nil H * s_nxl H ->
  exists v, rd_get_trace mask_nth H t None None false = Return v /\ av_shape v = [s_ns H] /\
    (forall z, 0 <= z < s_ns H -> av_cell v [z] = spec_cell3 H (t / s_nxl H) (t mod s_nxl H) z) /\
    av_reads v = map (fun bz => (4096 * blk_no H (t / s_nxl H / s_bs0 H) (t mod s_nxl H / s_bs1 H) bz, 4096))
                     (zrange 0 (s_PZ H / s_bs2 H)).
Proof. exact get_trace_whole_general. Qed.
Print Assumptions C02_get_trace_whole_general_layout.

(* ------------------------------------------------------------------------------------------------------------ *)
(* get_trace, every 3D layout, by grid position *)

(* trace_reads: default layout (4,4,N) ONE read over the touched blocks of the 4x4 column; general layout one read
   per touched block *)
Theorem C02_trace_reads_meaning : forall H, wf3 H = true -> forall i x a b,
  (default_layout H -> trace_reads H i x a b =
     [(s_ub3 H * unit_index3 H (i / 4) (x / 4) ((s_bs2 H / 4) * (a / s_bs2 H)),
       4096 * ((b + s_bs2 H - 1) / s_bs2 H - a / s_bs2 H))]) /\
  (general_layout H -> trace_reads H i x a b = trace_blocks H i x a b).
Proof. exact trace_reads_meaning. Qed.
Print Assumptions C02_trace_reads_meaning.

Theorem C02_layout_cases : forall H, default_layout H \/ general_layout H.
Proof. exact default_layout_dec. Qed.
Print Assumptions C02_layout_cases.

(* the trace at inline ordinal i, crossline ordinal x is trace number i * n_xl + x, in either layout *)
Theorem C02_get_trace_at_grid_position : forall H (mask_nth : Z -> outcome Z), wf3 H = true ->
  forall i x lo hi override_unstructured_mapping,
  override_unstructured_mapping = true \/ rd_tracecount H = s_nil H * s_nxl H ->
  0 <= i < s_nil H -> 0 <= x < s_nxl H -> 0 <= win_lo lo < win_hi H hi -> win_hi H hi <= s_ns H ->
  exists v, rd_get_trace mask_nth H (i * s_nxl H + x) lo hi override_unstructured_mapping = Return v /\
    av_shape v = [win_hi H hi - win_lo lo] /\
    (forall z, 0 <= z < win_hi H hi - win_lo lo -> av_cell v [z] = spec_cell3 H i x (win_lo lo + z)) /\
    av_reads v = trace_reads H i x (win_lo lo) (win_hi H hi).
Proof. exact get_trace_at. Qed.
Print Assumptions C02_get_trace_at_grid_position.

(* ------------------------------------------------------------------------------------------------------------ *)
(* the diagonals of the grid and the generated length functions *)

(* the d-th cell (inline ordinal, crossline ordinal) of correlated diagonal cd and anticorrelated diagonal ad *)
Theorem C02_diagonal_cells_meaning : forall cd ad n_xl d,
  cd_il cd d = (if cd >=? 0 then d + cd else d) /\ cd_xl cd d = (if cd >=? 0 then d else d - cd) /\
  ad_il n_xl ad d = (if ad <? n_xl then d else ad - n_xl + 1 + d) /\
  ad_xl n_xl ad d = (if ad <? n_xl then ad - d else n_xl - d - 1).
Proof. exact diag_cells_meaning. Qed.
Print Assumptions C02_diagonal_cells_meaning.

Theorem C02_correlated_cells_on_diagonal : forall cd d, cd_il cd d - cd_xl cd d = cd.
Proof. exact cd_on_diagonal. Qed.
Print Assumptions C02_correlated_cells_on_diagonal.
Theorem C02_anticorrelated_cells_on_diagonal : forall n_xl ad d, ad_il n_xl ad d + ad_xl n_xl ad d = ad.
Proof. exact ad_on_diagonal. Qed.
Print Assumptions C02_anticorrelated_cells_on_diagonal.

(* get_correlated_diagonal_length(cd, n_il, n_xl) counts exactly the cells of the diagonal inside the grid: d is
   below the length iff the d-th cell lies in the n_il x n_xl grid.  For ALL integers cd, n_il, n_xl. *)
Theorem C02_correlated_diagonal_length_exact : forall cd n_il n_xl d,
  0 <= d < get_correlated_diagonal_length cd n_il n_xl <->
  0 <= d /\ 0 <= cd_il cd d < n_il /\ 0 <= cd_xl cd d < n_xl.
Proof. exact cd_length_exact. Qed.
Print Assumptions C02_correlated_diagonal_length_exact.

Theorem C02_anticorrelated_diagonal_length_exact : forall ad n_il n_xl d,
  0 <= d < get_anticorrelated_diagonal_length ad n_il n_xl <->
  0 <= d /\ 0 <= ad_il n_xl ad d < n_il /\ 0 <= ad_xl n_xl ad d < n_xl.
Proof. exact ad_length_exact. Qed.
Print Assumptions C02_anticorrelated_diagonal_length_exact.

(* ... every grid cell of the diagonal is the d-th cell for some d below the length, and for only one d *)
Theorem C02_correlated_diagonal_complete : forall cd n_il n_xl i x, 0 <= i < n_il -> 0 <= x < n_xl -> i - x = cd ->
  exists d, 0 <= d < get_correlated_diagonal_length cd n_il n_xl /\ cd_il cd d = i /\ cd_xl cd d = x.
Proof. exact cd_complete. Qed.
Print Assumptions C02_correlated_diagonal_complete.
Theorem C02_anticorrelated_diagonal_complete : forall ad n_il n_xl i x, 0 <= i < n_il -> 0 <= x < n_xl -> i + x = ad ->
  exists d, 0 <= d < get_anticorrelated_diagonal_length ad n_il n_xl /\ ad_il n_xl ad d = i /\ ad_xl n_xl ad d = x.
Proof. exact ad_complete. Qed.
Print Assumptions C02_anticorrelated_diagonal_complete.
Theorem C02_correlated_diagonal_cells_distinct : forall cd d d', cd_il cd d = cd_il cd d' -> d = d'.
Proof. exact cd_inj. Qed.
Print Assumptions C02_correlated_diagonal_cells_distinct.
Theorem C02_anticorrelated_diagonal_cells_distinct : forall n_xl ad d d', ad_il n_xl ad d = ad_il n_xl ad d' -> d = d'.
Proof. exact ad_inj. Qed.
Print Assumptions C02_anticorrelated_diagonal_cells_distinct.

(* a diagonal with an identifier in the documented range is not empty *)
Theorem C02_correlated_diagonal_length_positive : forall cd n_il n_xl, 1 <= n_il -> 1 <= n_xl ->
  - n_xl < cd < n_il -> 0 < get_correlated_diagonal_length cd n_il n_xl.
Proof. exact cd_length_pos. Qed.
Print Assumptions C02_correlated_diagonal_length_positive.
Theorem C02_anticorrelated_diagonal_length_positive : forall ad n_il n_xl, 1 <= n_il -> 1 <= n_xl ->
  0 <= ad < n_il + n_xl - 1 -> 0 < get_anticorrelated_diagonal_length ad n_il n_xl.
Proof. exact ad_length_pos. Qed.
Print Assumptions C02_anticorrelated_diagonal_length_positive.

(* ------------------------------------------------------------------------------------------------------------ *)
(* read_correlated_diagonal / read_anticorrelated_diagonal, every 3D layout *)

(* no cropping arguments: row d is the whole trace at the d-th cell of the diagonal *)
Theorem C02_correlated_diagonal : forall H (mask_nth : Z -> outcome Z), wf3 H = true ->
  forall cd, - s_nxl H < cd < s_nil H ->
  exists v, rd_read_correlated_diagonal mask_nth H cd None None None None = Return v /\
    av_shape v = [get_correlated_diagonal_length cd (s_nil H) (s_nxl H); s_ns H] /\
    (forall d z, 0 <= d < get_correlated_diagonal_length cd (s_nil H) (s_nxl H) -> 0 <= z < s_ns H ->
       av_cell v [d; z] = spec_cell3 H (cd_il cd d) (cd_xl cd d) z) /\
    av_reads v = flat_map (fun d => trace_reads H (cd_il cd d) (cd_xl cd d) 0 (s_ns H))
                          (zrange 0 (get_correlated_diagonal_length cd (s_nil H) (s_nxl H))).
Proof. exact read_correlated_diagonal_full. Qed.
Print Assumptions C02_correlated_diagonal.

Theorem C02_anticorrelated_diagonal : forall H (mask_nth : Z -> outcome Z), wf3 H = true ->
  forall ad, 0 <= ad < s_nil H + s_nxl H - 1 ->
  exists v, rd_read_anticorrelated_diagonal mask_nth H ad None None None None = Return v /\
    av_shape v = [get_anticorrelated_diagonal_length ad (s_nil H) (s_nxl H); s_ns H] /\
    (forall d z, 0 <= d < get_anticorrelated_diagonal_length ad (s_nil H) (s_nxl H) -> 0 <= z < s_ns H ->
       av_cell v [d; z] = spec_cell3 H (ad_il (s_nxl H) ad d) (ad_xl (s_nxl H) ad d) z) /\
    av_reads v = flat_map (fun d => trace_reads H (ad_il (s_nxl H) ad d) (ad_xl (s_nxl H) ad d) 0 (s_ns H))
                          (zrange 0 (get_anticorrelated_diagonal_length ad (s_nil H) (s_nxl H))).
Proof. exact read_anticorrelated_diagonal_full. Qed.
Print Assumptions C02_anticorrelated_diagonal.

(* all four cropping arguments: cells m0 .. m1-1 of the diagonal, samples z0 .. z1-1 *)
Theorem C02_correlated_diagonal_cropped : forall H (mask_nth : Z -> outcome Z), wf3 H = true ->
  forall cd m0 m1 z0 z1, - s_nxl H < cd < s_nil H ->
  0 <= m0 < m1 -> m1 <= get_correlated_diagonal_length cd (s_nil H) (s_nxl H) -> 0 <= z0 < z1 -> z1 <= s_ns H ->
  exists v, rd_read_correlated_diagonal mask_nth H cd (Some m0) (Some m1) (Some z0) (Some z1) = Return v /\
    av_shape v = [m1 - m0; z1 - z0] /\
    (forall d z, 0 <= d < m1 - m0 -> 0 <= z < z1 - z0 ->
       av_cell v [d; z] = spec_cell3 H (cd_il cd (m0 + d)) (cd_xl cd (m0 + d)) (z0 + z)) /\
    av_reads v = flat_map (fun d => trace_reads H (cd_il cd d) (cd_xl cd d) z0 z1) (zrange m0 m1).
Proof. exact read_correlated_diagonal_cropped. Qed.
Print Assumptions C02_correlated_diagonal_cropped.

Theorem C02_anticorrelated_diagonal_cropped : forall H (mask_nth : Z -> outcome Z), wf3 H = true ->
  forall ad m0 m1 z0 z1, 0 <= ad < s_nil H + s_nxl H - 1 ->
  0 <= m0 < m1 -> m1 <= get_anticorrelated_diagonal_length ad (s_nil H) (s_nxl H) -> 0 <= z0 < z1 -> z1 <= s_ns H ->
  exists v, rd_read_anticorrelated_diagonal mask_nth H ad (Some m0) (Some m1) (Some z0) (Some z1) = Return v /\
    av_shape v = [m1 - m0; z1 - z0] /\
    (forall d z, 0 <= d < m1 - m0 -> 0 <= z < z1 - z0 ->
       av_cell v [d; z] = spec_cell3 H (ad_il (s_nxl H) ad (m0 + d)) (ad_xl (s_nxl H) ad (m0 + d)) (z0 + z)) /\
    av_reads v = flat_map (fun d => trace_reads H (ad_il (s_nxl H) ad d) (ad_xl (s_nxl H) ad d) z0 z1) (zrange m0 m1).
Proof. exact read_anticorrelated_diagonal_cropped. Qed.
Print Assumptions C02_anticorrelated_diagonal_cropped.

(* ALL 16 shapes of the four optional arguments.  The reader uses min/max_cd_idx only when BOTH are given
   (dg_lo, dg_n, crop_ok) and sizes the rows max - min when BOTH sample bounds are given, else n_samples (dg_w),
   while get_trace honours each sample bound on its own (win_lo, win_hi). *)
Theorem C02_cropping_arguments_meaning : forall H mn mx lo hi len,
  dg_lo mn mx = match mn, mx with Some a, Some _ => a | _, _ => 0 end /\
  dg_n mn mx len = match mn, mx with Some a, Some b => b - a | _, _ => len end /\
  (crop_ok mn mx len <-> match mn, mx with Some a, Some b => 0 <= a < b /\ b <= len | _, _ => True end) /\
  dg_w H lo hi = match lo, hi with Some a, Some b => b - a | _, _ => rd_n_samples H end /\
  win_lo lo = match lo with Some a => a | None => 0 end /\
  win_hi H hi = match hi with Some b => b | None => rd_n_samples H end.
Proof. exact crop_meaning. Qed.
Print Assumptions C02_cropping_arguments_meaning.

(* rows and traces have the same length iff both or neither sample bound is given, or the single bound is trivial *)
Theorem C02_row_length_matches_window : forall H lo hi,
  dg_w H lo hi = win_hi H hi - win_lo lo <->
  match lo, hi with Some a, None => a = 0 | None, Some b => b = rd_n_samples H | _, _ => True end.
Proof. exact dg_w_cases. Qed.
Print Assumptions C02_row_length_matches_window.

Theorem C02_correlated_diagonal_all_options : forall H (mask_nth : Z -> outcome Z), wf3 H = true ->
  forall cd mn mx lo hi, - s_nxl H < cd < s_nil H ->
  crop_ok mn mx (get_correlated_diagonal_length cd (s_nil H) (s_nxl H)) ->
  0 <= win_lo lo < win_hi H hi -> win_hi H hi <= s_ns H -> dg_w H lo hi = win_hi H hi - win_lo lo ->
  exists v, rd_read_correlated_diagonal mask_nth H cd mn mx lo hi = Return v /\
    av_shape v = [dg_n mn mx (get_correlated_diagonal_length cd (s_nil H) (s_nxl H)); win_hi H hi - win_lo lo] /\
    (forall d z, 0 <= d < dg_n mn mx (get_correlated_diagonal_length cd (s_nil H) (s_nxl H)) ->
                 0 <= z < win_hi H hi - win_lo lo ->
       av_cell v [d; z] = spec_cell3 H (cd_il cd (dg_lo mn mx + d)) (cd_xl cd (dg_lo mn mx + d)) (win_lo lo + z)) /\
    av_reads v = flat_map (fun d => trace_reads H (cd_il cd d) (cd_xl cd d) (win_lo lo) (win_hi H hi))
                   (zrange (dg_lo mn mx) (dg_lo mn mx + dg_n mn mx (get_correlated_diagonal_length cd (s_nil H) (s_nxl H)))).
Proof. exact read_correlated_diagonal_ok. Qed.
Print Assumptions C02_correlated_diagonal_all_options.

Theorem C02_anticorrelated_diagonal_all_options : forall H (mask_nth : Z -> outcome Z), wf3 H = true ->
  forall ad mn mx lo hi, 0 <= ad < s_nil H + s_nxl H - 1 ->
  crop_ok mn mx (get_anticorrelated_diagonal_length ad (s_nil H) (s_nxl H)) ->
  0 <= win_lo lo < win_hi H hi -> win_hi H hi <= s_ns H -> dg_w H lo hi = win_hi H hi - win_lo lo ->
  exists v, rd_read_anticorrelated_diagonal mask_nth H ad mn mx lo hi = Return v /\
    av_shape v = [dg_n mn mx (get_anticorrelated_diagonal_length ad (s_nil H) (s_nxl H)); win_hi H hi - win_lo lo] /\
    (forall d z, 0 <= d < dg_n mn mx (get_anticorrelated_diagonal_length ad (s_nil H) (s_nxl H)) ->
                 0 <= z < win_hi H hi - win_lo lo ->
       av_cell v [d; z] = spec_cell3 H (ad_il (s_nxl H) ad (dg_lo mn mx + d)) (ad_xl (s_nxl H) ad (dg_lo mn mx + d))
                                     (win_lo lo + z)) /\
    av_reads v = flat_map (fun d => trace_reads H (ad_il (s_nxl H) ad d) (ad_xl (s_nxl H) ad d) (win_lo lo) (win_hi H hi))
                   (zrange (dg_lo mn mx) (dg_lo mn mx + dg_n mn mx (get_anticorrelated_diagonal_length ad (s_nil H) (s_nxl H)))).
Proof. exact read_anticorrelated_diagonal_ok. Qed.
Print Assumptions C02_anticorrelated_diagonal_all_options.

(* the remaining in-range shapes: exactly one sample bound given and not the trivial one.  The rows are n_samples
   long, the traces shorter: the row assignment is refused (numpy: ValueError, could not broadcast) *)
Theorem C02_correlated_diagonal_one_sided_window_refused : forall H (mask_nth : Z -> outcome Z), wf3 H = true ->
  forall cd mn mx lo hi, - s_nxl H < cd < s_nil H ->
  crop_ok mn mx (get_correlated_diagonal_length cd (s_nil H) (s_nxl H)) ->
  0 <= win_lo lo < win_hi H hi -> win_hi H hi <= s_ns H -> dg_w H lo hi <> win_hi H hi - win_lo lo ->
  rd_read_correlated_diagonal mask_nth H cd mn mx lo hi = Raise ValueErr.
Proof. exact read_correlated_diagonal_one_sided. Qed.
Print Assumptions C02_correlated_diagonal_one_sided_window_refused.

Theorem C02_anticorrelated_diagonal_one_sided_window_refused : forall H (mask_nth : Z -> outcome Z), wf3 H = true ->
  forall ad mn mx lo hi, 0 <= ad < s_nil H + s_nxl H - 1 ->
  crop_ok mn mx (get_anticorrelated_diagonal_length ad (s_nil H) (s_nxl H)) ->
  0 <= win_lo lo < win_hi H hi -> win_hi H hi <= s_ns H -> dg_w H lo hi <> win_hi H hi - win_lo lo ->
  rd_read_anticorrelated_diagonal mask_nth H ad mn mx lo hi = Raise ValueErr.
Proof. exact read_anticorrelated_diagonal_one_sided. Qed.
Print Assumptions C02_anticorrelated_diagonal_one_sided_window_refused.

(* ------------------------------------------------------------------------------------------------------------ *)
(* the hypotheses are satisfiable by a non-trivial input: 11 x 13 traces of 300 samples at 4 bits per sample in
   blocks of 8 x 8 x 128 (general layout; 2 x 2 block columns of 3 blocks); trace 100 = (7, 9) with a window that
   crosses both block boundaries; correlated diagonal -5 (8 cells) cropped to cells 2..6; anticorrelated diagonal
   15 (8 cells, second enumeration branch) cropped to cells 1..5; and a default-layout header for the diagonals *)
Example C02c_nonvacuous :
  let H := hdr_of_list [2; 300; 13; 11; 4; 8; 8; 128; 12; 100; 2; 143; 4199] in
  let D := hdr_of_list [2; 1100; 5; 6; 4; 4; 4; 512; 12; 100; 2; 30; 4199] in
  wf3 H = true /\ general_layout H /\ rd_tracecount H = s_nil H * s_nxl H /\
  0 <= 100 < s_nil H * s_nxl H /\ (100 / s_nxl H = 7 /\ 100 mod s_nxl H = 9) /\
  (0 <= win_lo (Some 120) < win_hi H (Some 290) /\ win_hi H (Some 290) <= s_ns H) /\
  trace_blocks H 7 9 120 290 = [(4096 * 3, 4096); (4096 * 4, 4096); (4096 * 5, 4096)] /\
  (- s_nxl H < -5 < s_nil H /\ get_correlated_diagonal_length (-5) (s_nil H) (s_nxl H) = 8 /\
   crop_ok (Some 2) (Some 7) (get_correlated_diagonal_length (-5) (s_nil H) (s_nxl H))) /\
  (0 <= 15 < s_nil H + s_nxl H - 1 /\ get_anticorrelated_diagonal_length 15 (s_nil H) (s_nxl H) = 8 /\
   crop_ok (Some 1) (Some 6) (get_anticorrelated_diagonal_length 15 (s_nil H) (s_nxl H))) /\
  dg_w H (Some 120) (Some 290) = win_hi H (Some 290) - win_lo (Some 120) /\
  dg_w H (Some 120) None <> win_hi H None - win_lo (Some 120) /\
  (wf3 D = true /\ default_layout D /\ - s_nxl D < 2 < s_nil D /\ 0 <= 7 < s_nil D + s_nxl D - 1).
Proof.
  cbv zeta. unfold general_layout, default_layout, crop_ok.
  repeat split; try (vm_compute; first [reflexivity | discriminate | (intros [A B]; discriminate)]).
Qed.
