(* C20 Source-data hash.  ONLY statements; each closed by `exact <lemma>` and followed by Print Assumptions.
   np_* / sf_* / s2_* / io_* / hash_* / reblock_patches come from Gen/Hash.v (regenerated from /repo on every run);
   their meaning (numpy slicing, np.pad, np.zeros + slice assignment, memory patches) is Model/Hash.v.
   SHA-1 is the unknown H : list byte -> digest applied to the concatenation of all update arguments. *)
From Coq Require Import ZArith List Bool.
From Coq Require Import Init.Byte.
Import ListNotations.
From SZ Require Import Lib.Py Gen.Utils Gen.Hash Model.Hash Proofs.Hash.
Open Scope Z_scope.

(* NumPy route: for EVERY shape >= 1 and EVERY positive blockshape the bytes fed to SHA-1 are the float32 bytes of the
   source samples in trace order *)
Theorem C20_numpy_hashed_stream_is_source : forall n_il n_xl n_s bs0 bs1 bs2 (c : cube),
  wf3 n_il n_xl n_s bs0 bs1 bs2 = true ->
  np_hashed n_il n_xl n_s bs0 bs1 bs2 c = ser (cube_stream c n_il n_xl n_s).
Proof. exact (fun n_il n_xl n_s bs0 bs1 bs2 c WF => np_hashed_is_source n_il n_xl n_s bs0 bs1 bs2 WF c). Qed.
Print Assumptions C20_numpy_hashed_stream_is_source.

(* SEG-Y route, both readers (segyio with any conversion window origin; reduced I/O without a window) *)
Theorem C20_segy_hashed_stream_is_source : forall n_il n_xl n_s bs0 bs1 bs2 il0 xl0 r (file : cube),
  wf3 n_il n_xl n_s bs0 bs1 bs2 = true -> reader_ok r il0 xl0 = true ->
  sf_hashed n_il n_xl n_s bs0 bs1 bs2 il0 xl0 r file = ser (cube_stream (window file il0 xl0) n_il n_xl n_s).
Proof. exact (fun n_il n_xl n_s bs0 bs1 bs2 il0 xl0 r file WF => sf_hashed_is_source n_il n_xl n_s bs0 bs1 bs2 WF il0 xl0 r file). Qed.
Print Assumptions C20_segy_hashed_stream_is_source.

(* 2D route: every trace count >= 1 and every positive group size (D3 fixed: only real traces are hashed) *)
Theorem C20_2d_hashed_stream_is_source : forall n_tr n_s bs0 bs1 bs2 (s : section2),
  wf2 n_tr n_s bs0 bs1 bs2 = true ->
  s2_hashed n_tr n_s bs0 bs1 bs2 s = ser (section_stream s n_tr n_s).
Proof. exact (fun n_tr n_s bs0 bs1 bs2 s WF => s2_hashed_is_source n_tr n_s bs0 bs1 bs2 WF s). Qed.
Print Assumptions C20_2d_hashed_stream_is_source.

(* hence the digest does not depend on route, blockshape or reader (the bit rate is not an input of the producers) *)
Theorem C20_digest_independent_of_settings : forall (digest : Type) (H : list byte -> digest)
  n_il n_xl n_s (c : cube) bs0 bs1 bs2 bs0' bs1' bs2' r r',
  wf3 n_il n_xl n_s bs0 bs1 bs2 = true -> wf3 n_il n_xl n_s bs0' bs1' bs2' = true ->
  np_digest digest H n_il n_xl n_s bs0 bs1 bs2 c = np_digest digest H n_il n_xl n_s bs0' bs1' bs2' c /\
  np_digest digest H n_il n_xl n_s bs0 bs1 bs2 c = sf_digest digest H n_il n_xl n_s bs0' bs1' bs2' 0 0 r c /\
  sf_digest digest H n_il n_xl n_s bs0 bs1 bs2 0 0 r c = sf_digest digest H n_il n_xl n_s bs0' bs1' bs2' 0 0 r' c.
Proof. exact digest_independent_of_settings. Qed.
Print Assumptions C20_digest_independent_of_settings.

Theorem C20_digest_is_sha1_of_source : forall (digest : Type) (H : list byte -> digest) n_il n_xl n_s bs0 bs1 bs2 (c : cube),
  wf3 n_il n_xl n_s bs0 bs1 bs2 = true ->
  np_digest digest H n_il n_xl n_s bs0 bs1 bs2 c = H (ser (cube_stream c n_il n_xl n_s)) /\
  forall r il0 xl0 (file : cube), reader_ok r il0 xl0 = true ->
    sf_digest digest H n_il n_xl n_s bs0 bs1 bs2 il0 xl0 r file = H (ser (cube_stream (window file il0 xl0) n_il n_xl n_s)).
Proof. exact digest_is_sha1_of_source. Qed.
Print Assumptions C20_digest_is_sha1_of_source.

Theorem C20_digest_2d_is_sha1_of_source : forall (digest : Type) (H : list byte -> digest) n_tr n_s bs0 bs1 bs2 (s : section2),
  wf2 n_tr n_s bs0 bs1 bs2 = true -> s2_digest digest H n_tr n_s bs0 bs1 bs2 s = H (ser (section_stream s n_tr n_s)).
Proof. exact digest_2d_is_sha1_of_source. Qed.
Print Assumptions C20_digest_2d_is_sha1_of_source.

(* sensitivity: one differing real sample gives different hashed bytes; equal digests would be a SHA-1 collision *)
Theorem C20_hash_sensitive_3d : forall (digest : Type) (H : list byte -> digest) n_il n_xl n_s bs0 bs1 bs2 (c1 c2 : cube) i x z,
  wf3 n_il n_xl n_s bs0 bs1 bs2 = true -> 0 <= i < n_il -> 0 <= x < n_xl -> 0 <= z < n_s -> c1 i x z <> c2 i x z ->
  np_hashed n_il n_xl n_s bs0 bs1 bs2 c1 <> np_hashed n_il n_xl n_s bs0 bs1 bs2 c2 /\
  (np_digest digest H n_il n_xl n_s bs0 bs1 bs2 c1 = np_digest digest H n_il n_xl n_s bs0 bs1 bs2 c2 -> collision digest H).
Proof. exact hash_sensitive_3d. Qed.
Print Assumptions C20_hash_sensitive_3d.

Theorem C20_hash_sensitive_segy : forall (digest : Type) (H : list byte -> digest) n_il n_xl n_s bs0 bs1 bs2 il0 xl0 r (f1 f2 : cube) i x z,
  wf3 n_il n_xl n_s bs0 bs1 bs2 = true -> reader_ok r il0 xl0 = true ->
  0 <= i < n_il -> 0 <= x < n_xl -> 0 <= z < n_s -> f1 (il0 + i) (xl0 + x) z <> f2 (il0 + i) (xl0 + x) z ->
  sf_hashed n_il n_xl n_s bs0 bs1 bs2 il0 xl0 r f1 <> sf_hashed n_il n_xl n_s bs0 bs1 bs2 il0 xl0 r f2 /\
  (sf_digest digest H n_il n_xl n_s bs0 bs1 bs2 il0 xl0 r f1 = sf_digest digest H n_il n_xl n_s bs0 bs1 bs2 il0 xl0 r f2 ->
   collision digest H).
Proof. exact hash_sensitive_segy. Qed.
Print Assumptions C20_hash_sensitive_segy.

Theorem C20_hash_sensitive_2d : forall (digest : Type) (H : list byte -> digest) n_tr n_s bs0 bs1 bs2 (s1 s2 : section2) t z,
  wf2 n_tr n_s bs0 bs1 bs2 = true -> 0 <= t < n_tr -> 0 <= z < n_s -> s1 t z <> s2 t z ->
  s2_hashed n_tr n_s bs0 bs1 bs2 s1 <> s2_hashed n_tr n_s bs0 bs1 bs2 s2 /\
  (s2_digest digest H n_tr n_s bs0 bs1 bs2 s1 = s2_digest digest H n_tr n_s bs0 bs1 bs2 s2 -> collision digest H).
Proof. exact hash_sensitive_2d. Qed.
Print Assumptions C20_hash_sensitive_2d.

(* the 20 digest bytes written by write_hash are the bytes get_source_data_hash returns *)
Theorem C20_stored_hash_roundtrip : forall (m : memory) (d : list byte), length d = 20%nat ->
  mslice (patch m hash_write_offset_segy d) hash_read_lo hash_read_hi = d /\
  mslice (patch m hash_write_offset_numpy d) hash_read_lo hash_read_hi = d.
Proof. exact stored_hash_roundtrip. Qed.
Print Assumptions C20_stored_hash_roundtrip.

(* the re-blocker copies the header and overwrites only the generated ranges, whatever it writes there: the digest
   field of the output equals that of the input *)
Theorem C20_reblock_keeps_hash : forall (m : memory) (ps : list (Z * list byte)), patches_match reblock_patches ps ->
  mslice (apply_patches m ps) hash_read_lo hash_read_hi = mslice m hash_read_lo hash_read_hi.
Proof. exact reblock_keeps_hash. Qed.
Print Assumptions C20_reblock_keeps_hash.

(* non-vacuity: concrete shapes with a partial last plane set / trace group satisfy the hypotheses, and the model then
   hashes exactly the real planes / traces (source plane, crosslines, samples) *)
Example C20_nonvacuous :
  wf3 6 5 3 4 4 8 = true /\ reader_ok Minimal 0 0 = true /\ wf2 21 7 1 16 8 = true /\
  np_plan 6 5 3 4 4 8 = [(0, 5, 3); (1, 5, 3); (2, 5, 3); (3, 5, 3); (4, 5, 3); (5, 5, 3)] /\
  sf_plan 6 5 3 4 4 8 2 1 Segyio = [(2, 5, 3); (3, 5, 3); (4, 5, 3); (5, 5, 3); (6, 5, 3); (7, 5, 3)] /\
  s2_plan 21 7 1 16 8 = [(0, 16, 7); (16, 5, 7)] /\
  patches_match reblock_patches [(44, [x40; x00; x00; x00]); (48, [x40; x00; x00; x00]); (52, [x04; x00; x00; x00]);
                                 (56, [x10; x00; x00; x00])].
Proof. vm_compute. repeat split; reflexivity. Qed.
Print Assumptions C20_nonvacuous.
