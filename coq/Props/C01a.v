(* C01a Write-then-read fidelity, continuation: the input ROUTES other than NumPy and SEG-Y (ZGY, VDS, SGZ as input).
   ONLY statements.

   What is proved.
   (1) Route selection.  SeismicFile.open as GENERATED on this run (Gen/Routes.v: extension table, the two ValueError
       exits, opener and `structured` flag per file type; Model/Routes.v: str.lower / strip('.') on ASCII): an explicit
       Filetype wins, anything else that is not a Filetype is refused, without it the lower-cased dot-stripped extension
       decides through the table and an extension outside the table is refused; ZGY / VDS / SGZ handles are structured.
   (2) Route independence of the data path.  The generator's census (fail closed) establishes that seismic_file_producer,
       io_thread_func, run_conversion_loop, the compressor and the writer never mention the file type and that a plane is
       fetched only as seismicfile.iline[seismicfile.ilines[L]].  Hence the producer of C01 (dims_sf, sf_cell_src over
       Gen/Producer.v) IS the producer of every route, and the C01 theorems apply verbatim (restated as
       C01a_every_route_unit_order).  What remains route-specific is the handle: for EVERY handle that honours the contract
       handle_ok (iline[ilines[i]] is inline i of the source) every cell of the padded cube is the edge-replicated source
       sample (C01a_route_cell_fidelity).
   (3) The contract for the pyzgy / pyvds emulators (external code, hand model emu_iline validated by the harness): it holds
       for every arithmetic axis whose line numbers are all non-negative (C01a_emulator_contract) and FAILS for negative line
       numbers (C01a_emulator_negative_refuted: known finding D53-zgy-negative-inline-number; the accessor takes a negative
       key as a position from the end).
   Assumed, validated by tools/checks/routes.py on every run: the ZFP structural assumption of C01; that pyzgy / pyvds read_inline
   returns the stored plane; emu_iline. *)
From Coq Require Import ZArith List Bool Lia.
Import ListNotations.
From SZ Require Import Lib.Py Gen.Reader Gen.Producer Gen.Routes Spec.Container Model.Writer Model.Routes Proofs.Writer Proofs.Routes.
Open Scope Z_scope.

Theorem C01a_open_explicit_type : forall raw v, open_filetype raw (ArgFt v) = Return v.
Proof. exact open_explicit. Qed.
Print Assumptions C01a_open_explicit_type.

Theorem C01a_open_wrong_type_refused : forall raw, open_filetype raw ArgOther = Raise ValueErr.
Proof. exact open_not_a_filetype. Qed.
Print Assumptions C01a_open_wrong_type_refused.

Theorem C01a_open_by_extension : forall raw v,
  open_filetype raw NoArg = Return v <-> assoc_ext (ext_norm raw) open_ext_table = Some v.
Proof. exact open_by_extension. Qed.
Print Assumptions C01a_open_by_extension.

Theorem C01a_open_unknown_extension_refused : forall raw,
  (forall v, ~ In (ext_norm raw, v) open_ext_table) -> open_filetype raw NoArg = Raise ValueErr.
Proof. exact open_unknown_extension. Qed.
Print Assumptions C01a_open_unknown_extension_refused.

(* the table and the enumeration as they stand in the source: "", sgy, segy -> SEGY = 0; zgy -> 10; vds -> 30; sgz -> 100 *)
Theorem C01a_open_table :
  open_ext_table = [([], 0); ([115; 103; 121], 0); ([115; 101; 103; 121], 0); ([122; 103; 121], 10); ([118; 100; 115], 30);
                    ([115; 103; 122], 100)] /\
  filetype_codes = [0; 10; 30; 100] /\ ft_SEGY = 0 /\ ft_ZGY = 10 /\ ft_VDS = 30 /\ ft_SGZ = 100.
Proof. exact open_table_now. Qed.
Print Assumptions C01a_open_table.

Theorem C01a_structured_flag : forall ft m, In ft [ft_ZGY; ft_VDS; ft_SGZ] -> open_structured_of ft m = Some true.
Proof. exact open_structured_const. Qed.
Print Assumptions C01a_structured_flag.

Theorem C01a_converter_types :
  conv_filetype_segy = Some ft_SEGY /\ conv_filetype_zgy = Some ft_ZGY /\ conv_filetype_vds = Some ft_VDS /\ conv_filetype_base = None.
Proof. exact converter_filetypes. Qed.
Print Assumptions C01a_converter_types.

(* the generated census facts this file rests on *)
Theorem C01a_data_path_never_looks_at_the_file_type : data_path_filetype_free = true /\ io_line_by_number_of_ordinal = true.
Proof. split; reflexivity. Qed.
Print Assumptions C01a_data_path_never_looks_at_the_file_type.

(* unit order / completeness of the data section: the producer is the one of C01 for every file type *)
Theorem C01a_every_route_unit_order : forall H, wf3 H = true ->
  map (uidx H) (dims_sf H) = zrange 0 (data_units H) /\ length (dims_sf H) = Z.to_nat (data_units H).
Proof. intros H W. split; [exact (sf_unit_order H W) | exact (proj2 (written_count H W))]. Qed.
Print Assumptions C01a_every_route_unit_order.

(* every cell of the padded cube = the source sample at the clamped coordinates, for ANY handle honouring the contract *)
Theorem C01a_route_cell_fidelity : forall (Smp : Type) H, wf3 H = true ->
  forall (h : handle Smp) (src : Z -> Z -> Z -> Smp) i x z,
  handle_ok h src (s_nil H) -> 0 <= i < s_PI H -> 0 <= x -> 0 <= z ->
  route_cell h (s_nil H) (s_nxl H) (s_ns H) (s_bs0 H) (s_bs1 H) (s_bs2 H) i x z
  = Some (src (Z.min i (s_nil H - 1)) (Z.min x (s_nxl H - 1)) (Z.min z (s_ns H - 1))).
Proof. exact route_cell_fidelity. Qed.
Print Assumptions C01a_route_cell_fidelity.

(* pyzgy / pyvds emulator: the contract holds on every arithmetic axis (either direction) of non-negative line numbers *)
Theorem C01a_emulator_contract : forall (Smp : Type) (planes : Z -> Z -> Z -> Smp) a d n,
  d <> 0 -> 0 <= a -> 0 <= a + d * (n - 1) -> handle_ok (emu_handle (fun k => a + d * k) n planes) planes n.
Proof. exact emu_handle_ok. Qed.
Print Assumptions C01a_emulator_contract.

(* D53 (known finding): with a negative inline number the emulator hands out another plane (axis -2, 0, .., 8: iline[-2] is
   inline number 4) or raises IndexError (axis -3, -2, .., 1) *)
Theorem C01a_emulator_negative_refuted :
  let h := emu_handle (fun k => -2 + 2 * k) 6 (fun i _ _ => i) in
  h_iline h (h_ilines h 0) 0 0 = Some 3 /\ ~ handle_ok h (fun i _ _ => i) 6.
Proof. exact emu_negative_refuted. Qed.
Print Assumptions C01a_emulator_negative_refuted.

(* a 5 x 6 x 9 cube at 8 bits per voxel in blockshape (4, 4, 256), read through an emulator handle with the descending
   inline axis 11, 9, 7, 5, 3: the contract holds and the padding cell (7, 7, 255) holds source sample (4, 5, 8) *)
Example C01a_nonvacuous :
  let H := hdr_of_list [2; 9; 6; 5; 8; 4; 4; 256; 4; 120; 4; 30; 4199] in
  let h := emu_handle (fun k => 11 + -2 * k) 5 (fun i x z => (i, x, z)) in
  wf3 H = true /\ handle_ok h (fun i x z => (i, x, z)) 5 /\
  route_cell h 5 6 9 4 4 256 7 7 255 = Some (4, 5, 8) /\
  open_show [46; 90; 71; 89] NoArg true = (0, 10, 1, 1) /\ open_show [46; 116; 120; 116] NoArg true = (1, 0, 0, 0).
Proof.
  cbv zeta. split; [vm_compute; reflexivity|]. split; [apply emu_handle_ok; lia|].
  split; [vm_compute; reflexivity|]. split; vm_compute; reflexivity.
Qed.
