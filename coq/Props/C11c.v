(* C11c  Conversion with an inline/crossline window THROUGH THE CLI: the window options of `sgy2sgz` are the window of the
   API call the C11 theorems (Props/C11.v) are about.  ONLY statements.  Gen/Cli.v GENERATED from cli.py; Model/Cli.v the
   hand model of click (assumptions K1-K5 there). *)
From Coq Require Import ZArith List Bool String.
From SZ Require Import Lib.Py Gen.Utils Gen.Window Model.Window Proofs.Window Gen.Cli Model.Cli Proofs.Cli.
Import ListNotations.
Open Scope Z_scope.
Open Scope string_scope.

(* 1. for EVERY option assignment the constructor receives the window (--min-il, --max-il, --min-xl, --max-xl), each bound
   from its own option, an omitted one as None; run() receives --reduce-iops (False if omitted) *)
Theorem C11c_cli_window : forall file_exists input output o,
  file_exists input = true ->
  exists ctor run,
    cli_run (click_std file_exists) cmd_sgy2sgz (sgy2sgz_invocation input output (render o)) = CliCalls ctor run /\
    window_of_call ctor = Some (cli_window o) /\ reduce_iops_of_call run = Some (cli_reduce_iops o).
Proof. exact sgy2sgz_window. Qed.
Print Assumptions C11c_cli_window.

(* 2. that window is in force exactly when all four options occur; `--min-il 0` is a bound (the CLI passes the int 0,
   not None) *)
Theorem C11c_cli_window_accepted_iff : forall o,
  (let '(a, b, c, d) := cli_window o in w_window_accepted a b c d) = true <->
  (o_min_il o <> None /\ o_max_il o <> None /\ o_min_xl o <> None /\ o_max_xl o <> None).
Proof. exact cli_window_accepted_iff. Qed.
Print Assumptions C11c_cli_window_accepted_iff.

(* 3. COMPOSITION with C11: with all four options the CLI conversion is `convert ... (win a b c d) reduce_iops ...` in
   heuristic detection (the CLI cannot choose another mode: header_detection is not passed, the API default applies), and
   equals the conversion of the sub-cube file -- under C11's guard tables_agree (known finding D6-heuristic-corners) *)
Theorem C11c_cli_window_equals_subcube : forall file_exists input output o a b c d,
  file_exists input = true ->
  o_min_il o = Some a -> o_max_il o = Some b -> o_min_xl o = Some c -> o_max_xl o = Some d ->
  exists ctor run W ri,
    cli_run (click_std file_exists) cmd_sgy2sgz (sgy2sgz_invocation input output (render o)) = CliCalls ctor run /\
    window_of_call ctor = Some W /\ reduce_iops_of_call run = Some ri /\
    assoc "header_detection" (call_kw run) = None /\
    assoc "header_detection" api_seismicfileconverter_run_params = Some (Some (VStr "heuristic")) /\
    forall trace (zero_trace : trace) codes st1 st2 bs0 bs1 (S : source trace),
      window_ok trace S a b c d = true -> 2 <= b - a -> 2 <= d - c -> 0 < bs0 ->
      tables_agree trace codes Heuristic S a b c d = true ->
      Window.convert trace zero_trace codes Heuristic W ri st1 bs0 bs1 S =
      Window.convert trace zero_trace codes Heuristic no_window ri st2 bs0 bs1 (restrict trace S a b c d).
Proof. exact cli_window_equals_subcube. Qed.
Print Assumptions C11c_cli_window_equals_subcube.

(* non-vacuity: a window that starts at ordinal 0 on both axes, with the reduced-I/O reader *)
Example C11c_nonvacuous :
  let o := {| o_bpv := None; o_bs := None; o_ri := Some true;
              o_min_il := Some 0; o_max_il := Some 3; o_min_xl := Some 0; o_max_xl := Some 4 |} in
  cli_window o = win 0 3 0 4 /\ cli_reduce_iops o = true /\
  (let '(a, b, c, d) := cli_window o in w_window_accepted a b c d) = true /\
  (let '(a, b, c, d) := cli_window {| o_bpv := None; o_bs := None; o_ri := None; o_min_il := Some 1; o_max_il := Some 3;
                                      o_min_xl := None; o_max_xl := Some 4 |} in w_window_accepted a b c d) = false.
Proof. cbv zeta. repeat split. Qed.
