(* C05 Geometry preservation: axes and counts of the SGZ equal those of the source.  ONLY statements.

   What is modelled.  Gen/Geometry.v (GENERATED from conversion_utils.make_header, utils.gen_coord_list,
   read.SgzReader._parse_coordinates / __init__) says which source quantity goes to which header bytes with which packer and
   how the reader regenerates each axis; Model/Geometry.v gives those expressions their Python / numpy / struct meaning.
   `written c off v`: the file written for source c holds the unsigned value v at header bytes off:off+4.
   `rd_axis E a`: the axis the reader builds from a header E.  A source `cube` is a regular 3-D survey given by
   (start, step, count) per line axis, the element type of the axes (np.intc from segyio, or int64 on the NumPy route), the
   sample axis, and the converted window in ordinals (the whole source for C05: `whole_cube`).

   INTEGER part (inline / crossline axes, counts, trace count, structured flag): universally quantified, unbounded, proved
   with lia and explicit div/mod lemmas.  Line numbers range over ALL int32 values (also -2^31), steps over all non-zero
   integers (for np.intc axes even steps whose int32 subtraction wraps), counts >= 2.

   FLOAT part (sample axis): binary64 is Coq's primitive float (PrimFloat; its operations are listed by Print
   Assumptions: they are kernel primitives, no axiom about them is used).  The statements hold on the FINITE domain
   `zs_dom`, evaluated exhaustively by vm_compute (Proofs/GeometrySweep{A,B,C}.v); the domain is part of each statement:
     A  every interval 1..65535 us with start 0 ms, 2..8 samples;
     B  every interval 1..65535 us with start -32768 ms or 32767 ms, 2..3 samples;
     C  interval 1001 us with every start -32768..32767 ms, 2..3 samples;
     D  intervals {1,3,1001,4000,65535} us x starts {0,-32768,32767,1500} ms, 2..4096 samples.
   Other (interval, start, length) combinations are NOT proved; they are sampled by tools/checks/geometry.py.
   The source's sample axis is segyio's formula (arange(n) * (dt/1000.0)) + t0 (hand model `segy_samples`). *)
From Coq Require Import ZArith List Bool String Lia.
From SZ Require Import Lib.Py Gen.Utils Gen.Version Gen.Reader Gen.Geometry Model.Geometry Proofs.Geometry
                       Proofs.GeometrySweepA Proofs.GeometrySweepB Proofs.GeometrySweepC.
Import ListNotations.
Open Scope Z_scope.

(* --- arithmetic core: unsigned storage + int64 regeneration + astype('intc') gives back a + s*k, for ANY representatives
   S, T of a, s modulo 2^32 (negative numbers read unsigned; increments that wrapped), no bound on k *)
Theorem C05_axis_roundtrip : forall a s k S T,
  (exists q, S = a + two32 * q) -> (exists q, T = s + two32 * q) -> int32_ok (a + s * k) = true ->
  wrap32 (wrap64 (S + wrap64 (T * k))) = a + s * k.
Proof. exact axis_roundtrip. Qed.
Print Assumptions C05_axis_roundtrip.

(* integer np.arange(a, a + s*n, s) has exactly n elements for both signs of s: on the line axes the D14 repair of
   gen_coord_list (start + step * arange(count)) changes nothing *)
Theorem C05_arange_count : forall a s n, s <> 0 -> 0 <= n -> arange3_len a (a + s * n) s = n.
Proof. exact arange_count. Qed.
Print Assumptions C05_arange_count.

(* --- the writer does not raise on the integer geometry fields of a well-formed source *)
Theorem C05_geometry_fields_written : forall c, cube_ok c = true ->
  forall off, In off [8; 12; 20; 24; 32; 36; 68] -> exists v, written c off v.
Proof. exact geometry_fields_written. Qed.
Print Assumptions C05_geometry_fields_written.

(* --- inline numbers: any header E that holds what was written for c regenerates exactly c's inlines (as np.intc) *)
Theorem C05_ilines_preserved : forall c E, cube_ok c = true ->
  written c 12 (e_u32 E 12) -> written c 24 (e_u32 E 24) -> written c 36 (e_u32 E 36) ->
  rd_axis E rd_axis_ilines = Return (map VI32 (c_ilines c)).
Proof. exact ilines_preserved. Qed.
Print Assumptions C05_ilines_preserved.

Theorem C05_xlines_preserved : forall c E, cube_ok c = true ->
  written c 8 (e_u32 E 8) -> written c 20 (e_u32 E 20) -> written c 32 (e_u32 E 32) ->
  rd_axis E rd_axis_xlines = Return (map VI32 (c_xlines c)).
Proof. exact xlines_preserved. Qed.
Print Assumptions C05_xlines_preserved.

(* for a whole-source conversion the reported axes are the source's own *)
Theorem C05_whole_source_axes : forall il0 ils iln xl0 xls xln i32 l,
  c_ilines (whole_cube il0 ils iln xl0 xls xln i32 l) = axis il0 ils iln /\
  c_xlines (whole_cube il0 ils iln xl0 xls xln i32 l) = axis xl0 xls xln.
Proof. exact whole_cube_axes. Qed.

(* --- counts, trace count (rd_* GENERATED from SgzReader.__init__, both sides of the 0.2.1 gate), structured flag *)
Theorem C05_tracecount_preserved : forall c H, cube_ok c = true ->
  written c 8 (h_u32_8 H) -> written c 12 (h_u32_12 H) -> written c 68 (h_u32_68 H) ->
  rd_n_ilines H = c_wiln c /\ rd_n_xlines H = c_wxln c /\ rd_tracecount H = c_wiln c * c_wxln c.
Proof. exact tracecount_preserved. Qed.
Print Assumptions C05_tracecount_preserved.

Theorem C05_structured_iff : forall H,
  rd_structured H = true <-> (rd_blockshape0_v1 H <> 1 /\ rd_tracecount H = rd_n_ilines H * rd_n_xlines H).
Proof. exact structured_iff. Qed.
Theorem C05_structured_preserved : forall c H, cube_ok c = true ->
  written c 8 (h_u32_8 H) -> written c 12 (h_u32_12 H) -> written c 68 (h_u32_68 H) ->
  rd_blockshape0_v1 H <> 1 -> rd_structured H = true.
Proof. exact structured_preserved. Qed.
Print Assumptions C05_structured_preserved.

(* --- sample axis, FINITE DOMAIN zs_dom (see the header comment) *)
(* the raw sweep: EVERY whole-microsecond interval 1..65535 with start time 0 is stored exactly (D14: 741 of them were stored
   one microsecond low) and the first 8 regenerated samples equal segyio's bit for bit *)
Theorem C05_interval_sweep : forallb (fun d => zs_check d 0 8) (zrange 1 65536) = true.
Proof. exact sweep_all_intervals_t0_0. Qed.
Print Assumptions C05_interval_sweep.
Theorem C05_interval_exact : forall d, 1 <= d <= 65535 -> stored_interval (segy_samples d 0 2) = Return d.
Proof. exact interval_exact. Qed.

(* header: sample count, start time (two's complement) and interval are stored exactly *)
Theorem C05_sample_fields_written : forall c d t0 n,
  zs_dom d t0 n = true -> c_samples c = segy_samples d t0 n ->
  written c 4 n /\ written c 16 (u32 t0) /\ written c 28 d.
Proof. exact sample_fields_written. Qed.
Print Assumptions C05_sample_fields_written.

(* any header E of a non-ZGY file (double at 92:100 zero) of a version after 0.1.6 that holds what was written for c
   regenerates a sample axis with the same number of elements and the same 64 bits per element as the source's *)
Theorem C05_zslices_preserved : forall c E d t0 n,
  zs_dom d t0 n = true -> c_samples c = segy_samples d t0 n ->
  written c 4 (e_u32 E 4) -> written c 16 (e_u32 E 16) -> written c 28 (e_u32 E 28) ->
  PrimFloat.eqb (e_f64 E 92) f_zero = true -> (e_ver E >? version_to_encoding 0 1 6 false) = true ->
  exists r, rd_axis E rd_axis_zslices = Return r /\ list_same r (c_samples c) = true.
Proof. exact zslices_preserved. Qed.
Print Assumptions C05_zslices_preserved.

(* for ANY header written after 0.1.6 the regenerated sample axis is a function of the three fields 4:8, 16:20, 28:32 and has
   exactly as many elements as field 4:8 says (the n+1 element defect of D14 cannot recur) *)
Theorem C05_zslices_function_of_header : forall E,
  PrimFloat.eqb (e_f64 E 92) f_zero = true -> (e_ver E >? version_to_encoding 0 1 6 false) = true ->
  rd_axis E rd_axis_zslices = rd_axis (zs_env (e_u32 E 4) (e_u32 E 16) (e_u32 E 28)) rd_axis_zslices.
Proof. exact rd_zslices_char. Qed.
Theorem C05_zslices_elementwise : forall f4 f16 f28, 0 <= f28 < two32 ->
  rd_axis (zs_env f4 f16 f28) rd_axis_zslices = mapM (zs_elem f16 f28) (zrange 0 f4).
Proof. exact rd_zslices_elems. Qed.
Print Assumptions C05_zslices_elementwise.

Example C05_nonvacuous :
  cube_ok nv_cube = true /\ zs_dom 1001 (-32768) 3 = true /\ c_samples nv_cube = segy_samples 1001 (-32768) 3 /\
  (forall off, In off [4; 8; 12; 16; 20; 24; 28; 32; 36; 68] -> written nv_cube off (e_u32 nv_env off)) /\
  PrimFloat.eqb (e_f64 nv_env 92) f_zero = true /\ (e_ver nv_env >? version_to_encoding 0 1 6 false) = true /\
  rd_axis nv_env rd_axis_ilines = Return (map VI32 [-5; -2; 1; 4]) /\
  rd_axis nv_env rd_axis_xlines = Return (map VI32 [2147483647; 2147482647; 2147481647]).
Proof. exact geometry_nonvacuous. Qed.
