(* C07 I/O proportionality, continued: the clauses that are NOT about one cold sample read.  ONLY statements.

   "Opening a reader touches only the header blocks, regenerating a trace header of a regular file costs 4 bytes per
    stored array, and with preload the data section is fetched exactly once and never again; the same counts hold for
    the remote backend" + "chunk LRU sized to hold an arbitrary diagonal".

   An I/O request is (absolute file offset, length).  ox_* : Gen/OpenIO.v, extracted by tools/genx_openio.py from read.py /
   loader.py / utils.py on every run together with a census that nothing else in those modules touches the file.
   rd_* / hdr : the generated reader header (Gen/Reader.v).  get_header_dict / rd_template / sgzfile : the trace-header
   template of C04 (Model/Headers.v over Gen/Headers.v).  lru_fetches : functools.lru_cache as modelled for C15
   (Model/Caches.v: lru_find / lru_hit / lru_miss).  Model: Model/IOCost.v, proofs: Proofs/IOCost.v. *)
From Coq Require Import ZArith List Bool.
Import ListNotations.
From SZ Require Import Lib.Py Gen.Utils Gen.Reader Gen.Headers Gen.OpenIO Model.Headers Model.IOCost Proofs.IOCost.
From SZ Require Model.Caches.
Open Scope Z_scope.

(* (a) SgzReader(file) without preload, for EVERY header with at least one header block: the requests are exactly
   (0, 4096) and, when the file has more than one header block, (0, 4096 * n_header_blocks); no volume is held afterwards;
   every request starts at 0 and ends inside the header blocks [0, data_start); none overlaps the data section.
   (Block 0 of a multi-block header is requested twice: the first read finds out how many blocks there are.) *)
Theorem C07_open_touches_only_header_blocks : forall H, 1 <= rd_n_header_blocks H ->
  open_reader H false
    = ((0, 4096) :: (if rd_n_header_blocks H =? 1 then [] else [(0, 4096 * rd_n_header_blocks H)]), false) /\
  (forall o l, In (o, l) (fst (open_reader H false)) -> o = 0 /\ 0 < l /\ o + l <= rd_data_start_bytes H) /\
  rd_data_start_bytes H = 4096 * rd_n_header_blocks H /\
  data_requests H (fst (open_reader H false)) = [].
Proof. exact open_only_header_blocks. Qed.
Print Assumptions C07_open_touches_only_header_blocks.

(* (c) SgzReader(file, preload=True) that returns (rd_init: the constructor's assertions hold, in particular block_bytes =
   4096): the requests are the header reads followed by ONE request (data_start, 4096 * compressed_data_diskblocks), the
   whole data section; and for EVERY sequence of later events -- sample reads asking the choke point
   _get_compressed_bytes for arbitrary ranges, repeated load_compressed_volume() -- the session issues nothing more: the
   only request of the whole session that overlaps the data section is that one. *)
Theorem C07_preload_reads_data_section_once : forall H evs,
  rd_init H = Return tt -> 1 <= rd_n_header_blocks H -> 1 <= rd_compressed_data_diskblocks H ->
  open_reader H true
    = (open_header_reads (rd_n_header_blocks H) ++ [(rd_data_start_bytes H, 4096 * rd_compressed_data_diskblocks H)], true) /\
  session H true evs = fst (open_reader H true) /\
  data_requests H (session H true evs) = [(rd_data_start_bytes H, 4096 * rd_compressed_data_diskblocks H)].
Proof. exact preload_once. Qed.
Print Assumptions C07_preload_reads_data_section_once.

(* the choke point itself: with the volume in memory no request; otherwise exactly one, at data_start + offset *)
Theorem C07_choke_point : forall ds off len, gcb true ds off len = [] /\ gcb false ds off len = [(ds + off, len)].
Proof. exact (fun ds off len => conj (gcb_in_memory ds off len) (gcb_from_file ds off len)). Qed.
Print Assumptions C07_choke_point.

(* without preload: a session of sample reads whose choke-point requests are L (the av_reads of Props/C07.v, C07a.v,
   C07b.v) issues the header reads and then exactly those ranges shifted by data_start, in order, nothing else *)
Theorem C07_no_preload_session : forall H (L : list (list (Z * Z))),
  session H false (map Sample L)
  = open_header_reads (rd_n_header_blocks H) ++ flat_map (map (fun r => (rd_data_start_bytes H + fst r, snd r))) L.
Proof. exact no_preload_session. Qed.
Print Assumptions C07_no_preload_session.

(* "the same counts hold for the remote backend": a range read is ONE backend request with the same offset and length on
   both backends (seek + read / download_blob) *)
Theorem C07_backends_same_requests : forall o l, ox_request_file o l = (o, l) /\ ox_request_blob o l = (o, l).
Proof. exact backends_agree. Qed.
Print Assumptions C07_backends_same_requests.

(* (b) gen_trace_header(index) on a regular (structured) file F with load_all_headers=False, n elements per stored array
   (hel = 4 n), template tpl as decoded by the reader from the file's own table.  R = the requests, in order.
   - the requested ranges are exactly the 4-byte words  foot + k * stride + 4 * index  of the stored arrays k < count;
   - when the words of a call are memoised (ox_hdr_memo, the D42 repair) or no header word aliases another (as many
     FileOffset words as stored arrays): R is ONE request per stored array, in footer order: 4 bytes per stored array;
   - the unrepaired reader issues one request per FileOffset header word;
   - word k lies inside array k, which lies inside slot k of the footer (C04_offset_in_slot). *)
Theorem C07_header_cost_4_bytes_per_stored_array : forall fields F n index tpl,
  rd_template fields F = Return tpl -> rd_structured F = true ->
  1 <= n -> f_hel F = 4 * n -> 0 <= index < n -> index < f_tracecount F ->
  let stride := hx_rd_padded (f_hel F) in
  let foot := 4096 * f_nhb F + 4096 * f_ndb F in
  let word := fun k => (foot + k * stride + 4 * index, 4) in
  exists R, trace_header_io fields F false index = Return (WordReads R) /\
    (forall r, In r R <-> exists k, 0 <= k < f_count F /\ r = word k) /\
    (ox_hdr_memo = true \/ length (tpl_offsets tpl) = Z.to_nat (f_count F) -> R = map word (zrange 0 (f_count F))) /\
    (ox_hdr_memo = false -> length R = length (tpl_offsets tpl)) /\
    (forall k, 0 <= k < f_count F ->
       foot + k * stride <= fst (word k) /\ fst (word k) + 4 <= foot + k * stride + f_hel F /\
       foot + k * stride + f_hel F <= foot + (k + 1) * stride).
Proof. exact trace_header_cost. Qed.
Print Assumptions C07_header_cost_4_bytes_per_stored_array.

(* the same for ANY table / sizes (not only tables a converter writes), for both values of the memo flag *)
Theorem C07_header_word_reads : forall nhb ndb padded, padded <> 0 -> forall T nha tpl tracecount index (memo : bool),
  get_header_dict T nha nhb ndb padded = Return tpl -> ox_hdr_index_ok index tracecount = true ->
  exists R, gen_trace_header_io memo tracecount true false tpl index = WordReads R /\
    (forall r, In r R <-> exists k, 0 <= k < nha /\ r = word_of_array nhb ndb padded k index) /\
    (memo = true \/ length (tpl_offsets tpl) = Z.to_nat nha ->
       R = map (fun k => word_of_array nhb ndb padded k index) (zrange 0 nha)) /\
    (memo = false -> length R = length (tpl_offsets tpl)).
Proof. exact header_word_reads. Qed.
Print Assumptions C07_header_word_reads.

(* D42 (what "4 bytes per stored array" does not survive without the memo): a regular 2 x 2 SEG-Y survey in which fields 1
   and 5 carry the same values is written by the 'heuristic' converter with 3 stored arrays; the un-memoised
   gen_trace_header(2) requests the word of the shared array twice (16 bytes for 3 arrays), the memoised one once *)
Theorem C07_header_alias_rereads_refuted :
  regular_or_2d (geo_regular 2 2 4) /\ f_count alias_example_file = 3 /\ rd_structured alias_example_file = true /\
  exists tpl, rd_template segy_fields alias_example_file = Return tpl /\
    gen_trace_header_io false 4 true false tpl 2 = WordReads [(12296, 4); (12296, 4); (12808, 4); (13320, 4)] /\
    gen_trace_header_io true 4 true false tpl 2 = WordReads [(12296, 4); (12808, 4); (13320, 4)].
Proof. exact header_alias_rereads_file. Qed.
Print Assumptions C07_header_alias_rereads_refuted.

(* the two generators that look at gen_trace_header (genx_headers for C04, genx_openio here) extracted the same thing *)
Theorem C07_header_generators_agree : forall index tracecount la st v,
  ox_hdr_index_ok index tracecount = hx_rd_index_ok index tracecount /\
  ox_hdr_via_arrays la st = hx_rd_via_arrays la st /\
  ox_hdr_word_read v index = (hx_rd_word_off v index, hx_rd_word_len).
Proof. exact gen_agree. Qed.
Print Assumptions C07_header_generators_agree.

(* (d) one diagonal read (either direction, any diagonal number, any cropping, any sample window s0:s1) of a 3D file with
   n_il x n_xl traces and chunks of bs0 x bs1 traces.  diag_keys = the keys (min_il, min_xl, min_z, max_z) with which
   get_trace consults the chunk LRU, in loop order (ordinals, guards, loop bounds and key expressions GENERATED).
   Equal keys are adjacent: if steps d1 < d3 of the diagonal need the same chunk, so does every step between them ... *)
Theorem C07_diagonal_chunk_keys_contiguous : forall dg n_il n_xl bs0 bs1 bs2 s0 s1 id mn mx ks,
  1 <= n_il -> 1 <= n_xl -> 1 <= bs0 -> 1 <= bs1 ->
  diag_keys dg n_il n_xl bs0 bs1 bs2 s0 s1 id mn mx = Return ks ->
  forall l1 x l2 y l3, ks = l1 ++ x :: l2 ++ y :: l3 -> x = y -> forall z, In z l2 -> z = x.
Proof. exact diagonal_chunk_keys_contiguous. Qed.
Print Assumptions C07_diagonal_chunk_keys_contiguous.

(* ... and every trace ordinal of the loop is in range (no IndexError half way through a diagonal) *)
Theorem C07_diagonal_traces_in_range : forall dg n_il n_xl id mn mx ts, 1 <= n_il -> 1 <= n_xl ->
  diag_traces dg n_il n_xl id mn mx = Return ts -> forall t, In t ts -> ox_tr_index_ok t n_il n_xl = true.
Proof. exact diagonal_traces_in_range. Qed.
Print Assumptions C07_diagonal_traces_in_range.

(* hence an lru_cache of ANY capacity c >= 1 in ANY state (cache: most recent first) runs the wrapped function
   _read_containing_chunk -- the only way a trace read reaches the loader -- at most once per distinct chunk during the
   call: the list of fetched keys has no duplicates and contains only keys of the diagonal; from a cold cache every
   distinct chunk of the diagonal is fetched exactly once *)
Theorem C07_diagonal_no_refetch : forall dg n_il n_xl bs0 bs1 bs2 s0 s1 id mn mx ks (V : Type) (compute : list Z -> V)
                                         (c : nat) (cache : list (list Z * V)),
  1 <= n_il -> 1 <= n_xl -> 1 <= bs0 -> 1 <= bs1 -> (1 <= c)%nat ->
  diag_keys dg n_il n_xl bs0 bs1 bs2 s0 s1 id mn mx = Return ks ->
  NoDup (lru_fetches Caches.zlist_eqb compute c cache ks) /\
  (forall k, In k (lru_fetches Caches.zlist_eqb compute c cache ks) -> In k ks) /\
  (cache = [] -> forall k, In k ks -> In k (lru_fetches Caches.zlist_eqb compute c cache ks)).
Proof. exact diagonal_no_refetch. Qed.
Print Assumptions C07_diagonal_no_refetch.

(* the default capacity get_chunk_cache_size(n_il_chunks, n_xl_chunks) (generated, Gen/Utils.v) always returns, is at
   least 2 (so the hypothesis c >= 1 holds for every reader opened without chunk_cache_size) and at least twice the
   smaller of the two chunk counts *)
Theorem C07_default_chunk_cache_size : forall a b,
  exists c, get_chunk_cache_size a b = Some c /\ 2 <= c /\ 2 * Z.min a b <= c.
Proof. exact chunk_cache_size_total. Qed.
Print Assumptions C07_default_chunk_cache_size.

(* non-vacuity.  A 2-header-block file, 6 x 5 x 1100 samples, (4,4,512) blocks at 4 bits, 12 data blocks: opening requests
   (0,4096), (0,8192); with preload additionally (8192, 49152) and then nothing, whatever is read.  Header cost: a table with
   three stored arrays and no alias, n = 30 traces (stride 512): three requests of 4 bytes.  Diagonal: correlated diagonal
   +1 of a 9 x 10 grid with 4 x 4 chunks has 8 traces in 4 distinct chunks, anticorrelated diagonal 11 cropped to [1, 7)
   has 6 traces in 3 chunks; a 1-entry LRU fetches each of them once. *)
Example C07c_nonvacuous :
  let H := hdr_of_list [2; 1100; 5; 6; 4; 4; 4; 512; 12; 120; 3; 30; 4199] in
  rd_init H = Return tt /\ 1 <= rd_n_header_blocks H /\ 1 <= rd_compressed_data_diskblocks H /\
  fst (open_reader H false) = [(0, 4096); (0, 8192)] /\
  session H true [Sample [(0, 4096); (8192, 4096)]; LoadVolume; Sample [(4096, 8192)]] = [(0, 4096); (0, 8192); (8192, 49152)] /\
  session H false [Sample [(0, 4096); (8192, 4096)]] = [(0, 4096); (0, 8192); (8192, 4096); (16384, 4096)] /\
  (let T := [(1, (0, 1)); (115, (1100, 0)); (189, (0, 189)); (193, (0, 193))] in
   exists tpl, get_header_dict T 3 2 12 (hx_rd_padded 120) = Return tpl /\ length (tpl_offsets tpl) = 3%nat /\
     gen_trace_header_io ox_hdr_memo 30 true false tpl 7 = WordReads [(57372, 4); (57884, 4); (58396, 4)]) /\
  (exists ks, diag_keys Correlated 9 10 4 4 512 0 1100 1 None None = Return ks /\ length ks = 8%nat /\
     lru_fetches Caches.zlist_eqb (fun _ => tt) 1 [] ks = [[0; 0; 0; 1536]; [4; 0; 0; 1536]; [4; 4; 0; 1536]; [8; 4; 0; 1536]]) /\
  (exists ks, diag_keys Anticorrelated 9 10 4 4 512 0 1100 11 (Some 1) (Some 7) = Return ks /\ length ks = 6%nat /\
     lru_fetches Caches.zlist_eqb (fun _ => tt) 1 [] ks = [[0; 8; 0; 1536]; [4; 4; 0; 1536]; [8; 0; 0; 1536]]).
Proof.
  cbv zeta. repeat split; try (vm_compute; reflexivity); try (vm_compute; discriminate).
  - eexists. repeat split; vm_compute; reflexivity.
  - eexists. repeat split; vm_compute; reflexivity.
  - eexists. repeat split; vm_compute; reflexivity.
Qed.
