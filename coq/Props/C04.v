(* C04 Trace-header and file-header preservation through compression.  ONLY statements; each closed by `exact <lemma>`
   and followed by Print Assumptions.

   Headers are a total function  h : trace -> field -> Z  over a list `fields` of field codes; every theorem holds for EVERY
   such list that is strictly ascending, positive and has hx_n_entries (= 89, generated) elements -- in particular for
   segyio's 89 trace-header fields (C04_nonvacuous) -- for EVERY trace count and EVERY header contents.
   `write_geo md fields ge ndb h` is the converter's header path (table, count, captured arrays, footer writes) for a
   regular 3D source (any n_il, n_xl, blockshape[0]) or a 2D source (any n, blockshape[1]); `read_field fields F la t f`
   is `gen_trace_header(t, load_all_headers=la)[f]` of the reader (table decoding, template, footer offset, word read;
   header[t] and variant_headers go through the same two access paths).  Expressions/predicates named hx_* are GENERATED
   from the source on every run (Gen/Headers.v). *)
From Coq Require Import ZArith List Bool.
Import ListNotations.
From SZ Require Import Lib.Py Gen.Headers Model.Headers Proofs.Headers.
Open Scope Z_scope.

(* 'exhaustive': every field of every trace reads back equal to the source *)
Theorem C04_exhaustive_preserves : forall fields ge ndb h la t f,
  wf_fields fields = true -> regular_or_2d ge -> 0 <= t < ge_n ge -> In f fields ->
  read_field fields (write_geo Exhaustive fields ge ndb h) la t f = Return (h t f).
Proof. exact exhaustive_preserves. Qed.
Print Assumptions C04_exhaustive_preserves.

(* 'thorough': the same after the full-pass re-classification and the in-place rewrite of count and table *)
Theorem C04_thorough_preserves : forall fields ge ndb h la t f,
  wf_fields fields = true -> regular_or_2d ge -> 0 <= t < ge_n ge -> In f fields ->
  read_field fields (write_geo Thorough fields ge ndb h) la t f = Return (h t f).
Proof. exact thorough_preserves. Qed.
Print Assumptions C04_thorough_preserves.

(* 'heuristic' under exactly the property's hypothesis: every field constant or first <> last; no two differing fields
   coincide on both the first and the last trace *)
Theorem C04_heuristic_preserves : forall fields ge ndb h la t f,
  wf_fields fields = true -> regular_or_2d ge ->
  const_or_ends_differ fields (ge_n ge) h = true -> no_coinciding_pair fields (ge_n ge) h = true ->
  0 <= t < ge_n ge -> In f fields ->
  read_field fields (write_geo Heuristic fields ge ndb h) la t f = Return (h t f).
Proof. exact heuristic_preserves. Qed.
Print Assumptions C04_heuristic_preserves.

(* the documented limitation (not a defect): a field equal at both ends and varying inside reads back constant *)
Theorem C04_heuristic_refuted :
  exists ge h t f, regular_or_2d ge /\ In f segy_fields /\ 0 <= t < ge_n ge /\
    no_coinciding_pair segy_fields (ge_n ge) h = true /\ h 0 f = h (ge_n ge - 1) f /\
    read_field segy_fields (write_geo Heuristic segy_fields ge 1 h) false t f = Return (h 0 f) /\ h t f <> h 0 f.
Proof. exact heuristic_refuted. Qed.
Print Assumptions C04_heuristic_refuted.

(* 'strip': every field reads zero, whatever the source holds *)
Theorem C04_strip_reads_zero : forall fields ge ndb h la t f,
  wf_fields fields = true -> regular_or_2d ge -> 0 <= t < ge_n ge -> In f fields ->
  read_field fields (write_geo Strip fields ge ndb h) la t f = Return 0.
Proof. exact strip_reads_zero. Qed.
Print Assumptions C04_strip_reads_zero.

(* irregular 3D sources (n traces sorted inline-major on an n_il x n_xl grid with an empty cell, inline numbers non-zero):
   the same four statements through the reader's mask path (stored inline array <> 0, values[mask][t]) *)
Theorem C04_irregular_exhaustive_preserves : forall fields n_il n_xl bs0 n ndb ili xli h la t f,
  wf_fields fields = true -> In hx_rd_mask_field fields ->
  irregular_ok hx_rd_mask_field n_il n_xl bs0 n ili xli h -> 0 <= t < n -> In f fields ->
  read_field fields (write_geo Exhaustive fields (geo_irregular n_il n_xl bs0 n ili xli) ndb h) la t f = Return (h t f).
Proof. exact irregular_exhaustive_preserves. Qed.
Print Assumptions C04_irregular_exhaustive_preserves.
Theorem C04_irregular_thorough_preserves : forall fields n_il n_xl bs0 n ndb ili xli h la t f,
  wf_fields fields = true -> In hx_rd_mask_field fields ->
  irregular_ok hx_rd_mask_field n_il n_xl bs0 n ili xli h -> 0 <= t < n -> In f fields ->
  read_field fields (write_geo Thorough fields (geo_irregular n_il n_xl bs0 n ili xli) ndb h) la t f = Return (h t f).
Proof. exact irregular_thorough_preserves. Qed.
Print Assumptions C04_irregular_thorough_preserves.
(* 'heuristic' additionally needs the inline number to differ between the first and the last trace (else the field the
   mask is read from is not stored) *)
Theorem C04_irregular_heuristic_preserves : forall fields n_il n_xl bs0 n ndb ili xli h la t f,
  wf_fields fields = true -> In hx_rd_mask_field fields ->
  irregular_ok hx_rd_mask_field n_il n_xl bs0 n ili xli h ->
  const_or_ends_differ fields n h = true -> no_coinciding_pair fields n h = true ->
  h 0 hx_rd_mask_field <> h (n - 1) hx_rd_mask_field ->
  0 <= t < n -> In f fields ->
  read_field fields (write_geo Heuristic fields (geo_irregular n_il n_xl bs0 n ili xli) ndb h) la t f = Return (h t f).
Proof. exact irregular_heuristic_preserves. Qed.
Print Assumptions C04_irregular_heuristic_preserves.
Theorem C04_irregular_strip_reads_zero : forall fields n_il n_xl bs0 n ndb ili xli h la t f,
  wf_fields fields = true -> In hx_rd_mask_field fields ->
  irregular_ok hx_rd_mask_field n_il n_xl bs0 n ili xli h -> 0 <= t < n -> In f fields ->
  read_field fields (write_geo Strip fields (geo_irregular n_il n_xl bs0 n ili xli) ndb h) la t f = Return 0.
Proof. exact irregular_strip_reads_zero. Qed.
Print Assumptions C04_irregular_strip_reads_zero.

(* the whole dictionary gen_trace_header(t) *)
Theorem C04_exhaustive_dict : forall fields ge ndb h la t,
  wf_fields fields = true -> regular_or_2d ge -> 0 <= t < ge_n ge ->
  gen_trace_header fields (write_geo Exhaustive fields ge ndb h) la t = Return (map (fun f => (f, h t f)) fields).
Proof. exact exhaustive_dict. Qed.
Print Assumptions C04_exhaustive_dict.
Theorem C04_thorough_dict : forall fields ge ndb h la t,
  wf_fields fields = true -> regular_or_2d ge -> 0 <= t < ge_n ge ->
  gen_trace_header fields (write_geo Thorough fields ge ndb h) la t = Return (map (fun f => (f, h t f)) fields).
Proof. exact thorough_dict. Qed.
Print Assumptions C04_thorough_dict.

(* the 89 x 3 table: to_buffer then HeaderwordInfo(buffer=...) is the identity on tables over the field list *)
Theorem C04_table_roundtrip : forall fields (T : table),
  wf_fields fields = true -> map fst T = fields -> from_buffer fields (to_buffer T) = T.
Proof. exact table_roundtrip_wf. Qed.
Print Assumptions C04_table_roundtrip.

(* footer: the writers' padding and the reader's stride agree for every array length, and for EVERY trace count n the
   word of trace t of stored array k lies inside array k's slot (stride = 4n rounded up to a multiple of 512) *)
Theorem C04_stride_agree : forall len, 1 <= len ->
  len + hx_wr_pad len = hx_rd_padded len /\ hx_np_pad len = hx_wr_pad len.
Proof. exact (fun len H => conj (stride_agree len H) (np_pad_same len)). Qed.
Print Assumptions C04_stride_agree.
Theorem C04_offset_in_slot : forall n k t, 1 <= n -> 0 <= k -> 0 <= t < n ->
  let stride := hx_rd_padded (4 * n) in
  stride mod 512 = 0 /\ 4 * n <= stride < 4 * n + 512 /\
  k * stride <= k * stride + 4 * t /\ k * stride + 4 * t + 4 <= k * stride + 4 * n /\ k * stride + 4 * n <= (k + 1) * stride.
Proof. exact offset_in_slot. Qed.
Print Assumptions C04_offset_in_slot.

(* header capture: in a regular source every trace is visited and stored at its own index; same in 2D *)
Theorem C04_capture_regular : forall n_il n_xl bs0 h f t, 1 <= n_il -> 1 <= n_xl -> 1 <= bs0 -> 0 <= t < n_il * n_xl ->
  capture (traces_regular n_il n_xl bs0) (slot_regular n_xl) h f t = h t f.
Proof.
  exact (fun n_il n_xl bs0 h f t H1 H2 H3 Ht =>
           proj2 (proj2 (proj2 (proj2 (dense_regular n_il n_xl bs0 H1 H2 H3)))) h f t Ht).
Qed.
Print Assumptions C04_capture_regular.
Theorem C04_capture_2d : forall n bs1 h f t, 1 <= n -> 1 <= bs1 -> 0 <= t < n ->
  capture (traces_2d n bs1) (fun t => t) h f t = h t f.
Proof. exact (fun n bs1 h f t H1 H2 Ht => proj2 (proj2 (proj2 (proj2 (dense_2d n bs1 H1 H2)))) h f t Ht). Qed.
Print Assumptions C04_capture_2d.

(* SEG-Y textual + binary header: bytes 4096..7695 of the SGZ header are the first 3600 bytes of the SEG-Y file, whatever
   is written to the header buffer afterwards below byte 4096 (source code, detection code, hash, 'thorough' patches) *)
Theorem C04_file_headers_verbatim : forall (src : list Z) (later : list (Z * list Z)),
  hx_filehdr_read <= Z.of_nat (length src) ->
  (forall w, In w later -> fst w + Z.of_nat (length (snd w)) <= hx_filehdr_lo) ->
  rd_text (header_bytes src later) ++ rd_bin (header_bytes src later) = firstn (Z.to_nat hx_filehdr_read) src /\
  Z.of_nat (length (rd_text (header_bytes src later))) = hx_rd_text_hi - hx_rd_text_lo.
Proof. exact file_headers_verbatim_p. Qed.
Print Assumptions C04_file_headers_verbatim.

(* NumPy route (after the D15 repair): any set of fields, any integer contents; arrays are cast to int32 *)
Theorem C04_numpy_headers_roundtrip : forall fields user n_il n_xl ndb ua ilines xlines la t f,
  wf_fields fields = true -> (forall k, In k user -> In k fields) ->
  In hx_np_default_il fields -> In hx_np_default_xl fields -> 1 <= n_il -> 1 <= n_xl ->
  0 <= t < n_il * n_xl -> In f fields ->
  read_field fields (numpy_write fields user n_il n_xl ndb ua ilines xlines) la t f
  = Return (np_expected user ua ilines xlines n_xl f t).
Proof. exact numpy_headers_roundtrip. Qed.
Print Assumptions C04_numpy_headers_roundtrip.
Theorem C04_numpy_expected : forall user ua ilines xlines n_xl f t,
  (In f user -> i32b (ua f t) = true -> np_expected user ua ilines xlines n_xl f t = ua f t) /\
  (~ In f user -> f = hx_np_default_il -> i32b (ilines (t / n_xl)) = true ->
     np_expected user ua ilines xlines n_xl f t = ilines (t / n_xl)) /\
  (~ In f user -> f = hx_np_default_xl -> i32b (xlines (t mod n_xl)) = true ->
     np_expected user ua ilines xlines n_xl f t = xlines (t mod n_xl)) /\
  (~ In f user -> f <> hx_np_default_il -> f <> hx_np_default_xl -> np_expected user ua ilines xlines n_xl f t = 0).
Proof. exact np_expected_cases. Qed.
Print Assumptions C04_numpy_expected.

(* the hypothesis "header keys are fields of the table" of the NumPy theorem is what the converter asserts (D36 repair;
   generated from the assert statement of NumpyConverter.__init__) *)
Example C04_numpy_keys_guarded : hx_np_keys_in_table = true /\ hx_np_sorted_int32 = true.
Proof. split; reflexivity. Qed.

(* non-vacuity: segyio's 89 fields are a well-formed field list, and a concrete 2 x 3 header set (a duplicated pair of
   varying columns is excluded, negative and extreme values included) meets the heuristic hypothesis *)
Example C04_nonvacuous :
  wf_fields segy_fields = true /\ In 189 segy_fields /\ In 193 segy_fields /\
  regular_or_2d (geo_regular 2 3 4) /\ regular_or_2d (geo_2d 129 16) /\
  let h := hdr_of_cols [(189, [10; 10; 10; 11; 11; 11]); (193, [20; 21; 22; 20; 21; 23]); (115, [8; 8; 8; 8; 8; 8]);
                        (37, [-2147483648; 6; 7; 7; 6; 2147483647]); (29, [-32768; 0; 0; 0; 0; 32767])] in
  const_or_ends_differ segy_fields 6 h = true /\ no_coinciding_pair segy_fields 6 h = true /\
  hdr_i32 segy_fields 6 h = true.
Proof.
  split; [vm_compute; reflexivity|]. split; [vm_compute; tauto|]. split; [vm_compute; tauto|].
  split; [left; exists 2, 3, 4; repeat split; discriminate|].
  split; [right; exists 129, 16; repeat split; discriminate|].
  vm_compute. repeat split; reflexivity.
Qed.
(* an irregular source meeting irregular_ok: 2 x 3 grid, 4 traces at cells 0, 2, 3, 5 (cells 1 and 4 empty) *)
Example C04_nonvacuous_irregular :
  irregular_ok hx_rd_mask_field 2 3 4 4 (fun t => nth (Z.to_nat t) [0; 0; 1; 1] 0) (fun t => nth (Z.to_nat t) [0; 2; 0; 2] 0)
               (hdr_of_cols [(189, [10; 10; 13; 13]); (193, [20; 24; 20; 24])]).
Proof. exact irregular_example_ok. Qed.
