(* C19 Configuration soundness: a setting is either rejected or yields a faithful file.  ONLY statements.
   `resolve c` is what the converters' run() methods compute from (bits_per_voxel, blockshape) BEFORE they create the
   output file (GENERATED: Gen/Config.v from utils.define_blockshape* ; the generator checks the order on the AST of
   conversion.py).  Integers are unbounded, bits_per_voxel is any int, float (exact rational value) or str. *)
From Coq Require Import ZArith QArith List Bool Lia.
From SZ Require Import Lib.Py Lib.PyConfig Gen.Config Model.Config Proofs.Config Gen.Reader Spec.Container Proofs.ConfigHeader.
Import ListNotations.
Open Scope Z_scope.

(* 1. Whatever is accepted is well-formed: the rate is one of 1/4 .. 32, the block dimensions are powers of two >= 4
   (the first is 1 in 2D), dimensions times rate are 32768 bits (one block = 4096 bytes) -- whichever parameter was
   free, for ALL requests; and in 2D the rate is at least 1 (D13 repaired: no unit below ZFP's minimum) *)
Theorem C19_accepted_sound : forall c r, resolve c = Return r -> wf (c_2d c) r /\ supported (c_2d c) (fst r).
Proof. exact accepted_sound. Qed.
Print Assumptions C19_accepted_sound.

(* 2. ... and it keeps every parameter that was not left free (negative bits_per_voxel = reciprocal) *)
Theorem C19_accepted_keeps_fixed : forall c r, resolve c = Return r -> completes c r.
Proof. exact accepted_keeps_fixed. Qed.
Print Assumptions C19_accepted_keeps_fixed.

(* 3. The property's "in particular" clause, PARTIAL (guard: the codec supports the rate, i.e. not 2D below 1 bit):
   every valid fully specified setting is accepted with the same settings *)
Theorem C19_valid_accepted_partial : forall c, valid c ->
  exists v, arg_value (c_bpv c) = Some v /\
    (supported (c_2d c) (rate_of_value v) -> resolve c = Return (rate_of_value v, c_bs c)).
Proof. exact valid_accepted. Qed.
Print Assumptions C19_valid_accepted_partial.

(* 3'. REFUTED outside the guard (known finding D13): a valid 2D setting below 1 bit per voxel is refused, always
   with an exception before any output; witness 2D, 1/2 bit, (1, 256, 256) *)
Theorem C19_valid_accepted_refuted : exists c, valid c /\ resolve c = Raise ValueErr.
Proof. exists d13_witness. exact d13_witness_refuted. Qed.
Print Assumptions C19_valid_accepted_refuted.
Theorem C19_valid_unsupported_rejected : forall c, valid c ->
  forall v, arg_value (c_bpv c) = Some v -> ~ supported (c_2d c) (rate_of_value v) -> exists e, resolve c = Raise e.
Proof. exact valid_unsupported_rejected. Qed.
Print Assumptions C19_valid_unsupported_rejected.

(* 4. Free-parameter resolution is complete, unique and correct: with at most one parameter free, a request that has
   a well-formed supported completion is accepted and returns it; an accepted request returns the ONLY well-formed
   completion; a refused request has none *)
Theorem C19_resolve_complete : forall c r,
  free_count c <= 1 -> (c_2d c = true -> fst (fst (c_bs c)) = 1) ->
  completes c r -> wf (c_2d c) r -> supported (c_2d c) (fst r) ->
  exists q', resolve c = Return (q', snd r) /\ (q' == fst r)%Q.
Proof. exact resolve_complete. Qed.
Print Assumptions C19_resolve_complete.
Theorem C19_resolve_unique : forall c r r',
  free_count c <= 1 -> resolve c = Return r -> completes c r' -> wf (c_2d c) r' ->
  snd r' = snd r /\ (fst r' == fst r)%Q.
Proof. exact resolve_unique. Qed.
Print Assumptions C19_resolve_unique.
Theorem C19_rejected_has_no_completion : forall c e,
  free_count c <= 1 -> (c_2d c = true -> fst (fst (c_bs c)) = 1) -> resolve c = Raise e ->
  forall r, completes c r -> wf (c_2d c) r -> supported (c_2d c) (fst r) -> False.
Proof. exact rejected_has_no_completion. Qed.
Print Assumptions C19_rejected_has_no_completion.

(* 5. Every accepted configuration hands C01-C03 a header that satisfies their hypothesis (Spec.Container.wf3 / wf2:
   block = 4096 bytes, unit a positive whole number of bytes, dimensions multiples of 4) and the reader's rate is
   the configured one *)
Theorem C19_accepted_header_wf3 : forall (H : hdr) r,
  wf false r -> hdr_matches H r -> 1 <= s_nil H -> 1 <= s_nxl H -> 1 <= s_ns H ->
  wf3 H = true /\ (inject_Z (s_rn H) / inject_Z (s_rd H) == fst r)%Q.
Proof. exact accepted_header_wf3. Qed.
Print Assumptions C19_accepted_header_wf3.
Theorem C19_accepted_header_wf2 : forall (H : hdr) r,
  wf true r -> supported true (fst r) -> hdr_matches H r -> 1 <= s_ntr H -> 1 <= s_ns H ->
  wf2 H = true /\ (inject_Z (s_rn H) / inject_Z (s_rd H) == fst r)%Q.
Proof. exact accepted_header_wf2. Qed.
Print Assumptions C19_accepted_header_wf2.

(* 6. Concrete: the defaults of the run() methods resolve to 4 bit, (4, 4, 512) / (1, 16, 512); the settings that the
   unrepaired code turned into unreadable files (D12) are refused *)
Theorem C19_defaults :
  resolve {| c_2d := false; c_bpv := default_bits_per_voxel_segy; c_bs := default_blockshape_3d |} = Return ((4 # 1)%Q, (4, 4, 512)) /\
  resolve {| c_2d := true; c_bpv := default_bits_per_voxel_segy; c_bs := default_blockshape_2d |} = Return ((4 # 1)%Q, (1, 16, 512)) /\
  resolve {| c_2d := false; c_bpv := default_bits_per_voxel_numpy; c_bs := default_blockshape_numpy |} = Return ((4 # 1)%Q, (4, 4, 512)).
Proof. exact defaults_resolve. Qed.
Print Assumptions C19_defaults.
Theorem C19_d12_witnesses_rejected :
  resolve {| c_2d := false; c_bpv := AInt 3; c_bs := (4, 4, -1) |} = Raise ValueErr /\
  resolve {| c_2d := false; c_bpv := AFloat (5404319552844595 # 18014398509481984); c_bs := (4, 4, -1) |} = Raise ValueErr /\
  resolve {| c_2d := false; c_bpv := AInt 4; c_bs := (3, 4, -1) |} = Raise ValueErr /\
  resolve {| c_2d := false; c_bpv := AInt (-1); c_bs := (4, 4, 100) |} = Raise ValueErr /\
  resolve {| c_2d := false; c_bpv := AInt 4; c_bs := (2, 4, -1) |} = Raise ValueErr /\
  resolve {| c_2d := false; c_bpv := AStr (Some (inject_Z (-1))); c_bs := (4, 4, -1) |} = Raise ValueErr /\
  resolve {| c_2d := false; c_bpv := AInt 32; c_bs := (-1, 32, 32) |} = Raise ValueErr /\
  resolve {| c_2d := false; c_bpv := AInt 0; c_bs := (4, 4, -1) |} = Raise ZeroDivErr.
Proof. exact d12_witnesses_rejected. Qed.
Print Assumptions C19_d12_witnesses_rejected.

(* non-vacuity: a valid setting given as a negative reciprocal with non-default dimensions; a request with a free
   dimension whose completion is well-formed; a 2D one *)
Example C19_nonvacuous :
  validb {| c_2d := false; c_bpv := AInt (-2); c_bs := (8, 16, 512) |} = true /\
  supportedb false (rate_of_value (inject_Z (-2))) = true /\
  (let c := {| c_2d := false; c_bpv := AStr (Some (1 # 4)%Q); c_bs := (64, -1, 4) |} in
   free_count c = 1 /\ completes c ((1 # 4)%Q, (64, 512, 4)) /\ wfb false ((1 # 4)%Q, (64, 512, 4)) = true) /\
  (let c := {| c_2d := true; c_bpv := AInt (-1); c_bs := (1, 128, 32) |} in
   free_count c = 1 /\ wfb true ((8 # 1)%Q, (1, 128, 32)) = true /\ supportedb true (8 # 1)%Q = true /\
   resolve c = Return ((32768 # 4096)%Q, (1, 128, 32))).
Proof.
  repeat split; try (vm_compute; reflexivity); try (right; reflexivity); try (left; reflexivity).
  exists (1 # 4)%Q. split; [reflexivity|right; reflexivity].
Qed.
