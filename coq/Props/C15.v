(* C15 History independence: caches, preload and shared handles never change a result.
   ONLY statements; each closed by `exact <lemma>` and followed by Print Assumptions.

   The machine (Model/Caches.v): any number of readers on any files, opened by path (own handle, preload on/off, any
   chunk cache size) or by seismic_zfp.open (1 + 2 (+ 4) readers on ONE handle), closed at any time; the class-level
   functools.lru_cache tables of the loader methods (one table per method for the whole process, key = (loader,
   arguments), capacity = the GENERATED maxsize, emptied by the GENERATED clear lists on close); the per-reader chunk
   LRU; the preloaded volume; the lazy mask / variant_headers / include_padding; the handle position.
   The specification machine has NO memory: it only knows which reader number sits on which file and handle and which
   handles are open; a query is answered by pure_r (file, arguments).

   Everything is quantified over: the files (arbitrary byte strings), the decoded values, the uncached bodies of the
   loader methods (programs of byte-range requests), of _read_containing_chunk and of every public read method
   (programs over the cached primitives).  Single hypothesis: a cached loader body requests bytes inside the data
   section (that is property C07); C15_preload_needs_in_data shows it is needed for preload.

   The machine is configured by the GENERATED flag vh_reload_on_mode_switch (the D18 repair is in the source): on a
   tree without the repair these proofs stop type-checking; C15_D18_unpatched_refuted is the witness that the
   statement is false there. *)
From Coq Require Import ZArith List Bool String Arith Lia.
Import ListNotations.
From SZ Require Import Lib.Py Gen.Caches Model.Caches Proofs.Caches.
Local Open Scope nat_scope.

(* ---- the main statement: for EVERY history the results are those of the memory-less machine *)
Theorem C15_history_independent :
  forall (value : Type) (file_bytes : nat -> list Z) (data_start data_len : nat -> nat) (is2d structured : nat -> bool)
         (template : nat -> list (Z * option nat)) (hel mask_off default_cap : nat -> nat)
         (decode_hdr decode_mask : list Z -> value) (apply_mask : value -> value -> value)
         (lbody : nat -> string -> list Z -> lprog value) (chunk_body : nat -> list Z -> cprog value)
         (query : Type) (method_prog : nat -> query -> rprog value),
  (forall f m args, in_data value file_bytes data_start data_len f (lbody f m args)) ->
  forall ops : list (op query),
    Forall2 agrees
      (spec_run value file_bytes data_start data_len is2d structured template hel mask_off decode_hdr decode_mask
                apply_mask lbody chunk_body query method_prog sinit ops)
      (snd (run value file_bytes data_start data_len is2d structured template hel mask_off default_cap decode_hdr
                decode_mask apply_mask vh_reload_on_mode_switch lbody chunk_body query method_prog init ops)).
Proof. exact history_independent. Qed.
Print Assumptions C15_history_independent.

(* ... EQUAL lists when the specification makes a claim for every operation, i.e. the history has no direct call of the
   public read_variant_headers on an unstructured file (see C15_read_variant_headers_sticky_by_design) *)
Theorem C15_history_independent_total :
  forall (value : Type) (file_bytes : nat -> list Z) (data_start data_len : nat -> nat) (is2d structured : nat -> bool)
         (template : nat -> list (Z * option nat)) (hel mask_off default_cap : nat -> nat)
         (decode_hdr decode_mask : list Z -> value) (apply_mask : value -> value -> value)
         (lbody : nat -> string -> list Z -> lprog value) (chunk_body : nat -> list Z -> cprog value)
         (query : Type) (method_prog : nat -> query -> rprog value),
  (forall f m args, in_data value file_bytes data_start data_len f (lbody f m args)) ->
  forall ops : list (op query),
    (forall x, In x (spec_run value file_bytes data_start data_len is2d structured template hel mask_off decode_hdr
                              decode_mask apply_mask lbody chunk_body query method_prog sinit ops) -> x <> None) ->
    map Some (snd (run value file_bytes data_start data_len is2d structured template hel mask_off default_cap decode_hdr
                       decode_mask apply_mask vh_reload_on_mode_switch lbody chunk_body query method_prog init ops))
    = spec_run value file_bytes data_start data_len is2d structured template hel mask_off decode_hdr decode_mask
               apply_mask lbody chunk_body query method_prog sinit ops.
Proof. exact history_independent_total. Qed.
Print Assumptions C15_history_independent_total.

(* ---- the invariant: in every reachable state every cached value equals the pure function of its key *)
Theorem C15_cache_sound_reachable :
  forall (value : Type) (file_bytes : nat -> list Z) (data_start data_len : nat -> nat) (is2d structured : nat -> bool)
         (template : nat -> list (Z * option nat)) (hel mask_off default_cap : nat -> nat)
         (decode_hdr decode_mask : list Z -> value) (apply_mask : value -> value -> value)
         (lbody : nat -> string -> list Z -> lprog value) (chunk_body : nat -> list Z -> cprog value)
         (query : Type) (method_prog : nat -> query -> rprog value),
  (forall f m args, in_data value file_bytes data_start data_len f (lbody f m args)) ->
  forall ops : list (op query),
    cache_sound value file_bytes data_start data_len is2d structured template hel mask_off decode_hdr decode_mask
                apply_mask lbody chunk_body
      (fst (run value file_bytes data_start data_len is2d structured template hel mask_off default_cap decode_hdr
                decode_mask apply_mask vh_reload_on_mode_switch lbody chunk_body query method_prog init ops)).
Proof. exact reachable_sound. Qed.
Print Assumptions C15_cache_sound_reachable.

(* ... preserved by every operation, which answers as the specification does (one step of the induction) *)
Theorem C15_step_preserves :
  forall (value : Type) (file_bytes : nat -> list Z) (data_start data_len : nat -> nat) (is2d structured : nat -> bool)
         (template : nat -> list (Z * option nat)) (hel mask_off default_cap : nat -> nat)
         (decode_hdr decode_mask : list Z -> value) (apply_mask : value -> value -> value)
         (lbody : nat -> string -> list Z -> lprog value) (chunk_body : nat -> list Z -> cprog value)
         (query : Type) (method_prog : nat -> query -> rprog value),
  (forall f m args, in_data value file_bytes data_start data_len f (lbody f m args)) ->
  forall st s o st' res s' sres,
    cache_sound value file_bytes data_start data_len is2d structured template hel mask_off decode_hdr decode_mask
                apply_mask lbody chunk_body st ->
    sim value st s ->
    step value file_bytes data_start data_len is2d structured template hel mask_off default_cap decode_hdr decode_mask
         apply_mask vh_reload_on_mode_switch lbody chunk_body query method_prog st o = (st', res) ->
    spec_step value file_bytes data_start data_len is2d structured template hel mask_off decode_hdr decode_mask
              apply_mask lbody chunk_body query method_prog s o = (s', sres) ->
    cache_sound value file_bytes data_start data_len is2d structured template hel mask_off decode_hdr decode_mask
                apply_mask lbody chunk_body st' /\ sim value st' s' /\ agrees sres res.
Proof. exact step_ok. Qed.
Print Assumptions C15_step_preserves.

(* ---- LRU discipline: no duplicate keys and never more entries than the capacity, in every reachable state, for every
   capacity (class-level tables: the generated maxsize; chunk tables: whatever chunk_cache_size the reader was given) *)
Theorem C15_lru_capacity :
  forall (value : Type) (file_bytes : nat -> list Z) (data_start data_len : nat -> nat) (is2d structured : nat -> bool)
         (template : nat -> list (Z * option nat)) (hel mask_off default_cap : nat -> nat)
         (decode_hdr decode_mask : list Z -> value) (apply_mask : value -> value -> value)
         (lbody : nat -> string -> list Z -> lprog value) (chunk_body : nat -> list Z -> cprog value)
         (query : Type) (method_prog : nat -> query -> rprog value),
  (forall f m args, in_data value file_bytes data_start data_len f (lbody f m args)) ->
  forall ops : list (op query),
    let st := fst (run value file_bytes data_start data_len is2d structured template hel mask_off default_cap decode_hdr
                       decode_mask apply_mask vh_reload_on_mode_switch lbody chunk_body query method_prog init ops) in
    (forall m, NoDup (map fst (slots st m)) /\ List.length (slots st m) <= maxsize_of m) /\
    (forall rid r, readers st rid = Some r ->
       NoDup (map fst (d_chunks (dyn st rid))) /\ List.length (d_chunks (dyn st rid)) <= r_cap r).
Proof. exact lru_capacity. Qed.
Print Assumptions C15_lru_capacity.
Theorem C15_lru_hit : forall (K V : Type) (keqb : K -> K -> bool), (forall a b, keqb a b = true <-> a = b) ->
  forall c k v (l : list (K * V)), lru_shape K V c l -> lru_find keqb k l = Some v ->
    In (k, v) l /\ lru_shape K V c (lru_hit keqb k v l).
Proof. intros K V keqb H c k v l S F. split; [exact (lru_find_In K V keqb H k l v F) | exact (lru_hit_shape K V keqb H c k v l S F)]. Qed.
Print Assumptions C15_lru_hit.
Theorem C15_lru_miss : forall (K V : Type) (keqb : K -> K -> bool), (forall a b, keqb a b = true <-> a = b) ->
  forall c k v (l : list (K * V)), lru_shape K V c l -> lru_find keqb k l = None -> lru_shape K V c (lru_miss c k v l).
Proof. exact lru_miss_shape. Qed.
Print Assumptions C15_lru_miss.

(* ---- the shared handle: seek-then-read makes the position irrelevant *)
Theorem C15_position_irrelevant : forall (file_bytes : nat -> list Z) (h1 h2 : handle) (off len : nat),
  h_file h1 = h_file h2 -> h_open h1 = true -> h_open h2 = true ->
  fst (read_range_file file_bytes h1 off len) = fst (read_range_file file_bytes h2 off len).
Proof. exact position_irrelevant. Qed.
Print Assumptions C15_position_irrelevant.
(* ---- preload: the in-memory volume gives the same bytes as the file, for requests inside the data section *)
Theorem C15_preload_irrelevant : forall (value : Type) (file_bytes : nat -> list Z) (data_start data_len : nat -> nat)
    (p : lprog value) (h : handle) (v : list Z),
  h_open h = true -> read_range file_bytes (h_file h) (data_start (h_file h)) (data_len (h_file h)) = Return v ->
  in_data value file_bytes data_start data_len (h_file h) p ->
  fst (exec_l value file_bytes data_start (Some v) h p) = fst (exec_l value file_bytes data_start None h p).
Proof. exact preload_irrelevant. Qed.
Print Assumptions C15_preload_irrelevant.

(* ---- the generated tables the model consumes, and the D18 repair being present in the source *)
Theorem C15_generated_tables :
  forallb key_starts_with_self cached_methods = true /\
  clear_cache_2d = map method_name cached_methods_2d /\ clear_cache_3d = map method_name cached_methods_3d /\
  map (fun x => snd (fst x)) cached_methods = [1; 1; 1; 1; 1; 1; 1; 1] /\
  cached_reads_mutable = ["compressed_volume"%string] /\ chunk_reads_mutable = [] /\
  chunk_key_params = ["ref_il"; "ref_xl"; "min_z"; "max_z"]%string /\
  vh_reload_on_mode_switch = true /\
  users_include_padding = ["__init__"; "_load_variant_headers"; "clear_variant_headers"; "read_variant_headers"]%string.
Proof. repeat split; reflexivity. Qed.
Print Assumptions C15_generated_tables.
Theorem C15_generated_tables_full : cached_methods_base = [] /\ List.length cached_methods_2d = 2 /\ List.length cached_methods_3d = 6.
Proof. pose proof gen_tie_tables as H. repeat split; reflexivity. Qed.
Print Assumptions C15_generated_tables_full.

(* ================================================================================================ examples
   a concrete world: file 0 regular 3D, file 1 irregular 3D, file 2 2D; blockshape (4,4,.); two stored header fields *)
Definition W_bs (f : nat) : Z * Z := (4, 4)%Z.
Definition W_2d (f : nat) : bool := Nat.eqb f 2.
Definition W_structured (f : nat) : bool := Nat.eqb f 0.
Definition W_stored (f : nat) : list Z := [189; 193]%Z.
Definition trun (patched : bool) := Toy.run W_bs W_2d W_structured W_stored (fun _ => 4) patched.
Definition tspec := Toy.spec W_bs W_2d W_structured W_stored.
Import Toy.
Local Open Scope Z_scope.

(* a mixed history on the irregular file: a preloading reader with chunk cache size 1, an emulator (7 readers on one
   handle), alternating chunk keys, class-level tables shared by the readers, header reads in both padding modes,
   a close in between (clearing the tables for everybody), reads on the closed reader *)
Definition h_mixed : list (op (list acc)) :=
  [ Open 1 true (Some 1%nat); OpenEmu 1 None; Open 1 false (Some 2%nat);
    Query 0 [AMask; AChunk [0; 0; 0; 32]]; Query 0 [AMask; AChunk [0; 4; 0; 32]]; Query 0 [AMask; AChunk [0; 0; 0; 32]];
    Query 2 [AMask; AChunk [0; 0; 0; 32]]; Query 8 [ALoad "read_and_decompress_il_set" [0]];
    Query 4 [ALoad "read_and_decompress_il_set" [0]]; Query 8 [ALoad "read_and_decompress_il_set" [0]];
    Query 1 [AHdrOne true 189]; Query 1 [AHdrAll false 189; AHdrAll false 193]; Query 1 [AHdrOne true 193];
    Query 3 [AHdrAll false 189]; Close 8; Query 0 [ALoad "read_and_decompress_il_set" [4]];
    Query 8 [ALoad "read_and_decompress_il_set" [4]]; Cmd 0 ClearCache; Cmd 1 ClearVH; Query 1 [AHdrAll false 193];
    Close 3; Query 1 [AHdrOne true 189]; Query 0 [ARaw 0 4; AChunk [0; 4; 0; 32]] ].
Example C15_nonvacuous :
  (forall f m args, in_data Toy.value Toy.file_bytes (fun _ => 8%nat) (fun _ => 32%nat) f (Toy.lbody f m args)) /\
  map Some (snd (trun true h_mixed)) = tspec h_mixed /\
  nth 11 (snd (trun true h_mixed)) NotOpen = RVal (Return [1; 1; 1; 1; 1; 1; 1; 1]) /\
  nth 12 (snd (trun true h_mixed)) NotOpen = RVal (Return [1; 1; 1; 1]) /\
  nth 16 (snd (trun true h_mixed)) NotOpen = NotOpen /\ nth 21 (snd (trun true h_mixed)) (RVal (Return [])) = NotOpen.
Proof.
  split; [intros f m args; cbn; split; [lia | exact I]|]. vm_compute. repeat split; reflexivity.
Qed.

(* D18 on the tree WITHOUT the repair (flag false): get_tracefield_values then gen_trace_header on an irregular file
   ends in AssertionError; a fresh reader returns the header array; with the repair so does the used reader *)
Example C15_D18_unpatched_refuted :
  let ops := [Open 1 false (Some 2%nat); Query 0 [AHdrOne true 189]; Query 0 [AHdrAll false 189]] in
  nth 2 (snd (trun false ops)) NotOpen = RVal (Raise AssertErr) /\
  nth 2 (tspec ops) None = Some (RVal (Return [1; 1; 1; 1; 1; 1; 1; 1])) /\
  nth 2 (snd (trun true ops)) NotOpen = RVal (Return [1; 1; 1; 1; 1; 1; 1; 1]).
Proof. vm_compute. repeat split; reflexivity. Qed.

(* the PUBLIC read_variant_headers keeps its documented sticky mode (tests/test_read.py::
   test_read_variant_headers_padding_mismatch): its own outcome depends on the history; the specification makes no
   claim there, and C15_history_independent shows that every value-returning read stays correct around it *)
Example C15_read_variant_headers_sticky_by_design :
  let ops := [Open 1 false None; Cmd 0 (ReadVH true None); Cmd 0 (ReadVH false None); Query 0 [AHdrAll false 189]] in
  nth 2 (snd (trun true ops)) NotOpen = RUnit (Raise AssertErr) /\ nth 2 (tspec ops) (Some NotOpen) = None /\
  Some (nth 3 (snd (trun true ops)) NotOpen) = nth 3 (tspec ops) None.
Proof. vm_compute. repeat split; reflexivity. Qed.

(* why bodies_in_data is needed: with preload a request reaching past the data section is silently truncated (a
   Python slice), without preload the file answers in full *)
Example C15_preload_needs_in_data :
  let h := mkH 1 0 true in
  let p := LGet 30 4 (fun b => LRet b) in
  fst (exec_l Toy.value Toy.file_bytes (fun _ => 8%nat) (Some (repeat 1 32)) h p) = Return [1; 1] /\
  fst (exec_l Toy.value Toy.file_bytes (fun _ => 8%nat) None h p) = Return [1; 1; 1; 1].
Proof. vm_compute. split; reflexivity. Qed.
