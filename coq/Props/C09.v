(* C09 2D lines: trace order, headers and sample fidelity.  ONLY statements; each closed by `exact <lemma>` and followed
   by Print Assumptions.

   Reader side (GENERATED rd_* / ld_* of Gen/Reader.v against the SPECIFICATION decoder spec_cell2 of Spec/Container.v):
   for EVERY header with wf2 (any sizes, any blockshape (1,b1,b2), any rate with a whole number of bytes per unit) written
   by a version newer than 0.2.1 (ver_gt_021: the trace-count field is in use), read_subplane and get_trace (fast path
   b1 = 4 and general path) return exactly the specification's cells of the requested window / trace and issue exactly the
   range reads of the blocks intersected; the reader reports the header's trace count and sample count; every volume-style
   read is refused with the dimensionality error.  get_trace(i, lo, hi) returns exactly the samples lo..hi-1 of trace i
   (None = whole trace) and refuses every other window (D31, fixed in /repo 359fe14).

   Writer side (GENERATED Gen/Producer2d.v + glue Model/Producer2d.v, codec `enc` abstract): the k-th unit code of the
   data section is enc of the 4x4 unit (xu, zu), unit_index2 H xu zu = k, of the section extended by replicating the
   last trace and the last sample; the stored header position of trace t is t; the header is well-formed and carries
   the source's counts and no 3D geometry; combined: write_then_read_2d. *)
From Coq Require Import ZArith List Bool Lia.
Import ListNotations.
From SZ Require Import Lib.Py Gen.Utils Gen.Version Gen.Reader Gen.Producer2d Spec.Container
  Model.Producer2d Proofs.TwoD Proofs.Producer2d.
Open Scope Z_scope.

(* ---- reader ---- *)
Theorem C09_subplane_coherent : forall H, wf2v H = true -> forall t0 t1 z0 z1,
  0 <= t0 < t1 -> t1 <= s_ntr H -> 0 <= z0 < z1 -> z1 <= s_ns H ->
  exists v, rd_read_subplane H t0 t1 z0 z1 false = Return v /\
    av_shape v = [t1 - t0; z1 - z0] /\
    (forall t z, 0 <= t < t1 - t0 -> 0 <= z < z1 - z0 -> av_cell v [t; z] = spec_cell2 H (t0 + t) (z0 + z)) /\
    av_reads v = flat_map (fun x => map (fun z => (4096 * (x * nbz2 H + z), 4096))
                                       (zrange (z0 / s_bs2 H) ((z1 + s_bs2 H - 1) / s_bs2 H)))
                          (zrange (t0 / s_bs1 H) ((t1 + s_bs1 H - 1) / s_bs1 H)).
Proof. exact subplane_coherent. Qed.
Print Assumptions C09_subplane_coherent.

(* the read (4096 * (x * nbz + z), 4096) is block (x, z): it starts where the specification puts the block's first unit *)
Theorem C09_block_offset : forall H, wf2v H = true -> forall x z,
  4096 * (x * nbz2 H + z) = s_ub2 H * unit_index2 H (s_bs1 H * x / 4) (s_bs2 H * z / 4).
Proof. exact block_offset_spec. Qed.
Print Assumptions C09_block_offset.

(* get_trace(i, lo, hi): win_lo / win_hi are the effective window (None = from the first / to the last sample) *)
Theorem C09_get_trace_fast : forall H, wf2v H = true -> forall mask_nth i lo hi ov, s_bs1 H = 4 -> 0 <= i < s_ntr H ->
  0 <= win_lo lo < win_hi H hi -> win_hi H hi <= s_ns H ->
  exists v, rd_get_trace mask_nth H i lo hi ov = Return v /\ av_shape v = [win_hi H hi - win_lo lo] /\
    (forall z, 0 <= z < win_hi H hi - win_lo lo -> av_cell v [z] = spec_cell2 H i (win_lo lo + z)) /\
    av_reads v = [(4096 * (i / 4 * nbz2 H), 4096 * nbz2 H)].
Proof. exact get_trace_2d_fast. Qed.
Print Assumptions C09_get_trace_fast.

Theorem C09_get_trace_general : forall H, wf2v H = true -> forall mask_nth i lo hi ov, s_bs1 H <> 4 -> 0 <= i < s_ntr H ->
  0 <= win_lo lo < win_hi H hi -> win_hi H hi <= s_ns H ->
  exists v, rd_get_trace mask_nth H i lo hi ov = Return v /\ av_shape v = [win_hi H hi - win_lo lo] /\
    (forall z, 0 <= z < win_hi H hi - win_lo lo -> av_cell v [z] = spec_cell2 H i (win_lo lo + z)) /\
    av_reads v = map (fun z => (4096 * (i / s_bs1 H * nbz2 H + z), 4096)) (zrange 0 (nbz2 H)).
Proof. exact get_trace_2d_general. Qed.
Print Assumptions C09_get_trace_general.

(* without a window the whole trace is meant *)
Theorem C09_window_none : forall H, wf2v H = true -> win_lo None = 0 /\ win_hi H None = s_ns H.
Proof. exact win_none. Qed.
Print Assumptions C09_window_none.

(* a window that is not 0 <= lo < hi <= n_samples is refused *)
Theorem C09_get_trace_window_refused : forall H, wf2v H = true -> forall mask_nth i lo hi ov, 0 <= i < s_ntr H ->
  ~ (0 <= win_lo lo < win_hi H hi /\ win_hi H hi <= s_ns H) -> rd_get_trace mask_nth H i lo hi ov = Raise IndexErr.
Proof. exact get_trace_2d_window_oob. Qed.
Print Assumptions C09_get_trace_window_refused.

Theorem C09_counts : forall H, wf2v H = true ->
  rd_tracecount H = s_ntr H /\ rd_n_samples H = s_ns H /\ rd_init H = Return tt.
Proof. exact counts_2d. Qed.
Print Assumptions C09_counts.

Theorem C09_volume_reads_refused : forall H, wf2v H = true -> forall mask_nth,
  (forall il, rd_read_inline H il = Raise WrongDim) /\ (forall x, rd_read_crossline H x = Raise WrongDim) /\
  (forall z, rd_read_zslice H z = Raise WrongDim) /\
  (forall a b c d e f ap mt, rd_read_subvolume H a b c d e f ap mt = Raise WrongDim) /\
  rd_read_volume H = Raise WrongDim /\
  (forall cd a b lo hi, rd_read_correlated_diagonal mask_nth H cd a b lo hi = Raise WrongDim) /\
  (forall ad a b lo hi, rd_read_anticorrelated_diagonal mask_nth H ad a b lo hi = Raise WrongDim).
Proof. exact volume_reads_refused_2d. Qed.
Print Assumptions C09_volume_reads_refused.

(* ---- writer ---- *)
Theorem C09_producer_2d_conform : forall (sample code : Type) (zero : sample) (enc : list sample -> code)
  (src : Z -> Z -> sample) H, wf2 H = true -> forall xu zu, 0 <= xu < s_PT H / 4 -> 0 <= zu < s_PZ H / 4 ->
  nth_error (written sample code zero enc src (s_ntr H) (s_ns H) (s_bs1 H) (s_bs2 H)) (Z.to_nat (unit_index2 H xu zu)) =
  Some (enc (unit_of (extend sample src (s_ntr H) (s_ns H)) xu zu)).
Proof. exact producer_2d_conform. Qed.
Print Assumptions C09_producer_2d_conform.

Theorem C09_producer_2d_length : forall (sample code : Type) (zero : sample) (enc : list sample -> code)
  (src : Z -> Z -> sample) H, wf2 H = true ->
  Z.of_nat (length (written sample code zero enc src (s_ntr H) (s_ns H) (s_bs1 H) (s_bs2 H))) = (s_PT H / 4) * (s_PZ H / 4).
Proof. exact producer_2d_length. Qed.
Print Assumptions C09_producer_2d_length.

Theorem C09_headers_in_place : forall H, wf2 H = true ->
  (forall p, In p (all_hdr_stores (s_ntr H) (s_ns H) (s_bs1 H) (s_bs2 H)) -> fst p = snd p /\ 0 <= fst p < s_ntr H) /\
  (forall t, 0 <= t < s_ntr H -> In (t, t) (all_hdr_stores (s_ntr H) (s_ns H) (s_bs1 H) (s_bs2 H))).
Proof. exact (fun H W => conj (hdr_stores_identity H W) (hdr_stores_complete H W)). Qed.
Print Assumptions C09_headers_in_place.

Theorem C09_header_2d_layout : forall n ns rate bs1 bs2 nha ver, wfp2 n ns rate bs1 bs2 = true ->
  let H := hdr_of_writes (mh2_writes ns n n rate 1 1 bs1 bs2 nha ver) in
  wf2 H = true /\ s_ntr H = n /\ s_ns H = ns /\ s_bs0 H = 1 /\ s_bs1 H = bs1 /\ s_bs2 H = bs2 /\
  s_rate_code H = rate /\ s_nil H = 0 /\ s_nxl H = 0 /\ s_nhb H = 2 /\ s_hel H = 4 * n /\ s_nha H = nha /\ s_ver H = ver /\
  4096 * s_ndb H = (s_PT H / 4) * (s_PZ H / 4) * s_ub2 H.
Proof. exact header_2d_layout. Qed.
Print Assumptions C09_header_2d_layout.

Theorem C09_header_2d_wf2v : forall n ns rate bs1 bs2 nha ver, wfp2 n ns rate bs1 bs2 = true ->
  (version_reencode ver >? version_to_encoding 0 2 1 false) = true ->
  wf2v (hdr_of_writes (mh2_writes ns n n rate 1 1 bs1 bs2 nha ver)) = true.
Proof. exact header_2d_wf2v. Qed.
Print Assumptions C09_header_2d_wf2v.

Theorem C09_detect_2d : forall u il0 xl0 il1 xl1 tc ni nx,
  (exists k, detect_geometry u il0 xl0 il1 xl1 tc ni nx = G2d k) <->
  (u = true /\ il0 = 0 /\ xl0 = 0 /\ il1 = 0 /\ xl1 = 0) \/ (u = false /\ (ni = 1 \/ nx = 1)).
Proof. exact detect_2d. Qed.
Print Assumptions C09_detect_2d.
(* whenever a source is taken as 2D, its trace count is the file's trace count *)
Theorem C09_detect_2d_count : forall u il0 xl0 il1 xl1 tc ni nx k,
  detect_geometry u il0 xl0 il1 xl1 tc ni nx = G2d k -> k = tc.
Proof. exact detect_2d_count. Qed.
Print Assumptions C09_detect_2d_count.

(* ---- write, then read ---- *)
Theorem C09_write_then_read_2d : forall (sample code : Type) (zero : sample) (enc : list sample -> code)
  (src : Z -> Z -> sample) H, wf2v H = true -> forall t0 t1 z0 z1,
  0 <= t0 < t1 -> t1 <= s_ntr H -> 0 <= z0 < z1 -> z1 <= s_ns H ->
  exists v, rd_read_subplane H t0 t1 z0 z1 false = Return v /\ av_shape v = [t1 - t0; z1 - z0] /\
    forall t z, 0 <= t < t1 - t0 -> 0 <= z < z1 - z0 ->
      prov_code (written sample code zero enc src (s_ntr H) (s_ns H) (s_bs1 H) (s_bs2 H)) (s_ub2 H) (av_cell v [t; z]) =
      Some (enc (unit_of (extend sample src (s_ntr H) (s_ns H)) ((t0 + t) / 4) ((z0 + z) / 4)),
            ((t0 + t) mod 4) * 4 + (z0 + z) mod 4).
Proof. exact write_then_read_2d. Qed.
Print Assumptions C09_write_then_read_2d.

(* non-vacuity: a 21-trace, 50-sample line at 4 bits, blockshape (1,16,512), written by 0.2.51; a window crossing the
   group boundary; and the writer parameters of a (1,4,2048) line at 4 bits give a wf2v header *)
Example C09_nonvacuous :
  let H := hdr_of_list [2; 50; 0; 0; 4; 1; 16; 512; 2; 84; 2; 21; 4199] in
  wf2v H = true /\ (0 <= 13 < 19 /\ 19 <= s_ntr H /\ 0 <= 3 < 50 /\ 50 <= s_ns H) /\ s_bs1 H <> 4 /\
  (0 <= win_lo (Some 3) < win_hi H (Some 47) /\ win_hi H (Some 47) <= s_ns H) /\ (0 <= win_lo None < win_hi H None /\ win_hi H None <= s_ns H) /\
  wfp2 7 9 4 4 2048 = true /\ wf2v (hdr_of_writes (mh2_writes 9 7 7 4 1 1 4 2048 3 4115)) = true.
Proof. cbv zeta. repeat split; try (vm_compute; reflexivity); try (vm_compute; discriminate). Qed.
