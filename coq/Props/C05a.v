(* C05a Geometry preservation, continuation: files converted from ZGY (and what distinguishes the other routes).
   ONLY statements.

   (1) The stored inline / crossline header arrays of the ZGY route.  Gen/Routes.v gives, from get_zgy_header_arrays as it
       stands on this run, the shape of the grids and the element of every returned array at grid position (r, c)
       (np.meshgrid 'xy' semantics applied by the generator), and which array is stored under which key.  np.linspace(first,
       last, num=count, dtype=np.intc) is a PARAMETER `lin`; ASSUMED of it (lin_exact, validated against numpy by
       tools/checks/routes.py on every run, for ascending / descending / constant-free axes over the int32 range):
       on an arithmetic integer axis a, a+d, ..., a+d(n-1) with n >= 2 it returns a + d*k at position k.
       Proved for ALL n_il, n_xl >= 2, all starts and increments: word i*n_xl + x of the array stored under 189 is
       ilines[i] and under 193 xlines[x], each array has n_il*n_xl words in inline-major order (C05a_zgy_line_arrays,
       C05a_zgy_array_length).  ALL OF THIS FOR ANY WINDOW 0 <= min_il < max_il <= n_il, 0 <= min_xl < max_xl <= n_xl (D54 repaired; the
       crop of get_blank_header_info is generated: zgy_crop_row_lo .. zgy_crop_col_hi): word (i - min_il) * (max_xl - min_xl) + (x - min_xl) under 189 / 193 is
       ilines[i] / xlines[x] of the SOURCE, the CDP words are the expression at source position (i, x), every array has one word per
       window trace = hel / 4 of the windowed header (the C05a_zgy_window_ theorems); the whole-file theorems are the instance (0, n_il, 0, n_xl).
       Through the reader model: header field 189 / 193 of trace t reads ilines[t / n_xl] /
       xlines[t mod n_xl], fields 115 / 117 / 71 the constants (C05a_zgy_lines_readback).  The CDP arrays (181, 185) are the
       generated affine expression of the corners, np.round'ed: C05a_zgy_cdp_arrays / _expressions say which expression lands
       where; their numeric values are binary64 and checked by correspondence only.
   (2) The sample axis.  rd_axis_zslices is Gen/Geometry.v's translation of _parse_coordinates under Model/Geometry.v's
       semantics (binary64 = Coq's primitive floats; Print Assumptions lists the kernel's primitive float / int63 operations,
       as for C05).  For EVERY header: the double branch is taken exactly when the double at 92:100 is non-zero, and then the
       axis is  double(84:92) + (double(92:100) / 1000) * k,  k < count  (C05a_zs_start_by_branch, C05a_zs_double_axis; no
       finite sweep: the statement is an identity of binary64 expressions).  A ZGY-sourced header holds samples[0] and
       zinc * 1000 there (generated), any other route leaves +0.0: so SEG-Y / VDS / SGZ-sourced files always take the integer
       branch (C05a_other_routes_integer_branch: C05's sample-axis theorems apply to them), a ZGY-sourced file takes the double
       branch exactly when zinc * 1000 <> 0 in binary64 (C05a_zgy_route_branch) and then reports
       samples[0] + ((zinc * 1000) / 1000) * k  (C05a_zgy_route_zslices).  NOT proved: that (zinc*1000)/1000 = zinc (false in
       general; the property allows float rounding) and that zinc <> 0 implies zinc * 1000 <> 0 (true, but it needs the
       axiomatised specification of binary64 multiplication; C05a_zinc_examples evaluates instances down to the smallest
       subnormal).
   (3) Inline / crossline axes: make_header is shared by all routes; pyzgy hands np.intc axes, pyvds int64 axes: both element
       types are covered by C05_ilines_preserved / C05_xlines_preserved (restated as C05a_route_line_axes). *)
From Coq Require Import ZArith List Bool String Lia.
From Coq Require PrimFloat.
Import ListNotations.
From SZ Require Import Lib.Py Gen.Utils Gen.Version Gen.Reader Gen.Geometry Gen.Routes Model.Geometry Proofs.Geometry.
From SZ Require Model.Headers Model.Routes Proofs.Routes Proofs.RoutesAxis.
Open Scope Z_scope.

(* ---- any window (win_ok w n_il n_xl: 0 <= min_il < max_il <= n_il, 0 <= min_xl < max_xl <= n_xl); (i, x) are SOURCE ordinals ---- *)
Theorem C05a_zgy_window_line_arrays : forall lin rnd, Model.Routes.lin_exact lin ->
  forall a_il d_il n_il a_xl d_xl n_xl, 2 <= n_il -> 2 <= n_xl -> forall w, Model.Routes.win_ok w n_il n_xl = true ->
  forall i x, Model.Routes.wi0 w <= i < Model.Routes.wi1 w -> Model.Routes.wx0 w <= x < Model.Routes.wx1 w ->
  let p := (i - Model.Routes.wi0 w) * (Model.Routes.wx1 w - Model.Routes.wx0 w) + (x - Model.Routes.wx0 w) in
  Model.Routes.zgy_warray lin rnd (Model.Routes.arith_lax a_il d_il n_il) (Model.Routes.arith_lax a_xl d_xl n_xl) w 189 p = a_il + d_il * i /\
  Model.Routes.zgy_warray lin rnd (Model.Routes.arith_lax a_il d_il n_il) (Model.Routes.arith_lax a_xl d_xl n_xl) w 193 p = a_xl + d_xl * x.
Proof. exact Proofs.Routes.zgy_window_line_arrays. Qed.
Print Assumptions C05a_zgy_window_line_arrays.

Theorem C05a_zgy_window_cdp_arrays : forall lin rnd a_il d_il n_il a_xl d_xl n_xl w, Model.Routes.win_ok w n_il n_xl = true ->
  forall i x, Model.Routes.wi0 w <= i < Model.Routes.wi1 w -> Model.Routes.wx0 w <= x < Model.Routes.wx1 w ->
  let p := (i - Model.Routes.wi0 w) * (Model.Routes.wx1 w - Model.Routes.wx0 w) + (x - Model.Routes.wx0 w) in
  Model.Routes.zgy_warray lin rnd (Model.Routes.arith_lax a_il d_il n_il) (Model.Routes.arith_lax a_xl d_xl n_xl) w 181 p
    = rnd (match nth 0 zgy_returns (ZLines true true) with ZRound e => e | _ => RInt 0 end) i x /\
  Model.Routes.zgy_warray lin rnd (Model.Routes.arith_lax a_il d_il n_il) (Model.Routes.arith_lax a_xl d_xl n_xl) w 185 p
    = rnd (match nth 1 zgy_returns (ZLines true true) with ZRound e => e | _ => RInt 0 end) i x.
Proof. exact Proofs.Routes.zgy_window_cdp_arrays. Qed.
Print Assumptions C05a_zgy_window_cdp_arrays.

(* one word per window trace = hel / 4 of the header the windowed conversion writes *)
Theorem C05a_zgy_window_array_length : forall a_il d_il n_il a_xl d_xl n_xl w, Model.Routes.win_ok w n_il n_xl = true ->
  Model.Routes.zgy_warray_words (Model.Routes.arith_lax a_il d_il n_il) (Model.Routes.arith_lax a_xl d_xl n_xl) w
    = (Model.Routes.wi1 w - Model.Routes.wi0 w) * (Model.Routes.wx1 w - Model.Routes.wx0 w) /\
  Gen.Headers.hx_hel_3d (Model.Routes.win_nxl w) (Model.Routes.win_nil w)
    = 4 * Model.Routes.zgy_warray_words (Model.Routes.arith_lax a_il d_il n_il) (Model.Routes.arith_lax a_xl d_xl n_xl) w.
Proof. exact Proofs.Routes.zgy_window_array_length. Qed.
Print Assumptions C05a_zgy_window_array_length.

(* through the reader: trace t of the window reports the numbers of its source trace (min_il + t / gnx, min_xl + t mod gnx) *)
Theorem C05a_zgy_window_lines_readback : forall lin rnd fields tv a_il d_il n_il a_xl d_xl n_xl w ndb la t,
  Model.Routes.lin_exact lin -> Model.Headers.wf_fields fields = true -> (forall k, In k Proofs.Routes.zgy_keys -> In k fields) ->
  2 <= n_il -> 2 <= n_xl -> Model.Routes.win_ok w n_il n_xl = true ->
  0 <= t < (Model.Routes.wi1 w - Model.Routes.wi0 w) * (Model.Routes.wx1 w - Model.Routes.wx0 w) ->
  let arr := Model.Routes.zgy_warray lin rnd (Model.Routes.arith_lax a_il d_il n_il) (Model.Routes.arith_lax a_xl d_xl n_xl) w in
  let F := Model.Routes.zgy_wwrite fields tv arr n_il n_xl w ndb in
  let gnx := Model.Routes.wx1 w - Model.Routes.wx0 w in
  Model.Headers.read_field fields F la t 189 = Return (a_il + d_il * (Model.Routes.wi0 w + t / gnx)) /\
  Model.Headers.read_field fields F la t 193 = Return (a_xl + d_xl * (Model.Routes.wx0 w + t mod gnx)) /\
  Model.Headers.read_field fields F la t 115 = Return (tv TVNSamples) /\
  Model.Headers.read_field fields F la t 117 = Return (tv (TVTrunc (RMul (RInt 1000) RZinc))) /\
  Model.Headers.read_field fields F la t 71 = Return (tv (TVConst (-100))).
Proof. exact Proofs.Routes.zgy_window_lines_readback. Qed.
Print Assumptions C05a_zgy_window_lines_readback.

(* the crop as it stands in get_blank_header_info: rows geom.ilines[0] .. geom.ilines[-1], columns geom.xlines[0] .. geom.xlines[-1] *)
Theorem C05a_zgy_crop_now : forall gi0 gil gx0 gxl,
  zgy_crop_filetype = ft_ZGY /\ zgy_crop_row_lo gi0 gil gx0 gxl = gi0 /\ zgy_crop_row_hi gi0 gil gx0 gxl = gil + 1 /\
  zgy_crop_col_lo gi0 gil gx0 gxl = gx0 /\ zgy_crop_col_hi gi0 gil gx0 gxl = gxl + 1.
Proof. intros. repeat split. Qed.
Print Assumptions C05a_zgy_crop_now.

(* ---- conversion without a window: the instance (0, n_il, 0, n_xl) ---- *)
Theorem C05a_zgy_line_arrays : forall lin rnd, Model.Routes.lin_exact lin ->
  forall a_il d_il n_il a_xl d_xl n_xl, 2 <= n_il -> 2 <= n_xl -> forall i x, 0 <= i < n_il -> 0 <= x < n_xl ->
  Model.Routes.zgy_array lin rnd (Model.Routes.arith_lax a_il d_il n_il) (Model.Routes.arith_lax a_xl d_xl n_xl) 189 (i * n_xl + x)
    = a_il + d_il * i /\
  Model.Routes.zgy_array lin rnd (Model.Routes.arith_lax a_il d_il n_il) (Model.Routes.arith_lax a_xl d_xl n_xl) 193 (i * n_xl + x)
    = a_xl + d_xl * x.
Proof. exact Proofs.Routes.zgy_line_arrays. Qed.
Print Assumptions C05a_zgy_line_arrays.

Theorem C05a_zgy_array_length : forall a_il d_il n_il a_xl d_xl n_xl, 2 <= n_il -> 2 <= n_xl ->
  Model.Routes.zgy_array_words (Model.Routes.arith_lax a_il d_il n_il) (Model.Routes.arith_lax a_xl d_xl n_xl) = n_il * n_xl.
Proof. exact Proofs.Routes.zgy_array_length. Qed.
Print Assumptions C05a_zgy_array_length.

Theorem C05a_zgy_cdp_arrays : forall lin rnd a_il d_il n_il a_xl d_xl n_xl, 2 <= n_il -> 2 <= n_xl -> forall i x, 0 <= i < n_il -> 0 <= x < n_xl ->
  Model.Routes.zgy_array lin rnd (Model.Routes.arith_lax a_il d_il n_il) (Model.Routes.arith_lax a_xl d_xl n_xl) 181 (i * n_xl + x)
    = rnd (match nth 0 zgy_returns (ZLines true true) with ZRound e => e | _ => RInt 0 end) i x /\
  Model.Routes.zgy_array lin rnd (Model.Routes.arith_lax a_il d_il n_il) (Model.Routes.arith_lax a_xl d_xl n_xl) 185 (i * n_xl + x)
    = rnd (match nth 1 zgy_returns (ZLines true true) with ZRound e => e | _ => RInt 0 end) i x.
Proof. exact Proofs.Routes.zgy_cdp_arrays. Qed.
Print Assumptions C05a_zgy_cdp_arrays.

Theorem C05a_zgy_cdp_expressions :
  nth 0 zgy_returns (ZLines true true)
  = ZRound (RMul (RFlt 100) (RAdd (RAdd (RCorner 0 0) (RMul RRow (RDiv (RSub (RCorner 1 0) (RCorner 0 0)) (RSub RCountIl (RInt 1)))))
                                   (RMul RCol (RDiv (RSub (RCorner 2 0) (RCorner 0 0)) (RSub RCountXl (RInt 1)))))) /\
  nth 1 zgy_returns (ZLines true true)
  = ZRound (RMul (RFlt 100) (RAdd (RAdd (RCorner 0 1) (RMul RRow (RDiv (RSub (RCorner 1 1) (RCorner 0 1)) (RSub RCountIl (RInt 1)))))
                                   (RMul RCol (RDiv (RSub (RCorner 2 1) (RCorner 0 1)) (RSub RCountXl (RInt 1)))))).
Proof. exact Proofs.Routes.cdp_exprs_now. Qed.
Print Assumptions C05a_zgy_cdp_expressions.

Theorem C05a_zgy_lines_readback : forall lin rnd fields tv a_il d_il n_il a_xl d_xl n_xl ndb la t,
  Model.Routes.lin_exact lin -> Model.Headers.wf_fields fields = true -> (forall k, In k Proofs.Routes.zgy_keys -> In k fields) ->
  2 <= n_il -> 2 <= n_xl -> 0 <= t < n_il * n_xl ->
  let arr := Model.Routes.zgy_array lin rnd (Model.Routes.arith_lax a_il d_il n_il) (Model.Routes.arith_lax a_xl d_xl n_xl) in
  let F := Model.Routes.zgy_write fields tv arr n_il n_xl ndb in
  Model.Headers.read_field fields F la t 189 = Return (a_il + d_il * (t / n_xl)) /\
  Model.Headers.read_field fields F la t 193 = Return (a_xl + d_xl * (t mod n_xl)) /\
  Model.Headers.read_field fields F la t 115 = Return (tv TVNSamples) /\
  Model.Headers.read_field fields F la t 117 = Return (tv (TVTrunc (RMul (RInt 1000) RZinc))) /\
  Model.Headers.read_field fields F la t 71 = Return (tv (TVConst (-100))).
Proof. exact Proofs.Routes.zgy_lines_readback. Qed.
Print Assumptions C05a_zgy_lines_readback.

(* ---- sample axis ---- *)
Theorem C05a_zs_start_by_branch : forall E,
  eval E (ax_start rd_axis_zslices)
  = Return (if PrimFloat.eqb (e_f64 E rdz_cond_f64_at) f_zero then VZ (wrap32 (e_u32 E rdz_int_start_i32_at))
            else VF (Model.Routes.rdz_start (e_f64 E))).
Proof. exact Proofs.RoutesAxis.zs_start_by_branch. Qed.
Print Assumptions C05a_zs_start_by_branch.

Theorem C05a_zs_double_axis : forall E,
  PrimFloat.eqb (e_f64 E rdz_cond_f64_at) f_zero = false -> 0 <= e_u32 E rdz_count_u32_at < two63 ->
  rd_axis E rd_axis_zslices
  = Return (map (fun k => VF (Model.Routes.rdz_elem (e_f64 E) k)) (zrange 0 (e_u32 E rdz_count_u32_at))).
Proof. exact Proofs.RoutesAxis.zs_double_axis. Qed.
Print Assumptions C05a_zs_double_axis.

(* rdz_elem spelled out: double at 84 + (double at 92 / 1000.0) * float(k) *)
Theorem C05a_zs_double_formula : forall f64 k,
  Model.Routes.rdz_elem f64 k = PrimFloat.add (f64 84) (PrimFloat.mul (PrimFloat.div (f64 92) (f_of_Z 1000)) (f_of_Z k)) /\
  rdz_cond_f64_at = 92 /\ rdz_count_u32_at = 4.
Proof. intros f64 k. repeat split. Qed.
Print Assumptions C05a_zs_double_formula.

Theorem C05a_other_routes_integer_branch : forall E ft S, ft <> ft_ZGY -> Proofs.RoutesAxis.reads_route E ft S ->
  PrimFloat.eqb (e_f64 E rdz_cond_f64_at) f_zero = true.
Proof. exact Proofs.RoutesAxis.other_routes_integer_branch. Qed.
Print Assumptions C05a_other_routes_integer_branch.

Theorem C05a_zgy_route_branch : forall E S, Proofs.RoutesAxis.reads_route E ft_ZGY S ->
  PrimFloat.eqb (e_f64 E rdz_cond_f64_at) f_zero = PrimFloat.eqb (PrimFloat.mul (Model.Routes.re_zinc S) (f_of_Z 1000)) f_zero.
Proof. exact Proofs.RoutesAxis.zgy_route_branch. Qed.
Print Assumptions C05a_zgy_route_branch.

Theorem C05a_zgy_route_zslices : forall E S,
  Proofs.RoutesAxis.reads_route E ft_ZGY S ->
  PrimFloat.eqb (PrimFloat.mul (Model.Routes.re_zinc S) (f_of_Z 1000)) f_zero = false ->
  0 <= e_u32 E rdz_count_u32_at < two63 ->
  rd_axis E rd_axis_zslices
  = Return (map (fun k => VF (PrimFloat.add (Model.Routes.re_samples0 S)
                                (PrimFloat.mul (PrimFloat.div (PrimFloat.mul (Model.Routes.re_zinc S) (f_of_Z 1000)) (f_of_Z 1000))
                                               (f_of_Z k))))
                (zrange 0 (e_u32 E rdz_count_u32_at))).
Proof. exact Proofs.RoutesAxis.zgy_route_zslices. Qed.
Print Assumptions C05a_zgy_route_zslices.

(* what the ZGY route puts into the two doubles (generated): samples[0] and zinc * 1000 *)
Theorem C05a_zgy_doubles_written : forall S,
  Model.Routes.route_f64 ft_ZGY S 84 = Model.Routes.re_samples0 S /\
  Model.Routes.route_f64 ft_ZGY S 92 = PrimFloat.mul (Model.Routes.re_zinc S) (f_of_Z 1000).
Proof. exact Proofs.Routes.route_f64_zgy. Qed.
Print Assumptions C05a_zgy_doubles_written.

(* zinc_sample_list = 0.5, 2.5, 4, 4.309335708618164 (the float-samplerate fixture), -2, and 2^-1074 *)
Theorem C05a_zinc_examples :
  forallb (fun z => negb (PrimFloat.eqb (PrimFloat.mul z (f_of_Z 1000)) f_zero)) Proofs.RoutesAxis.zinc_sample_list = true.
Proof. exact Proofs.RoutesAxis.zinc_examples. Qed.
Print Assumptions C05a_zinc_examples.

(* ---- inline / crossline axes: the C05 theorems, which hold for both element types the handles produce ---- *)
Theorem C05a_route_line_axes : forall c E, cube_ok c = true ->
  written c 12 (e_u32 E 12) -> written c 24 (e_u32 E 24) -> written c 36 (e_u32 E 36) ->
  written c 8 (e_u32 E 8) -> written c 20 (e_u32 E 20) -> written c 32 (e_u32 E 32) ->
  rd_axis E rd_axis_ilines = Return (map VI32 (c_ilines c)) /\ rd_axis E rd_axis_xlines = Return (map VI32 (c_xlines c)).
Proof.
  intros c E OK A B C D F G. split; [exact (ilines_preserved c E OK A B C) | exact (xlines_preserved c E OK D F G)].
Qed.
Print Assumptions C05a_route_line_axes.

(* a header converted from a ZGY with 7 samples from -12.5 at interval 2.5 regenerates -12.5, -10, ..., 2.5 bit for bit;
   an exact `lin` exists; (1, 4, 0, 3) is a window of a 5 x 5 source; segyio's fields are a valid table *)
Example C05a_nonvacuous :
  Proofs.RoutesAxis.reads_route Proofs.RoutesAxis.nv_zgy_env ft_ZGY Proofs.RoutesAxis.nv_src /\
  PrimFloat.eqb (PrimFloat.mul (Model.Routes.re_zinc Proofs.RoutesAxis.nv_src) (f_of_Z 1000)) f_zero = false /\
  match rd_axis Proofs.RoutesAxis.nv_zgy_env rd_axis_zslices with
  | Return r => list_same r Proofs.RoutesAxis.nv_axis_expected | Raise _ => false end = true /\
  Model.Routes.lin_exact (fun a b n k => a + ((b - a) / (n - 1)) * k) /\
  Model.Routes.win_ok {| Model.Routes.wi0 := 1; Model.Routes.wi1 := 4; Model.Routes.wx0 := 0; Model.Routes.wx1 := 3 |} 5 5 = true /\
  Model.Headers.wf_fields Model.Headers.segy_fields = true.
Proof.
  destruct Proofs.RoutesAxis.zgy_axis_nonvacuous as (A & B & C). split; [exact A|]. split; [exact B|]. split; [exact C|].
  split; [| split; [reflexivity | exact (proj1 Proofs.Routes.segy_fields_ok)]].
  intros a d n k Hn Hk. replace (a + d * (n - 1) - a) with (d * (n - 1)) by ring. rewrite Z.div_mul by lia. reflexivity.
Qed.
