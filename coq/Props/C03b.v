(* C03b Container conformance, continuation: the ZGY and VDS converters.  ONLY statements.

   What is modelled.  The integer header fields are make_header's (Gen/Header.v, shared by every route: the census of
   Gen/Routes.v shows make_header never looks at the file type) with n_arrays = get_header_array_count() of the ZGY
   header-word table; the table entries, the order of headers_dict, the element of every stored array, the two doubles,
   the source-code and detection-code fields are GENERATED from headers.py / conversion_utils.py on this run (Gen/Routes.v);
   table codec, footer writer (write_headers) and the reader of trace headers are those of C04 (Model/Headers.v over
   Gen/Headers.v).  `fields` is the list of trace-header fields of the table (segyio's 89; any ascending list of 89
   positive codes containing the seven ZGY keys will do); `tv` gives the value of the three constants for the source at
   hand (ztv_of: n_samples, int(1000 * zinc), -100).

   Proved: the header the ZGY route writes passes the specification's well-formedness and states the true dimensions,
   blockshape, rate, trace count, array length and 4 header arrays (C03b_zgy_header_conforms, by the same lemmas as
   C03_converter_header_conforms); the table holds 115 = n_samples, 117 = int(1000*zinc), 71 = -100, names exactly 181, 185,
   189, 193 as stored arrays and nothing else (C03b_zgy_table_entries / _values); the footer is exactly those four arrays in
   that order, 4 bytes per trace of the converted WINDOW (any window; D54 repaired), at the stride a reader derives (C03b_zgy_footer_layout); every field of every trace
   read back through the reader model, on both access paths, is the expected constant or word t of the expected array
   (C03b_zgy_readback); the source code is 10 / 30 / 0 / 100 (NumPy 20) at the bytes get_file_source_code reads
   (C03b_source_codes); the fields written after make_header (76:84, and 84:100 for ZGY only) overlap no field of
   make_header (C03b_later_writes_clear).  VDS: HeaderwordInfo takes the first/last-trace scan exactly as for SEG-Y and
   store_headers is on (C03b_vds_is_the_segy_header_route): C04's heuristic theorems and C03_converter_header_conforms apply
   to it with the pyvds handle's headers. *)
From Coq Require Import ZArith List Bool Lia.
Import ListNotations.
From SZ Require Import Lib.Py Gen.Reader Gen.Header Gen.Headers Gen.Window Gen.Routes Spec.Container Model.Writer Model.Headers Model.HeaderW
                       Model.Routes Proofs.Writer Proofs.Headers Proofs.Routes.
Open Scope Z_scope.

Theorem C03b_zgy_header_conforms : forall fields tv rn rd ns n_il n_xl bs0 bs1 bs2 venc tc,
  wf_fields fields = true -> (forall k, In k zgy_keys -> In k fields) ->
  cfg3 rn rd ns n_il n_xl bs0 bs1 bs2 = true ->
  fields_ok rn rd ns n_il n_xl 0 tc bs0 bs1 bs2 4 venc false false = true ->
  exists H, written_hdr rn rd ns n_il n_xl 0 tc bs0 bs1 bs2 (header_array_count (zgy_table fields tv)) venc false false = Return H /\
    wf3 H = true /\
    (s_nhb H = 2 /\ s_nil H = n_il /\ s_nxl H = n_xl /\ s_ns H = ns /\ s_bs0 H = bs0 /\ s_bs1 H = bs1 /\ s_bs2 H = bs2 /\
     s_rn H = rn /\ s_rd H = rd /\ s_hel H = 4 * (n_il * n_xl) /\ s_nha H = 4 /\ s_ntr H = n_il * n_xl /\ s_ver H = venc) /\
    s_ndb H * 4096 = s_data_bytes3 H /\ s_data_bytes3 H = s_ub3 H * data_units H.
Proof. exact zgy_header_conforms. Qed.
Print Assumptions C03b_zgy_header_conforms.

Theorem C03b_zgy_array_count : forall fields tv, wf_fields fields = true -> (forall k, In k zgy_keys -> In k fields) ->
  header_array_count (zgy_table fields tv) = 4.
Proof. exact zgy_array_count. Qed.
Print Assumptions C03b_zgy_array_count.

Theorem C03b_zgy_table_entries : forall fields tv f, wf_fields fields = true -> (forall k, In k zgy_keys -> In k fields) ->
  In f fields -> assocZ f (zgy_table fields tv) = Some (zgy_fn tv f).
Proof. exact zgy_table_entries. Qed.
Print Assumptions C03b_zgy_table_entries.

Theorem C03b_zgy_table_values : forall tv,
  zgy_fn tv 115 = (tv TVNSamples, 0) /\ zgy_fn tv 117 = (tv (TVTrunc (RMul (RInt 1000) RZinc)), 0) /\
  zgy_fn tv 71 = (tv (TVConst (-100)), 0) /\
  zgy_fn tv 181 = (0, 181) /\ zgy_fn tv 185 = (0, 185) /\ zgy_fn tv 189 = (0, 189) /\ zgy_fn tv 193 = (0, 193) /\
  (forall f, ~ In f [115; 117; 71; 181; 185; 189; 193] -> zgy_fn tv f = (0, 0)).
Proof. exact zgy_fn_values. Qed.
Print Assumptions C03b_zgy_table_values.

Theorem C03b_zgy_constants : forall n_samples E,
  ztv_of n_samples E TVNSamples = n_samples /\ ztv_of n_samples E (TVConst (-100)) = -100 /\
  ztv_of n_samples E (TVTrunc (RMul (RInt 1000) RZinc)) = Model.Geometry.f_trunc_Z (PrimFloat.mul (f_of_Z 1000) (re_zinc E)).
Proof. exact ztv_values. Qed.
Print Assumptions C03b_zgy_constants.

(* the stored arrays are those of headers_dict in dict order = the table's order of self-referencing entries *)
Theorem C03b_zgy_stored_order : forall fields tv, wf_fields fields = true -> (forall k, In k zgy_keys -> In k fields) ->
  selfs (tbl_of (zgy_fn tv) fields) = map fst zgy_headers_dict /\ map fst zgy_headers_dict = [181; 185; 189; 193].
Proof. intros fields tv W K. rewrite (zgy_selfs fields tv W K). split; reflexivity. Qed.
Print Assumptions C03b_zgy_stored_order.

(* ANY window 0 <= min_il < max_il <= n_il, 0 <= min_xl < max_xl <= n_xl of an (n_il, n_xl) source (win_ok); the conversion without
   a window is whole n_il n_xl = (0, n_il, 0, n_xl) as detect_geometry makes it (Gen/Window.v).  D54 repaired: the generated arrays
   are cropped to the window (Gen/Routes.v: zgy_crop_row_lo .. zgy_crop_col_hi), so the footer holds 4 bytes per WINDOW trace = the stated array length *)
Theorem C03b_zgy_footer_layout : forall fields tv arr n_il n_xl w ndb,
  wf_fields fields = true -> (forall k, In k zgy_keys -> In k fields) -> win_ok w n_il n_xl = true ->
  let F := zgy_wwrite fields tv arr n_il n_xl w ndb in
  let G := (wi1 w - wi0 w) * (wx1 w - wx0 w) in
  f_count F = 4 /\ f_hel F = 4 * G /\ f_tracecount F = G /\ Model.Headers.f_nil F = wi1 w - wi0 w /\ Model.Headers.f_nxl F = wx1 w - wx0 w /\
  map (fun s => match s with (pos, len, pd, _) => (pos, len, pd) end) (f_footer F)
  = map (fun k => (4096 * 2 + 4096 * ndb + k * (4 * G + hx_wr_pad (4 * G)), 4 * G, hx_wr_pad (4 * G))) [0; 1; 2; 3] /\
  hx_rd_padded (f_hel F) = 4 * G + hx_wr_pad (4 * G).
Proof. exact zgy_footer_layout. Qed.
Print Assumptions C03b_zgy_footer_layout.

(* the array length of the window header is the same expression in all three generated views of make_header *)
Theorem C03b_window_array_length_field : forall xlines ilines gi0 gx0 tc rn rd ns g_ntr bs0 bs1 bs2 na ve gni gnx,
  hx_hel_3d gnx gni = Gen.Window.w_hdr_hel xlines ilines gi0 gx0 gni gnx tc /\
  hx_hel_3d gnx gni = mh_field_60 rn rd ns gni gnx g_ntr tc bs0 bs1 bs2 na ve false false.
Proof. exact hel_agree. Qed.
Print Assumptions C03b_window_array_length_field.

Theorem C03b_zgy_readback : forall fields tv arr n_il n_xl w ndb,
  wf_fields fields = true -> (forall k, In k zgy_keys -> In k fields) -> win_ok w n_il n_xl = true ->
  forall la t f, 0 <= t < win_nil w * win_nxl w -> In f fields ->
  read_field fields (zgy_wwrite fields tv arr n_il n_xl w ndb) la t f = Return (zgy_expected tv arr f t).
Proof. exact zgy_readback. Qed.
Print Assumptions C03b_zgy_readback.

Theorem C03b_whole_file_window : forall n_il n_xl, 1 <= n_il -> 1 <= n_xl ->
  win_ok (whole n_il n_xl) n_il n_xl = true /\ wi0 (whole n_il n_xl) = 0 /\ wi1 (whole n_il n_xl) = n_il /\
  wx0 (whole n_il n_xl) = 0 /\ wx1 (whole n_il n_xl) = n_xl.
Proof. exact whole_ok. Qed.
Print Assumptions C03b_whole_file_window.

Theorem C03b_zgy_expected : forall tv arr t,
  zgy_expected tv arr 115 t = tv TVNSamples /\ zgy_expected tv arr 117 t = tv (TVTrunc (RMul (RInt 1000) RZinc)) /\
  zgy_expected tv arr 71 t = tv (TVConst (-100)) /\
  zgy_expected tv arr 181 t = arr 181 t /\ zgy_expected tv arr 185 t = arr 185 t /\
  zgy_expected tv arr 189 t = arr 189 t /\ zgy_expected tv arr 193 t = arr 193 t /\
  (forall f, ~ In f [115; 117; 71; 181; 185; 189; 193] -> zgy_expected tv arr f t = 0).
Proof. exact zgy_expected_cases. Qed.
Print Assumptions C03b_zgy_expected.

Theorem C03b_source_codes :
  route_source_code ft_SEGY = 0 /\ route_source_code ft_ZGY = 10 /\ route_source_code ft_VDS = 30 /\
  route_source_code ft_SGZ = 100 /\ mhn_source_code = 20 /\
  (mhs_source_code_lo, mhs_source_code_hi) = (rd_source_code_lo, rd_source_code_lo + 4) /\
  (mhs_detection_lo, mhs_detection_hi) = (rd_detection_code_lo, rd_detection_code_lo + 4) /\
  map detection_code [0; 1; 2; 3]%nat = [0; 10; 20; 30].
Proof. exact source_codes. Qed.
Print Assumptions C03b_source_codes.

Theorem C03b_later_writes_clear :
  (forall ft, forallb (fun w => forallb (disjoint_from (fst w) (snd w)) mh_assigned) (route_later_writes ft) = true) /\
  route_later_writes ft_ZGY = [(76, 80); (80, 84); (84, 92); (92, 100)] /\
  (forall ft, ft <> ft_ZGY -> route_later_writes ft = [(76, 80); (80, 84)]).
Proof. split; [exact later_writes_clear | exact later_writes_ranges]. Qed.
Print Assumptions C03b_later_writes_clear.

Theorem C03b_vds_is_the_segy_header_route : forall strip,
  hwinfo_route ft_VDS = hwinfo_route ft_SEGY /\ hwinfo_route ft_ZGY = 1 /\ hwinfo_route ft_SGZ = 2 /\
  run_store_headers ft_VDS strip = run_store_headers ft_SEGY strip /\ run_store_headers ft_ZGY strip = false /\
  mhs_copies_file_header ft_VDS = false /\ mhs_copies_file_header ft_ZGY = false /\ mhs_copies_file_header ft_SEGY = true.
Proof. intro strip. repeat split. Qed.
Print Assumptions C03b_vds_is_the_segy_header_route.

(* segyio's 89 fields are a valid `fields`; a 5 x 6 x 9 cube at 8 bits per voxel, blockshape (4, 4, 256), is a valid setting *)
Example C03b_nonvacuous :
  wf_fields segy_fields = true /\ (forall k, In k zgy_keys -> In k segy_fields) /\
  cfg3 8 1 9 5 6 4 4 256 = true /\ fields_ok 8 1 9 5 6 0 30 4 4 256 4 4199 false false = true /\
  header_array_count (zgy_table segy_fields (ztv_of 9 (zgy_env f_zero f_zero (fun _ _ => f_zero) 5 6))) = 4 /\
  win_ok {| wi0 := 1; wi1 := 4; wx0 := 0; wx1 := 3 |} 5 5 = true.
Proof.
  destruct segy_fields_ok as [W K]. split; [exact W|]. split; [exact K|].
  split; [vm_compute; reflexivity|]. split; [vm_compute; reflexivity|]. split; [apply zgy_array_count; assumption | reflexivity].
Qed.
