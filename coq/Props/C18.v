(* C18  Partial files: an interrupted conversion or copy never reads back as data.  ONLY statements.

   Reading.  A conversion is a list of writes (offset, bytes): the header, appended blocks, appended footer arrays and
   in-place patches; writes_wf: no write starts beyond the current end of the file.  crash pre w j: the file when
   writing stopped j bytes into write w after the writes pre (j = 0 .. length: every event boundary and every cut inside an
   event; a truncated copy of the finished file is the case "post = []" of a file written as one event per byte range).
   complete pre w post: the finished file.  final_byte w j post i: byte i is not overwritten by the rest of w nor by a
   later write.  A reader is a program (prog) that touches the file only through the checked range read
   (C17_io_through_choke_point) and never catches.  The backend flag and the guard are the GENERATED terms. *)
From Coq Require Import String.
From Coq Require Import ZArith List Bool.
Import ListNotations.
From SZ Require Import Lib.Py Gen.Reader Gen.Faults Model.Faults Proofs.Faults.
Close Scope string_scope.
Open Scope nat_scope.

(* a byte of the partial file that no pending write touches already has its final value *)
Theorem C18_prefix_stable : forall (B : Type) (pre : list (wr B)) (w : wr B) (j : nat) (post : list (wr B)),
  writes_wf B 0 (pre ++ w :: post) = true -> j <= length (snd w) ->
  forall (i : nat) (x : B), i < length (crash B pre w j) -> final_byte B w j post i = true ->
  nth i (crash B pre w j) x = nth i (complete B pre w post) x.
Proof. exact prefix_stable. Qed.
Print Assumptions C18_prefix_stable.

(* a range that is not wholly inside the partial file cannot be read: the call raises *)
Theorem C18_short_range_raises : forall (B : Type) (pre : list (wr B)) (w : wr B) j, j <= length (snd w) ->
  forall off len, length (crash B pre w j) < off + len -> 0 < len ->
  read_range_file B (crash B pre w j) Full off len = Raise IOErr.
Proof. exact c18_short_range_raises. Qed.
Print Assumptions C18_short_range_raises.

(* prefix_read: for EVERY crash point and every reader program that behaves alike on byte strings which agree on the
   final bytes: on the partial file it raises, or returns exactly what it returns on the complete file *)
Theorem C18_prefix_read : forall (B : Type) pre w j post, writes_wf B 0 (pre ++ w :: post) = true -> j <= length (snd w) ->
  forall R (p p' : prog B R), robust B w j post p p' ->
  raises (run B read_range_file_checked check_range_length_raises (crash B pre w j) p) \/
  run B read_range_file_checked check_range_length_raises (crash B pre w j) p =
  run B read_range_file_checked check_range_length_raises (complete B pre w post) p'.
Proof. exact c18_prefix_read. Qed.
Print Assumptions C18_prefix_read.

(* how robustness is established: (1) a read none of whose bytes is still to be patched -- every read of the data
   section and of the footer -- continues on the same bytes; (2) a read of bytes that may still change -- the header --
   needs a continuation that does not depend on the bytes that are not final *)
Theorem C18_robust_final_read : forall (B : Type) (w : wr B) (j : nat) (post : list (wr B)), j <= length (snd w) ->
  forall (R : Type) (off len : nat) (k k' : list B -> prog B R),
  (forall i, off <= i < off + len -> final_byte B w j post i = true) ->
  (forall d, length d = len -> robust B w j post (k d) (k' d)) ->
  robust B w j post (PRead off len k) (PRead off len k').
Proof. exact robust_final_read. Qed.
Theorem C18_robust_insensitive_read : forall (B : Type) (w : wr B) (j : nat) (post : list (wr B)) (R : Type) (off len : nat)
  (k k' : list B -> prog B R),
  (forall d d', length d = len -> agree B w j post off d d' -> robust B w j post (k d) (k' d')) ->
  robust B w j post (PRead off len k) (PRead off len k').
Proof. exact robust_insensitive_read. Qed.
Print Assumptions C18_robust_insensitive_read.
Print Assumptions C18_robust_final_read.

(* ---------- what the converters write, in which order (GENERATED from conversion.py / conversion_utils.py) ---------- *)
Open Scope Z_scope.
Theorem C18_write_order :
  segy_write_order = [WHeader; WBlocks; WPatch 64 4 OnlyThorough; WPatch 980 1068 OnlyThorough; WFooter UnlessStrip; WPatch 960 20 Always] /\
  numpy_write_order = [WHeader; WBlocks; WFooter Always; WPatch 960 20 Always] /\
  loop_joins_then_flushes = true /\ header_bytes_len = 8192.
Proof. exact (conj segy_order (conj numpy_order loop_flushes)). Qed.
Print Assumptions C18_write_order.
(* header first, blocks second; patches only inside bytes 64..68 and 960..2048 of the header (every size the reader
   derives its layout from is final from the first write on); once a footer array may exist only the hash is pending *)
Theorem C18_write_order_ok : order_okb segy_write_order = true /\ order_okb numpy_write_order = true.
Proof. exact write_orders_ok. Qed.
Print Assumptions C18_write_order_ok.
Theorem C18_pending_patches :
  pending_patches true false segy_write_order 2 = [(64, 4); (980, 1068); (960, 20)] /\
  pending_patches false false segy_write_order 2 = [(960, 20)] /\
  pending_patches true false segy_write_order 3 = [(980, 1068); (960, 20)] /\
  pending_patches true false segy_write_order 4 = [(960, 20)] /\
  pending_patches true false segy_write_order 5 = [(960, 20)] /\
  pending_patches true false segy_write_order 6 = [] /\
  pending_patches false false numpy_write_order 2 = [(960, 20)] /\
  pending_patches false false numpy_write_order 4 = [].
Proof. exact pending_segy. Qed.
Print Assumptions C18_pending_patches.

(* ---------- which reads can differ between "before patch" and "after patch" ---------- *)
(* the hash bytes are sliced by get_source_data_hash only; the array count by _parse_data_sizes only; the table by
   _decode_traceheader_template only (GENERATED list of every headerbytes[lo:hi] in read.py) *)
Theorem C18_patched_bytes_users :
  slice_users 960 980 = ["get_source_data_hash"]%string /\ slice_users 64 68 = ["_parse_data_sizes"]%string /\
  slice_users 980 2048 = ["_decode_traceheader_template"]%string.
Proof. exact (conj hash_bytes_users (conj count_bytes_users table_bytes_users)). Qed.
Print Assumptions C18_patched_bytes_users.

(* no sample read depends on the array count (the GENERATED read methods are literally unchanged) *)
Theorem C18_sample_reads_ignore_count : forall H v mask_nth,
  rd_init (set_count H v) = rd_init H /\
  (forall a, rd_read_inline (set_count H v) a = rd_read_inline H a) /\
  (forall a, rd_read_crossline (set_count H v) a = rd_read_crossline H a) /\
  (forall a, rd_read_zslice (set_count H v) a = rd_read_zslice H a) /\
  (forall a b c d e f p q, rd_read_subvolume (set_count H v) a b c d e f p q = rd_read_subvolume H a b c d e f p q) /\
  rd_read_volume (set_count H v) = rd_read_volume H /\
  (forall a b c d p, rd_read_subplane (set_count H v) a b c d p = rd_read_subplane H a b c d p) /\
  (forall i lo hi ov, rd_get_trace mask_nth (set_count H v) i lo hi ov = rd_get_trace mask_nth H i lo hi ov) /\
  (forall a b c d e, rd_read_correlated_diagonal mask_nth (set_count H v) a b c d e = rd_read_correlated_diagonal mask_nth H a b c d e) /\
  (forall a b c d e, rd_read_anticorrelated_diagonal mask_nth (set_count H v) a b c d e = rd_read_anticorrelated_diagonal mask_nth H a b c d e).
Proof. exact sample_reads_ignore_count. Qed.
Print Assumptions C18_sample_reads_ignore_count.

(* 'thorough': the table written with the header makes every header word a file offset (so every header read needs a
   footer that does not exist before the patches) ... *)
Theorem C18_thorough_before_patch : forall rows count, thorough_table_okb rows = true -> distinct_keys rows = true ->
  open_table (map initial_row rows) count =
    (if Z.of_nat (length rows) =? count then Return (decode_rows (map initial_row rows) 0) else Raise AssertErr) /\
  (forall s k h, In (k, h) (decode_rows (map initial_row rows) s) -> exists slot, h = HOffset slot).
Proof.
  intros rows count OK DK. exact (conj (thorough_before_patch rows count OK DK) (fun s k h => initial_rows_all_offsets rows s k h OK)).
Qed.
Print Assumptions C18_thorough_before_patch.
(* ... count patched but not the table: refused ... *)
Theorem C18_thorough_count_only : forall rows, thorough_table_okb rows = true -> distinct_keys rows = true ->
  n_variant rows <> length rows -> open_table (map initial_row rows) (Z.of_nat (n_variant rows)) = Raise AssertErr.
Proof. exact thorough_count_only. Qed.
Print Assumptions C18_thorough_count_only.
(* ... table patch stopped at ANY row boundary: refused, or already the final table *)
Theorem C18_thorough_row_tear : forall rows j, thorough_table_okb rows = true -> distinct_keys rows = true ->
  open_table (torn_table rows j) (Z.of_nat (n_variant rows)) = Raise AssertErr \/ torn_table rows j = rows.
Proof. exact thorough_row_tear. Qed.
Print Assumptions C18_thorough_row_tear.

(* KNOWN FINDINGS, with witnesses.  (1) get_source_data_hash before the hash patch: zeros, no error. *)
Theorem C18_hash_before_patch_refuted :
  let pre := [(0%nat, repeat 0%nat 8192)] in let w := (960%nat, repeat 7%nat 20) in
  writes_wf nat 0 (pre ++ [w]) = true /\
  run nat read_range_file_checked check_range_length_raises (crash nat pre w 0) p_hash = Return (repeat 0%nat 20) /\
  run nat read_range_file_checked check_range_length_raises (complete nat pre w []) p_hash = Return (repeat 7%nat 20).
Proof. exact hash_before_patch_refuted. Qed.
Print Assumptions C18_hash_before_patch_refuted.
(* (2) a table patch that stops INSIDE the value bytes of the last constant row: the count matches and the reader
   takes the low bytes for the constant *)
Theorem C18_torn_value_refuted :
  let final_rows := [(1, 5, 0); (5, 70000, 0)] in
  let torn := [(1, 5, 0); (5, 70000 mod 256, 5)] in
  thorough_table_okb final_rows = true /\ distinct_keys final_rows = true /\
  open_table final_rows (Z.of_nat (n_variant final_rows)) = Return [(1, HConst 5); (5, HConst 70000)] /\
  open_table torn (Z.of_nat (n_variant final_rows)) = Return [(1, HConst 5); (5, HConst 112)].
Proof. exact torn_value_refuted. Qed.
Print Assumptions C18_torn_value_refuted.

Example C18_nonvacuous :
  (let pre := [(0%nat, [1; 2; 3; 4]%nat)] in let w := (4%nat, [5; 6; 7]%nat) in let post := [(1%nat, [9]%nat)] in
   writes_wf nat 0 (pre ++ w :: post) = true /\ crash nat pre w 1 = [1; 2; 3; 4; 5]%nat /\
   complete nat pre w post = [1; 9; 3; 4; 5; 6; 7]%nat /\
   final_byte nat w 1 post 0 = true /\ final_byte nat w 1 post 1 = false /\ final_byte nat w 1 post 4 = true) /\
  (let rows := [(1, 0, 1); (5, 4000, 0); (9, 0, 9); (13, 0, 0)] in
   thorough_table_okb rows = true /\ distinct_keys rows = true /\ n_variant rows = 2%nat /\
   open_table rows 2 = Return [(1, HOffset 0); (5, HConst 4000); (9, HOffset 1); (13, HConst 0)] /\
   torn_table rows 2 = [(1, 0, 1); (5, 4000, 0); (9, 0, 9); (13, 0, 13)]).
Proof. exact (conj c18_witness c18_table_witness). Qed.
Print Assumptions C18_nonvacuous.
