(* C16 Writer pipeline: output independent of thread interleaving; always completes.
   ONLY statements; each closed by `exact <lemma>` and followed by Print Assumptions.

   The system: `init gen_progs n capc capw` -- the calling thread, the compressor thread and the writer thread run the
   operation lists GENERATED from conversion_utils.py (Gen/Pipeline.v: main_ops, compressor_pro/loop, writer_pro/loop)
   under the interleaving semantics of Model/Pipeline.v (bounded FIFO queue.Queue with unfinished-task counter,
   thread start, file writes); n = number of items the producer puts, capc / capw = the capacities of the two queues.
   A schedule is ANY list of thread choices; `run sched s0 = Some s` says every choice was enabled.
   Quantified over ALL n >= 1, ALL capacities >= 1, ALL schedules (no bound). *)
From Coq Require Import List Bool Arith Lia.
Import ListNotations.
From SZ Require Import Model.Pipeline Proofs.Pipeline.

(* the generated operation order is the one the proofs are about *)
Theorem C16_generated_programs :
  main_ops = [Start TC; Start TW; Produce Qc; Join Qc; Join Qw; Flush] /\
  compressor_pro = [] /\ compressor_loop = [Get Qc; Compress; Put Qw; TaskDone Qc] /\
  writer_pro = [WriteHeader] /\ writer_loop = [Get Qw; WriteFile; TaskDone Qw] /\
  caller_ops = [[CallLoop; WriteFooters; PatchHash]; [CallLoop; WriteFooters; PatchHash]].
Proof. exact generated_programs_eq. Qed.
Print Assumptions C16_generated_programs.

(* termination: no execution has more than 8n+6 steps, so every schedule is finite *)
Theorem C16_terminates : forall n capc capw, 1 <= n -> 1 <= capc -> 1 <= capw ->
  forall k s, nsteps k (init gen_progs n capc capw) s -> k <= 8 * n + 6.
Proof. exact terminates. Qed.
Print Assumptions C16_terminates.

(* no deadlock: while the calling thread has not returned, some thread can move *)
Theorem C16_no_deadlock : forall n capc capw, 1 <= n -> 1 <= capc -> 1 <= capw ->
  forall k s, nsteps k (init gen_progs n capc capw) s -> ~ main_done s -> exists t s', step t s = Some s'.
Proof. exact no_deadlock. Qed.
Print Assumptions C16_no_deadlock.

(* when run_conversion_loop returns the file is the sequential one: header, blocks 0..n-1 compressed, in order, each
   once, then the flush; and exactly 8n+6 operations have been executed *)
Theorem C16_final_file : forall n capc capw, 1 <= n -> 1 <= capc -> 1 <= capw ->
  forall k s, nsteps k (init gen_progs n capc capw) s -> main_done s ->
  file s = sequential_file n /\ k = 8 * n + 6.
Proof. exact final_file. Qed.
Print Assumptions C16_final_file.

(* nothing is written after the call returns: no thread at all has an enabled operation (the daemons block in get) *)
Theorem C16_quiescent_after_return : forall n capc capw, 1 <= n -> 1 <= capc -> 1 <= capw ->
  forall k s, nsteps k (init gen_progs n capc capw) s -> main_done s -> forall t, step t s = None.
Proof. exact quiescent. Qed.
Print Assumptions C16_quiescent_after_return.

(* at every moment of every execution the file is a prefix of the sequential file *)
Theorem C16_file_prefix : forall n capc capw, 1 <= n -> 1 <= capc -> 1 <= capw ->
  forall k s, nsteps k (init gen_progs n capc capw) s -> exists rest, file s ++ rest = sequential_file n.
Proof. exact file_prefix. Qed.
Print Assumptions C16_file_prefix.

(* the same, phrased over schedules *)
Theorem C16_all_schedules : forall n capc capw, 1 <= n -> 1 <= capc -> 1 <= capw ->
  forall sched s, run sched (init gen_progs n capc capw) = Some s ->
  length sched <= 8 * n + 6 /\
  (exists rest, file s ++ rest = sequential_file n) /\
  (main_done s -> length sched = 8 * n + 6 /\ file s = sequential_file n /\ forall t, step t s = None) /\
  (~ main_done s -> exists t s', step t s = Some s').
Proof. exact all_schedules. Qed.
Print Assumptions C16_all_schedules.

(* the model discriminates: with task_done before put in the compressor a schedule loses block 0 *)
Theorem C16_model_detects_early_task_done :
  exists sched s, run sched (init mutant_progs 1 1 1) = Some s /\ main_done s /\ file s = [EHeader; EFlush] /\
                  file s <> sequential_file 1 /\ enabled TC s = true.
Proof. exact mutant_taskdone_before_put_refuted. Qed.
Print Assumptions C16_model_detects_early_task_done.

(* non-vacuity: a concrete complete schedule for 2 items and capacities 1 (the compressor and the writer interleaved
   with the producer) runs to the end and yields the sequential file *)
Example C16_nonvacuous :
  exists s, run [TM; TM; TW; TM; TC; TC; TM; TC; TW; TC; TC; TW; TW; TC; TC; TW; TC; TW; TW; TM; TM; TM]
                (init gen_progs 2 1 1) = Some s /\
            main_done s /\ file s = [EHeader; EBlock (Comp 0); EBlock (Comp 1); EFlush].
Proof. eexists. split; [vm_compute; reflexivity|]. split; reflexivity. Qed.
