(* C06c  SEG-Y export THROUGH THE CLI: `sgz2sgy input output` IS SgzConverter(input).convert_to_segy(output), the call the
   C06 theorems (Props/C06.v, C06a.v) are about.  ONLY statements.  Gen/Cli.v GENERATED from cli.py (this replaces the
   pinned reading "the CLI command is a bare call of convert_to_segy"); Model/Cli.v the hand model of click. *)
From Coq Require Import ZArith List Bool String.
From SZ Require Import Gen.Cli Model.Cli Proofs.Cli.
Import ListNotations.
Open Scope Z_scope.
Open Scope string_scope.

(* 1. for every pair of file names, the input existing: the two calls, nothing else, no keyword arguments *)
Theorem C06c_sgz2sgy_calls : forall C input output,
  cv_exists C input = true ->
  cli_run C cmd_sgz2sgy (sgz2sgy_invocation input output) = api_sgz2sgy input output.
Proof. exact sgz2sgy_calls. Qed.
Print Assumptions C06c_sgz2sgy_calls.

(* 2. against the GENERATED signatures of conversion.py: the first token is `file`, the second `out_file`; the reader is
   opened with the API's defaults (filetype_checking=True, preload=False, chunk_cache_size=None) *)
Theorem C06c_sgz2sgy_api_binding : forall input output,
  match the_calls (api_sgz2sgy input output) with
  | Some (ctor, exp) =>
      api_bind api_sgzconverter_init_params ctor =
        Some [("file", VStr input); ("filetype_checking", VBool true); ("preload", VBool false); ("chunk_cache_size", VNone)] /\
      api_bind api_sgzconverter_convert_to_segy_params exp = Some [("out_file", VStr output)]
  | None => False
  end.
Proof. exact sgz2sgy_api_binding. Qed.
Print Assumptions C06c_sgz2sgy_api_binding.

(* 3. the command has no options: its parameters are the two paths and --version *)
Theorem C06c_sgz2sgy_params :
  cmd_params cmd_sgz2sgy =
  [DArgument "input-sgz-file" (CPath true) true; DArgument "output-sgy-file" (CPath false) true; DVersion].
Proof. exact sgz2sgy_params. Qed.
Print Assumptions C06c_sgz2sgy_params.

Example C06c_nonvacuous :
  cli_run (click_std (fun s => String.eqb s "a.sgz")) cmd_sgz2sgy (sgz2sgy_invocation "a.sgz" "b.sgy") =
    CliCalls {| call_name := "SgzConverter"; call_pos := [VStr "a.sgz"]; call_kw := [] |}
             {| call_name := "convert_to_segy"; call_pos := [VStr "b.sgy"]; call_kw := [] |} /\
  cli_run (click_std (fun s => String.eqb s "a.sgz")) cmd_sgz2sgy (sgz2sgy_invocation "b.sgz" "b.sgy") = CliUsageError.
Proof. split; vm_compute; reflexivity. Qed.
