(* C17 continuation: the slot theorem of the (N, N, 4) z-slice fan-out for EVERY well-formed header.  Props/C17.v states
   it under two arithmetic side conditions on the byte counts the loader derives from the bit rate; here they are
   discharged from wf3 (one block is 4096 bytes, the unit size is a whole number of bytes) and blockshape[2] = 4, with
   r1, r2 the GENERATED expressions int(4*4*blockshape[1]*rate), int(shape_pad[1]*4*4*rate) of Gen/Reader.v.
   ONLY statements; each closed by `exact <lemma>`. *)
From Coq Require Import ZArith List Bool.
Import ListNotations.
From SZ Require Import Lib.Py Gen.Reader Gen.Faults Model.Faults Spec.Container Proofs.General Proofs.Faults Proofs.FaultsWf.
Open Scope Z_scope.

(* the two byte counts are what the specification says a 4 x bs1 x 4 sub-block and a row of them occupy *)
Theorem C17_adv_byte_counts : forall H, wf3 H = true ->
  adv_r1 H / 8 = adv_sub_len H /\ adv_r2 H / 8 = nbx3 H * adv_sub_len H.
Proof. intros H W. split; [exact (adv_r1_eq H W) | exact (adv_r2_eq H W)]. Qed.
Print Assumptions C17_adv_byte_counts.

(* every slice assignment of every task of the fan-out lies inside the shared buffer, the slots are pairwise distinct and
   together cover the buffer: any completion order of the parallel range reads yields the same bytes *)
Theorem C17_zslice_set_adv_slots_wf : forall H zf, wf3 H = true -> s_bs2 H = 4 ->
  tasks_okb (Z.to_nat (zslice_set_adv_buflen (rd_block_bytes H) (nbi3 H) (nbx3 H)))
            (adv_tasks (rd_block_bytes H) (nbi3 H) (nbx3 H) (nbz3 H) (rd_blockshape0 H) (adv_r1 H) (adv_r2 H) zf) = true.
Proof. exact zslice_set_adv_tasks_ok_wf. Qed.
Print Assumptions C17_zslice_set_adv_slots_wf.

(* non-vacuity: a 65 x 70 x 10 cube at 2 bits in the (64, 64, 4) layout, and a half-bit (128, 128, 4) file *)
Example C17a_nonvacuous :
  let H1 := hdr_of_list [2; 10; 65; 70; 2; 64; 64; 4; 12; 100; 2; 4550; 4199] in
  let H2 := hdr_of_list [2; 9; 130; 9; -2; 128; 128; 4; 6; 100; 2; 1170; 4199] in
  (wf3 H1 = true /\ s_bs2 H1 = 4 /\ adv_r1 H1 / 8 = 256 /\ adv_r2 H1 / 8 = 512) /\
  (wf3 H2 = true /\ s_bs2 H2 = 4 /\ adv_r1 H2 / 8 = 128 /\ adv_r2 H2 / 8 = 256).
Proof. cbv zeta. repeat split; vm_compute; reflexivity. Qed.
