(* C06 SEG-Y export round trip: SGZ back to SEG-Y loses nothing but codec error.  ONLY statements.

   What is proved (for ALL trace counts, geometries, stored headers, reader behaviours): the repo-side logic of
   SgzConverter.convert_to_segy / write_segy / regenerate_trace_header, whose data (spec fields, format-code bytes,
   operation order, index expressions, header overrides) are GENERATED from conversion.py into Gen/Export.v and
   interpreted by Model/Export.v.  The exported file is a record: header region + list of (trace header, samples).

   What is NOT proved and is an ASSUMPTION VALIDATED BY THE HARNESS on every sample of every generated file
   (tools/checks/export.py): the numeric clause of the property -- segyio writes a float32 sample exactly when the
   format is IEEE (5) and to within relative 2^-20 when it is IBM (1).  That is a property of segyio's C code,
   which is outside /repo; here a trace is an abstract value T and its bytes an arbitrary function enc_tr.
   Likewise segyio's own behaviour (what segyio.create writes first, that bulk assignment writes item i as trace
   i, the 240 + 4*ns layout, where it looks for trace 0 on re-opening) enters as the model described at the top of
   Model/Export.v and is checked by the correspondence harness, not proved.

   Hypotheses named in the statements: `reader_ok` (boolean well-formedness of the parsed SGZ header: trace count
   non-negative and, for 3D, at most n_il * n_xl; stored header block at least 3600 bytes) and `init_head_len`
   (segyio.create writes a 3600-byte header region; its CONTENT is arbitrary). *)
From Coq Require Import ZArith List Bool Lia.
From SZ Require Import Lib.Py Gen.Export Gen.Reader Model.Export Proofs.Export.
Import ListNotations.
Open Scope Z_scope.

Section C06.
Variable AX : Type.                                 (* values of the sample axis *)
Variable T : Type.                                  (* a decoded trace *)
Variable tzero : T.
Variable get_trace : Z -> bool -> outcome T.        (* SgzReader.get_trace(index, override_unstructured_mapping) *)
Variable gen_trace_header : Z -> outcome thdr.      (* SgzReader.gen_trace_header(index) *)
Variable init_head : spec AX -> list Z.             (* what segyio.create writes at the start: arbitrary content *)
Hypothesis init_head_len : forall sp, zlen (init_head sp) = 3600.
Notation export := (export AX T tzero get_trace gen_trace_header init_head).

(* trace order: the exported file has exactly tracecount traces and trace i is what get_trace(i) returned, with the
   reader's default ordinal mapping -- whatever the geometry (3D regular, irregular, 2D: see the three corollaries
   on the reader's index logic below) *)
Theorem C06_export_trace_order : forall (r : reader AX) sp f, reader_ok AX r = true -> export r = Return (sp, f) ->
  zlen (f_traces f) = r_tracecount r /\
  forall i, 0 <= i < r_tracecount r -> get_trace i false = Return (snd (nth (Z.to_nat i) (f_traces f) (tr_zero T tzero))).
Proof. exact (export_trace_order_proof AX T tzero get_trace gen_trace_header init_head init_head_len). Qed.

(* headers: header i is the regenerated header i = gen_trace_header(i) with DelayRecordingTime (109) replaced by
   int(zslices[0]); it equals the source header on every field given header preservation (C04: h = src) and the
   property's hypothesis that the source delay is the first sample time *)
Theorem C06_export_headers : forall (r : reader AX) sp f, reader_ok AX r = true -> export r = Return (sp, f) ->
  forall i, 0 <= i < r_tracecount r ->
  exists h, gen_trace_header i = Return h /\
    let eh := fst (nth (Z.to_nat i) (f_traces f) (tr_zero T tzero)) in
    eh = apply_overrides AX r h /\
    (forall k, eh k = if k =? 109 then r_first_sample r else h k) /\
    (forall src : thdr, (forall k, h k = src k) -> src 109 = r_first_sample r -> forall k, eh k = src k).
Proof. exact (export_headers_proof AX T tzero get_trace gen_trace_header init_head init_head_len). Qed.

(* file header: the header region of the exported file is the stored 3600 bytes -- for every init_head, i.e.
   whatever segyio wrote there before (the stored header is written last, over the start) *)
Theorem C06_export_file_header_verbatim : forall (r : reader AX) sp f, reader_ok AX r = true -> export r = Return (sp, f) ->
  f_head f = firstn 3600 (export_stored (r_stored r)) /\ length (f_head f) = 3600%nat /\
  (segy_format (r_stored r) = 1 \/ segy_format (r_stored r) = 5 -> f_head f = firstn 3600 (r_stored r)).
Proof. exact (export_file_header_verbatim_proof AX T tzero get_trace gen_trace_header init_head init_head_len). Qed.

(* geometry: the spec handed to segyio carries the SGZ axes unchanged; segyio accepts at least tracecount traces *)
Theorem C06_export_geometry : forall (r : reader AX) sp f, reader_ok AX r = true -> export r = Return (sp, f) ->
  sp_samples sp = Some (r_zslices r) /\ sp_format sp = export_format (r_stored r) /\
  (r_is_3d r = true -> sp_ilines sp = Some (r_ilines r) /\ sp_xlines sp = Some (r_xlines r) /\ sp_offsets sp = Some [0] /\
                       sp_sorting sp = Some 2 /\ f_cap f = zlen (r_ilines r) * zlen (r_xlines r)) /\
  (r_is_3d r = false -> sp_ilines sp = None /\ sp_xlines sp = None /\ sp_tracecount sp = Some (r_tracecount r) /\
                        f_cap f = r_tracecount r) /\
  r_tracecount r <= f_cap f.
Proof. exact (export_geometry_proof AX T tzero get_trace gen_trace_header init_head init_head_len). Qed.

(* the export fails exactly when a reader call fails: nothing else can go wrong on the repo side *)
Theorem C06_export_succeeds_iff : forall r : reader AX, reader_ok AX r = true ->
  ((exists x, export r = Return x) <->
   (forall i, 0 <= i < r_tracecount r -> (exists t, get_trace i false = Return t) /\ (exists h, gen_trace_header i = Return h))).
Proof. exact (export_succeeds_iff AX T tzero get_trace gen_trace_header init_head init_head_len). Qed.

(* all repo-side clauses together *)
Theorem C06_export_round_trip : forall (r : reader AX) sp f (src : Z -> thdr),
  reader_ok AX r = true -> export r = Return (sp, f) ->
  (segy_format (r_stored r) = 1 \/ segy_format (r_stored r) = 5) ->
  (forall i h, 0 <= i < r_tracecount r -> gen_trace_header i = Return h -> forall k, h k = src i k) ->
  (forall i, 0 <= i < r_tracecount r -> src i 109 = r_first_sample r) ->
  f_head f = firstn 3600 (r_stored r) /\ sp_format sp = segy_format (r_stored r) /\
  zlen (f_traces f) = r_tracecount r /\
  forall i, 0 <= i < r_tracecount r ->
    (forall k, fst (nth (Z.to_nat i) (f_traces f) (tr_zero T tzero)) k = src i k) /\
    get_trace i false = Return (snd (nth (Z.to_nat i) (f_traces f) (tr_zero T tzero))).
Proof. exact (export_round_trip_proof AX T tzero get_trace gen_trace_header init_head init_head_len). Qed.

(* D34 (known finding): the stored binary header may announce extended textual headers, which the SGZ file does not
   store and the exporter does not write.  Inside the guard (none announced) segyio finds trace 0 where the
   exporter put it; outside it there is a witness for which it looks 3200 bytes too far *)
Theorem C06_export_reopen_partial : forall (r : reader AX) sp f ns, reader_ok AX r = true -> export r = Return (sp, f) ->
  segy_ext_headers (r_stored r) = 0 -> reopen_trace0 (f_head f) = trace_offset ns 0.
Proof. exact (export_reopen_partial_proof AX T tzero get_trace gen_trace_header init_head init_head_len). Qed.
Theorem C06_export_reopen_refuted :
  exists stored, zlen stored = 4096 /\ segy_format stored = 5 /\ segy_ext_headers stored = 1 /\
    forall (r : reader AX) sp f ns, r_stored r = stored -> reader_ok AX r = true -> export r = Return (sp, f) ->
      reopen_trace0 (f_head f) = 6800 /\ trace_offset ns 0 = 3600.
Proof. exact (export_reopen_refuted_proof AX T tzero get_trace gen_trace_header init_head init_head_len). Qed.

(* D35 (known finding): the exported delay is int(zslices[0]) for every trace, so a source whose delay is not its first
   sample time (ScalarTraceHeader other than 0, 1, -1 with a non-zero delay; fractional start time) does not get its
   delay back: outside the guard `src 109 = r_first_sample r` of C06_export_headers the header differs *)
Theorem C06_export_delay_refuted : forall (r : reader AX) sp f, reader_ok AX r = true -> export r = Return (sp, f) ->
  forall i, 0 <= i < r_tracecount r ->
    fst (nth (Z.to_nat i) (f_traces f) (tr_zero T tzero)) 109 = r_first_sample r /\
    forall src : thdr, src 109 <> r_first_sample r -> fst (nth (Z.to_nat i) (f_traces f) (tr_zero T tzero)) 109 <> src 109.
Proof. exact (export_delay_refuted_proof AX T tzero get_trace gen_trace_header init_head init_head_len). Qed.
End C06.
Print Assumptions C06_export_delay_refuted.
Print Assumptions C06_export_trace_order.
Print Assumptions C06_export_headers.
Print Assumptions C06_export_file_header_verbatim.
Print Assumptions C06_export_geometry.
Print Assumptions C06_export_succeeds_iff.
Print Assumptions C06_export_round_trip.
Print Assumptions C06_export_reopen_partial.
Print Assumptions C06_export_reopen_refuted.

(* trace order with the GENERATED reader (Gen/Reader.v, translated from read.py): trace i of the exported file is
   rd_get_trace(i) of the SGZ file with header H, the unstructured ordinal map being mask_nth_model of its mask *)
Theorem C06_export_trace_order_reader : forall (AX : Type) (mask : list bool) (H : hdr) (z : arrv) gth init_head,
  (forall sp, zlen (init_head sp) = 3600) ->
  forall (r : reader AX) sp f, reader_ok AX r = true ->
  export AX arrv z (fun i ovr => rd_get_trace (mask_nth_model mask) H i None None ovr) gth init_head r = Return (sp, f) ->
  zlen (f_traces f) = r_tracecount r /\
  forall i, 0 <= i < r_tracecount r ->
    rd_get_trace (mask_nth_model mask) H i None None false = Return (snd (nth (Z.to_nat i) (f_traces f) (tr_zero arrv z))).
Proof.
  intros AX mask H z gth init_head Hlen.
  exact (export_trace_order_proof AX arrv z (fun i ovr => rd_get_trace (mask_nth_model mask) H i None None ovr) gth init_head Hlen).
Qed.
Print Assumptions C06_export_trace_order_reader.

(* which cell get_trace(i) decodes (hand model trace_cell of the reader's index logic, pinned to read.py get_trace):
   2D: position i of the line;  3D regular: cell i of the inline-major grid;  irregular: the i-th populated cell *)
Theorem C06_trace_cell_2d : forall st mask nc tc i ovr, 0 <= i < tc -> trace_cell false st mask nc tc i ovr = Return i.
Proof. exact trace_cell_2d. Qed.
Theorem C06_trace_cell_regular : forall mask nc tc i ovr, 0 <= i < nc -> trace_cell true true mask nc tc i ovr = Return i.
Proof. exact trace_cell_regular. Qed.
Theorem C06_trace_cell_irregular : forall mask tc i, zlen (filter (fun b => b) mask) = tc -> 0 <= i < tc ->
  exists p, trace_cell true false mask (zlen mask) tc i false = Return p /\ mask_nth_model mask i = Return p /\
            0 <= p < zlen mask /\ nth (Z.to_nat p) mask false = true.
Proof. exact trace_cell_irregular. Qed.
(* the ordinal map hits populated cells only, is strictly increasing (trace order is preserved), is onto the
   populated cells, and is out of range from the number of populated cells on *)
Theorem C06_irregular_order_preserved : forall mask,
  let n := zlen (filter (fun b => b) mask) in
  (forall i, 0 <= i < n -> exists p, mask_nth_model mask i = Return p /\ 0 <= p < zlen mask /\
                                     nth (Z.to_nat p) mask false = true) /\
  (forall i j p q, 0 <= i -> i < j -> j < n -> mask_nth_model mask i = Return p -> mask_nth_model mask j = Return q -> p < q) /\
  (forall p, 0 <= p < zlen mask -> nth (Z.to_nat p) mask false = true -> exists i, 0 <= i < n /\ mask_nth_model mask i = Return p) /\
  (forall i, n <= i -> mask_nth_model mask i = Raise IndexErr).
Proof. exact mask_nth_model_spec. Qed.
Print Assumptions C06_trace_cell_irregular.
Print Assumptions C06_irregular_order_preserved.

(* format code: the code the exporter reads is the data sample format code of the stored binary header (bytes
   3225-3226, big-endian); IBM (1) and IEEE (5) are used as they are and the stored header is left alone; anything
   else becomes IBM and exactly the two bytes of that field are rewritten (holds for the code after fix D29) *)
Theorem C06_format_code_choice : forall stored, 3600 <= zlen stored ->
  (export_format stored = 1 \/ export_format stored = 5) /\
  (segy_format stored = 1 \/ segy_format stored = 5 ->
     export_format stored = segy_format stored /\ export_stored stored = stored) /\
  (~ (segy_format stored = 1 \/ segy_format stored = 5) ->
     export_format stored = 1 /\ length (export_stored stored) = length stored /\
     segy_format (export_stored stored) = 1 /\
     forall n, n <> 3224%nat -> n <> 3225%nat -> nth n (export_stored stored) 0 = nth n stored 0).
Proof. exact format_code_choice_proof. Qed.
Print Assumptions C06_format_code_choice.

(* the list-update lemma itself: after writing `data` at the start of a region at least as long, the first
   len(data) bytes are `data`, the rest and the length are unchanged -- for every previous content *)
Theorem C06_overwrite_prefix : forall (data l : list Z), (length data <= length l)%nat ->
  firstn (length data) (overwrite 0 data l) = data /\ skipn (length data) (overwrite 0 data l) = skipn (length data) l
  /\ length (overwrite 0 data l) = length l.
Proof. exact (@overwrite_prefix Z). Qed.

(* layout: in the bytes of a file with a 3600-byte header region and traces of ns samples, header i is the 240 bytes
   at 3600 + i*(240 + 4 ns) and its samples the 4 ns bytes behind it (enc_hdr / enc_tr: segyio's encodings) *)
Theorem C06_export_layout : forall (T : Type) (tlen : T -> nat) (enc_hdr : thdr -> list Z) (enc_tr : Z -> T -> list Z),
  (forall h, length (enc_hdr h) = 240%nat) -> (forall fmt t, length (enc_tr fmt t) = (4 * tlen t)%nat) ->
  forall fmt (f : sfile T) (ns i : nat) (d : thdr * T),
  length (f_head f) = 3600%nat -> (forall p, In p (f_traces f) -> tlen (snd p) = ns) -> (i < length (f_traces f))%nat ->
  let off := (3600 + i * (240 + 4 * ns))%nat in
  let bytes := layout T enc_hdr enc_tr fmt f in
  Z.of_nat off = trace_offset (Z.of_nat ns) (Z.of_nat i) /\
  firstn 240 (skipn off bytes) = enc_hdr (fst (nth i (f_traces f) d)) /\
  firstn (4 * ns) (skipn (off + 240) bytes) = enc_tr fmt (snd (nth i (f_traces f) d)) /\
  length bytes = (3600 + length (f_traces f) * (240 + 4 * ns))%nat.
Proof. exact export_layout_proof. Qed.
Print Assumptions C06_overwrite_prefix.
Print Assumptions C06_export_layout.

(* non-vacuity: a concrete irregular export (2 x 3 grid, 4 populated cells, 7 samples, IEEE) satisfies reader_ok and
   exports traces of cells 0, 2, 3, 5 at the stated offsets *)
Example C06_nonvacuous :
  reader_ok Z (demo_reader true false 7 [10; 13] [20; 22; 24] 4 0 (demo_stored 0 5 1 0 0 0)) = true /\
  demo_plan true false [true; false; true; true; false; true] 7 [10; 13] [20; 22; 24] 4 (demo_stored 0 5 1 0 0 0)
  = Return (6, 5, 4, true, (3600, [], 3600), [(3600, 3840, 0); (3868, 4108, 2); (4136, 4376, 3); (4404, 4644, 5)]).
Proof. exact export_demo_irregular. Qed.
