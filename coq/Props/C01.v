(* C01 Write-then-read fidelity.  ONLY statements.
   What is proved, for EVERY well-formed header (all cube sizes, every blockshape with entries multiples of 4, every
   rate that makes one block 4096 bytes) and about the producers as GENERATED from conversion_utils.py on this run:
   (1) the units handed to the compressor, in queue order, are exactly the units the SPECIFICATION places at positions
       0, 1, 2, ... of the data section (so the data section is complete, has the stated size and no unit twice);
   (2) every cell of the padded cube is filled with the source sample obtained by clamping the coordinates to the real
       extent (edge replication), identically for the NumPy route, the segyio route and the reduced-I/O reader;
   (3) hence, voxel by voxel: the unit the specification decoder (C02) consults for a real voxel (i,x,z) is the
       ZFP code of the 4x4x4 unit of the edge-extended source that contains (i,x,z) -- a statement in which neither the
       blockshape, nor the route, nor queue sizes occur.
   Assumed (validated by the harness on every run, not proved): zfpy.compress_numpy of an array whose dimensions are
   multiples of 4 emits its unit codes in C order, each a function of its own unit only; the FIFO order of the two
   queues is C16. *)
From Coq Require Import ZArith List Bool Lia.
Import ListNotations.
From SZ Require Import Lib.Py Gen.Reader Gen.Producer Spec.Container Model.Writer Proofs.Writer.
Open Scope Z_scope.

Theorem C01_numpy_unit_order : forall H, wf3 H = true -> map (uidx H) (dims_np H) = zrange 0 (data_units H).
Proof. exact np_unit_order. Qed.
Print Assumptions C01_numpy_unit_order.

Theorem C01_segy_unit_order : forall H, wf3 H = true -> map (uidx H) (dims_sf H) = zrange 0 (data_units H).
Proof. exact sf_unit_order. Qed.
Print Assumptions C01_segy_unit_order.

Theorem C01_data_section_complete : forall H, wf3 H = true ->
  length (dims_np H) = Z.to_nat (data_units H) /\ length (dims_sf H) = Z.to_nat (data_units H).
Proof. exact written_count. Qed.
Print Assumptions C01_data_section_complete.

Theorem C01_voxel_fidelity : forall H, wf3 H = true -> forall i x z, 0 <= i < s_nil H -> 0 <= x < s_nxl H -> 0 <= z < s_ns H ->
  let k := unit_index3 H (i / 4) (x / 4) (z / 4) in
  spec_cell3 H i x z = PUnit (s_ub3 H * k) (((i mod 4) * 4 + x mod 4) * 4 + z mod 4) /\
  nth_error (dims_np H) (Z.to_nat k) = Some (i / 4, x / 4, z / 4) /\
  nth_error (dims_sf H) (Z.to_nat k) = Some (i / 4, x / 4, z / 4) /\
  (forall da db dc, 0 <= da < 4 -> 0 <= db < 4 -> 0 <= dc < 4 ->
     let s := edge_src (s_nil H) (s_nxl H) (s_ns H) (4 * (i / 4) + da) (4 * (x / 4) + db) (4 * (z / 4) + dc) in
     np_cell_src (s_nil H) (s_nxl H) (s_ns H) (s_bs0 H) (s_bs1 H) (s_bs2 H) (4 * (i / 4) + da) (4 * (x / 4) + db) (4 * (z / 4) + dc) = s /\
     (forall minimal, sf_cell_src (s_nil H) (s_nxl H) (s_ns H) (s_bs0 H) (s_bs1 H) (s_bs2 H) minimal
                        (4 * (i / 4) + da) (4 * (x / 4) + db) (4 * (z / 4) + dc) = s)) /\
  edge_src (s_nil H) (s_nxl H) (s_ns H) i x z = (i, x, z).
Proof. exact voxel_fidelity. Qed.
Print Assumptions C01_voxel_fidelity.

(* a 5 x 9 x 600 cube at 2 bits per voxel in blockshape (4, 8, 512): the setting on which the pinned tree was wrong *)
Example C01_nonvacuous :
  let H := hdr_of_list [2; 600; 9; 5; 2; 4; 8; 512; 12; 180; 2; 45; 4199] in
  wf3 H = true /\ map (uidx H) (dims_np H) = zrange 0 (data_units H) /\ data_units H = 2 * 4 * 256.
Proof. cbv zeta. split; [vm_compute; reflexivity | split; vm_compute; reflexivity]. Qed.
