(* C05b Geometry preservation, the sample axis on the WHOLE domain.  ONLY statements.

   C05 proves the sample-axis clauses on the finite sub-domain zs_dom by vm_compute sweeps.  Here the same clauses hold for
   EVERY whole-microsecond interval d = 1..65535, EVERY whole-millisecond start time t0 = -32768..32767 (the full ranges of
   the two 16-bit SEG-Y fields: 4.3e9 pairs) and EVERY axis length 2 <= n < 2^32 (domain predicate zs_dom_all), about the
   SAME definitions of Model/Geometry.v (stored_interval, stored_start, written, rd_axis over the GENERATED
   Gen/Geometry.v; source axis = segyio's (arange(n) * (d / 1000.0)) + t0, hand model segy_samples).

   Proved by real analysis, not by enumeration (Proofs/GeometryAll.v): the primitive float operations are related to
   Flocq's binary64 and each is a correctly rounded real operation; 1000.0 * (samples[1] - samples[0]) is within 1/4 of d,
   so np.rint gives d; samples[0] is t0 exactly; the reader's element  t0 + (d / 1000) * k  is the source's
   k * (d / 1000.0) + t0  with the operands of the two commutative operations exchanged.
   Print Assumptions therefore lists, besides the kernel's primitive float / int63 operations (as for C05), the standard
   library's AXIOMS specifying them (Coq.Floats.FloatAxioms: add_spec, sub_spec, mul_spec, div_spec, opp_spec, abs_spec,
   eqb_spec, of_uint63_spec, classify_spec, frshiftexp_spec, normfr_mantissa_spec, Prim2SF_valid, SF2Prim_Prim2SF,
   Prim2SF_SF2Prim;
   Uint63 *_spec) and the axioms of the standard library's real numbers (ClassicalDedekindReals.sig_forall_dec,
   sig_not_dec, functional_extensionality_dep, Classical_Prop.classic).  No axiom is declared by this development. *)
From Coq Require Import ZArith List Bool String Lia.
From SZ Require Import Lib.Py Gen.Utils Gen.Version Gen.Reader Gen.Geometry Model.Geometry Proofs.Geometry Proofs.GeometryAll.
Import ListNotations.
Open Scope Z_scope.

(* the interval is stored exactly: np.rint(1000.0 * (samples[1] - samples[0])) = d for the whole SEG-Y domain *)
Theorem C05b_interval_exact_all : forall d t0, 1 <= d <= 65535 -> -32768 <= t0 <= 32767 ->
  stored_interval (segy_samples d t0 2) = Return d.
Proof. exact interval_exact_all. Qed.
Print Assumptions C05b_interval_exact_all.

(* the start time is stored exactly (two's complement) *)
Theorem C05b_start_exact_all : forall d t0, 1 <= d <= 65535 -> -32768 <= t0 <= 32767 ->
  stored_start (segy_samples d t0 2) = Return (u32 t0).
Proof. exact start_exact_all. Qed.
Print Assumptions C05b_start_exact_all.

(* header of a source with segyio's sample axis: count, start and interval, any length *)
Theorem C05b_sample_fields_written_all : forall c d t0 n,
  zs_dom_all d t0 n = true -> c_samples c = segy_samples d t0 n ->
  written c 4 n /\ written c 16 (u32 t0) /\ written c 28 d.
Proof. exact sample_fields_written_all. Qed.
Print Assumptions C05b_sample_fields_written_all.

(* C05_zslices_preserved with zs_dom replaced by the whole domain: any header E of a non-ZGY file of a version after 0.1.6
   that holds what was written for c regenerates a sample axis with the same number of elements and the same 64 bits per
   element as the source's *)
Theorem C05b_zslices_preserved_all : forall c E d t0 n,
  zs_dom_all d t0 n = true -> c_samples c = segy_samples d t0 n ->
  written c 4 (e_u32 E 4) -> written c 16 (e_u32 E 16) -> written c 28 (e_u32 E 28) ->
  PrimFloat.eqb (e_f64 E 92) f_zero = true -> (e_ver E >? version_to_encoding 0 1 6 false) = true ->
  exists r, rd_axis E rd_axis_zslices = Return r /\ list_same r (c_samples c) = true.
Proof. exact zslices_preserved_all. Qed.
Print Assumptions C05b_zslices_preserved_all.

(* the domain predicate says what the header comment says *)
Theorem C05b_dom_all_reading : forall d t0 n,
  zs_dom_all d t0 n = true -> 1 <= d <= 65535 /\ -32768 <= t0 <= 32767 /\ 2 <= n < two32.
Proof. exact zs_dom_all_facts. Qed.

(* binary64 * and + are commutative on bit patterns, for ALL floats (why the regenerated axis needs no error analysis) *)
Theorem C05b_mul_comm : forall x y, PrimFloat.mul x y = PrimFloat.mul y x.
Proof. exact prim_mul_comm. Qed.
Theorem C05b_add_comm : forall x y, PrimFloat.add x y = PrimFloat.add y x.
Proof. exact prim_add_comm. Qed.
Print Assumptions C05b_add_comm.

(* non-vacuity: interval 1001 us (the first one the unrepaired code stored wrongly), start -32768 ms, 3 samples: in the
   domain, the hypotheses of C05b_zslices_preserved_all hold for the concrete cube / header of C05_nonvacuous, and the two
   header values evaluated by the kernel (vm_compute) are the ones the theorems state *)
Example C05b_nonvacuous :
  zs_dom_all 1001 (-32768) 3 = true /\ c_samples nv_cube = segy_samples 1001 (-32768) 3 /\
  written nv_cube 4 (e_u32 nv_env 4) /\ written nv_cube 16 (e_u32 nv_env 16) /\ written nv_cube 28 (e_u32 nv_env 28) /\
  PrimFloat.eqb (e_f64 nv_env 92) f_zero = true /\ (e_ver nv_env >? version_to_encoding 0 1 6 false) = true /\
  stored_interval (segy_samples 1001 (-32768) 2) = Return 1001 /\
  stored_start (segy_samples 1001 (-32768) 2) = Return (u32 (-32768)).
Proof. exact geometry_all_nonvacuous. Qed.
Print Assumptions C05b_nonvacuous.
