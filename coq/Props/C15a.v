(* C15a State footprint: a public method writes nothing but caches.
   ONLY statements; each closed by `exact <lemma>` and followed by Print Assumptions.

   Gen/StateFoot.v (tools/genx_statefoot.py, regenerated from /repo on every run) is the census: for every method of every
   public class the set of object-state tokens it can write, closed under the calls it makes (self methods through the
   MRO, attribute objects, package functions, captured references).  Model/StateFoot.v fixes the CACHE set -- the
   state whose soundness is C15's invariant cache_sound (Proofs/Caches.v) -- and the EXCEPTIONS, each with a reason and
   with evidence the generator must find in the source.

   C15a_census_checked           every public method other than __init__/__new__/__enter__/__exit__/__del__/close/
                                 close_sgz_file of every class writes only cache tokens or listed exceptions; no module
                                 global, class attribute or shared default is written; no memo dictionary is iterated;
                                 nobody but the cropper (structured files only) calls the sticky read_variant_headers.
   C15a_noncache_state_preserved for ANY semantics of the methods that respects the census (hypothesis `frame`: a call
                                 changes only its effective footprint) and ANY finite sequence of checked public calls,
                                 every protected attribute holds what the constructor left (induction over the calls).
   C15a_history_only_through_caches   two histories that agree on the unprotected state (the caches -- C15 -- and the
                                 listed Scratch / GuardedAlias / InputMemo attributes) give the same result for any call.
   Exceptions (Model/StateFoot.v `exceptions`, pinned here by C15a_exceptions):
     SgzConverter.convert_to_segy / headerbytes     Restored      (D46 repair: save, try, finally restore)
     SeismicZfpBackendArray.__getitem__ / lock      Transient     (D51 repair: with self.lock)
     NumpyConverter.run / geom                      Scratch       (assigned before use)
     NumpyConverter.run / trace_headers[]           GuardedAlias  (reference kept by HeaderwordInfo, never written for a numpy source)
     SeismicFileConverter family . run, detect_geometry, infer_geometry / geom    InputMemo  *)
From Coq Require Import List String Bool Arith.
Import ListNotations.
From SZ Require Import Gen.Caches Gen.StateFoot Model.StateFoot Proofs.StateFoot.
Local Open Scope string_scope.

Theorem C15a_census_checked : census_ok = true.
Proof. exact census_checked. Qed.
Print Assumptions C15a_census_checked.

Theorem C15a_noncache_state_preserved :
  forall (value arg res : Type) (sem : class -> meth -> arg -> (string -> value) -> (string -> value) * res),
  (forall c m a s x, In c census -> In m (c_methods c) -> ~ In x (effective c m) -> fst (sem c m a s) x = s x) ->
  forall c, In c census -> forall (calls : list (meth * arg)) (s0 : string -> value),
    (forall m a, In (m, a) calls -> In m (c_methods c) /\ checked m = true) ->
    forall x, protected c x = true -> fst (run value arg res sem c s0 calls) x = s0 x.
Proof. exact noncache_state_preserved. Qed.
Print Assumptions C15a_noncache_state_preserved.

Theorem C15a_history_only_through_caches :
  forall (value arg res : Type) (sem : class -> meth -> arg -> (string -> value) -> (string -> value) * res),
  (forall c m a s x, In c census -> In m (c_methods c) -> ~ In x (effective c m) -> fst (sem c m a s) x = s x) ->
  (forall c m a s1 s2, (forall x, s1 x = s2 x) -> snd (sem c m a s1) = snd (sem c m a s2)) ->
  forall c, In c census -> forall (h1 h2 : list (meth * arg)) (s0 : string -> value),
    (forall m a, In (m, a) h1 -> In m (c_methods c) /\ checked m = true) ->
    (forall m a, In (m, a) h2 -> In m (c_methods c) /\ checked m = true) ->
    (forall x, protected c x = false -> fst (run value arg res sem c s0 h1) x = fst (run value arg res sem c s0 h2) x) ->
    forall m a, snd (sem c m a (fst (run value arg res sem c s0 h1))) = snd (sem c m a (fst (run value arg res sem c s0 h2))).
Proof. exact history_only_through_caches. Qed.
Print Assumptions C15a_history_only_through_caches.

Theorem C15a_fresh_equivalent :
  forall (value arg res : Type) (sem : class -> meth -> arg -> (string -> value) -> (string -> value) * res),
  (forall c m a s x, In c census -> In m (c_methods c) -> ~ In x (effective c m) -> fst (sem c m a s) x = s x) ->
  (forall c m a s1 s2, (forall x, s1 x = s2 x) -> snd (sem c m a s1) = snd (sem c m a s2)) ->
  forall c, In c census -> forall (h : list (meth * arg)) (s0 : string -> value),
    (forall m a, In (m, a) h -> In m (c_methods c) /\ checked m = true) ->
    (forall x, protected c x = false -> fst (run value arg res sem c s0 h) x = s0 x) ->
    forall m a, snd (sem c m a (fst (run value arg res sem c s0 h))) = snd (sem c m a s0).
Proof. exact fresh_equivalent. Qed.
Print Assumptions C15a_fresh_equivalent.

(* the cache set is the state of Model/Caches.v: class-level tables of Gen/Caches.v, lazy reader caches, chunk LRU,
   handle position, preloaded volume *)
Theorem C15a_cache_set :
  reader_cache =
    ["mask"; "variant_headers[]"; "include_padding"; "file@pos"; "_read_containing_chunk_cached@lru";
     "loader.file@pos"; "loader.compressed_volume";
     "loader.read_and_decompress_trace_range@lru"; "loader.read_unshuffle_and_decompress_chunk_range_2d@lru";
     "loader.read_and_decompress_il_set@lru"; "loader.read_and_decompress_xl_set@lru";
     "loader.read_and_decompress_zslice_set@lru"; "loader.read_and_decompress_zslice_set_adv@lru";
     "loader.read_and_decompress_chunk_range@lru"; "loader.read_unshuffle_and_decompress_chunk_range@lru"] /\
  forallb (fun a => smem a reader_mutable) ["mask"; "variant_headers"; "include_padding"] = true /\
  cached_reads_mutable = ["compressed_volume"] /\
  chunk_cached_method = "_read_containing_chunk".
Proof. exact cache_set_tie. Qed.
Print Assumptions C15a_cache_set.

(* the exceptions, and the generated evidence each of them needs *)
Theorem C15a_exceptions :
  map (fun e => (e_class e, e_method e, e_token e)) exceptions =
    [("SgzConverter", "convert_to_segy", "headerbytes"); ("SeismicZfpBackendArray", "__getitem__", "lock@with");
     ("NumpyConverter", "run", "geom"); ("NumpyConverter", "run", "trace_headers[]");
     ("SeismicFileConverter", "run", "geom"); ("SeismicFileConverter", "detect_geometry", "geom"); ("SeismicFileConverter", "infer_geometry", "geom");
     ("SegyConverter", "run", "geom"); ("SegyConverter", "detect_geometry", "geom"); ("SegyConverter", "infer_geometry", "geom");
     ("ZgyConverter", "run", "geom"); ("ZgyConverter", "detect_geometry", "geom"); ("ZgyConverter", "infer_geometry", "geom");
     ("VdsConverter", "run", "geom"); ("VdsConverter", "detect_geometry", "geom"); ("VdsConverter", "infer_geometry", "geom")] /\
  restored = [("SgzConverter", "convert_to_segy", "headerbytes")] /\
  scratch = [("NumpyConverter", "geom", ["run"])] /\
  mutable_defaults = [("NumpyConverter", "__init__", "trace_headers", false)] /\
  memo_order_uses = [] /\
  sticky_header_callers = [("SgzCropper", "write_cropped_file_by_indexes")] /\
  cropper_structured_guard = true /\ numpy_source_branch_guard = true /\
  census_functions = [("open.open", [], [])].
Proof. repeat split; reflexivity. Qed.
Print Assumptions C15a_exceptions.

(* ---- refuted forms: the same check on what the generator emits for the three repaired defects *)
Theorem C15a_D46_refuted :
  check census census_functions [] scratch mutable_defaults memo_order_uses sticky_header_callers
        cropper_structured_guard numpy_source_branch_guard = false /\
  existsb (fun c => String.eqb (c_name c) "SgzConverter" && negb (class_ok [] scratch numpy_source_branch_guard c)) census = true /\
  forallb (fun c => String.eqb (c_name c) "SgzConverter" || class_ok [] scratch numpy_source_branch_guard c) census = true.
Proof. exact D46_rejected. Qed.
Print Assumptions C15a_D46_refuted.
Theorem C15a_D46_history_dependence :
  let c := mkC "SgzConverter" "conversion" ["SgzConverter"; "SgzReader"] [] [] [] [] in
  let export := mkM "convert_to_segy" "SgzConverter" true "method" ["headerbytes"] ["headerbytes"] [] in
  let query := mkM "get_file_source_code" "SgzReader" true "method" [] [] [] in
  let s0 := fun _ : string => 0 in
  snd (run nat unit nat toy_sem c s0 [(export, tt); (query, tt)]) = [0; 1] /\
  snd (run nat unit nat toy_sem c s0 [(query, tt)]) = [0] /\
  protected c "headerbytes" = true.
Proof. exact D46_history_dependence. Qed.
Print Assumptions C15a_D46_history_dependence.
Theorem C15a_D45_refuted :
  check census census_functions restored scratch mutable_defaults [("SgzConverter", "convert_to_adv_sgz", "variant_headers")]
        sticky_header_callers cropper_structured_guard numpy_source_branch_guard = false.
Proof. exact D45_rejected. Qed.
Print Assumptions C15a_D45_refuted.
Theorem C15a_D47_refuted :
  check census census_functions restored scratch mutable_defaults memo_order_uses
        (("SgzConverter", "write_segy") :: ("SgzConverter", "convert_to_adv_sgz") :: sticky_header_callers)
        cropper_structured_guard numpy_source_branch_guard = false.
Proof. exact D47_rejected. Qed.
Print Assumptions C15a_D47_refuted.

(* ---- non-vacuity: the census has > 20 classes, > 400 checked public methods, > 200 of them write something; the
   hypotheses of the preservation theorem are met by a concrete semantics (every method rewrites exactly its effective
   footprint), for which a protected and an unprotected attribute behave as stated *)
Definition fill_sem (c : class) (m : meth) (a : nat) (s : string -> nat) : (string -> nat) * nat :=
  ((fun x => if smem x (effective c m) then a else s x), s "headerbytes" + s "mask").
Example C15a_nonvacuous :
  Nat.leb 20 (List.length census) = true /\ Nat.leb 400 n_checked = true /\ Nat.leb 200 n_checked_writing = true /\
  (forall c m a s x, In c census -> In m (c_methods c) -> ~ In x (effective c m) -> fst (fill_sem c m a s) x = s x) /\
  (forall c m a s1 s2, (forall x, s1 x = s2 x) -> snd (fill_sem c m a s1) = snd (fill_sem c m a s2)) /\
  exists c m, In c census /\ In m (c_methods c) /\ checked m = true /\ c_name c = "SgzConverter" /\ m_name m = "convert_to_segy" /\
    protected c "headerbytes" = true /\ protected c "mask" = false /\
    fst (run nat nat nat fill_sem c (fun _ => 7) [(m, 1)]) "headerbytes" = 7 /\
    fst (run nat nat nat fill_sem c (fun _ => 7) [(m, 1)]) "mask" = 1.
Proof.
  split; [vm_compute; reflexivity|]. split; [vm_compute; reflexivity|]. split; [vm_compute; reflexivity|].
  split.
  { intros c m a s x _ _ H. unfold fill_sem. cbn [fst]. destruct (smem x (effective c m)) eqn:E; [|reflexivity].
    apply smem_In in E. contradiction. }
  split.
  { intros c m a s1 s2 H. unfold fill_sem. cbn [snd]. rewrite !H. reflexivity. }
  pose (c := nth 0 (filter (fun c => String.eqb (c_name c) "SgzConverter") census) (mkC "" "" [] [] [] [] [])).
  assert (Ic : In c (filter (fun c => String.eqb (c_name c) "SgzConverter") census)) by (unfold c; apply nth_In; vm_compute; repeat constructor).
  apply filter_In in Ic.
  pose (m := nth 0 (filter (fun m => String.eqb (m_name m) "convert_to_segy") (c_methods c)) (mkM "" "" false "" [] [] [])).
  exists c, m. split; [exact (proj1 Ic)|].
  split.
  { assert (I : In m (filter (fun m => String.eqb (m_name m) "convert_to_segy") (c_methods c))) by (unfold m; apply nth_In; vm_compute; repeat constructor).
    apply filter_In in I. exact (proj1 I). }
  repeat split; vm_compute; reflexivity.
Qed.
