(* C19c  Configuration soundness THROUGH THE CLI (also the CLI clause of C01's "input route"): a `sgy2sgz` / `zgy2sgz`
   invocation IS the API call the API-side theorems (Props/C19.v, C01.v) are about.  ONLY statements.

   Gen/Cli.v is GENERATED from the whole of seismic_zfp/cli.py (fail closed): option groups, decorator stacks, callback
   signatures, constructed class, called method, and which callback parameter each argument of the two calls receives.
   Model/Cli.v is the hand model of click (assumptions K1-K5 listed there: decorator stacking, name mangling, option
   value = converted tokens of the last occurrence or the declared default, INT / BOOL / Tuple / Path conversion, eager
   --version, keyword call of the callback).  `cli_run C cmd iv` = what the invocation iv of command cmd does: the two
   API calls  with <Class>(...) as converter: converter.<method>(...),  or a usage error / the version (nothing called).
   C = the token converters (click_std file_exists = int(), click.BOOL, os.path.exists). *)
From Coq Require Import ZArith QArith List Bool String.
From SZ Require Import Lib.Py Lib.PyConfig Gen.Config Model.Config Proofs.Config Gen.Cli Model.Cli Proofs.Cli.
Import ListNotations.
Open Scope Z_scope.
Open Scope string_scope.

(* 1. click's parameter list is the declarations in reading order (top decorator first, each add_options group in list
   order) -- for EVERY decorator stack; so the first positional token is the input file, the second the output file *)
Theorem C19c_parameters_in_declared_order : forall stack, click_params true stack = declared_order stack.
Proof. exact click_params_declared_order. Qed.
Print Assumptions C19c_parameters_in_declared_order.

(* 2. for each of the three commands the names click derives from the declarations (--min-il -> min_il) are exactly the
   parameters of the callback, each once: click's keyword call never raises TypeError and no parameter is left unbound *)
Theorem C19c_commands_wired : forallb wired all_commands = true /\ map cmd_name all_commands = cli_commands.
Proof. exact (conj all_wired command_names). Qed.
Print Assumptions C19c_commands_wired.

(* 3. tokens: str(z) is read back as z for EVERY integer z (leading minus included); the spellings of a boolean *)
Theorem C19c_int_token : forall z : Z, parse_int (show_int z) = Some z.
Proof. exact parse_int_show. Qed.
Print Assumptions C19c_int_token.
Theorem C19c_bool_token : forall s b, parse_bool s = Some b <->
  (b = true /\ In (lower s) ["1"; "yes"; "true"; "on"; "t"; "y"]) \/
  (b = false /\ In (lower s) ["0"; "no"; "false"; "off"; "f"; "n"; ""]).
Proof. exact parse_bool_spec. Qed.
Print Assumptions C19c_bool_token.

(* 4. MAIN.  For EVERY assignment of the seven options (each present or absent, any integers, any spelling of the tokens
   that the converters read as those values), any file names, the input existing:  sgy2sgz  calls
       SegyConverter(input, min_il=<--min-il or None>, max_il=<--max-il or None>, min_xl=<--min-xl or None>, max_xl=<--max-xl or None>)
       .run(output, bits_per_voxel=<--bits-per-voxel or 4>, blockshape=<--blockshape as a 3-tuple or None>, reduce_iops=<--reduce-iops or False>)
   -- every keyword receives its OWN option (no swap, no drop), the integer given to --bits-per-voxel reaches run()
   unchanged (negative included), a bound of 0 is passed as 0 *)
Theorem C19c_sgy2sgz_calls_raw : forall C input output r o,
  cv_exists C input = true -> raw_denotes C r o ->
  cli_run C cmd_sgy2sgz (sgy2sgz_invocation input output r) = api_sgy2sgz input output o.
Proof. exact sgy2sgz_calls_raw. Qed.
Print Assumptions C19c_sgy2sgz_calls_raw.
(* ... in particular with the canonical spelling str(int) / "true" / "false" and the real converters *)
Theorem C19c_sgy2sgz_calls : forall file_exists input output o,
  file_exists input = true ->
  cli_run (click_std file_exists) cmd_sgy2sgz (sgy2sgz_invocation input output (render o)) = api_sgy2sgz input output o.
Proof. exact sgy2sgz_calls. Qed.
Print Assumptions C19c_sgy2sgz_calls.

(* 5. those calls against the GENERATED signatures of conversion.py: every keyword is a parameter of the API function,
   in_filename / out_filename are the positional tokens, header_detection is left to the API ("heuristic"); and the
   CLI's defaults are the API's: with no option at all the parameters are bound as by SegyConverter(input).run(output) *)
Theorem C19c_sgy2sgz_api_binding : forall input output o,
  match the_calls (api_sgy2sgz input output o) with
  | Some (ctor, run) =>
      api_bind api_seismicfileconverter_init_params ctor =
        Some [("in_filename", VStr input); ("min_il", optz (o_min_il o)); ("max_il", optz (o_max_il o));
              ("min_xl", optz (o_min_xl o)); ("max_xl", optz (o_max_xl o))] /\
      api_bind api_seismicfileconverter_run_params run =
        Some [("out_filename", VStr output);
              ("bits_per_voxel", VInt (match o_bpv o with Some b => b | None => 4 end));
              ("blockshape", opt3 (o_bs o));
              ("reduce_iops", VBool (match o_ri o with Some b => b | None => false end));
              ("header_detection", VStr "heuristic")]
  | None => False
  end.
Proof. exact sgy2sgz_api_binding. Qed.
Print Assumptions C19c_sgy2sgz_api_binding.
Theorem C19c_sgy2sgz_defaults_are_api_defaults : forall input output,
  match the_calls (api_sgy2sgz input output no_options) with
  | Some (ctor, run) =>
      api_bind api_seismicfileconverter_init_params ctor =
        api_bind api_seismicfileconverter_init_params {| call_name := "SegyConverter"; call_pos := [VStr input]; call_kw := [] |} /\
      api_bind api_seismicfileconverter_run_params run =
        api_bind api_seismicfileconverter_run_params {| call_name := "run"; call_pos := [VStr output]; call_kw := [] |}
  | None => False
  end.
Proof. exact sgy2sgz_defaults_are_api_defaults. Qed.
Print Assumptions C19c_sgy2sgz_defaults_are_api_defaults.

(* 6. refusals call nothing (so no output is produced): an option whose tokens do not convert, an input file that does
   not exist, fewer than two positional tokens -- for each of the three commands; --version only prints *)
Theorem C19c_bad_option_refused : forall C c iv decl ty dflt raw,
  In (DOption decl ty dflt) (cmd_params c) -> iv_opt iv decl = Some raw -> convert C ty raw = None ->
  iv_opt iv "--version" = None -> cli_run C c iv = CliUsageError.
Proof. exact bad_option_refused. Qed.
Print Assumptions C19c_bad_option_refused.
Theorem C19c_missing_input_refused : forall C c iv input rest,
  In c all_commands -> iv_args iv = input :: rest -> cv_exists C input = false -> iv_opt iv "--version" = None ->
  cli_run C c iv = CliUsageError.
Proof. exact missing_input_refused. Qed.
Print Assumptions C19c_missing_input_refused.
Theorem C19c_missing_arguments_refused : forall C c iv,
  In c all_commands -> (List.length (iv_args iv) < 2)%nat -> iv_opt iv "--version" = None -> cli_run C c iv = CliUsageError.
Proof. exact missing_arguments_refused. Qed.
Print Assumptions C19c_missing_arguments_refused.
Theorem C19c_version_only : forall C c iv raw,
  In c all_commands -> iv_opt iv "--version" = Some raw -> cli_run C c iv = CliVersion.
Proof. exact version_only. Qed.
Print Assumptions C19c_version_only.

(* 7. COMPOSITION with C19.  The configuration request that reaches run() is (AInt b, blockshape) with b the integer
   typed (4 if omitted) and blockshape the triple typed (None if omitted, replaced by run()'s (4,4,-1) / (1,16,-1)):
   `run_cfg d2 (AInt b) bs` is a Model.Config.cfg, so the CLI setting is accepted / rejected / resolved EXACTLY as that
   API setting, by the same `resolve` the C19 theorems are about *)
Theorem C19c_cli_setting_is_api_setting : forall file_exists input output o d2,
  file_exists input = true ->
  exists ctor run,
    cli_run (click_std file_exists) cmd_sgy2sgz (sgy2sgz_invocation input output (render o)) = CliCalls ctor run /\
    cfg_of_call d2 run = Some (run_cfg d2 (AInt (cli_bpv o)) (o_bs o)).
Proof. exact sgy2sgz_cfg. Qed.
Print Assumptions C19c_cli_setting_is_api_setting.
(* an accepted CLI setting is well-formed and supported, keeps every parameter that was not free, and unless b = -1
   (free) its rate is the one b denotes: b itself, or 1/(-b) for b < -1 ("negative means reciprocal", resolved in the API) *)
Theorem C19c_cli_accepted : forall d2 b bs r,
  resolve (run_cfg d2 (AInt b) bs) = Return r ->
  wf d2 r /\ supported d2 (fst r) /\ completes (run_cfg d2 (AInt b) bs) r /\
  (b <> -1 -> (fst r == rate_of_value (inject_Z b))%Q).
Proof. exact cli_accepted. Qed.
Print Assumptions C19c_cli_accepted.
Theorem C19c_rate_of_int : forall b : Z,
  (rate_of_value (inject_Z b) == (if (b <? -1)%Z then 1 # Z.to_pos (- b) else inject_Z b))%Q.
Proof. exact rate_of_int. Qed.
Print Assumptions C19c_rate_of_int.
(* every valid fully specified setting whose rate an integer denotes is accepted unchanged, and every one of the eight
   rates IS denoted by an integer (1/4 = -4, 1/2 = -2): nothing valid is out of the CLI's reach *)
Theorem C19c_cli_valid_accepted : forall d2 b x y z,
  wf d2 (rate_of_value (inject_Z b), (x, y, z)) -> supported d2 (rate_of_value (inject_Z b)) ->
  resolve (run_cfg d2 (AInt b) (Some (x, y, z))) = Return (rate_of_value (inject_Z b), (x, y, z)).
Proof. exact cli_valid_accepted. Qed.
Print Assumptions C19c_cli_valid_accepted.
Theorem C19c_cli_reaches_every_rate : forall q, In q rates -> exists b : Z, (rate_of_value (inject_Z b) == q)%Q.
Proof. exact cli_reaches_every_rate. Qed.
Print Assumptions C19c_cli_reaches_every_rate.
Theorem C19c_cli_defaults_resolve :
  resolve (run_cfg false (AInt (cli_bpv no_options)) (o_bs no_options)) = Return ((4 # 1)%Q, (4, 4, 512)) /\
  resolve (run_cfg true (AInt (cli_bpv no_options)) (o_bs no_options)) = Return ((4 # 1)%Q, (1, 16, 512)).
Proof. exact cli_defaults_resolve. Qed.
Print Assumptions C19c_cli_defaults_resolve.

(* 8. zgy2sgz (model only: ZGY cannot run in this sandbox): ZgyConverter(input).run(output, bits_per_voxel=<option or 4>) *)
Theorem C19c_zgy2sgz_calls : forall file_exists input output bpv,
  file_exists input = true ->
  cli_run (click_std file_exists) cmd_zgy2sgz (zgy2sgz_invocation input output (option_map show_int bpv)) =
  api_zgy2sgz input output bpv.
Proof. exact zgy2sgz_calls. Qed.
Print Assumptions C19c_zgy2sgz_calls.
Theorem C19c_zgy2sgz_api_binding : forall input output bpv,
  match the_calls (api_zgy2sgz input output bpv) with
  | Some (ctor, run) =>
      api_bind api_seismicfileconverter_init_params ctor =
        Some [("in_filename", VStr input); ("min_il", VNone); ("max_il", VNone); ("min_xl", VNone); ("max_xl", VNone)] /\
      api_bind api_seismicfileconverter_run_params run =
        Some [("out_filename", VStr output); ("bits_per_voxel", VInt (match bpv with Some b => b | None => 4 end));
              ("blockshape", VNone); ("reduce_iops", VBool false); ("header_detection", VStr "heuristic")]
  | None => False
  end.
Proof. exact zgy2sgz_api_binding. Qed.
Print Assumptions C19c_zgy2sgz_api_binding.

(* non-vacuity: a concrete command line
     sgy2sgz in.sgy out.sgz --bits-per-voxel -2 --blockshape 8 16 512 --reduce-iops TRUE --min-il 0 --max-il 3 --min-xl 0 --max-xl 2
   computes to the expected calls, its setting is valid and resolves to 1/2 bit (8, 16, 512); "4.0" is refused *)
Example C19c_nonvacuous :
  let ex := fun s => String.eqb s "in.sgy" in
  let r := {| r_bpv := Some "-2"; r_bs := Some ("8", "16", "512"); r_ri := Some "TRUE";
              r_min_il := Some "0"; r_max_il := Some "3"; r_min_xl := Some "0"; r_max_xl := Some "2" |} in
  let o := {| o_bpv := Some (-2); o_bs := Some (8, 16, 512); o_ri := Some true;
              o_min_il := Some 0; o_max_il := Some 3; o_min_xl := Some 0; o_max_xl := Some 2 |} in
  raw_denotes (click_std ex) r o /\ render o <> r /\
  cli_run (click_std ex) cmd_sgy2sgz (sgy2sgz_invocation "in.sgy" "out.sgz" r) =
    CliCalls {| call_name := "SegyConverter"; call_pos := [VStr "in.sgy"];
                call_kw := [("min_il", VInt 0); ("max_il", VInt 3); ("min_xl", VInt 0); ("max_xl", VInt 2)] |}
             {| call_name := "run"; call_pos := [VStr "out.sgz"];
                call_kw := [("bits_per_voxel", VInt (-2)); ("blockshape", VInts [8; 16; 512]); ("reduce_iops", VBool true)] |} /\
  validb (run_cfg false (AInt (cli_bpv o)) (o_bs o)) = true /\
  resolve (run_cfg false (AInt (cli_bpv o)) (o_bs o)) = Return ((1 # 2)%Q, (8, 16, 512)) /\
  cli_run (click_std ex) cmd_sgy2sgz
    (sgy2sgz_invocation "in.sgy" "out.sgz" {| r_bpv := Some "4.0"; r_bs := None; r_ri := None; r_min_il := None;
                                               r_max_il := None; r_min_xl := None; r_max_xl := None |}) = CliUsageError /\
  cli_run (click_std ex) cmd_sgy2sgz (sgy2sgz_invocation "nope.sgy" "out.sgz" (render no_options)) = CliUsageError.
Proof.
  cbv zeta. repeat split; try (vm_compute; reflexivity). vm_compute. discriminate.
Qed.
