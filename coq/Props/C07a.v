(* C07a I/O proportionality, sub-volumes / whole volume / traces of the default layout (blockshape (4, 4, N)).
   ONLY statements.  av_reads v is the list of (offset in the data section, length) range reads the GENERATED read
   method issues, in program order (the exact lists are in Props/C02a.v).  For every well-formed header of the
   default layout and every in-range argument:
     - the number of reads is stated;
     - every read lies inside the data section [0, s_data_bytes3 H);
     - ForallOrdPairs (r ends before r' starts): the reads are in ascending file order and pairwise disjoint, so
       no byte is fetched twice within the call;
     - every byte fetched lies in the code of a compression unit that holds a requested sample (sub-volume), and
       every 4096-byte block [4096 blk, 4096 blk + 4096) of the data section that a read touches contains a whole
       unit holding a requested sample. *)
From Coq Require Import ZArith List Bool Lia.
Import ListNotations.
From SZ Require Import Lib.Py Gen.Reader Spec.Container Proofs.Default Proofs.TwoD Proofs.Subvolume.
Open Scope Z_scope.

(* read_subvolume, public entry, both values of `multithreading` *)
Theorem C07_subvolume_default_layout : forall H, wf3 H = true -> default_layout H ->
  forall (multithreading : bool) i0 i1 x0 x1 z0 z1,
  0 <= i0 < i1 -> i1 <= s_nil H -> 0 <= x0 < x1 -> x1 <= s_nxl H -> 0 <= z0 < z1 -> z1 <= s_ns H ->
  exists v, rd_read_subvolume H i0 i1 x0 x1 z0 z1 false multithreading = Return v /\
    length (av_reads v) = (Z.to_nat ((i1 + 3) / 4 - i0 / 4) * Z.to_nat ((x1 + 3) / 4 - x0 / 4))%nat /\
    (forall o l, In (o, l) (av_reads v) -> 0 <= o /\ 0 < l /\ o + l <= s_data_bytes3 H) /\
    ForallOrdPairs (fun r r' => fst r + snd r <= fst r') (av_reads v) /\
    (forall o l p, In (o, l) (av_reads v) -> o <= p < o + l ->
       exists i x z, i0 <= i < i1 /\ x0 <= x < x1 /\ z0 <= z < z1 /\
         s_ub3 H * unit_index3 H (i / 4) (x / 4) (z / 4) <= p
           < s_ub3 H * unit_index3 H (i / 4) (x / 4) (z / 4) + s_ub3 H) /\
    (forall o l blk p, In (o, l) (av_reads v) -> o <= p < o + l -> 4096 * blk <= p < 4096 * blk + 4096 ->
       exists i x z, i0 <= i < i1 /\ x0 <= x < x1 /\ z0 <= z < z1 /\
         4096 * blk <= s_ub3 H * unit_index3 H (i / 4) (x / 4) (z / 4) /\
         s_ub3 H * unit_index3 H (i / 4) (x / 4) (z / 4) + s_ub3 H <= 4096 * blk + 4096).
Proof. exact read_subvolume_io. Qed.
Print Assumptions C07_subvolume_default_layout.

(* the same for either value of access_padding (True: bounds are the padded extents) *)
Theorem C07_subvolume_any_padding_default_layout : forall H, wf3 H = true -> default_layout H ->
  forall (access_padding multithreading : bool) i0 i1 x0 x1 z0 z1,
  0 <= i0 < i1 -> i1 <= (if access_padding then s_PI H else s_nil H) ->
  0 <= x0 < x1 -> x1 <= (if access_padding then s_PX H else s_nxl H) ->
  0 <= z0 < z1 -> z1 <= (if access_padding then s_PZ H else s_ns H) ->
  exists v, rd_read_subvolume H i0 i1 x0 x1 z0 z1 access_padding multithreading = Return v /\
    length (av_reads v) = (Z.to_nat ((i1 + 3) / 4 - i0 / 4) * Z.to_nat ((x1 + 3) / 4 - x0 / 4))%nat /\
    (forall o l, In (o, l) (av_reads v) -> 0 <= o /\ 0 < l /\ o + l <= s_data_bytes3 H) /\
    ForallOrdPairs (fun r r' => fst r + snd r <= fst r') (av_reads v) /\
    (forall o l p, In (o, l) (av_reads v) -> o <= p < o + l ->
       exists i x z, i0 <= i < i1 /\ x0 <= x < x1 /\ z0 <= z < z1 /\
         s_ub3 H * unit_index3 H (i / 4) (x / 4) (z / 4) <= p
           < s_ub3 H * unit_index3 H (i / 4) (x / 4) (z / 4) + s_ub3 H) /\
    (forall o l blk p, In (o, l) (av_reads v) -> o <= p < o + l -> 4096 * blk <= p < 4096 * blk + 4096 ->
       exists i x z, i0 <= i < i1 /\ x0 <= x < x1 /\ z0 <= z < z1 /\
         4096 * blk <= s_ub3 H * unit_index3 H (i / 4) (x / 4) (z / 4) /\
         s_ub3 H * unit_index3 H (i / 4) (x / 4) (z / 4) + s_ub3 H <= 4096 * blk + 4096).
Proof. exact subvolume_io. Qed.
Print Assumptions C07_subvolume_any_padding_default_layout.

(* read_volume: one read per 4x4 trace column, inside the data section, ascending, disjoint *)
Theorem C07_volume_default_layout : forall H, wf3 H = true -> default_layout H ->
  exists v, rd_read_volume H = Return v /\
    length (av_reads v) = (Z.to_nat ((s_nil H + 3) / 4) * Z.to_nat ((s_nxl H + 3) / 4))%nat /\
    (forall o l, In (o, l) (av_reads v) -> 0 <= o /\ 0 < l /\ o + l <= s_data_bytes3 H) /\
    ForallOrdPairs (fun r r' => fst r + snd r <= fst r') (av_reads v).
Proof. exact read_volume_io. Qed.
Print Assumptions C07_volume_default_layout.

(* get_trace (every shape of the window; structured file or override_unstructured_mapping): ONE read, made of whole
   4096-byte blocks inside the data section; every block it touches contains a whole unit holding a requested
   sample of THAT trace *)
Theorem C07_get_trace_default_layout : forall H (mask_nth : Z -> outcome Z), wf3 H = true -> default_layout H ->
  forall t lo hi override_unstructured_mapping,
  override_unstructured_mapping = true \/ rd_tracecount H = s_nil H * s_nxl H ->
  0 <= t < s_nil H * s_nxl H -> 0 <= win_lo lo < win_hi H hi -> win_hi H hi <= s_ns H ->
  exists v, rd_get_trace mask_nth H t lo hi override_unstructured_mapping = Return v /\
    length (av_reads v) = 1%nat /\
    (forall o l, In (o, l) (av_reads v) ->
       0 <= o /\ 0 < l /\ o + l <= s_data_bytes3 H /\ o mod 4096 = 0 /\ l mod 4096 = 0) /\
    ForallOrdPairs (fun r r' => fst r + snd r <= fst r') (av_reads v) /\
    (forall o l blk p, In (o, l) (av_reads v) -> o <= p < o + l -> 4096 * blk <= p < 4096 * blk + 4096 ->
       exists z, win_lo lo <= z < win_hi H hi /\
         4096 * blk <= s_ub3 H * unit_index3 H (t / s_nxl H / 4) (t mod s_nxl H / 4) (z / 4) /\
         s_ub3 H * unit_index3 H (t / s_nxl H / 4) (t mod s_nxl H / 4) (z / 4) + s_ub3 H <= 4096 * blk + 4096).
Proof. exact get_trace_io. Qed.
Print Assumptions C07_get_trace_default_layout.

Example C07a_nonvacuous :
  let H := hdr_of_list [2; 1100; 5; 6; 4; 4; 4; 512; 12; 100; 2; 30; 4199] in
  wf3 H = true /\ default_layout H /\ rd_tracecount H = s_nil H * s_nxl H /\
  (0 <= 1 < 6 /\ 6 <= s_nil H) /\ (0 <= 2 < 5 /\ 5 <= s_nxl H) /\ (0 <= 509 < 1031 /\ 1031 <= s_ns H) /\
  0 <= 17 < s_nil H * s_nxl H /\ s_data_bytes3 H = 12 * 4096.
Proof.
  cbv zeta. unfold default_layout. repeat split; vm_compute; try reflexivity; discriminate.
Qed.
