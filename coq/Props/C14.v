(* C14 Bounds safety.  ONLY statements; each closed by `exact <lemma>` and followed by Print Assumptions.
   Quantified over EVERY header H (no well-formedness needed) and EVERY argument tuple: an argument outside the
   real extent makes the generated read method raise IndexError (WrongDim for a 2D/3D mismatch) before any loader
   call.  The "in range -> the real item" half is C02 (Props/C02.v). *)
From Coq Require Import ZArith List Bool.
Import ListNotations.
From SZ Require Import Lib.Py Gen.Reader Proofs.Bounds.
Open Scope Z_scope.

Definition is3d (H : hdr) := (rd_blockshape0_v1 H =? 1) = false.
Definition is2d (H : hdr) := (rd_blockshape0_v1 H =? 1) = true.
Definition structured (H : hdr) := (rd_tracecount H =? rd_n_ilines H * rd_n_xlines H) = true.

Theorem C14_inline : forall H, is3d H -> forall il, ~ (0 <= il < rd_n_ilines H) -> rd_read_inline H il = Raise IndexErr.
Proof. exact inline_oob. Qed.
Print Assumptions C14_inline.
Theorem C14_crossline : forall H, is3d H -> forall xl, ~ (0 <= xl < rd_n_xlines H) -> rd_read_crossline H xl = Raise IndexErr.
Proof. exact crossline_oob. Qed.
Print Assumptions C14_crossline.
Theorem C14_zslice : forall H, is3d H -> forall z, ~ (0 <= z < rd_n_samples H) -> rd_read_zslice H z = Raise IndexErr.
Proof. exact zslice_oob. Qed.
Print Assumptions C14_zslice.
Theorem C14_subvolume : forall H, is3d H -> forall a b c d e f mt,
  ~ (0 <= a < b /\ b <= rd_n_ilines H /\ 0 <= c < d /\ d <= rd_n_xlines H /\ 0 <= e < f /\ f <= rd_n_samples H) ->
  rd_read_subvolume H a b c d e f false mt = Raise IndexErr.
Proof. exact subvolume_oob. Qed.
Print Assumptions C14_subvolume.
Theorem C14_trace_index : forall H mask_nth, is3d H -> forall i lo hi, structured H ->
  ~ (0 <= i < rd_n_ilines H * rd_n_xlines H) -> rd_get_trace mask_nth H i lo hi false = Raise IndexErr.
Proof. exact (fun H m => trace_oob_index H m). Qed.
Print Assumptions C14_trace_index.
Theorem C14_trace_window : forall H mask_nth, is3d H -> forall i lo hi ov, structured H ->
  0 <= i < rd_n_ilines H * rd_n_xlines H -> ~ (0 <= lo < hi /\ hi <= rd_n_samples H) ->
  rd_get_trace mask_nth H i (Some lo) (Some hi) ov = Raise IndexErr.
Proof. exact (fun H m => trace_oob_window H m). Qed.
Print Assumptions C14_trace_window.
Theorem C14_correlated_diagonal : forall H mask_nth, is3d H -> forall cd a b lo hi,
  ~ (- rd_n_xlines H < cd < rd_n_ilines H) -> rd_read_correlated_diagonal mask_nth H cd a b lo hi = Raise IndexErr.
Proof. exact (fun H m => cd_oob H m). Qed.
Print Assumptions C14_correlated_diagonal.
Theorem C14_anticorrelated_diagonal : forall H mask_nth, is3d H -> forall ad a b lo hi,
  ~ (0 <= ad < rd_n_ilines H + rd_n_xlines H - 1) -> rd_read_anticorrelated_diagonal mask_nth H ad a b lo hi = Raise IndexErr.
Proof. exact (fun H m => ad_oob H m). Qed.
Print Assumptions C14_anticorrelated_diagonal.
Theorem C14_subplane_on_3d : forall H, is3d H -> forall a b c d ap, rd_read_subplane H a b c d ap = Raise WrongDim.
Proof. exact subplane_wrongdim. Qed.
Print Assumptions C14_subplane_on_3d.

Theorem C14_2d_volume_reads_refused : forall H mask_nth, is2d H ->
  (forall il, rd_read_inline H il = Raise WrongDim) /\ (forall x, rd_read_crossline H x = Raise WrongDim) /\
  (forall z, rd_read_zslice H z = Raise WrongDim) /\
  (forall a b c d e f ap mt, rd_read_subvolume H a b c d e f ap mt = Raise WrongDim) /\
  rd_read_volume H = Raise WrongDim /\
  (forall cd a b lo hi, rd_read_correlated_diagonal mask_nth H cd a b lo hi = Raise WrongDim) /\
  (forall ad a b lo hi, rd_read_anticorrelated_diagonal mask_nth H ad a b lo hi = Raise WrongDim).
Proof.
  intros H m I. repeat split; intros.
  - exact (inline_2d H I _). - exact (crossline_2d H I _). - exact (zslice_2d H I _).
  - exact (subvolume_2d H I _ _ _ _ _ _ _ _). - exact (volume_2d H I).
  - exact (cd_2d H m I _ _ _ _ _). - exact (ad_2d H m I _ _ _ _ _).
Qed.
Print Assumptions C14_2d_volume_reads_refused.
Theorem C14_2d_trace : forall H mask_nth, is2d H -> forall i lo hi ov,
  ~ (0 <= i < rd_tracecount H) -> rd_get_trace mask_nth H i lo hi ov = Raise IndexErr.
Proof. exact (fun H m => trace_2d_oob H m). Qed.
Print Assumptions C14_2d_trace.
Theorem C14_2d_trace_window : forall H mask_nth, is2d H -> forall i lo hi ov,
  0 <= i < rd_tracecount H -> ~ (0 <= lo < hi /\ hi <= rd_n_samples H) ->
  rd_get_trace mask_nth H i (Some lo) (Some hi) ov = Raise IndexErr.
Proof. exact (fun H m => trace_2d_oob_window H m). Qed.
Print Assumptions C14_2d_trace_window.
Theorem C14_2d_subplane : forall H, is2d H -> forall a b c d,
  ~ (0 <= a < b /\ b <= rd_tracecount H /\ 0 <= c < d /\ d <= rd_n_samples H) ->
  rd_read_subplane H a b c d false = Raise IndexErr.
Proof. exact subplane_oob. Qed.
Print Assumptions C14_2d_subplane.

(* non-vacuity: a concrete 3D header and a concrete 2D header meet the hypotheses *)
Example C14_nonvacuous :
  is3d (hdr_of_list [2; 50; 5; 5; 4; 4; 4; 512; 2; 100; 2; 25; 4199])%Z /\
  is2d (hdr_of_list [2; 50; 0; 0; 4; 1; 16; 512; 2; 84; 2; 21; 4199])%Z.
Proof. split; vm_compute; reflexivity. Qed.
