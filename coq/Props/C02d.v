(* C02 Access-path coherence, continued: the BY-NUMBER / BY-COORDINATE entry points of the reader.  ONLY statements.
   utils.coord_to_index, SgzReader.get_inline_index / get_crossline_index / get_zslice_index, read_inline_number,
   read_crossline_number, read_zslice_coord and get_trace_by_coord are modelled in Model/Coords.v as an assembly of pieces
   GENERATED from utils.py / read.py on every run (Gen/Coords.v, tools/genx_coords.py): the comparison handed to np.where,
   the [0][0] subscripts, the include_stop expression, which axis / flag / ordinal reader each method uses, how None bounds
   are defaulted.  The ordinal readers are the GENERATED ones of Gen/Reader.v, so the composed theorems say: a value ON the
   axis gives exactly the cells the SPECIFICATION decoder assigns to the line / slice / trace window at the ordinal of its
   FIRST occurrence.  Coordinates are an abstract type with decidable equality (generic theorems) or exact integers
   (arithmetic axes start + step * k, any sign of step); float rounding on sample axes is outside the model (harness oracle;
   finding D50).  The refusal half (a value off the axis raises IndexError) is Props/C14b.v.  Proofs: Proofs/Coords.v, by
   induction and arithmetic for all axes, lengths and values. *)
From Coq Require Import ZArith List Bool Lia.
Import ListNotations.
From SZ Require Import Lib.Py Gen.Utils Gen.Reader Gen.Coords Spec.Container Model.Coords
  Proofs.Default Proofs.TwoD Proofs.General Proofs.Traces Proofs.Coords.
Open Scope Z_scope.

(* ------------------------------------------------------------------------------------------------------------ *)
(* coord_to_index, any axis (first_at l i c: position i holds c and no earlier position does) *)

Theorem C02d_coord_to_index_first_match : forall C (O : coord_ops C), eq_ops O -> forall c coords i,
  cm_coord_to_index O c coords false = Return i <-> first_at coords i c.
Proof. exact (@cti_returns). Qed.
Print Assumptions C02d_coord_to_index_first_match.

(* a position or IndexError -- no other exception, with or without include_stop *)
Theorem C02d_coord_to_index_total : forall C (O : coord_ops C), eq_ops O -> forall c coords include_stop,
  (exists i, cm_coord_to_index O c coords include_stop = Return i) \/ cm_coord_to_index O c coords include_stop = Raise IndexErr.
Proof. exact (@cti_total). Qed.
Print Assumptions C02d_coord_to_index_total.

(* an axis with duplicates (not arithmetic): the first occurrence wins; later lines with the same number are unreachable *)
Theorem C02d_duplicates_first_occurrence : forall C (O : coord_ops C), eq_ops O -> forall c pre post, ~ In c pre ->
  cm_coord_to_index O c (pre ++ c :: post) false = Return (zlen pre).
Proof. exact (@cti_duplicates). Qed.
Print Assumptions C02d_duplicates_first_occurrence.

(* include_stop=True changes nothing for a coordinate of the axis ... *)
Theorem C02d_include_stop_on_axis : forall C (O : coord_ops C), eq_ops O -> forall c coords, In c coords ->
  cm_coord_to_index O c coords true = cm_coord_to_index O c coords false.
Proof. exact (@cti_stop_on_axis). Qed.
Print Assumptions C02d_include_stop_on_axis.

(* ... and maps a coordinate that is not on the axis to len(coords) iff it equals the stop value *)
Theorem C02d_include_stop_off_axis : forall C (O : coord_ops C), eq_ops O -> forall c coords, ~ In c coords ->
  cm_coord_to_index O c coords true =
  match stop_value O coords with Some s => if c_eqb O c s then Return (zlen coords) else Raise IndexErr | None => Raise IndexErr end.
Proof. exact (@cti_stop_off_axis). Qed.
Print Assumptions C02d_include_stop_off_axis.

(* the stop value is coords[-1] + (coords[-1] - coords[-2]); an axis with fewer than two elements has none (coords[-2]
   raises IndexError inside the handler) *)
Theorem C02d_stop_value_meaning : forall C (O : coord_ops C),
  (forall pre p q, stop_value O (pre ++ [p; q]) = Some (c_add O q (c_sub O q p))) /\
  (forall coords, zlen coords < 2 -> stop_value O coords = None).
Proof. exact (fun C O => conj (@stop_value_two C O) (@stop_value_short C O)). Qed.
Print Assumptions C02d_stop_value_meaning.

(* ------------------------------------------------------------------------------------------------------------ *)
(* arithmetic axes start + step * k, 0 <= k < n, exact integer coordinates, step of either sign *)

Theorem C02d_arithmetic_axis_index : forall s d n v i, d <> 0 ->
  cm_coord_to_index Zops v (arith s d n) false = Return i <-> 0 <= i < n /\ v = s + d * i.
Proof. exact arith_index. Qed.
Print Assumptions C02d_arithmetic_axis_index.

(* include_stop=True, at least two elements: additionally exactly the value one step past the end maps to n *)
Theorem C02d_arithmetic_axis_include_stop : forall s d n v i, d <> 0 -> 2 <= n ->
  cm_coord_to_index Zops v (arith s d n) true = Return i <-> 0 <= i <= n /\ v = s + d * i.
Proof. exact arith_index_stop. Qed.
Print Assumptions C02d_arithmetic_axis_include_stop.

(* n = 1: no stop coordinate is recognised, with either flag; n <= 0: everything is refused *)
Theorem C02d_one_element_axis : forall s d v include_stop,
  cm_coord_to_index Zops v (arith s d 1) include_stop = if v =? s then Return 0 else Raise IndexErr.
Proof. exact arith_stop_one. Qed.
Print Assumptions C02d_one_element_axis.
Theorem C02d_empty_axis : forall s d n v include_stop, n <= 0 ->
  cm_coord_to_index Zops v (arith s d n) include_stop = Raise IndexErr.
Proof. exact arith_empty. Qed.
Print Assumptions C02d_empty_axis.

(* increment 0 in the header (all line numbers equal): only ordinal 0 can be addressed by number *)
Theorem C02d_zero_increment_axis : forall s n include_stop, 1 <= n ->
  cm_coord_to_index Zops s (arith s 0 n) include_stop = Return 0.
Proof. exact arith_zero_step. Qed.
Print Assumptions C02d_zero_increment_axis.

(* the line axes as _parse_coordinates builds them: gen_coord_list(u32 start, u32 step, count).astype('intc') is the signed
   arithmetic axis whenever every line number fits 32 bits *)
Theorem C02d_header_line_axis : forall start step n s d,
  start = s mod 4294967296 -> step = d mod 4294967296 ->
  (forall k, 0 <= k < n -> - 2147483648 <= s + d * k < 2147483648) ->
  line_axis start step n = arith s d n.
Proof. exact line_axis_arith. Qed.
Print Assumptions C02d_header_line_axis.

Theorem C02d_header_axes_fit : forall H X zs, 0 <= rd_n_ilines H -> 0 <= rd_n_xlines H -> zlen zs = rd_n_samples H ->
  axes_fit H (header_axes H X zs).
Proof. exact header_axes_fit. Qed.
Print Assumptions C02d_header_axes_fit.

(* ------------------------------------------------------------------------------------------------------------ *)
(* index methods and by-number readers *)

Theorem C02d_get_index : forall C (O : coord_ops C), eq_ops O -> forall A ix v i,
  cm_get_index O A ix v None = Return i <-> first_at (axis_of A (cx_indexer_axis ix)) i v.
Proof. exact (@get_index_returns). Qed.
Print Assumptions C02d_get_index.

(* read_inline_number / read_crossline_number / read_zslice_coord of a value on the axis IS the ordinal reader at the
   ordinal of its first occurrence *)
Theorem C02d_read_by_number_is_ordinal_read : forall C (O : coord_ops C), eq_ops O -> forall A H e v i,
  first_at (axis_of A (cx_indexer_axis (cx_entry_indexer e))) i v ->
  cm_read_by_number O A H e v = cx_entry_reader e H i.
Proof. exact (@read_by_number_eq). Qed.
Print Assumptions C02d_read_by_number_is_ordinal_read.

Theorem C02d_entry_points : 
  (forall H, cx_entry_reader EnInlineNumber H = rd_read_inline H) /\ cx_indexer_axis (cx_entry_indexer EnInlineNumber) = AxIlines /\
  (forall H, cx_entry_reader EnCrosslineNumber H = rd_read_crossline H) /\ cx_indexer_axis (cx_entry_indexer EnCrosslineNumber) = AxXlines /\
  (forall H, cx_entry_reader EnZsliceCoord H = rd_read_zslice H) /\ cx_indexer_axis (cx_entry_indexer EnZsliceCoord) = AxZslices.
Proof. exact entry_points. Qed.
Print Assumptions C02d_entry_points.

Theorem C02d_by_number_arithmetic_axis : forall A H e s d n i,
  axis_of A (cx_indexer_axis (cx_entry_indexer e)) = arith s d n -> d <> 0 -> 0 <= i < n ->
  cm_read_by_number Zops A H e (s + d * i) = cx_entry_reader e H i.
Proof. exact by_number_arith. Qed.
Print Assumptions C02d_by_number_arithmetic_axis.

(* composed with the theorems of Props/C02.v and C02b.v: the specification decoder's cells, the same range reads *)
Theorem C02d_inline_number_default_layout : forall C (O : coord_ops C), eq_ops O -> forall A H, wf3 H = true ->
  axes_fit H A -> forall v i, default_layout H -> first_at (ax_il A) i v ->
  exists a, cm_read_by_number O A H EnInlineNumber v = Return a /\ av_shape a = [s_nxl H; s_ns H] /\
    (forall x z, 0 <= x < s_nxl H -> 0 <= z < s_ns H -> av_cell a [x; z] = spec_cell3 H i x z) /\
    av_reads a = [(s_ub3 H * unit_index3 H (i / 4) 0 0, s_ub3 H * ((s_PX H / 4) * (s_PZ H / 4)))].
Proof. exact (@inline_number_default). Qed.
Print Assumptions C02d_inline_number_default_layout.

Theorem C02d_inline_number_general_layout : forall C (O : coord_ops C), eq_ops O -> forall A H, wf3 H = true ->
  axes_fit H A -> forall v i, general_layout H -> first_at (ax_il A) i v ->
  exists a, cm_read_by_number O A H EnInlineNumber v = Return a /\ av_shape a = squeeze_shape [1; s_nxl H; s_ns H] /\
    (forall x z, 0 <= x < s_nxl H -> 0 <= z < s_ns H ->
       av_cell a (squeeze_index [1; s_nxl H; s_ns H] [0; x; z]) = spec_cell3 H i x z) /\
    av_reads a = box_reads H i (i + 1) 0 (s_nxl H) 0 (s_ns H).
Proof. exact (@inline_number_general). Qed.
Print Assumptions C02d_inline_number_general_layout.

Theorem C02d_crossline_number_default_layout : forall C (O : coord_ops C), eq_ops O -> forall A H, wf3 H = true ->
  axes_fit H A -> forall v i, default_layout H -> first_at (ax_xl A) i v ->
  exists a, cm_read_by_number O A H EnCrosslineNumber v = Return a /\ av_shape a = [s_nil H; s_ns H] /\
    (forall il z, 0 <= il < s_nil H -> 0 <= z < s_ns H -> av_cell a [il; z] = spec_cell3 H il i z) /\
    av_reads a = map (fun j => (s_ub3 H * unit_index3 H j (i / 4) 0, s_ub3 H * (s_PZ H / 4))) (zrange 0 (s_PI H / 4)).
Proof. exact (@crossline_number_default). Qed.
Print Assumptions C02d_crossline_number_default_layout.

Theorem C02d_crossline_number_general_layout : forall C (O : coord_ops C), eq_ops O -> forall A H, wf3 H = true ->
  axes_fit H A -> forall v i, general_layout H -> first_at (ax_xl A) i v ->
  exists a, cm_read_by_number O A H EnCrosslineNumber v = Return a /\ av_shape a = squeeze_shape [s_nil H; 1; s_ns H] /\
    (forall il z, 0 <= il < s_nil H -> 0 <= z < s_ns H ->
       av_cell a (squeeze_index [s_nil H; 1; s_ns H] [il; 0; z]) = spec_cell3 H il i z) /\
    av_reads a = box_reads H 0 (s_nil H) i (i + 1) 0 (s_ns H).
Proof. exact (@crossline_number_general). Qed.
Print Assumptions C02d_crossline_number_general_layout.

Theorem C02d_zslice_coord_default_layout : forall C (O : coord_ops C), eq_ops O -> forall A H, wf3 H = true ->
  axes_fit H A -> forall v i, default_layout H -> first_at (ax_z A) i v ->
  exists a, cm_read_by_number O A H EnZsliceCoord v = Return a /\ av_shape a = [s_nil H; s_nxl H] /\
    (forall il x, 0 <= il < s_nil H -> 0 <= x < s_nxl H -> av_cell a [il; x] = spec_cell3 H il x i) /\
    av_reads a = map (fun k => (s_ub3 H * (k * (s_PZ H / 4) + i / 4), s_ub3 H)) (zrange 0 ((s_PI H / 4) * (s_PX H / 4))).
Proof. exact (@zslice_coord_default). Qed.
Print Assumptions C02d_zslice_coord_default_layout.

Theorem C02d_zslice_coord_general_layout : forall C (O : coord_ops C), eq_ops O -> forall A H, wf3 H = true ->
  axes_fit H A -> forall v i, general_layout H -> s_bs2 H <> 4 -> first_at (ax_z A) i v ->
  exists a, cm_read_by_number O A H EnZsliceCoord v = Return a /\ av_shape a = squeeze_shape [s_nil H; s_nxl H; 1] /\
    (forall il x, 0 <= il < s_nil H -> 0 <= x < s_nxl H ->
       av_cell a (squeeze_index [s_nil H; s_nxl H; 1] [il; x; 0]) = spec_cell3 H il x i) /\
    av_reads a = box_reads H 0 (s_nil H) 0 (s_nxl H) i (i + 1).
Proof. exact (@zslice_coord_general). Qed.
Print Assumptions C02d_zslice_coord_general_layout.

Theorem C02d_zslice_coord_nn4_layout : forall C (O : coord_ops C), eq_ops O -> forall A H, wf3 H = true ->
  axes_fit H A -> forall v i, general_layout H -> s_bs2 H = 4 -> first_at (ax_z A) i v ->
  exists a, cm_read_by_number O A H EnZsliceCoord v = Return a /\ av_shape a = [s_nil H; s_nxl H] /\
    (forall il x, 0 <= il < s_nil H -> 0 <= x < s_nxl H -> av_cell a [il; x] = spec_cell3 H il x i) /\
    av_reads a = zslice_adv_reads H i.
Proof. exact (@zslice_coord_nn4). Qed.
Print Assumptions C02d_zslice_coord_nn4_layout.

(* ------------------------------------------------------------------------------------------------------------ *)
(* get_trace_by_coord on an arithmetic sample axis with at least two samples.  A bound is given by its ordinal k as the
   coordinate s + d*k (cbound), or is None; the upper bound may be ordinal n = the coordinate one step past the last sample *)

(* the window of coordinates IS the window of ordinals handed to get_trace *)
Theorem C02d_trace_by_coord_is_get_trace : forall A H s d (mask_nth : Z -> outcome Z) t a b,
  ax_z A = arith s d (rd_n_samples H) -> d <> 0 -> 2 <= rd_n_samples H ->
  (forall k, a = Some k -> 0 <= k < rd_n_samples H) -> (forall k, b = Some k -> 0 <= k <= rd_n_samples H) ->
  cm_get_trace_by_coord Zops A mask_nth H t (cbound s d a) (cbound s d b) =
  rd_get_trace mask_nth H t (Some (win_lo a)) (Some (win_hi H b)) false.
Proof. exact trace_by_coord_eq. Qed.
Print Assumptions C02d_trace_by_coord_is_get_trace.

(* composed with C02_get_trace_at_grid_position (every 3D layout, structured file) *)
Theorem C02d_trace_by_coord : forall A H s d (mask_nth : Z -> outcome Z), wf3 H = true ->
  ax_z A = arith s d (s_ns H) -> d <> 0 -> 2 <= s_ns H -> rd_tracecount H = s_nil H * s_nxl H ->
  forall i x a b, 0 <= i < s_nil H -> 0 <= x < s_nxl H -> 0 <= win_lo a < win_hi H b -> win_hi H b <= s_ns H ->
  exists v, cm_get_trace_by_coord Zops A mask_nth H (i * s_nxl H + x) (cbound s d a) (cbound s d b) = Return v /\
    av_shape v = [win_hi H b - win_lo a] /\
    (forall z, 0 <= z < win_hi H b - win_lo a -> av_cell v [z] = spec_cell3 H i x (win_lo a + z)) /\
    av_reads v = trace_reads H i x (win_lo a) (win_hi H b).
Proof. exact trace_by_coord_arith. Qed.
Print Assumptions C02d_trace_by_coord.

(* what the present form of the code (a None bound is first turned into a coordinate) does on a one-sample axis: the
   default of the upper bound evaluates zslices[1], so the whole trace cannot be read without giving the bound.  Vacuous
   once the D50 repair (None becomes an ordinal) is in the code: cx_gtbc_none_by_ordinal is then true *)
Theorem C02d_trace_by_coord_one_sample_axis : forall C (O : coord_ops C) A H lo,
  cx_gtbc_none_by_ordinal = false -> zlen (ax_z A) = 1 -> cm_gtbc_window O A H lo None = Raise IndexErr.
Proof. exact (@gtbc_one_sample). Qed.
Print Assumptions C02d_trace_by_coord_one_sample_axis.

(* ------------------------------------------------------------------------------------------------------------ *)
(* non-vacuity: a concrete header (5 x 5 x 50, default layout), axes with a positive, a negative and a non-unit increment
   and a sample axis that starts below zero; a header-built descending line axis *)
Example C02d_nonvacuous :
  let H := hdr_of_list [2; 50; 5; 5; 4; 4; 4; 512; 2; 100; 2; 25; 4199] in
  let A := {| ax_il := arith 10 2 5; ax_xl := arith 100 (-3) 5; ax_z := arith (-40) 4 50 |} in
  wf3 H = true /\ default_layout H /\ axes_fit H A /\ eq_ops Zops /\
  first_at (ax_il A) 3 16 /\ cm_get_index Zops A IxCrossline 91 None = Return 3 /\
  cm_gtbc_window Zops A H None None = Return (0, 50) /\
  cm_gtbc_window Zops A H (Some (-40)) (Some 160) = Return (0, 50) /\
  cm_gtbc_window Zops A H (cbound (-40) 4 (Some 3)) (cbound (-40) 4 (Some 7)) = Return (3, 7) /\
  line_axis 100 4294967293 5 = arith 100 (-3) 5 /\
  cm_coord_to_index Zops 7 [5; 7; 9; 7] false = Return 1.
Proof.
  cbv zeta. split; [vm_compute; reflexivity|]. split; [split; vm_compute; reflexivity|].
  split; [repeat split; vm_compute; reflexivity|]. split; [exact Zops_eq|].
  split; [apply first_at_arith; [lia | split; [lia | reflexivity]]|].
  repeat split; vm_compute; reflexivity.
Qed.
