(* C10 Cropping an SGZ file yields exactly the requested block-aligned sub-cube.  ONLY statements; each closed by
   `exact <lemma>` and followed by Print Assumptions.

   crop_by_indexes / crop_by_coords (Model/Cropper.v) interpret the definitions GENERATED from seismic_zfp/cropping.py
   (Gen/Cropping.v) and the GENERATED loader.read_chunk_range (Gen/Reader.v).  A `Raise` outcome means the output file
   was never opened (the generator checks that open(out_file, 'wb') follows every statement that can refuse).
   H is the parsed source header, A its axes; wf3 H is the specification's well-formedness (Spec/Container.v).

   Reading of the result record R: co_i0..co_z1 the corrected box; co_fields the patches applied to a copy of the source
   header (out_hdr / out_axes = how a reader parses the result); co_reads + co_data_len the output's data section as
   placements of source byte ranges; co_foot_... the footer arrays.
   A source converted from ZGY additionally keeps its sample axis in two doubles (header bytes 84:100), which the reader
   prefers: zdbl / crop_f64_fields / out_zdbl (Model/Cropper.v, Section F64, over an abstract binary64 type) and the
   theorems C10_crop_header_zgy ... at the end (D55). *)
From Coq Require Import ZArith List Bool QArith.
From Coq Require Import Floats.SpecFloat.
Import ListNotations.
From SZ Require Import Lib.Py Gen.Reader Gen.Cropping Gen.Routes Spec.Container Model.Cropper Proofs.PyLemmas Proofs.Cropper
  Proofs.CropperZgy.
Open Scope Z_scope.

(* THE BOX: a served request is cropped to the requested ranges widened outward to block boundaries and clipped to the
   cube (spec_il / spec_xl / spec_zs, Proofs/Cropper.v: widen lo hi m n = (m * (lo / m), min n (pad_to hi m))), and
   THE UNITS: voxel (i, x, z) of the (padded) output, located by the SPECIFICATION's addressing of the OUTPUT header,
   is the same cell of the compression unit whose bytes are, verbatim, the bytes the SPECIFICATION's addressing of the
   SOURCE header assigns to voxel (i + i0, x + x0, z + z0).  Default layout with any box, and any other layout with
   whole inline blocks (the only other requests that are served).  Decoding is unit-local, so the decoded volumes agree
   bitwise. *)
Theorem C10_crop_units : forall H A il xl zs R, wf3 H = true -> crop_by_indexes H A il xl zs = Return R ->
  let H' := out_hdr H (co_fields R) in
  (co_i0 R, co_i1 R) = spec_il H il /\ (co_x0 R, co_x1 R) = spec_xl H xl /\ (co_z0 R, co_z1 R) = spec_zs H zs /\
  co_data_len R = s_data_bytes3 H' /\
  forall i x z, 0 <= i < s_PI H' -> 0 <= x < s_PX H' -> 0 <= z < s_PZ H' ->
    prov_moved (co_reads R) (s_ub3 H') (spec_cell3 H' i x z) (spec_cell3 H (i + co_i0 R) (x + co_x0 R) (z + co_z0 R)).
Proof. exact crop_units_thm. Qed.
Print Assumptions C10_crop_units.

(* WHICH requests are served, and with what: structured source, some range given, every range non-empty and inside the
   cube, a layout the cropper can re-address, values that fit their header fields *)
Theorem C10_crop_served : forall H A il xl zs, wf3 H = true -> crp_structured H = true -> request_okb H il xl zs = true ->
  layout_okb H xl zs = true -> forallb pack_ok (co_fields (norm_out H A il xl zs)) = true ->
  crop_by_indexes H A il xl zs = Return (norm_out H A il xl zs).
Proof. exact crop_succeeds. Qed.
Print Assumptions C10_crop_served.

(* THE HEADER: the regenerated header states the box dimensions, trace count = the box, it is structured, well-formed,
   the stated disk blocks are exactly the data section that was written, everything else is the source's; the axes are
   the sub-ranges of the source axes (the sample axis, as the INTEGER fields 16:20 / 28:32 describe it, when the box starts
   on a whole millisecond: good_z; a reader uses those fields unless the file was converted from ZGY: C10_crop_header_zgy) *)
Theorem C10_crop_header : forall H A il xl zs R, wf3 H = true -> crop_by_indexes H A il xl zs = Return R ->
  let H' := out_hdr H (co_fields R) in let A' := out_axes A (co_fields R) in
  s_nil H' = co_i1 R - co_i0 R /\ s_nxl H' = co_x1 R - co_x0 R /\ s_ns H' = co_z1 R - co_z0 R /\
  s_ntr H' = s_nil H' * s_nxl H' /\ crp_structured H' = true /\ s_hel H' = 4 * s_ntr H' /\
  wf3 H' = true /\ 4096 * s_ndb H' = s_data_bytes3 H' /\ co_data_len R = s_data_bytes3 H' /\
  s_nhb H' = s_nhb H /\ s_rate_code H' = s_rate_code H /\ s_bs0 H' = s_bs0 H /\ s_bs1 H' = s_bs1 H /\ s_bs2 H' = s_bs2 H /\
  s_nha H' = s_nha H /\ s_ver H' = s_ver H /\ ax_dt_us A' = ax_dt_us A /\ ax_xl_step A' = ax_xl_step A /\
  ax_il_step A' = ax_il_step A /\
  forallb field_typed (co_fields R) = true /\ forallb pack_ok (co_fields R) = true /\
  (forall k, crp_ilines_at A' k = crp_ilines_at A (k + co_i0 R)) /\
  (forall k, crp_xlines_at A' k = crp_xlines_at A (k + co_x0 R)) /\
  (good_z A (co_z0 R) = true -> forall k, z_us A' k = z_us A (k + co_z0 R)).
Proof. exact crop_header_thm. Qed.
Print Assumptions C10_crop_header.

(* the copied header keeps its length (a patch past its end would append bytes and shift the data section): every
   executed patch lies inside the source's header blocks *)
Theorem C10_crop_header_length : forall H A il xl zs R, wf3 H = true -> 1 <= s_nhb H ->
  crop_by_indexes H A il xl zs = Return R -> forallb (field_inside H) (co_fields R) = true.
Proof. exact crop_header_inside. Qed.
Print Assumptions C10_crop_header_length.

(* known finding D7h: the start time is stored as an integer number of milliseconds; a box that starts between two
   milliseconds gets a shifted sample axis (witness: 333 us sampling, box from sample 128) *)
Theorem C10_crop_z_axis_refuted : exists A z0 k, good_z A z0 = false /\
  z_us {| ax_z0_ms := crp_zslices_at_int32 A z0; ax_dt_us := ax_dt_us A; ax_xl0 := 0; ax_xl_step := 1; ax_il0 := 0; ax_il_step := 1;
          ax_z0_sub_us := 0 |} k
  <> z_us A (k + z0).
Proof. exact crop_z_axis_refuted. Qed.
Print Assumptions C10_crop_z_axis_refuted.

(* THE FOOTER: for a conformant source (array length = 4 bytes per trace) every stored array of the output has one entry
   per trace of the box, entry (i, x) is the source's entry (i + i0, x + x0), and array + padding is exactly the stride
   at which the (GENERATED) reader of the output header looks for the next array *)
Theorem C10_crop_footer : forall H A il xl zs R, wf3 H = true -> crop_by_indexes H A il xl zs = Return R ->
  s_hel H = 4 * (s_nil H * s_nxl H) ->
  let H' := out_hdr H (co_fields R) in
  co_foot_reshape_ok R = true /\
  footer_count (co_foot_shape R) (co_foot_win R) = s_nil H' * s_nxl H' /\
  (forall i x, 0 <= i < s_nil H' -> 0 <= x < s_nxl H' ->
     footer_src_index (co_foot_shape R) (co_foot_win R) (i * s_nxl H' + x) = (i + co_i0 R) * s_nxl H + (x + co_x0 R)) /\
  4 * footer_count (co_foot_shape R) (co_foot_win R) + co_foot_pad R = rd_padded_header_entry_length_bytes H'.
Proof. exact crop_footer_thm. Qed.
Print Assumptions C10_crop_footer.

(* WHICH ARRAYS: T lists the reader's stored_header_keys in table order, each with the header word it takes its array from
   (hw_info.table[k][1]: k itself for an owning word, an earlier owning word for a duplicate).  For a well-formed table the
   arrays written are the source's stored arrays 0, 1, .., n-1, each once, in order, n = the number of OWNING words: for a
   conformant source that is its stated number of header arrays, which the regenerated header keeps (C10_crop_header:
   s_nha H' = s_nha H).  So array j of the output is array j of the source, cropped (C10_crop_footer). *)
Theorem C10_crop_footer_arrays : forall H T, table_ok T = true -> Z.of_nat (length (owners T)) = s_nha H ->
  footer_arrays T = zrange 0 (s_nha H) /\ Z.of_nat (length (footer_arrays T)) = s_nha H.
Proof. exact crop_footer_arrays_nha. Qed.
Print Assumptions C10_crop_footer_arrays.

(* REFUSALS, for EVERY header (no well-formedness needed): no range at all, or a (given or default) range that is
   empty, inverted or reaches outside the cube -> IndexError and no output; an irregular or 2D source -> the same *)
Theorem C10_crop_refusals : forall H A il xl zs,
  (request_okb H il xl zs = false -> crop_by_indexes H A il xl zs = Raise IndexErr) /\
  (crp_structured H = false -> crop_by_indexes H A il xl zs = Raise IndexErr).
Proof. intros H A il xl zs. split; [exact (refuse_bad_request H A il xl zs) | exact (refuse_unstructured H A il xl zs)]. Qed.
Print Assumptions C10_crop_refusals.

(* a layout the cropper cannot re-address (not the default one, and not whole inline blocks) is refused *)
Theorem C10_crop_layout_refused : forall H A il xl zs, wf3 H = true -> layout_okb H xl zs = false ->
  exists e, crop_by_indexes H A il xl zs = Raise e /\ e = IndexErr.
Proof. exact refuse_layout. Qed.
Print Assumptions C10_crop_layout_refused.

(* BY COORDINATES: a served crop by coordinates is the crop by the indexes of those coordinates on the source axes (the
   end coordinate may be one step past the last line); coordinates on the axes are always resolved to their indexes *)
Theorem C10_crop_coords : forall H A ilc xlc zc R, crop_by_coords H A ilc xlc zc = Return R ->
  exists il xl zs,
    on_axis (ax_il0 A) (ax_il_step A) (rd_n_ilines H) ilc il /\ on_axis (ax_xl0 A) (ax_xl_step A) (rd_n_xlines H) xlc xl /\
    on_axis (z_start_us A) (ax_dt_us A) (rd_n_samples H) zc zs /\ crop_by_indexes H A il xl zs = Return R.
Proof. exact crop_coords_thm. Qed.
Print Assumptions C10_crop_coords.
Theorem C10_crop_coords_on_axis : forall H A (il xl zs : option (Z * Z)),
  let conv s st n (r : option (Z * Z)) := match r with None => None | Some (a, b) => Some (s + a * st, s + b * st) end in
  let okr st n (r : option (Z * Z)) := match r with None => True | Some (a, b) => st <> 0 /\ 0 <= a < n /\ 0 <= b /\ (b < n \/ (b = n /\ 2 <= n)) end in
  okr (ax_il_step A) (rd_n_ilines H) il -> okr (ax_xl_step A) (rd_n_xlines H) xl -> okr (ax_dt_us A) (rd_n_samples H) zs ->
  crop_by_coords H A (conv (ax_il0 A) (ax_il_step A) (rd_n_ilines H) il) (conv (ax_xl0 A) (ax_xl_step A) (rd_n_xlines H) xl)
                     (conv (z_start_us A) (ax_dt_us A) (rd_n_samples H) zs) = crop_by_indexes H A il xl zs.
Proof. exact crop_coords_on_axis. Qed.
Print Assumptions C10_crop_coords_on_axis.

(* ---------------- sources converted from ZGY: the double-precision sample axis (D55) ----------------
   F is binary64 with its operations (abstract: no property of the arithmetic is used, so the statements hold for IEEE
   arithmetic in particular); f_is0 x is `x == 0`.  D = the doubles of the SOURCE header (zd84: first sample time in ms,
   bytes 84:92; zd92: interval * 1000, bytes 92:100).  zs_double s i k = s + (i / 1000) * k is the reader's double-branch
   formula; rdr_double_branch / rdr_zs_elem interpret the branch test and the two expressions GENERATED from
   SgzReader._parse_coordinates (Gen/Routes.v), crop_f64_fields the double patch GENERATED from regenerate_header. *)

(* what the generators extracted: the cropper's guard reads bytes 92:100 -- the very double the reader branches on --,
   writes bytes 84:92 with the source's sample time at the first sample of the box, and does so right after the integer
   start (16:20) and before the crossline start (20:24); the reader's double branch is start = double at 84,
   step = double at 92 / 1000 *)
Theorem C10_crop_f64_statement :
  crp_f64_guard = (rdz_cond_f64_at, rdz_cond_f64_at + 8) /\ crp_f64_guard = (92, 100) /\ crp_f64_dest = (84, 92) /\
  (forall H i0 i1 x0 x1 z0 z1, crp_f64_zslice H i0 i1 x0 x1 z0 z1 = z0) /\
  (forall H A i0 i1 x0 x1 z0 z1,
     nth_error (crp_header_fields H A i0 i1 x0 x1 z0 z1) (crp_f64_after - 1) = Some (true, 16, 20, PkI32, crp_zslices_at_int32 A z0) /\
     nth_error (crp_header_fields H A i0 i1 x0 x1 z0 z1) crp_f64_after = Some (true, 20, 24, PkI32, crp_xlines_at A x0)) /\
  rdz_dbl_start = RHdrF64 84 /\ rdz_dbl_step = RDiv (RHdrF64 92) (RFlt 1000).
Proof.
  destruct header_f64_shape as (_ & G & Dst & K). destruct reader_double_branch_shape as (_ & S & T).
  split; [exact G|]. split; [exact G|]. split; [exact Dst|]. split; [exact K|].
  split; [exact header_f64_position|]. split; [exact S | exact T].
Qed.
Print Assumptions C10_crop_f64_statement.

(* THE HEADER of a crop, the doubles.  No integer patch touches bytes 84..99.
   Source converted from ZGY (double interval non-zero; the source reader is on the double branch): the cropped header's
   double interval is the source's, its double start IS the source reader's sample time at the first sample of the box
   (the same binary64 value: no arithmetic in between), so a reader of the cropped file is on the double branch too and
   its sample k is  start + (interval / 1000) * k  with that start.
   Any other source: the patch is not executed, both doubles are the source's, the reader keeps to the integer fields
   (C10_crop_header). *)
Theorem C10_crop_header_zgy : forall (F : Type) (fadd fmul fdiv : F -> F -> F) (f_of_Z : Z -> F) (f_is0 : F -> bool)
    H A il xl zs R (D : zdbl F),
  wf3 H = true -> crop_by_indexes H A il xl zs = Return R ->
  exists ps, crop_f64_fields F fadd fmul fdiv f_of_Z f_is0 H D (co_i0 R) (co_i1 R) (co_x0 R) (co_x1 R) (co_z0 R) (co_z1 R) = Some ps /\
  forallb f64_untouched (co_fields R) = true /\
  let D' := out_zdbl D ps in
  (f_is0 (zd92 D) = false ->
     rdr_double_branch F f_is0 D = Some true /\ rdr_double_branch F f_is0 D' = Some true /\ zd92 D' = zd92 D /\
     Some (zd84 D') = rdr_zs_elem F fadd fmul fdiv f_of_Z D (co_z0 R) /\
     zd84 D' = zs_double F fadd fmul fdiv f_of_Z (zd84 D) (zd92 D) (co_z0 R) /\
     forall k, rdr_zs_elem F fadd fmul fdiv f_of_Z D' k = Some (zs_double F fadd fmul fdiv f_of_Z (zd84 D') (zd92 D) k)) /\
  (f_is0 (zd92 D) = true ->
     forallb (fun p => negb (f64_executed p)) ps = true /\ D' = D /\ rdr_double_branch F f_is0 D' = Some false).
Proof. exact crop_header_zgy_thm. Qed.
Print Assumptions C10_crop_header_zgy.

(* sample k of the cropped file is  (s + (i/1000) * z0) + (i/1000) * k,  sample z0 + k of the source is
   s + (i/1000) * (z0 + k).  Over the RATIONALS (exact arithmetic) they are equal: the cropped axis is the sub-range of
   the source axis ... *)
Theorem C10_crop_zgy_axis_exact : forall (s i : Q) (z0 k : Z),
  (zs_double Q Qplus Qmult Qdiv inject_Z (zs_double Q Qplus Qmult Qdiv inject_Z s i z0) i k
   == zs_double Q Qplus Qmult Qdiv inject_Z s i (z0 + k))%Q.
Proof. exact zgy_axis_exact_Q. Qed.
Print Assumptions C10_crop_zgy_axis_exact.

(* ... in BINARY64 (Coq.Floats.SpecFloat, prec 53, emax 1024, round to nearest even; b64 m e = m * 2^e) they agree only up to
   rounding, and bit equality is FALSE in general: first sample 7.5 ms, interval 0.1 ms, box from sample 128: sample 1 of
   the cropped file and sample 129 of the source are neighbouring doubles (0x1.4666666666667p+4 / 0x1.4666666666666p+4).
   Nothing is claimed here about the size of the difference in general (the harness compares with atol 1e-9). *)
Theorem C10_crop_zgy_axis_not_bitwise : exists s i z0 k,
  b64_is0 i = false /\ 0 < z0 /\ 0 <= k /\
  SFeqb (b64_zs (b64_zs s i z0) i k) (b64_zs s i (z0 + k)) = false /\
  b64_zs (b64_zs s i z0) i k = b64 0x14666666666667 (-48) /\ b64_zs s i (z0 + k) = b64 0x14666666666666 (-48).
Proof. exact zgy_axis_not_bitwise. Qed.
Print Assumptions C10_crop_zgy_axis_not_bitwise.

(* the skeleton the generator checked is the one the model interprets *)
Theorem C10_skeleton : skeleton_ok = true.
Proof. exact skeleton_holds. Qed.
Print Assumptions C10_skeleton.

(* non-vacuity: a concrete 10 x 13 x 300 cube at 8 bits (blockshape (4, 4, 256)), crosslines 4..13 and samples 100..300
   requested: well-formed, structured, served, and the served box is inlines 0..10, crosslines 4..13, samples 0..300 *)
Example C10_nonvacuous :
  let H := hdr_of_list [2; 300; 13; 10; 8; 4; 4; 256; 24; 520; 2; 130; 4199] in
  let A := {| ax_z0_ms := 0; ax_dt_us := 4000; ax_xl0 := 200; ax_xl_step := 1; ax_il0 := -5; ax_il_step := 2; ax_z0_sub_us := 0 |} in
  wf3 H = true /\ crp_structured H = true /\ request_okb H None (Some (5, 13)) (Some (100, 300)) = true /\
  layout_okb H (Some (5, 13)) (Some (100, 300)) = true /\
  s_hel H = 4 * (s_nil H * s_nxl H) /\ good_z A 0 = true /\
  exists R, crop_by_indexes H A None (Some (5, 13)) (Some (100, 300)) = Return R /\
            (co_i0 R, co_i1 R, co_x0 R, co_x1 R, co_z0 R, co_z1 R) = (0, 10, 4, 13, 0, 300) /\ length (co_reads R) = 9%nat.
Proof. cbv zeta. repeat split; try (vm_compute; reflexivity). eexists. split; [vm_compute; reflexivity|]. split; reflexivity. Qed.
(* header word 5 duplicates word 1, words 181 / 185 / 189 / 193 follow: five arrays for six stored keys *)
Example C10_nonvacuous_table :
  let T := [(1, 1); (5, 1); (181, 181); (185, 185); (189, 189); (193, 193)] in
  table_ok T = true /\ length (owners T) = 5%nat /\ footer_arrays T = [0; 1; 2; 3; 4].
Proof. repeat split; vm_compute; reflexivity. Qed.
(* a source converted from ZGY (5 x 6 x 300 at 8 bits, 300 samples from -100 ms every 2.5 ms: doubles -100.0 and 2500.0),
   samples 256..300 requested, in binary64: served; the cropped header's doubles are 540.0 and 2500.0, the reader is on
   the double branch and its samples 0, 1, 43 are 540.0, 542.5, 647.5 = the source's samples 256, 257, 299 *)
Example C10_nonvacuous_zgy :
  let H := hdr_of_list [2; 300; 6; 5; 8; 4; 4; 256; 8; 120; 4; 30; 4115] in
  let A := {| ax_z0_ms := -100; ax_dt_us := 2500; ax_xl0 := 100; ax_xl_step := 3; ax_il0 := 10; ax_il_step := 2; ax_z0_sub_us := 0 |} in
  let D := {| zd84 := b64 (-100) 0; zd92 := b64 2500 0 |} in
  let el := rdr_zs_elem spec_float b64_add b64_mul b64_div b64_of_Z in
  wf3 H = true /\ b64_is0 (zd92 D) = false /\
  exists R ps, crop_by_indexes H A None None (Some (256, 300)) = Return R /\
    (co_i0 R, co_i1 R, co_x0 R, co_x1 R, co_z0 R, co_z1 R) = (0, 5, 0, 6, 256, 300) /\
    crop_f64_fields spec_float b64_add b64_mul b64_div b64_of_Z b64_is0 H D 0 5 0 6 256 300 = Some ps /\
    map f64_executed ps = [true] /\
    out_zdbl D ps = {| zd84 := b64 540 0; zd92 := b64 2500 0 |} /\
    rdr_double_branch spec_float b64_is0 (out_zdbl D ps) = Some true /\
    map (el (out_zdbl D ps)) [0; 1; 43] = [Some (b64 540 0); Some (b64 1085 (-1)); Some (b64 1295 (-1))] /\
    map (el (out_zdbl D ps)) [0; 1; 43] = map (el D) [256; 257; 299] /\
    field_lookup (co_fields R) 16 0 = 540.
Proof.
  cbv zeta. split; [vm_compute; reflexivity|]. split; [vm_compute; reflexivity|].
  eexists. eexists. split; [vm_compute; reflexivity|]. split; [reflexivity|].
  split; [vm_compute; reflexivity|]. repeat split; vm_compute; reflexivity.
Qed.
