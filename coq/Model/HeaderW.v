(* Model/HeaderW.v -- the size/format part of the header the converters write (fields GENERATED from make_header in
   Gen/Header.v), seen through the parser: struct.pack('<I') / ('<i') followed by the reader's unsigned / signed 32-bit
   reads is the identity exactly on the representable range and raises struct.error outside it. *)
From Coq Require Import ZArith List Bool Lia.
Import ListNotations.
From SZ Require Import Lib.Py Gen.Utils Gen.Reader Gen.Header.
Open Scope Z_scope.

Definition u32_ok (v : Z) : bool := (0 <=? v) && (v <? 4294967296).
Definition i32_ok (v : Z) : bool := (-2147483648 <=? v) && (v <? 2147483648).

Section W.
Variables rn rd ns g_nil g_nxl g_ntr tracecount bs0 bs1 bs2 n_arrays version_enc : Z.
Variables is2d unstructured : bool.
Local Notation F f := (f rn rd ns g_nil g_nxl g_ntr tracecount bs0 bs1 bs2 n_arrays version_enc is2d unstructured).

Definition fields_ok : bool :=
  u32_ok (F mh_field_0) && u32_ok (F mh_field_4) && u32_ok (F mh_field_8) && u32_ok (F mh_field_12) && i32_ok (F mh_field_40) &&
  u32_ok (F mh_field_44) && u32_ok (F mh_field_48) && u32_ok (F mh_field_52) && u32_ok (F mh_field_56) && u32_ok (F mh_field_60) &&
  u32_ok (F mh_field_64) && u32_ok (F mh_field_68) && u32_ok (F mh_field_72).

(* the header a reader parses from the bytes make_header produced; Raise = struct.error in a packer *)
Definition written_hdr : outcome hdr :=
  if negb fields_ok then Raise OtherErr else
  Return {| h_u32_0 := F mh_field_0; h_u32_4 := F mh_field_4; h_u32_8 := F mh_field_8; h_u32_12 := F mh_field_12;
            h_i32_40 := F mh_field_40; h_u32_44 := F mh_field_44; h_u32_48 := F mh_field_48; h_u32_52 := F mh_field_52;
            h_u32_56 := F mh_field_56; h_u32_60 := F mh_field_60; h_u32_64 := F mh_field_64; h_u32_68 := F mh_field_68;
            h_u32_72 := F mh_field_72 |}.
End W.

(* a valid 3D configuration in the sense of the property: positive dimensions, block dimensions multiples of 4 of at
   least 4, a rate that is an integer >= 1 or the reciprocal of an integer >= 2, whole bytes per unit, and one block =
   4096 bytes *)
Definition cfg3 (rn rd ns n_il n_xl bs0 bs1 bs2 : Z) : bool :=
  (1 <=? ns) && (1 <=? n_il) && (1 <=? n_xl) &&
  (4 <=? bs0) && (bs0 mod 4 =? 0) && (4 <=? bs1) && (bs1 mod 4 =? 0) && (4 <=? bs2) && (bs2 mod 4 =? 0) &&
  (((rd =? 1) && (1 <=? rn)) || ((rn =? 1) && (2 <=? rd))) &&
  ((64 * rn) mod (8 * rd) =? 0) &&
  ((bs0 / 4) * (bs1 / 4) * (bs2 / 4) * ((64 * rn) / (8 * rd)) =? 4096).

(* footer as the converters write it: each array followed by the generated padding *)
Definition footer_stride_written (len : Z) : Z := len + footer_pad_segy len.
