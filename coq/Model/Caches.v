(* Model/Caches.v -- C15 history independence: the reader state machine with every memo table explicit.

   What is modelled (hand model of the pinned sources; the tables come from Gen/Caches.v):
   - utils.read_range_file = seek; read; length check, on a handle with a position (shared by the emulator's readers)
   - loader._get_compressed_bytes: slice of the preloaded volume, or a range read of the file
   - the class-level functools.lru_cache tables of the loader methods: ONE table per decorated function, shared by
     every loader object of the process, key = (loader identity, arguments), capacity = the generated maxsize;
     clear_cache empties the tables named in the generated clear list, for everybody
   - the per-reader lru_cache of decompressed chunks (capacity chunk_cache_size); a miss runs _read_containing_chunk,
     which calls a class-level cached loader method
   - functools.lru_cache order: a hit moves the entry to the most-recent end, a miss appends the new entry and drops
     the least recently used one when the table is full; a call that raises stores nothing
   - the lazy sticky reader caches: mask, variant_headers + include_padding (read_variant_headers, the D18 repair
     _load_variant_headers, clear_variant_headers)
   - several readers, opened by path (own handle, preload on/off, any chunk cache size) or by seismic_zfp.open (one
     handle shared by the emulator and its accessor readers), closed at any time.

   What is abstract (Section variables): the files (any byte strings), the decoded values, the uncached body of every
   loader method (a program issuing byte-range requests), of _read_containing_chunk and of every public read method
   (programs over the cached primitives).  Nothing is assumed about them except `bodies_in_data` (Proofs/Caches.v):
   a cached loader body requests bytes inside the data section (property C07), needed only for preload. *)
From Coq Require Import ZArith List Bool String Arith Lia.
From SZ Require Import Lib.Py Gen.Caches.
Import ListNotations.
Local Open Scope nat_scope.

(* ------------------------------------------------------------------------------------------------ LRU tables *)
Section LRU.
  Variables (K V : Type) (keqb : K -> K -> bool).

  (* most recently used entry FIRST *)
  Fixpoint lru_find (k : K) (l : list (K * V)) : option V :=
    match l with
    | [] => None
    | (k', v) :: t => if keqb k k' then Some v else lru_find k t
    end.
  Fixpoint lru_remove (k : K) (l : list (K * V)) : list (K * V) :=
    match l with
    | [] => []
    | (k', v) :: t => if keqb k k' then lru_remove k t else (k', v) :: lru_remove k t
    end.
  (* hit: the entry becomes the most recent one *)
  Definition lru_hit (k : K) (v : V) (l : list (K * V)) : list (K * V) := (k, v) :: lru_remove k l.
  (* miss with result v: insert as most recent; if the table is over capacity the oldest (last) entry goes.
     capacity 0 = functools' "no caching" mode *)
  Definition lru_miss (c : nat) (k : K) (v : V) (l : list (K * V)) : list (K * V) := firstn c ((k, v) :: l).
End LRU.
Arguments lru_find {K V}. Arguments lru_remove {K V}. Arguments lru_hit {K V}. Arguments lru_miss {K V}.

Fixpoint zlist_eqb (a b : list Z) : bool :=
  match a, b with
  | [], [] => true
  | x :: a', y :: b' => Z.eqb x y && zlist_eqb a' b'
  | _, _ => false
  end.
Definition skey := (nat * list Z)%type.            (* (loader identity, arguments) *)
Definition skey_eqb (a b : skey) : bool := Nat.eqb (fst a) (fst b) && zlist_eqb (snd a) (snd b).

(* generated tables *)
Definition cached_methods : list (string * nat * list string) := cached_methods_2d ++ cached_methods_3d.
Fixpoint maxsize_in (t : list (string * nat * list string)) (m : string) : nat :=
  match t with
  | [] => 0
  | (n, c, _) :: t' => if String.eqb n m then c else maxsize_in t' m
  end.
Definition maxsize_of (m : string) : nat := maxsize_in cached_methods m.
Fixpoint str_mem (m : string) (l : list string) : bool :=
  match l with [] => false | x :: t => String.eqb x m || str_mem m t end.

(* ------------------------------------------------------------------------------------------------ byte layer *)
Definition slice (l : list Z) (off len : nat) : list Z := firstn len (skipn off l).
Definition check_len (d : list Z) (len : nat) : outcome (list Z) :=
  if Nat.eqb (List.length d) len then Return d else Raise IOErr.

Record handle := mkH { h_file : nat; h_pos : nat; h_open : bool }.

Section World.
  Variable value : Type.
  Variable file_bytes : nat -> list Z.               (* file number -> content *)
  Variable data_start data_len : nat -> nat.         (* n_header_blocks*4096, compressed_data_diskblocks*block_bytes *)
  Variable is2d structured : nat -> bool.
  Variable template : nat -> list (Z * option nat).  (* segy_traceheader_template: field -> constant (None) | FileOffset *)
  Variable hel : nat -> nat.                         (* header_entry_length_bytes *)
  Variable mask_off : nat -> nat.                    (* segy_traceheader_template[189] *)
  Variable default_cap : nat -> nat.                 (* get_chunk_cache_size(...) *)
  Variable decode_hdr : list Z -> value.             (* np.frombuffer(buffer, int32) *)
  Variable decode_mask : list Z -> value.            (* np.frombuffer(buffer, int32) != 0 *)
  Variable apply_mask : value -> value -> value.     (* values[mask] *)
  Variable patched : bool.                           (* Gen.Caches.vh_reload_on_mode_switch *)

  (* the file as a pure function: what read_range returns on ANY handle of file f (see Proofs: position irrelevant) *)
  Definition read_range (f off len : nat) : outcome (list Z) := check_len (slice (file_bytes f) off len) len.

  Definition h_seek (h : handle) (off : nat) : handle := mkH (h_file h) off (h_open h).
  Definition h_read (h : handle) (len : nat) : list Z * handle :=
    let d := slice (file_bytes (h_file h)) (h_pos h) len in (d, mkH (h_file h) (h_pos h + List.length d) (h_open h)).
  (* utils.read_range_file: file.seek(offset); check_range_length(file.read(length), ...) *)
  Definition read_range_file (h : handle) (off len : nat) : outcome (list Z) * handle :=
    if h_open h then let (d, h') := h_read (h_seek h off) len in (check_len d len, h')
    else (Raise ValueErr, h).

  (* loader._get_compressed_bytes *)
  Definition get_bytes (vol : option (list Z)) (h : handle) (off len : nat) : outcome (list Z) * handle :=
    match vol with
    | Some v => (Return (slice v off len), h)
    | None => read_range_file h (data_start (h_file h) + off) len
    end.

  (* uncached body of a loader method: a program of byte-range requests (sequential: n_workers = 1 on local files) *)
  Inductive lprog :=
  | LRet (r : outcome value)
  | LGet (off len : nat) (k : outcome (list Z) -> lprog).
  Variable lbody : nat -> string -> list Z -> lprog.          (* file -> method -> arguments -> body *)

  Fixpoint exec_l (vol : option (list Z)) (h : handle) (p : lprog) : outcome value * handle :=
    match p with
    | LRet r => (r, h)
    | LGet off len k => let (b, h') := get_bytes vol h off len in exec_l vol h' (k b)
    end.
  Fixpoint pure_l (f : nat) (p : lprog) : outcome value :=
    match p with
    | LRet r => r
    | LGet off len k => pure_l f (k (read_range f (data_start f + off) len))
    end.
  Fixpoint in_data (f : nat) (p : lprog) : Prop :=
    match p with
    | LRet _ => True
    | LGet off len k => off + len <= data_len f /\ in_data f (k (read_range f (data_start f + off) len))
    end.
  Definition pure_loader (f : nat) (m : string) (args : list Z) : outcome value := pure_l f (lbody f m args).

  (* body of _read_containing_chunk: calls of class-level cached loader methods *)
  Inductive cprog :=
  | CDone (r : outcome value)
  | CLoader (m : string) (args : list Z) (k : outcome value -> cprog).
  Variable chunk_body : nat -> list Z -> cprog.

  (* body of a public read method of SgzReader / of an emulator accessor *)
  Inductive rprog :=
  | RDone (r : outcome value)
  | RLoader (m : string) (args : list Z) (k : outcome value -> rprog)     (* self.loader.<m>(args) *)
  | RChunk (key : list Z) (k : outcome value -> rprog)                    (* self._read_containing_chunk_cached(key) *)
  | RMask (k : outcome value -> rprog)                                    (* self.get_unstructured_mask(); self.mask *)
  | RHeaderOne (pad : bool) (field : Z) (k : outcome value -> rprog)      (* load [field]; self.variant_headers[field] *)
  | RHeaderAll (pad : bool) (field : Z) (k : outcome value -> rprog)      (* load all;     self.variant_headers[field] *)
  | RRaw (off len : nat) (k : outcome (list Z) -> rprog).                 (* self.file.read_range(self.file, off, len) *)
  Variable query : Type.
  Variable method_prog : nat -> query -> rprog.

  (* ---------------------------------------------------------------------------------------------- state *)
  Record reader := mkR { r_file : nat; r_handle : nat; r_vol : option (list Z); r_cap : nat }.      (* fixed at open *)
  Record rdyn := mkD { d_chunks : list (list Z * value); d_vh : list (Z * value); d_ipad : option bool;
                       d_mask : option value }.
  Definition dyn0 : rdyn := mkD [] [] None None.
  Record rstate := mkS {
    nreaders : nat; readers : nat -> option reader; dyn : nat -> rdyn;
    nhandles : nat; handles : nat -> option handle;
    slots : string -> list (skey * value);        (* class-level tables, one per decorated loader method *)
    log : list (nat * bool) }.                    (* ghost: (level, hit) of every cache consultation, newest first *)
  Definition init : rstate := mkS 0 (fun _ => None) (fun _ => dyn0) 0 (fun _ => None) (fun _ => []) [].

  Definition set_slot (st : rstate) (m : string) (l : list (skey * value)) : rstate :=
    mkS (nreaders st) (readers st) (dyn st) (nhandles st) (handles st)
        (fun m' => if String.eqb m m' then l else slots st m') (log st).
  Definition set_handle (st : rstate) (i : nat) (h : handle) : rstate :=
    mkS (nreaders st) (readers st) (dyn st) (nhandles st) (fun j => if Nat.eqb i j then Some h else handles st j)
        (slots st) (log st).
  Definition set_dyn (st : rstate) (i : nat) (d : rdyn) : rstate :=
    mkS (nreaders st) (readers st) (fun j => if Nat.eqb i j then d else dyn st j) (nhandles st) (handles st)
        (slots st) (log st).
  Definition add_log (st : rstate) (e : nat * bool) : rstate :=
    mkS (nreaders st) (readers st) (dyn st) (nhandles st) (handles st) (slots st) (e :: log st).
  (* log levels *)
  Definition L_loader := 0. Definition L_chunk := 1. Definition L_mask := 2. Definition L_hdr := 3.
  Definition L_raw := 4. Definition L_op := 9.

  (* a byte-range read of reader rid on its handle *)
  Definition raw_read (st : rstate) (rid : nat) (off len : nat) : rstate * outcome (list Z) :=
    match readers st rid with
    | None => (st, Raise OtherErr)
    | Some r =>
      match handles st (r_handle r) with
      | None => (st, Raise OtherErr)
      | Some h => let (b, h') := read_range_file h off len in (set_handle st (r_handle r) h', b)
      end
    end.

  (* ---------------------------------------------------------------------------------------------- primitives *)
  (* self.loader.m(args) through the class-level lru_cache of m *)
  Definition prim_loader (st : rstate) (rid : nat) (m : string) (args : list Z) : rstate * outcome value :=
    match readers st rid with
    | None => (st, Raise OtherErr)
    | Some r =>
      let key := (rid, args) in
      match lru_find skey_eqb key (slots st m) with
      | Some v => (add_log (set_slot st m (lru_hit skey_eqb key v (slots st m))) (L_loader, true), Return v)
      | None =>
        match handles st (r_handle r) with
        | None => (st, Raise OtherErr)
        | Some h =>
          let (res, h') := exec_l (r_vol r) h (lbody (r_file r) m args) in
          let st1 := add_log (set_handle st (r_handle r) h') (L_loader, false) in
          match res with
          | Return v => (set_slot st1 m (lru_miss (maxsize_of m) key v (slots st1 m)), Return v)
          | Raise e => (st1, Raise e)
          end
        end
      end
    end.

  Fixpoint exec_c (st : rstate) (rid : nat) (p : cprog) : rstate * outcome value :=
    match p with
    | CDone r => (st, r)
    | CLoader m args k => let (st1, v) := prim_loader st rid m args in exec_c st1 rid (k v)
    end.
  Fixpoint pure_c (f : nat) (p : cprog) : outcome value :=
    match p with
    | CDone r => r
    | CLoader m args k => pure_c f (k (pure_loader f m args))
    end.
  Definition pure_chunk (f : nat) (key : list Z) : outcome value := pure_c f (chunk_body f key).

  Definition set_chunks (d : rdyn) (c : list (list Z * value)) : rdyn := mkD c (d_vh d) (d_ipad d) (d_mask d).
  Definition set_mask (d : rdyn) (m : option value) : rdyn := mkD (d_chunks d) (d_vh d) (d_ipad d) m.
  Definition set_vh (d : rdyn) (vh : list (Z * value)) (ip : option bool) : rdyn := mkD (d_chunks d) vh ip (d_mask d).

  (* self._read_containing_chunk_cached(key): the reader's own lru_cache *)
  Definition prim_chunk (st : rstate) (rid : nat) (key : list Z) : rstate * outcome value :=
    match readers st rid with
    | None => (st, Raise OtherErr)
    | Some r =>
      match lru_find zlist_eqb key (d_chunks (dyn st rid)) with
      | Some v => (add_log (set_dyn st rid (set_chunks (dyn st rid) (lru_hit zlist_eqb key v (d_chunks (dyn st rid)))))
                           (L_chunk, true), Return v)
      | None =>
        let (st1, res) := exec_c (add_log st (L_chunk, false)) rid (chunk_body (r_file r) key) in
        match res with
        | Return v => (set_dyn st1 rid (set_chunks (dyn st1 rid) (lru_miss (r_cap r) key v (d_chunks (dyn st1 rid)))),
                       Return v)
        | Raise e => (st1, Raise e)
        end
      end
    end.

  (* get_unstructured_mask *)
  Definition pure_mask (f : nat) : outcome value :=
    bind (read_range f (mask_off f) (hel f)) (fun b => Return (decode_mask b)).
  Definition prim_mask (st : rstate) (rid : nat) : rstate * outcome value :=
    match readers st rid with
    | None => (st, Raise OtherErr)
    | Some r =>
      match d_mask (dyn st rid) with
      | Some m => (add_log st (L_mask, true), Return m)
      | None =>
        let (st1, b) := raw_read (add_log st (L_mask, false)) rid (mask_off (r_file r)) (hel (r_file r)) in
        match b with
        | Return bytes => (set_dyn st1 rid (set_mask (dyn st1 rid) (Some (decode_mask bytes))), Return (decode_mask bytes))
        | Raise e => (st1, Raise e)
        end
      end
    end.

  (* footer arrays *)
  Fixpoint tlookup (t : list (Z * option nat)) (k : Z) : option (option nat) :=
    match t with [] => None | (k', o) :: t' => if Z.eqb k k' then Some o else tlookup t' k end.
  Fixpoint vh_find (k : Z) (l : list (Z * value)) : option value :=
    match l with [] => None | (k', v) :: t => if Z.eqb k k' then Some v else vh_find k t end.
  Definition use_mask (f : nat) (pad : bool) : bool := negb (is2d f) && negb (structured f || pad).
  (* the array variant_headers[k] holds when loaded in padding mode pad; KeyError when k is not a stored field *)
  Definition hdr_value (f : nat) (pad : bool) (k : Z) : outcome value :=
    match tlookup (template f) k with
    | Some (Some off) =>
        if use_mask f pad
        then bind (pure_mask f) (fun m => bind (read_range f off (hel f)) (fun b => Return (apply_mask m (decode_hdr b))))
        else bind (read_range f off (hel f)) (fun b => Return (decode_hdr b))
    | _ => Raise OtherErr
    end.

  Definition read_hdr (st : rstate) (rid : nat) (k : Z) (off : nat) (post : value -> value) : rstate * outcome unit :=
    match readers st rid with
    | None => (st, Raise OtherErr)
    | Some r =>
      let (st1, b) := raw_read (add_log st (L_hdr, false)) rid off (hel (r_file r)) in
      match b with
      | Return bytes => (set_dyn st1 rid (set_vh (dyn st1 rid) ((k, post (decode_hdr bytes)) :: d_vh (dyn st1 rid))
                                                 (d_ipad (dyn st1 rid))), Return tt)
      | Raise e => (st1, Raise e)
      end
    end.
  (* one iteration of the loop of read_variant_headers, include_padding (sticky) = b *)
  Definition load_field (st : rstate) (rid : nat) (b : bool) (k : Z) : rstate * outcome unit :=
    match readers st rid with
    | None => (st, Raise OtherErr)
    | Some r =>
      match vh_find k (d_vh (dyn st rid)) with
      | Some _ => (st, Return tt)
      | None =>
        match tlookup (template (r_file r)) k with
        | None => (st, Raise OtherErr)                 (* self.segy_traceheader_template[k]: KeyError *)
        | Some None => (st, Return tt)                 (* not a FileOffset *)
        | Some (Some off) =>
          if use_mask (r_file r) b then
            let (st1, mres) := prim_mask st rid in
            match mres with
            | Return m => read_hdr st1 rid k off (apply_mask m)
            | Raise e => (st1, Raise e)
            end
          else read_hdr st rid k off (fun v => v)
        end
      end
    end.
  Fixpoint load_fields (st : rstate) (rid : nat) (b : bool) (ks : list Z) : rstate * outcome unit :=
    match ks with
    | [] => (st, Return tt)
    | k :: t => let (st1, r) := load_field st rid b k in
                match r with Return _ => load_fields st1 rid b t | Raise e => (st1, Raise e) end
    end.
  Definition field_list (f : nat) (fields : option (list Z)) : list Z :=
    match fields with None => map fst (template f) | Some l => l end.
  (* SgzReader.read_variant_headers(include_padding=pad, tracefields=fields): sticky mode + assertion *)
  Definition rvh (st : rstate) (rid : nat) (pad : bool) (fields : option (list Z)) : rstate * outcome unit :=
    match readers st rid with
    | None => (st, Raise OtherErr)
    | Some r =>
      let d := dyn st rid in
      let b := match d_ipad d with None => pad | Some b => b end in
      let st0 := set_dyn st rid (set_vh d (d_vh d) (Some b)) in
      if negb (structured (r_file r)) && negb (Bool.eqb b pad) then (st0, Raise AssertErr)
      else load_fields st0 rid b (field_list (r_file r) fields)
    end.
  (* SgzReader._load_variant_headers (the D18 repair; with patched = false: a plain call of read_variant_headers) *)
  Definition load_vh (st : rstate) (rid : nat) (pad : bool) (fields : option (list Z)) : rstate * outcome unit :=
    match readers st rid with
    | None => (st, Raise OtherErr)
    | Some r =>
      let d := dyn st rid in
      let conflict := match d_ipad d with None => false | Some b => negb (Bool.eqb b pad) end in
      let st0 := if patched && negb (structured (r_file r)) && conflict then set_dyn st rid (set_vh d [] None) else st in
      rvh st0 rid pad fields
    end.
  Definition prim_header (st : rstate) (rid : nat) (pad : bool) (fields : option (list Z)) (field : Z)
    : rstate * outcome value :=
    let (st1, r) := load_vh st rid pad fields in
    match r with
    | Return _ => (st1, match vh_find field (d_vh (dyn st1 rid)) with Some v => Return v | None => Raise OtherErr end)
    | Raise e => (st1, Raise e)
    end.

  Definition field_outcome (f : nat) (pad : bool) (k : Z) : outcome unit :=
    match tlookup (template f) k with
    | None => Raise OtherErr
    | Some None => Return tt
    | Some (Some _) => bind (hdr_value f pad k) (fun _ => Return tt)
    end.
  Fixpoint fields_outcome (f : nat) (pad : bool) (ks : list Z) : outcome unit :=
    match ks with [] => Return tt | k :: t => bind (field_outcome f pad k) (fun _ => fields_outcome f pad t) end.
  Definition pure_header (f : nat) (pad : bool) (fields : option (list Z)) (field : Z) : outcome value :=
    bind (fields_outcome f pad (field_list f fields)) (fun _ => hdr_value f pad field).

  (* ---------------------------------------------------------------------------------------------- read methods *)
  Fixpoint exec_r (st : rstate) (rid : nat) (p : rprog) : rstate * outcome value :=
    match p with
    | RDone r => (st, r)
    | RLoader m args k => let (st1, v) := prim_loader st rid m args in exec_r st1 rid (k v)
    | RChunk key k => let (st1, v) := prim_chunk st rid key in exec_r st1 rid (k v)
    | RMask k => let (st1, v) := prim_mask st rid in exec_r st1 rid (k v)
    | RHeaderOne pad fld k => let (st1, v) := prim_header st rid pad (Some [fld]) fld in exec_r st1 rid (k v)
    | RHeaderAll pad fld k => let (st1, v) := prim_header st rid pad None fld in exec_r st1 rid (k v)
    | RRaw off len k => let (st1, b) := raw_read (add_log st (L_raw, false)) rid off len in exec_r st1 rid (k b)
    end.
  (* the same method on a reader without any memory: every primitive replaced by the pure function of (file, key) *)
  Fixpoint pure_r (f : nat) (p : rprog) : outcome value :=
    match p with
    | RDone r => r
    | RLoader m args k => pure_r f (k (pure_loader f m args))
    | RChunk key k => pure_r f (k (pure_chunk f key))
    | RMask k => pure_r f (k (pure_mask f))
    | RHeaderOne pad fld k => pure_r f (k (pure_header f pad (Some [fld]) fld))
    | RHeaderAll pad fld k => pure_r f (k (pure_header f pad None fld))
    | RRaw off len k => pure_r f (k (read_range f off len))
    end.

  (* ---------------------------------------------------------------------------------------------- the machine *)
  Inductive cmd := ClearCache | ClearVH | ReadVH (pad : bool) (fields : option (list Z)).
  Inductive op :=
  | Open (f : nat) (preload : bool) (cap : option nat)      (* SgzReader(path, preload=..., chunk_cache_size=...) *)
  | OpenEmu (f : nat) (cap : option nat)                     (* seismic_zfp.open(path, chunk_cache_size=...) *)
  | Close (rid : nat)                                        (* reader.close() / accessor.__exit__ / emulator.__exit__ *)
  | Query (rid : nat) (q : query)                            (* a read method of reader rid *)
  | Cmd (rid : nat) (c : cmd).
  Inductive result := RVal (o : outcome value) | RUnit (o : outcome unit) | NotOpen.

  Definition is_open (st : rstate) (rid : nat) : option reader :=
    match readers st rid with
    | None => None
    | Some r => match handles st (r_handle r) with
                | Some h => if h_open h then Some r else None
                | None => None
                end
    end.
  Definition add_reader (st : rstate) (r : reader) : rstate :=
    mkS (S (nreaders st)) (fun j => if Nat.eqb (nreaders st) j then Some r else readers st j)
        (fun j => if Nat.eqb (nreaders st) j then dyn0 else dyn st j) (nhandles st) (handles st) (slots st) (log st).
  Definition add_handle (st : rstate) (h : handle) : rstate :=
    mkS (nreaders st) (readers st) (dyn st) (S (nhandles st)) (fun j => if Nat.eqb (nhandles st) j then Some h else handles st j)
        (slots st) (log st).
  Fixpoint add_readers (st : rstate) (n : nat) (r : reader) : rstate :=
    match n with O => st | S n' => add_readers (add_reader st r) n' r end.
  Definition clear_list (f : nat) : list string := if is2d f then clear_cache_2d else clear_cache_3d.
  Definition clear_slots (st : rstate) (names : list string) : rstate :=
    mkS (nreaders st) (readers st) (dyn st) (nhandles st) (handles st)
        (fun m => if str_mem m names then [] else slots st m) (log st).
  Definition cap_of (f : nat) (cap : option nat) : nat := match cap with Some c => c | None => default_cap f end.
  (* accessor readers built by SegyioEmulator.__init__ on the emulator's handle *)
  Definition emu_accessors (f : nat) : nat :=
    List.length emu_accessors_always + (if is2d f then 0 else List.length emu_accessors_3d).

  Definition step (st0 : rstate) (o : op) : rstate * result :=
    let st := add_log st0 (L_op, false) in
    match o with
    | Open f preload cap =>
        let hid := nhandles st in
        let h := mkH f 0 true in
        if preload then
          let (b, h') := read_range_file h (data_start f) (data_len f) in
          match b with
          | Return v => (add_reader (add_handle st h') (mkR f hid (Some v) (cap_of f cap)), RUnit (Return tt))
          | Raise e => (add_reader (add_handle st (mkH f 0 false)) (mkR f hid None (cap_of f cap)), RUnit (Raise e))
          end
        else (add_reader (add_handle st h) (mkR f hid None (cap_of f cap)), RUnit (Return tt))
    | OpenEmu f cap =>
        let hid := nhandles st in
        let st1 := add_reader (add_handle st (mkH f 0 true)) (mkR f hid None (cap_of f cap)) in
        (add_readers st1 (emu_accessors f) (mkR f hid None (default_cap f)), RUnit (Return tt))
    | Close rid =>
        match is_open st rid with
        | None => (st, NotOpen)
        | Some r =>
            let st1 := clear_slots st (clear_list (r_file r)) in
            (set_handle st1 (r_handle r) (mkH (r_file r) 0 false), RUnit (Return tt))
        end
    | Query rid q =>
        match is_open st rid with
        | None => (st, NotOpen)
        | Some r => let (st1, v) := exec_r st rid (method_prog (r_file r) q) in (st1, RVal v)
        end
    | Cmd rid c =>
        match is_open st rid with
        | None => (st, NotOpen)
        | Some r =>
            match c with
            | ClearCache => (clear_slots st (clear_list (r_file r)), RUnit (Return tt))
            | ClearVH => (set_dyn st rid (set_vh (dyn st rid) [] None), RUnit (Return tt))
            | ReadVH pad fields => let (st1, u) := rvh st rid pad fields in (st1, RUnit u)
            end
        end
    end.
  Fixpoint run (st : rstate) (ops : list op) : rstate * list result :=
    match ops with
    | [] => (st, [])
    | o :: t => let (st1, r) := step st o in let (st2, rs) := run st1 t in (st2, r :: rs)
    end.

  (* ---------------------------------------------------------------------------------------------- the specification
     A machine WITHOUT any memory: it only tracks which reader number is attached to which file and handle and which
     handles are open; every query is answered by pure_r (file, arguments).  `None` = no claim: a direct call of the
     public read_variant_headers on an unstructured file, whose AssertionError after a call in the other padding mode
     is the documented behaviour (tests/test_read.py::test_read_variant_headers_padding_mismatch). *)
  Record sstate := mkSS { s_n : nat; s_reader : nat -> option (nat * nat); s_nh : nat; s_open : nat -> option bool }.
  Definition sinit : sstate := mkSS 0 (fun _ => None) 0 (fun _ => None).
  Definition s_is_open (s : sstate) (rid : nat) : option nat :=
    match s_reader s rid with
    | None => None
    | Some (f, hid) => match s_open s hid with Some true => Some f | _ => None end
    end.
  Definition s_add_reader (s : sstate) (f hid : nat) : sstate :=
    mkSS (S (s_n s)) (fun j => if Nat.eqb (s_n s) j then Some (f, hid) else s_reader s j) (s_nh s) (s_open s).
  Definition s_add_handle (s : sstate) (b : bool) : sstate :=
    mkSS (s_n s) (s_reader s) (S (s_nh s)) (fun j => if Nat.eqb (s_nh s) j then Some b else s_open s j).
  Fixpoint s_add_readers (s : sstate) (n : nat) (f hid : nat) : sstate :=
    match n with O => s | S n' => s_add_readers (s_add_reader s f hid) n' f hid end.
  Definition spec_step (s : sstate) (o : op) : sstate * option result :=
    match o with
    | Open f preload cap =>
        let hid := s_nh s in
        if preload then
          match read_range f (data_start f) (data_len f) with
          | Return _ => (s_add_reader (s_add_handle s true) f hid, Some (RUnit (Return tt)))
          | Raise e => (s_add_reader (s_add_handle s false) f hid, Some (RUnit (Raise e)))
          end
        else (s_add_reader (s_add_handle s true) f hid, Some (RUnit (Return tt)))
    | OpenEmu f cap =>
        let hid := s_nh s in
        (s_add_readers (s_add_reader (s_add_handle s true) f hid) (emu_accessors f) f hid, Some (RUnit (Return tt)))
    | Close rid =>
        match s_is_open s rid, s_reader s rid with
        | Some _, Some (_, hid) =>
            (mkSS (s_n s) (s_reader s) (s_nh s) (fun j => if Nat.eqb hid j then Some false else s_open s j),
             Some (RUnit (Return tt)))
        | _, _ => (s, Some NotOpen)
        end
    | Query rid q =>
        match s_is_open s rid with
        | None => (s, Some NotOpen)
        | Some f => (s, Some (RVal (pure_r f (method_prog f q))))
        end
    | Cmd rid c =>
        match s_is_open s rid with
        | None => (s, Some NotOpen)
        | Some f =>
            match c with
            | ReadVH pad fields =>
                (s, if structured f then Some (RUnit (fields_outcome f pad (field_list f fields))) else None)
            | _ => (s, Some (RUnit (Return tt)))
            end
        end
    end.
  Fixpoint spec_run (s : sstate) (ops : list op) : list (option result) :=
    match ops with
    | [] => []
    | o :: t => let (s1, r) := spec_step s o in r :: spec_run s1 t
    end.
  Definition agrees (s : option result) (r : result) : Prop := match s with Some x => r = x | None => True end.
End World.

Arguments nreaders {value}. Arguments readers {value}. Arguments dyn {value}. Arguments nhandles {value}.
Arguments handles {value}. Arguments slots {value}. Arguments log {value}.
Arguments d_chunks {value}. Arguments d_vh {value}. Arguments d_ipad {value}. Arguments d_mask {value}.
Arguments mkS {value}. Arguments mkD {value}. Arguments dyn0 {value}. Arguments init {value}.
Arguments set_slot {value}. Arguments set_handle {value}. Arguments set_dyn {value}. Arguments add_log {value}.
Arguments set_chunks {value}. Arguments set_mask {value}. Arguments set_vh {value}.
Arguments is_open {value}. Arguments add_reader {value}. Arguments add_handle {value}. Arguments add_readers {value}.
Arguments clear_slots {value}. Arguments vh_find {value}.
Arguments LRet {value}. Arguments LGet {value}. Arguments CDone {value}. Arguments CLoader {value}.
Arguments RDone {value}. Arguments RLoader {value}. Arguments RChunk {value}. Arguments RMask {value}.
Arguments RHeaderOne {value}. Arguments RHeaderAll {value}. Arguments RRaw {value}.
Arguments RVal {value}. Arguments RUnit {value}. Arguments NotOpen {value}.
Arguments Open {query}. Arguments OpenEmu {query}. Arguments Close {query}. Arguments Query {query}. Arguments Cmd {query}.
Arguments agrees {value}.

(* ------------------------------------------------------------------------------------------------ executable instance
   Used by the correspondence harness tools/checks/history.py (through tools/coqeval.py) and by the examples of
   Props/C15.v.  A query is the list of cache consultations the real method made (logged by the harness at the call
   sites); the machine above then predicts, for every consultation, hit or miss.  Values are dummies. *)
Module Toy.
  Local Open Scope Z_scope.
  Definition value := list Z.
  Inductive acc :=
  | ALoad (m : string) (args : list Z)       (* self.loader.m(args) *)
  | AChunk (key : list Z)                    (* self._read_containing_chunk_cached(key) *)
  | AMask                                    (* self.get_unstructured_mask() *)
  | AHdrOne (pad : bool) (k : Z)             (* get_tracefield_1d(k) *)
  | AHdrAll (pad : bool) (k : Z)             (* gen_trace_header: load all, variant_headers[k] *)
  | ARaw (off len : nat).                    (* self.file.read_range *)
  (* the consultations in order; as in Python an exception ends the method; the result is the last value obtained *)
  Fixpoint prog_from (last : outcome value) (q : list acc) : rprog value :=
    match q with
    | [] => RDone last
    | a :: t =>
        let k := fun v : outcome value => match v with Raise e => RDone (Raise e) | Return _ => prog_from v t end in
        (* get_tracefield_1d goes on when the field is not among the loaded arrays (a constant field: KeyError here) *)
        let k1 := fun v : outcome value => match v with Raise OtherErr => prog_from v t | Raise e => RDone (Raise e)
                                                      | Return _ => prog_from v t end in
        match a with
        | ALoad m args => RLoader m args k
        | AChunk key => RChunk key k
        | AMask => RMask k
        | AHdrOne p fld => RHeaderOne p fld k1
        | AHdrAll p fld => RHeaderAll p fld k
        | ARaw o l => RRaw o l k
        end
    end.
  Definition prog_of (q : list acc) : rprog value := prog_from (Return []) q.
  Section T.
    Variable bs : nat -> Z * Z.             (* (blockshape[0], blockshape[1]) of file f *)
    Variable twod structured : nat -> bool.
    Variable stored : nat -> list Z.        (* the FileOffset keys of segy_traceheader_template, in order *)
    Variable dcap : nat -> nat.             (* default chunk cache size *)
    Variable patched : bool.
    Definition file_bytes (f : nat) : list Z := repeat (Z.of_nat f) 64.
    Definition lbody (f : nat) (m : string) (args : list Z) : lprog value :=
      LGet 0 4 (fun b => LRet (bind b (fun bytes => Return (bytes ++ args)%list))).
    (* hand model of SgzReader._read_containing_chunk + the dispatch of read_subvolume (pinned):
       read_subvolume(ref_il, ref_il+bs0, ref_xl, ref_xl+bs1, min_z, max_z, access_padding=True, multithreading=False) *)
    Definition chunk_body (f : nat) (key : list Z) : cprog value :=
      match key with
      | [il; xl; z0; z1] =>
          let (b0, b1) := bs f in
          if (b0 =? 4) && (b1 =? 4)
          then CLoader "read_and_decompress_chunk_range" [il + 4; xl + 4; z1; il; xl; z0; 0] (fun v => CDone v)
          else CLoader "read_unshuffle_and_decompress_chunk_range" [il + b0; xl + b1; z1; il; xl; z0] (fun v => CDone v)
      | _ => CDone (Raise AssertErr)
      end.
    Definition template (f : nat) : list (Z * option nat) := map (fun k => (k, Some 40%nat)) (stored f).
    Definition run (ops : list (op (list acc))) : rstate value * list (result value) :=
      Caches.run value file_bytes (fun _ => 8%nat) (fun _ => 32%nat) twod structured template (fun _ => 4%nat) (fun _ => 44%nat)
                 dcap (fun b => b) (fun b => b) (fun m v => (m ++ v)%list) patched lbody chunk_body (list acc) (fun _ q => prog_of q)
                 init ops.
    Definition spec (ops : list (op (list acc))) : list (option (result value)) :=
      Caches.spec_run value file_bytes (fun _ => 8%nat) (fun _ => 32%nat) twod structured template (fun _ => 4%nat) (fun _ => 44%nat)
                 (fun b => b) (fun b => b) (fun m v => (m ++ v)%list) lbody chunk_body (list acc) (fun _ q => prog_of q) sinit ops.
    (* what the harness reads back: per consultation (level, hit), oldest first; level 9 separates the operations *)
    Definition trace (ops : list (op (list acc))) : list (nat * bool) := rev (log (fst (run ops))).
  End T.
End Toy.
