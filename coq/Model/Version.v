(* Model/Version.v -- glue between Gen/Version.v (generated from seismic_zfp/version.py) and Spec/Version.v *)
From Coq Require Import ZArith Bool List Lia String Ascii.
From SZ Require Import Lib.Py Gen.Version Spec.Version.
Import ListNotations.
Open Scope Z_scope.

Definition enc (v : ver) : Z := version_to_encoding (vmaj v) (vmin v) (vpat v) (vdev v).
Definition dec (n : Z) : ver :=
  {| vmaj := version_of_int_major n; vmin := version_of_int_minor n; vpat := version_of_int_patch n;
     vdev := version_of_int_dev n |}.

(* __gt__ / __eq__ compare encodings (checked syntactically by the translator) *)
Definition ver_gt_impl (a b : ver) : bool := enc a >? enc b.

(* ---------------- the string constructor (hand model of the pinned source text) ----------------
   version_numbers_tuple = tuple(part for part in arg.replace('rc', '.rc').split("."))
   major, minor, patch = int(parts[0]), int(parts[1]), int(parts[2]);  changes_exist = len(parts) > 3 *)
Open Scope string_scope.
Fixpoint replace_rc (s : string) : string :=
  match s with
  | String "r" (String "c" rest) => String "." (String "r" (String "c" (replace_rc rest)))
  | String c rest => String c (replace_rc rest)
  | EmptyString => EmptyString
  end.
Fixpoint split_dot_aux (s : string) (cur : string) : list string :=
  match s with
  | EmptyString => [cur]
  | String "." rest => cur :: split_dot_aux rest EmptyString
  | String c rest => split_dot_aux rest (String.append cur (String c EmptyString))
  end.
Definition split_dot (s : string) : list string := split_dot_aux s EmptyString.

Definition digit_of (c : ascii) : option Z :=
  let n := Z.of_nat (nat_of_ascii c) in
  if ((48 <=? n) && (n <=? 57))%Z then Some (n - 48)%Z else None.
Fixpoint py_int_aux (s : string) (acc : Z) : outcome Z :=
  match s with
  | EmptyString => Return acc
  | String c rest => match digit_of c with Some d => py_int_aux rest (acc * 10 + d)%Z | None => Raise ValueErr end
  end.
(* int(s) for the strings that occur here: a non-empty run of ASCII digits; everything else is ValueError.
   (Python's int() also accepts surrounding whitespace, a sign and underscores; none can occur in a version
   component produced by setuptools_scm, and those inputs are outside the statement.) *)
Definition py_int (s : string) : outcome Z :=
  match s with EmptyString => Raise ValueErr | _ => py_int_aux s 0%Z end.

Definition parse_version (s : string) : outcome ver :=
  match split_dot (replace_rc s) with
  | a :: b :: c :: rest =>
      bind (py_int a) (fun M => bind (py_int b) (fun m => bind (py_int c) (fun p =>
      Return {| vmaj := M; vmin := m; vpat := p; vdev := negb (Nat.eqb (List.length rest) 0) |})))
  | _ => Raise IndexErr
  end.
