(* Model/Cropper.v -- the cropper (seismic_zfp/cropping.py, class SgzCropper) as a function of the parsed source header.

   GENERATED (Gen/Cropping.v, tools/genx_cropping.py): every test, every arithmetic expression, every regenerated header
   field, the unit counts, the arguments of loader.read_chunk_range, the footer reshape / window / padding term.
   GENERATED (Gen/Reader.v): loader.read_chunk_range itself (ld_read_chunk_range: the list of range reads and where each
   is placed in the output buffer).
   HAND-WRITTEN here: the statement skeleton that strings these together (checked by the generator against the source:
   order of the checks, "the output file is opened after everything that can refuse", order of the writes), which stored
   array a header word stands for (HeaderwordInfo.get_header_dict, pinned), struct.pack's
   range checks, the length of the buffer allocated by read_chunk_range (pinned: loader SgzLoader3d.read_chunk_range), the
   meaning of a.reshape((R, C))[r0:r1, c0:c1].flatten(), utils.coord_to_index on an arithmetic axis (pinned), and how a
   reader parses the regenerated header (out_hdr / out_axes). *)
From Coq Require Import ZArith List Bool Lia.
Import ListNotations.
From SZ Require Import Lib.Py Gen.Utils Gen.Version Gen.Reader Gen.Cropping.
Open Scope Z_scope.

(* one patch of the copied header: (executed?, first byte, last byte + 1, packer, value) *)
Definition fieldw := (bool * Z * Z * packer * Z)%type.

(* struct.pack raises struct.error (OtherErr) outside these ranges *)
Definition pack_ok (f : fieldw) : bool :=
  match f with
  | (en, _, _, PkU32, v) => negb en || ((0 <=? v) && (v <? 4294967296))
  | (en, _, _, PkI32, v) => negb en || ((-2147483648 <=? v) && (v <? 2147483648))
  | (en, _, _, PkBE16, v) => negb en || ((0 <=? v) && (v <? 65536))
  end.

(* a slice assignment past the end of the bytearray would APPEND: the header keeps its length only if every executed
   patch lies inside the n_header_blocks * 4096 bytes that were copied *)
Definition field_inside (H : hdr) (f : fieldw) : bool :=
  match f with (en, lo, hi, _, _) => negb en || ((0 <=? lo) && (hi <=? 4096 * rd_n_header_blocks H)) end.

Record crop_out := {
  co_i0 : Z; co_i1 : Z; co_x0 : Z; co_x1 : Z; co_z0 : Z; co_z1 : Z;   (* the corrected ranges *)
  co_fields : list fieldw;      (* patches applied to a copy of the source header, program order *)
  co_reads : list rd;           (* the data section of the output: (source offset, length, position) per range read *)
  co_data_len : Z;              (* its length: bytearray(z_units * xl_units * il_units * unit_bytes) *)
  co_foot_shape : Z * Z;        (* every stored array is reshaped to this ... *)
  co_foot_win : Z * Z * Z * Z;  (* ... cropped to rows [r0,r1) x columns [c0,c1), flattened, written as int32 ... *)
  co_foot_pad : Z;              (* ... followed by this many zero bytes *)
  co_foot_reshape_ok : bool     (* no stored array, or numpy accepts the reshape (else ValueError AFTER the output was created) *)
}.

Definition resolve (d : Z * Z) (r : option (Z * Z)) : Z * Z := match r with Some p => p | None => d end.

(* check_and_correct_bounds: every test only clears valid_bounds (and prints); one raise at the end *)
Definition crop_check (H : hdr) (il xl zs : option (Z * Z)) : outcome ((Z * Z) * (Z * Z) * (Z * Z)) :=
  if crp_source_refused H then Raise crp_source_refused_exn else
  let ri := resolve (crp_default_il H) il in
  let rx := resolve (crp_default_xl H) xl in
  let rz := resolve (crp_default_zs H) zs in
  let valid := negb (crp_no_range il xl zs) && negb (crp_bad_il H (fst ri) (snd ri)) &&
               negb (crp_bad_xl H (fst rx) (snd rx)) && negb (crp_bad_zs H (fst rz) (snd rz)) in
  if valid then Return (crp_corrected_il H (fst ri) (snd ri), crp_corrected_xl H (fst rx) (snd rx),
                        crp_corrected_zs H (fst rz) (snd rz))
  else Raise crp_invalid_exn.

Definition win_len (w : Z * Z * Z * Z) : Z := match w with (r0, r1, c0, c1) => (r1 - r0) * (c1 - c0) end.

(* write_cropped_file_by_indexes up to and including the writes.  A Raise means: open(out_file, 'wb') was not reached
   (crp_open_after_checks), i.e. NO OUTPUT exists. *)
Definition crop_by_indexes (H : hdr) (A : axes) (il xl zs : option (Z * Z)) : outcome crop_out :=
  bind (crop_check H il xl zs) (fun b =>
  match b with
  | ((i0, i1), (x0, x1), (z0, z1)) =>
    if crp_layout_refused H i0 i1 x0 x1 z0 z1 then Raise crp_layout_refused_exn else
    let fields := crp_header_fields H A i0 i1 x0 x1 z0 z1 in
    if negb (forallb pack_ok fields) then Raise OtherErr else
    match crp_chunk_args H i0 i1 x0 x1 z0 z1 with
    | (a1, a2, a3, a4, a5, a6) =>
      bind (ld_read_chunk_range H a1 a2 a3 a4 a5 a6) (fun reads =>
      let w := crp_footer_window H i0 i1 x0 x1 z0 z1 in
      Return {| co_i0 := i0; co_i1 := i1; co_x0 := x0; co_x1 := x1; co_z0 := z0; co_z1 := z1;
                co_fields := fields; co_reads := reads;
                co_data_len := a6 * a5 * a4 * rd_unit_bytes H;
                co_foot_shape := crp_footer_reshape H; co_foot_win := w;
                co_foot_pad := crp_footer_pad H (crp_footer_itemsize * win_len w);
                co_foot_reshape_ok :=
                  (rd_n_header_arrays H <=? 0) ||
                  (rd_header_entry_length_bytes H =? 4 * (fst (crp_footer_reshape H) * snd (crp_footer_reshape H))) |})
    end
  end).

(* the skeleton the generator checked *)
Definition part_eqb (a b : crp_part) : bool :=
  match a, b with WrHeader, WrHeader | WrData, WrData | WrFooter, WrFooter => true | _, _ => false end.
Definition skeleton_ok : bool :=
  crp_open_after_checks &&
  match crp_write_order with [a; b; c] => part_eqb a WrHeader && part_eqb b WrData && part_eqb c WrFooter | _ => false end &&
  (crp_footer_itemsize =? 4) && crp_coords_include_stop.

(* ---------------- how a reader sees the regenerated header ---------------- *)
(* the value of the 4 bytes at lo after the patches (later patches win), dflt = the source's value *)
Fixpoint field_lookup (fs : list fieldw) (lo : Z) (dflt : Z) : Z :=
  match fs with
  | [] => dflt
  | (en, l, h, _, v) :: r => field_lookup r lo (if (l =? lo) && (h =? lo + 4) && en then v else dflt)
  end.

(* every patch below byte 76 (the parsed part) rewrites exactly one aligned 4-byte word with the packer the reader
   expects there: signed for the first sample time / line numbers / rate, unsigned elsewhere *)
Definition field_typed (f : fieldw) : bool :=
  match f with
  | (_, lo, hi, pk, _) =>
    (76 <=? lo) ||
    ((0 <=? lo) && (lo mod 4 =? 0) && (hi =? lo + 4) &&
     match pk with
     | PkU32 => negb ((lo =? 16) || (lo =? 20) || (lo =? 24) || (lo =? 40))
     | PkI32 => (lo =? 16) || (lo =? 20) || (lo =? 24) || (lo =? 40)
     | PkBE16 => false
     end)
  end.

Definition out_hdr (H : hdr) (fs : list fieldw) : hdr :=
  {| h_u32_0 := field_lookup fs 0 (h_u32_0 H); h_u32_4 := field_lookup fs 4 (h_u32_4 H);
     h_u32_8 := field_lookup fs 8 (h_u32_8 H); h_u32_12 := field_lookup fs 12 (h_u32_12 H);
     h_i32_40 := field_lookup fs 40 (h_i32_40 H); h_u32_44 := field_lookup fs 44 (h_u32_44 H);
     h_u32_48 := field_lookup fs 48 (h_u32_48 H); h_u32_52 := field_lookup fs 52 (h_u32_52 H);
     h_u32_56 := field_lookup fs 56 (h_u32_56 H); h_u32_60 := field_lookup fs 60 (h_u32_60 H);
     h_u32_64 := field_lookup fs 64 (h_u32_64 H); h_u32_68 := field_lookup fs 68 (h_u32_68 H);
     h_u32_72 := field_lookup fs 72 (h_u32_72 H) |}.

(* bytes 16-19 first sample (ms), 28-31 sample interval (us), 20-23 / 24-27 first crossline / inline number,
   32-35 / 36-39 crossline / inline increment *)
Definition out_axes (A : axes) (fs : list fieldw) : axes :=
  {| ax_z0_ms := field_lookup fs 16 (ax_z0_ms A); ax_dt_us := field_lookup fs 28 (ax_dt_us A);
     ax_xl0 := field_lookup fs 20 (ax_xl0 A); ax_xl_step := field_lookup fs 32 (ax_xl_step A);
     ax_il0 := field_lookup fs 24 (ax_il0 A); ax_il_step := field_lookup fs 36 (ax_il_step A) |}.

(* sample time of index k in microseconds *)
Definition z_us (A : axes) (k : Z) : Z := 1000 * ax_z0_ms A + k * ax_dt_us A.

(* ---------------- the footer ---------------- *)
(* a.reshape((R, C))[r0:r1, c0:c1].flatten()[j] is a[footer_src_index (R, C) (r0, r1, c0, c1) j]
   (basic slicing: bounds normalised as Python does) *)
Definition footer_src_index (shape : Z * Z) (w : Z * Z * Z * Z) (j : Z) : Z :=
  match shape, w with
  | (R, C), (r0, r1, c0, c1) =>
    let r0' := norm_bound r0 R in let c0' := norm_bound c0 C in let c1' := norm_bound c1 C in
    (r0' + j / (c1' - c0')) * C + (c0' + j mod (c1' - c0'))
  end.
Definition footer_count (shape : Z * Z) (w : Z * Z * Z * Z) : Z :=
  match shape, w with
  | (R, C), (r0, r1, c0, c1) =>
    Z.max 0 (norm_bound r1 R - norm_bound r0 R) * Z.max 0 (norm_bound c1 C - norm_bound c0 C)
  end.

(* ---------------- which stored arrays are written ---------------- *)
(* T = [(k, hw_info.table[k][1]) for k in stored_header_keys], in table order (= the order of the reader's template).
   HeaderwordInfo.get_header_dict (pinned) gives a NEW array slot, numbered in order of discovery, to a varying word that is
   not a duplicate of an already discovered one (an OWNER: ref = k), and the slot of that word to a duplicate.
   owner_rank T r acc = acc + number of owners before the entry of word r = the slot of word r's array. *)
Definition is_owner (e : Z * Z) : bool := snd e =? fst e.
Fixpoint owner_rank (T : list (Z * Z)) (r : Z) (acc : Z) : Z :=
  match T with
  | [] => acc
  | e :: t => if fst e =? r then acc else owner_rank t r (if is_owner e then acc + 1 else acc)
  end.
(* the loop over stored_header_keys: for every key that is not skipped, the array variant_headers[k], i.e. the source's
   stored array number owner_rank of its ref, is cropped and appended.  Result: source array numbers in write order. *)
Definition footer_arrays (T : list (Z * Z)) : list Z :=
  map (fun e => owner_rank T (snd e) 0) (filter (fun e => negb (crp_footer_skip (fst e) (snd e))) T).

(* ---------------- by coordinates ---------------- *)
(* utils.coord_to_index(coord, coords, include_stop) where coords[k] = start + k * step, 0 <= k < n:
   np.where(coords == coord)[0][0], else (include_stop) n when coord = coords[-1] + (coords[-1] - coords[-2]), else
   IndexError (also when coords[-2] does not exist) *)
Definition axis_find (start step n c : Z) : option Z :=
  if step =? 0 then (if (c =? start) && (0 <? n) then Some 0 else None)
  else let k := (c - start) / step in
       if ((c - start) mod step =? 0) && (0 <=? k) && (k <? n) then Some k else None.
Definition coord_to_index (start step n : Z) (include_stop : bool) (c : Z) : outcome Z :=
  match axis_find start step n c with
  | Some k => Return k
  | None => if include_stop && (2 <=? n) && (c =? start + n * step) then Return n else Raise IndexErr
  end.

Definition coord_range (start step n : Z) (r : option (Z * Z)) : outcome (option (Z * Z)) :=
  match r with
  | None => Return None
  | Some (a, b) =>
    bind (coord_to_index start step n crp_coords_include_stop a) (fun ia =>
    bind (coord_to_index start step n crp_coords_include_stop b) (fun ib => Return (Some (ia, ib))))
  end.

(* write_cropped_file_by_coords; the sample coordinates are given in microseconds *)
Definition crop_by_coords (H : hdr) (A : axes) (ilc xlc zc : option (Z * Z)) : outcome crop_out :=
  bind (coord_range (ax_il0 A) (ax_il_step A) (rd_n_ilines H) ilc) (fun il =>
  bind (coord_range (ax_xl0 A) (ax_xl_step A) (rd_n_xlines H) xlc) (fun xl =>
  bind (coord_range (1000 * ax_z0_ms A) (ax_dt_us A) (rd_n_samples H) zc) (fun zs =>
  crop_by_indexes H A il xl zs))).
