(* Model/Export.v -- C06: model of SgzConverter.convert_to_segy / write_segy / regenerate_trace_header
   (seismic_zfp/conversion.py).  The DATA of the model (spec fields, format-code offsets, operation order, index
   expressions, header overrides) are GENERATED into Gen/Export.v by tools/genx_export.py; this file is the
   hand-written INTERPRETER of those data plus the hand models of what is outside /repo:

   * segyio (outside /repo), as far as the exporter uses it:
       - segyio.create(path, spec) opens "w+" (an existing file is truncated), decides the number of traces it will
         accept (len(ilines)*len(xlines)*len(offsets) for a spec with ilines, xlines and offsets, spec.tracecount
         otherwise) and the trace length (len(spec.samples)), and writes SOME 3600 bytes (its default textual header
         and a binary header) at the start: `init_head`, an arbitrary function here
       - `f.trace = L` writes L[i] as the samples of trace i for i < min(len L, accepted); `f.header = HL` writes the
         dictionary HL[i] as trace header i (the exporter's dictionaries contain every field segyio knows, so the
         update is a replacement; the harness checks that); positions never written read back as zeros
       - the file is the 3600-byte header region followed by the traces, each 240 header bytes + 4*ns sample bytes
         (`layout`); the byte encodings of a header and of a trace (IBM or IEEE) are segyio's: `enc_hdr`, `enc_tr`,
         arbitrary functions of the right length
       - on re-opening, segyio locates trace 0 at 3600 + 3200 * (binary header field 3505, signed 16 bit, big endian)
   * the reader calls get_trace / gen_trace_header: parameters here, instantiated with the generated reader
     (Gen/Reader.v rd_get_trace) in Proofs/Export.v
   * numpy's `np.arange(n)[mask != 0][index]` (read.py get_trace, unstructured files): `mask_nth_model`.

   A trace header is a function from segyio field number to value; bytes are integers in [0, 256). *)
From Coq Require Import ZArith List Bool Lia.
From SZ Require Import Lib.Py Gen.Export.
Import ListNotations.
Open Scope Z_scope.

(* ------------------------------------------------------------------ Python slices on byte strings *)
(* b[lo:hi] for 0 <= lo <= hi (both clamped to len b, as Python does) *)
Definition py_slice {A} (lo hi : Z) (l : list A) : list A :=
  firstn (Z.to_nat (hi - lo)) (skipn (Z.to_nat lo) l).
(* bytearray slice assignment b[lo:hi] = data (the length changes when len data <> hi - lo) *)
Definition slice_assign {A} (lo hi : Z) (data l : list A) : list A :=
  firstn (Z.to_nat lo) l ++ data ++ skipn (Z.to_nat hi) l.
(* a file write of `data` at position pos into a region that already contains at least pos + len data bytes *)
Definition overwrite {A} (pos : Z) (data l : list A) : list A :=
  firstn (Z.to_nat pos) l ++ data ++ skipn (Z.to_nat pos + length data) l.

Fixpoint be_int (l : list Z) (acc : Z) : Z := match l with [] => acc | b :: r => be_int r (acc * 256 + b) end.
Fixpoint le_int (l : list Z) : Z := match l with [] => 0 | b :: r => b + 256 * le_int r end.

(* ------------------------------------------------------------------ the SEG-Y file header (specification side) *)
(* data sample format code: bytes 3225-3226 (1-based) of the file header, big-endian *)
Definition segy_format (head : list Z) : Z := nth 3224 head 0 * 256 + nth 3225 head 0.
(* number of extended textual headers: bytes 3505-3506 (1-based), big-endian, signed *)
Definition segy_ext_headers (head : list Z) : Z :=
  let u := nth 3504 head 0 * 256 + nth 3505 head 0 in if u <? 32768 then u else u - 65536.
(* where segyio looks for trace 0 when it opens a file with this header *)
Definition reopen_trace0 (head : list Z) : Z := 3600 + 3200 * segy_ext_headers head.

(* ------------------------------------------------------------------ format code choice (interprets Gen.Export) *)
Definition export_fmt_code (stored : list Z) : Z :=
  let bs := py_slice export_fmt_lo export_fmt_hi stored in
  if export_fmt_big_endian then be_int bs 0 else le_int bs.
Definition export_fmt_ok (stored : list Z) : bool := existsb (Z.eqb (export_fmt_code stored)) export_fmt_accepted.
Definition export_format (stored : list Z) : Z :=
  if export_fmt_ok stored then export_fmt_code stored else export_fmt_default.
(* self.headerbytes[DISK_BLOCK_BYTES:] after convert_to_segy's default branch *)
Definition export_stored (stored : list Z) : list Z :=
  if export_fmt_ok stored then stored
  else slice_assign export_fmt_patch_lo export_fmt_patch_hi export_fmt_patch_bytes stored.

(* ------------------------------------------------------------------ unstructured ordinal map (hand model) *)
(* positions of the populated cells of the inline-major grid, ascending: np.arange(n)[mask != 0] *)
Fixpoint positions_from (p : Z) (mask : list bool) : list Z :=
  match mask with
  | [] => []
  | b :: m => if b then p :: positions_from (p + 1) m else positions_from (p + 1) m
  end.
Definition present_positions (mask : list bool) : list Z := positions_from 0 mask.
(* int(np.arange(n)[mask != 0][index]): numpy accepts -len <= index < len *)
Definition mask_nth_model (mask : list bool) (index : Z) : outcome Z :=
  let ps := present_positions mask in
  let n := Z.of_nat (length ps) in
  let j := if index <? 0 then index + n else index in
  if (0 <=? j) && (j <? n) then Return (nth (Z.to_nat j) ps 0) else Raise IndexErr.

(* ------------------------------------------------------------------ headers *)
Definition thdr := Z -> Z.
Definition hdr_zero : thdr := fun _ => 0.
Definition hupd (h : thdr) (k v : Z) : thdr := fun k' => if k' =? k then v else h k'.

(* ------------------------------------------------------------------ list helpers for trace-indexed writes *)
Fixpoint upd_nth {A} (n : nat) (f : A -> A) (l : list A) : list A :=
  match l, n with
  | [], _ => []
  | x :: r, O => f x :: r
  | x :: r, S k => x :: upd_nth k f r
  end.
(* write record i of a file of records: positions between the old end and i become zero records *)
Definition put {A} (zero : A) (i : nat) (f : A -> A) (l : list A) : list A :=
  if (i <? length l)%nat then upd_nth i f l else l ++ repeat zero (i - length l) ++ [f zero].
Definition bulk_put {A X} (zero : A) (upd : X -> A -> A) (xs : list X) (l : list A) : list A :=
  fold_left (fun acc ix => put zero (fst ix) (upd (snd ix)) acc) (combine (seq 0 (length xs)) xs) l.

Section Export.
Variable AX : Type.                 (* a value of the sample axis (numpy float64) *)
Variable T : Type.                 (* a decoded trace (numpy float32 array) *)
Variable tzero : T.                (* what never-written sample bytes read back as *)

(* ---------------- what the exporter sees of the reader it derives from ---------------- *)
Record reader := {
  r_is_3d : bool;
  r_structured : bool;
  r_zslices : list AX;
  r_ilines : list Z;
  r_xlines : list Z;
  r_tracecount : Z;
  r_first_sample : Z;              (* int(self.zslices[0]) *)
  r_stored : list Z                (* self.headerbytes[DISK_BLOCK_BYTES:] : the stored SEG-Y file header and the rest of the block *)
}.
Variable get_trace : Z -> bool -> outcome T.        (* self.get_trace(index, override_unstructured_mapping=flag) *)
Variable gen_trace_header : Z -> outcome thdr.      (* self.gen_trace_header(index) *)

(* ---------------- the segyio.spec ---------------- *)
Record spec := {
  sp_samples : option (list AX);
  sp_offsets : option (list Z);
  sp_xlines : option (list Z);
  sp_ilines : option (list Z);
  sp_sorting : option Z;
  sp_tracecount : option Z;
  sp_format : Z
}.
(* segyio.spec(): everything None except offsets = [1] *)
Definition spec_empty : spec :=
  {| sp_samples := None; sp_offsets := Some [1]; sp_xlines := None; sp_ilines := None; sp_sorting := None;
     sp_tracecount := None; sp_format := 0 |}.

Inductive sval := VSamples (l : list AX) | VList (l : list Z) | VInt (z : Z).
Definition eval_src (r : reader) (s : spec_src) : sval :=
  match s with
  | FromZslices => VSamples (r_zslices r)
  | FromXlines => VList (r_xlines r)
  | FromIlines => VList (r_ilines r)
  | FromTracecount => VInt (r_tracecount r)
  | ConstList l => VList l
  | ConstInt z => VInt z
  end.
(* an assignment of the wrong kind of value (say spec.samples = self.ilines) is outside the model: TypeErr *)
Definition set_field (sp : spec) (f : spec_field) (v : sval) : outcome spec :=
  match f, v with
  | SfSamples, VSamples l => Return {| sp_samples := Some l; sp_offsets := sp_offsets sp; sp_xlines := sp_xlines sp;
        sp_ilines := sp_ilines sp; sp_sorting := sp_sorting sp; sp_tracecount := sp_tracecount sp; sp_format := sp_format sp |}
  | SfOffsets, VList l => Return {| sp_samples := sp_samples sp; sp_offsets := Some l; sp_xlines := sp_xlines sp;
        sp_ilines := sp_ilines sp; sp_sorting := sp_sorting sp; sp_tracecount := sp_tracecount sp; sp_format := sp_format sp |}
  | SfXlines, VList l => Return {| sp_samples := sp_samples sp; sp_offsets := sp_offsets sp; sp_xlines := Some l;
        sp_ilines := sp_ilines sp; sp_sorting := sp_sorting sp; sp_tracecount := sp_tracecount sp; sp_format := sp_format sp |}
  | SfIlines, VList l => Return {| sp_samples := sp_samples sp; sp_offsets := sp_offsets sp; sp_xlines := sp_xlines sp;
        sp_ilines := Some l; sp_sorting := sp_sorting sp; sp_tracecount := sp_tracecount sp; sp_format := sp_format sp |}
  | SfSorting, VInt z => Return {| sp_samples := sp_samples sp; sp_offsets := sp_offsets sp; sp_xlines := sp_xlines sp;
        sp_ilines := sp_ilines sp; sp_sorting := Some z; sp_tracecount := sp_tracecount sp; sp_format := sp_format sp |}
  | SfTracecount, VInt z => Return {| sp_samples := sp_samples sp; sp_offsets := sp_offsets sp; sp_xlines := sp_xlines sp;
        sp_ilines := sp_ilines sp; sp_sorting := sp_sorting sp; sp_tracecount := Some z; sp_format := sp_format sp |}
  | _, _ => Raise TypeErr
  end.
Fixpoint set_fields (r : reader) (sp : spec) (fs : list (spec_field * spec_src)) : outcome spec :=
  match fs with
  | [] => Return sp
  | (f, s) :: rest => bind (set_field sp f (eval_src r s)) (fun sp' => set_fields r sp' rest)
  end.
Definition flag_value (r : reader) (f : reader_flag) : bool :=
  match f with Flag_is_3d => r_is_3d r | Flag_is_2d => negb (r_is_3d r) | Flag_structured => r_structured r end.
Definition with_format (sp : spec) (fmt : Z) : spec :=
  {| sp_samples := sp_samples sp; sp_offsets := sp_offsets sp; sp_xlines := sp_xlines sp; sp_ilines := sp_ilines sp;
     sp_sorting := sp_sorting sp; sp_tracecount := sp_tracecount sp; sp_format := fmt |}.
Definition build_spec (r : reader) : outcome spec :=
  bind (set_fields r spec_empty (if flag_value r export_branch_flag then export_spec_then else export_spec_else))
       (fun sp => Return (with_format sp (export_format (r_stored r)))).

(* segyio's reading of a spec *)
Definition zlen {A} (l : list A) : Z := Z.of_nat (length l).
(* number of traces segyio.create sizes its trace accessors for; a spec that is neither structured nor has a
   tracecount makes segyio.create fail (AttributeError) *)
Definition nonempty {A} (l : list A) : bool := match l with [] => false | _ => true end.
(* segyio.create.structured(spec): ilines, xlines and offsets present and non-empty *)
Definition spec_structured (sp : spec) : bool :=
  match sp_ilines sp, sp_xlines sp, sp_offsets sp with
  | Some il, Some xl, Some off => nonempty il && nonempty xl && nonempty off
  | _, _, _ => false
  end.
Definition spec_capacity (sp : spec) : outcome Z :=
  if spec_structured sp then
    match sp_ilines sp, sp_xlines sp, sp_offsets sp with
    | Some il, Some xl, Some off => Return (zlen il * zlen xl * zlen off)
    | _, _, _ => Raise OtherErr
    end
  else match sp_tracecount sp with Some n => Return n | None => Raise OtherErr end.
Definition spec_ns (sp : spec) : outcome Z :=
  match sp_samples sp with Some l => Return (zlen l) | None => Raise OtherErr end.

(* ---------------- the file under construction ---------------- *)
Record sfile := {
  f_open : bool;                   (* segyio's handle still open *)
  f_cap : Z;                       (* traces segyio accepts *)
  f_head : list Z;                 (* the header region *)
  f_traces : list (thdr * T)       (* trace header, trace samples *)
}.
Variable init_head : spec -> list Z.    (* whatever segyio.create writes at the start of the file *)

Definition tr_zero : thdr * T := (hdr_zero, tzero).
Definition upd_samples (t : T) (p : thdr * T) : thdr * T := (fst p, t).
Definition upd_header (h : thdr) (p : thdr * T) : thdr * T := (h, snd p).

Definition eval_hsrc (r : reader) (s : hdr_src) : Z := match s with FirstSampleTrunc => r_first_sample r end.
Definition apply_overrides (r : reader) (h : thdr) : thdr :=
  fold_left (fun acc ks => hupd acc (fst ks) (eval_hsrc r (snd ks))) export_header_overrides h.
(* self.regenerate_trace_header(i) *)
Definition regenerate_trace_header (r : reader) (i : Z) : outcome thdr :=
  bind (gen_trace_header (export_regen_index (r_tracecount r) i)) (fun h => Return (apply_overrides r h)).

(* the two list comprehensions of write_segy *)
Definition export_trace_list (r : reader) : outcome (list T) :=
  mapM (fun i => get_trace (export_trace_index (r_tracecount r) i) export_trace_override) (zrange 0 (r_tracecount r)).
Definition export_header_list (r : reader) : outcome (list thdr) :=
  mapM (fun i => regenerate_trace_header r (export_header_index (r_tracecount r) i)) (zrange 0 (r_tracecount r)).

Definition run_op (r : reader) (sp : spec) (op : export_op) (s : option sfile) : outcome (option sfile) :=
  match op with
  | OpCreate =>
      bind (spec_capacity sp) (fun cap => bind (spec_ns sp) (fun _ =>
      Return (Some {| f_open := true; f_cap := cap; f_head := init_head sp; f_traces := [] |})))
  | OpReadVariantHeaders => Return s          (* fills the reader's header cache; no effect on the file *)
  | OpWriteTraces =>
      match s with
      | Some f => if f_open f then
          bind (export_trace_list r) (fun L =>
          Return (Some {| f_open := true; f_cap := f_cap f; f_head := f_head f;
                          f_traces := bulk_put tr_zero upd_samples (firstn (Z.to_nat (f_cap f)) L) (f_traces f) |}))
          else Raise IOErr
      | None => Raise IOErr
      end
  | OpWriteHeaders =>
      match s with
      | Some f => if f_open f then
          bind (export_header_list r) (fun HL =>
          Return (Some {| f_open := true; f_cap := f_cap f; f_head := f_head f;
                          f_traces := bulk_put tr_zero upd_header (firstn (Z.to_nat (f_cap f)) HL) (f_traces f) |}))
          else Raise IOErr
      | None => Raise IOErr
      end
  | OpClose =>
      match s with
      | Some f => Return (Some {| f_open := false; f_cap := f_cap f; f_head := f_head f; f_traces := f_traces f |})
      | None => Raise IOErr
      end
  | OpOverwrite pos lo hi =>
      (* open(out_file, "r+b"): the file must exist; the model covers writes that stay inside the header region and
         happen after segyio has closed the file (anything else is outside the model: OtherErr) *)
      match s with
      | Some f =>
          let data := py_slice lo hi (export_stored (r_stored r)) in
          if negb (f_open f) && (0 <=? pos) && (pos + zlen data <=? zlen (f_head f)) then
            Return (Some {| f_open := false; f_cap := f_cap f; f_head := overwrite pos data (f_head f);
                            f_traces := f_traces f |})
          else Raise OtherErr
      | None => Raise IOErr
      end
  end.
Fixpoint run_ops (r : reader) (sp : spec) (ops : list export_op) (s : option sfile) : outcome (option sfile) :=
  match ops with
  | [] => Return s
  | op :: rest => bind (run_op r sp op s) (run_ops r sp rest)
  end.

(* SgzConverter.convert_to_segy: the file left on disk *)
Definition export (r : reader) : outcome (spec * sfile) :=
  bind (build_spec r) (fun sp =>
  bind (run_ops r sp export_ops None) (fun s =>
  match s with Some f => Return (sp, f) | None => Raise IOErr end)).

(* well-formedness of the reader state (boolean): the invariants of a parsed SGZ file that the theorems need *)
Definition reader_ok (r : reader) : bool :=
  (0 <=? r_tracecount r) &&
  (if r_is_3d r then (r_tracecount r <=? zlen (r_ilines r) * zlen (r_xlines r)) && nonempty (r_ilines r) && nonempty (r_xlines r)
   else true) &&
  (3600 <=? zlen (r_stored r)).

(* ---------------- bytes of the file ---------------- *)
Variable tlen : T -> nat.                         (* number of samples of a trace *)
Variable enc_hdr : thdr -> list Z.                (* segyio: 240 header bytes *)
Variable enc_tr : Z -> T -> list Z.               (* segyio: 4 bytes per sample, IBM (1) or IEEE (5) *)
Definition enc_trace (fmt : Z) (p : thdr * T) : list Z := enc_hdr (fst p) ++ enc_tr fmt (snd p).
Definition layout (fmt : Z) (f : sfile) : list Z := f_head f ++ flat_map (enc_trace fmt) (f_traces f).
Definition trace_offset (ns i : Z) : Z := SEGY_FILE_HEADER_BYTES + i * (SEGY_TRACE_HEADER_BYTES + 4 * ns).

End Export.

Arguments r_is_3d {AX}. Arguments r_structured {AX}. Arguments r_zslices {AX}. Arguments r_ilines {AX}.
Arguments r_xlines {AX}. Arguments r_tracecount {AX}. Arguments r_first_sample {AX}. Arguments r_stored {AX}.
Arguments sp_samples {AX}. Arguments sp_offsets {AX}. Arguments sp_xlines {AX}. Arguments sp_ilines {AX}.
Arguments sp_sorting {AX}. Arguments sp_tracecount {AX}. Arguments sp_format {AX}.
Arguments f_open {T}. Arguments f_cap {T}. Arguments f_head {T}. Arguments f_traces {T}.

(* ------------------------------------------------------------------ closed instances evaluated by the harness
   (tools/checks/export.py through tools/coqeval.py): sample axis values and traces are integers standing for
   "sample value k" / "grid cell p"; get_trace returns the grid cell the reader would decode for the index. *)
(* trace_cell: hand model of the index logic of read.py SgzReader.get_trace (pinned): which position of the 2D line /
   which cell of the inline-major grid is decoded for a trace index *)
Definition trace_cell (is_3d structured : bool) (mask : list bool) (ncells tracecount : Z) (index : Z) (override : bool)
  : outcome Z :=
  if negb is_3d then
    if (0 <=? index) && (index <? tracecount) then Return index else Raise IndexErr
  else
    bind (if negb structured && negb override then mask_nth_model mask index else Return index) (fun p =>
    if (0 <=? p) && (p <? ncells) then Return p else Raise IndexErr).
Definition demo_reader (is_3d structured : bool) (ns : Z) (il xl : list Z) (tc first : Z) (stored : list Z) : reader Z :=
  {| r_is_3d := is_3d; r_structured := structured; r_zslices := zrange 0 ns; r_ilines := il; r_xlines := xl;
     r_tracecount := tc; r_first_sample := first; r_stored := stored |}.
(* the plan of an export: per exported trace, (byte offset of its header, byte offset of its samples, grid cell);
   plus segyio's capacity, the format, the number of samples per trace, the kind of spec *)
(* a stored 4096-byte block that is zero except for the six bytes the exporter and segyio look at *)
Definition demo_stored (b3224 b3225 b3226 b3227 e3504 e3505 : Z) : list Z :=
  repeat 0 3224 ++ [b3224; b3225; b3226; b3227] ++ repeat 0 276 ++ [e3504; e3505] ++ repeat 0 590.
Definition demo_plan (is_3d structured : bool) (mask : list bool) (ns : Z) (il xl : list Z) (tc : Z) (stored : list Z)
  : outcome (Z * Z * Z * bool * (Z * list (Z * Z) * Z) * list (Z * Z * Z)) :=
  let r := demo_reader is_3d structured ns il xl tc 0 stored in
  bind (export Z Z (-1) (trace_cell is_3d structured mask (zlen il * zlen xl) tc) (fun _ => Return hdr_zero)
               (fun _ => repeat 0 3600) r) (fun spf =>
  let sp := fst spf in let f := snd spf in
  Return (f_cap f, sp_format sp, zlen (f_traces f),
          spec_structured Z sp,
          (* positions of the header region that differ from the stored header, with the exported byte; and where
             segyio will look for trace 0 when it re-opens the file *)
          (zlen (f_head f), filter (fun pv => negb (snd pv =? nth (Z.to_nat (fst pv)) stored 0)) (combine (zrange 0 (zlen (f_head f))) (f_head f)),
           reopen_trace0 (f_head f)),
          map (fun ic => (trace_offset ns (fst ic), trace_offset ns (fst ic) + SEGY_TRACE_HEADER_BYTES, snd (snd ic)))
              (combine (zrange 0 (zlen (f_traces f))) (f_traces f)))).
