(* Model/Window.v -- hand-written glue for C11 (conversion with an inline/crossline window).

   The arithmetic (window acceptance, Geometry3d ranges, start_trace, line selection, crossline slice, t_store, header
   array length, axis-origin subscripts, plane-set loop bounds, reduced-I/O fallback) is GENERATED: Gen/Window.v.
   Hand-written here, mirroring the (patched, D5 D6a-d) sources statement by statement:
     conversion.SeismicFileConverter.__init__ / detect_geometry / get_blank_header_info / run / write_headers
     conversion_utils.make_header (structured 3D path), seismic_file_producer, io_thread_func,
     MinimalInlineReader.read_line / self_test, headers.HeaderwordInfo.__init__ (the three construction modes)
   together with the Python / numpy / segyio semantics they rely on (range, negative subscripts, slice clipping, shape
   check of a slice assignment, segyio header slices, enumerate).

   A SEG-Y source is abstract: regular axes (first line number and increment per axis), a trace for every (inline
   ordinal, crossline ordinal) and a header value for every (flat trace index, field code).  The type of traces is a
   Section variable: nothing is assumed about samples.  The converter model returns the CONTAINER MODEL: the header
   fields the window influences, the header-word table, every plane-set buffer before compression (trace by trace:
   the sample padding of a trace is a function of that trace alone, io_thread_func's last statement, checked
   textually by the generator), the rows fed to the hash, and every stored header array entry by entry. *)
From Coq Require Import ZArith List Bool Lia.
Import ListNotations.
From SZ Require Import Lib.Py Gen.Utils Gen.Window.
Open Scope Z_scope.

(* ---------------- Python range(start, stop, step), step > 0 ---------------- *)
Definition rstep (r : Z * Z * Z) : Z := snd r.
Definition rlen (r : Z * Z * Z) : Z := let '(a, b, s) := r in Z.max 0 ((b - a + s - 1) / s).
Definition rfirst (r : Z * Z * Z) : Z := let '(a, _, _) := r in a.
Definition rlast (r : Z * Z * Z) : Z := let '(a, _, s) := r in a + (rlen r - 1) * s.

(* what the converter uses of a Geometry3d: ilines[0], len(ilines), xlines[0], xlines[-1], len(xlines) *)
Record geo := { gi0 : Z; gni : Z; gx0 : Z; gxl : Z; gnx : Z }.

(* Geometry3d(a).  An empty crossline range makes run()'s inline_set_bytes zero and check_memory divides by it;
   otherwise subscripting an empty range raises IndexError (first reached in make_header) *)
Definition mk_geo (a : Z * Z * Z * Z) : outcome geo :=
  let '(mi, Mi, mx, Mx) := a in
  let ri := w_geom_ilines mi Mi mx Mx in
  let rx := w_geom_xlines mi Mi mx Mx in
  if (rstep ri <=? 0) || (rstep rx <=? 0) then Raise OtherErr
  else if rlen rx =? 0 then Raise ZeroDivErr
  else if rlen ri =? 0 then Raise IndexErr
  else Return {| gi0 := rfirst ri; gni := rlen ri; gx0 := rfirst rx; gxl := rlast rx; gnx := rlen rx |}.

(* a[k] for a sequence of length n: negative subscripts count from the end *)
Definition py_idx (n k : Z) : outcome Z :=
  if (0 <=? k) && (k <? n) then Return k
  else if (- n <=? k) && (k <? 0) then Return (k + n) else Raise IndexErr.
Definition py_norm (n k : Z) : Z := if k <? 0 then k + n else k.

(* indices selected by a[lo:hi] on a sequence of length n *)
Definition slice_idx (lo hi n : Z) : list Z := zrange (norm_bound lo n) (norm_bound hi n).

(* target[0:n] = row : shapes must agree, a single row is broadcast, otherwise ValueError *)
Definition assign_row {A} (n : Z) (row : list A) : outcome (list A) :=
  if Z.of_nat (length row) =? n then Return row
  else match row with [a] => Return (repeat a (Z.to_nat n)) | _ => Raise ValueErr end.

Fixpoint set_at {A} (k : nat) (v : A) (l : list A) : list A :=
  match l, k with
  | [], _ => []
  | _ :: r, O => v :: r
  | a :: r, S k' => a :: set_at k' v r
  end.

(* ---------------- header-word table (headers.HeaderwordInfo) ---------------- *)
Inductive mode := Heuristic | Thorough | Exhaustive | Strip.
Definition mode_source (m : mode) : w_field_source :=
  match m with Heuristic => w_mode_heuristic | Thorough => w_mode_thorough | Exhaustive => w_mode_exhaustive
             | Strip => w_mode_strip end.

(* a table row: (field code, constant value, code of the stored array that holds the values or 0) *)
Definition row := (Z * Z * Z)%type.
Definition row_code (r : row) : Z := fst (fst r).
Definition row_const (r : row) : Z := snd (fst r).
Definition row_ref (r : row) : Z := snd r.

(* seismicfile mode: a field whose values in the first and last trace agree is invariant (its value: the first
   trace's); a variant field whose two values equal those of an earlier variant field is a duplicate of the first such *)
Fixpoint table_corners (first last : Z -> Z) (seen : list Z) (codes : list Z) : list row :=
  match codes with
  | [] => []
  | f :: r =>
      if first f =? last f then (f, first f, 0) :: table_corners first last seen r
      else match find (fun g => (first g =? first f) && (last g =? last f)) seen with
           | Some g => (f, 0, g) :: table_corners first last (seen ++ [f]) r
           | None => (f, 0, f) :: table_corners first last (seen ++ [f]) r
           end
  end.

Definition table0 (codes : list Z) (m : mode) (first last : Z -> Z) : list row :=
  match mode_source m with
  | WFromCorners => table_corners first last [] codes
  | WAllFields => map (fun f => (f, 0, f)) codes
  | WNoFields => map (fun f => (f, 0, 0)) codes
  end.

Definition stored_fields (t : list row) : list Z :=
  map row_code (filter (fun r => negb (row_ref r =? 0) && (row_ref r =? row_code r)) t).

Definition row_eqb (a b : row) : bool :=
  (row_code a =? row_code b) && (row_const a =? row_const b) && (row_ref a =? row_ref b).
Fixpoint table_eqb (a b : list row) : bool :=
  match a, b with
  | [], [] => true
  | x :: a', y :: b' => row_eqb x y && table_eqb a' b'
  | _, _ => false
  end.

(* write_headers, 'thorough': a stored array all of whose entries equal its first entry becomes a constant *)
Definition all_same (l : list Z) : bool := match l with [] => true | a :: r => forallb (fun v => v =? a) r end.
Definition prune_table (t : list row) (arrays : list (Z * list Z)) : list row :=
  map (fun r => match find (fun fa => fst fa =? row_code r) arrays with
                | Some (_, arr) => if all_same arr then (row_code r, hd 0 arr, 0) else r
                | None => r
                end) t.
Definition prune_arrays (arrays : list (Z * list Z)) : list (Z * list Z) :=
  filter (fun fa => negb (all_same (snd fa))) arrays.

Section WithTrace.
Variable trace : Type.
Variable zero_trace : trace.          (* a row of np.zeros *)

(* ---------------- the SEG-Y source as segyio presents it (regular, structured) ---------------- *)
Record source := {
  s_nil : Z; s_nxl : Z; s_ns : Z;
  s_il0 : Z; s_dil : Z; s_xl0 : Z; s_dxl : Z;      (* ilines[k] = s_il0 + k * s_dil *)
  s_trace : Z -> Z -> trace;                       (* by inline ordinal, crossline ordinal *)
  s_hdr : Z -> Z -> Z }.                           (* header[t][field] by flat trace index *)

Definition s_ilines (S : source) (k : Z) : Z := s_il0 S + py_norm (s_nil S) k * s_dil S.
Definition s_xlines (S : source) (k : Z) : Z := s_xl0 S + py_norm (s_nxl S) k * s_dxl S.
Definition s_tracecount (S : source) : Z := s_nil S * s_nxl S.

(* the SEG-Y file that contains only the traces of the window [a,b) x [c,d) (ordinals), as segyio presents it *)
Definition restrict (S : source) (a b c d : Z) : source :=
  {| s_nil := b - a; s_nxl := d - c; s_ns := s_ns S;
     s_il0 := s_il0 S + a * s_dil S; s_dil := s_dil S; s_xl0 := s_xl0 S + c * s_dxl S; s_dxl := s_dxl S;
     s_trace := fun i x => s_trace S (i + a) (x + c);
     s_hdr := fun t f => s_hdr S ((t / (d - c) + a) * s_nxl S + (t mod (d - c) + c)) f |}.

Record container := {
  c_n_il : Z; c_n_xl : Z; c_origin_il : Z; c_origin_xl : Z; c_inc_il : Z; c_inc_xl : Z;
  c_hel : Z; c_tracecount : Z; c_nha : Z; c_table : list row;
  c_sets : list (list (list trace));        (* plane set -> buffer row -> padded crossline *)
  c_hashed : list (list trace);             (* the rows given to hash_object.update, in order *)
  c_alloc : Z;                              (* length of every header array *)
  c_arrays : list (Z * list Z) }.           (* stored field code -> its array *)

Section Run.
Variables (S : source) (g : geo) (bs0 bs1 : Z) (use_min store : bool) (alloc : Z).

Definition sN := s_nxl S.

(* ---- io_thread_func, one buffer row ---- *)
Section Row.
Variables (p ptr i : Z).
Notation "'io' f" := (f (gi0 g) (gx0 g) (gxl g) (gni g) (gnx g) sN bs0 p ptr i) (at level 10, f at level 0).

(* seismicfile.iline[seismicfile.ilines[k]] [lo:hi, :]  assigned to  seismic_buffer[i, 0:len(geom.xlines), :] *)
Definition row_seg : outcome (list trace) :=
  let k := if i <? ptr then io w_seg_line else io w_pad_seg_line in
  let lo := if i <? ptr then io w_seg_xl_lo else io w_pad_xl_lo in
  let hi := if i <? ptr then io w_seg_xl_hi else io w_pad_xl_hi in
  bind (py_idx (s_nil S) k) (fun kk => assign_row (gnx g) (map (s_trace S kk) (slice_idx lo hi sN))).

(* minimal_il_reader.read_line(k): the sN traces of source line k (a read past the end of the file gives a short
   buffer and reshape raises ValueError) *)
Definition row_min : outcome (list trace) :=
  let k := if i <? ptr then io w_min_line else io w_pad_min_line in
  if (0 <=? k) && (k <? s_nil S) then assign_row (gnx g) (map (s_trace S k) (zrange 0 sN)) else Raise ValueErr.

(* the flat source indices of `headers`, in order *)
Definition hdr_idx_seg : list Z :=
  let st := io w_start_trace in slice_idx (io w_hdr_lo st) (io w_hdr_hi st) (s_tracecount S).
Definition hdr_idx_min : list Z :=
  let k := io w_min_line in map (fun h => k * sN + h) (zrange 0 (w_min_nheaders sN (s_ns S) k)).

(* for t, header in enumerate(headers, start_trace): array[t_store] = header[tracefield] *)
Definition t_store_of (t : Z) : Z := io w_t_store (io w_t_xl t) (io w_t_il t).
Definition hdr_events : list (Z * Z) :=
  if (i <? ptr) && store then
    let idxs := if use_min then hdr_idx_min else hdr_idx_seg in
    map (fun ji => (t_store_of (io w_start_trace + fst ji), snd ji))
        (combine (zrange 0 (Z.of_nat (length idxs))) idxs)
  else [].

Definition ev_ok (e : Z * Z) : bool := (- alloc <=? fst e) && (fst e <? alloc).

(* the edge replication along the crossline axis: buffer[i, from:, :] = buffer[i, src, :] *)
Definition xpad_row (r : list trace) : list trace :=
  let padded1 := w_padded1 (gnx g) bs1 in
  let r0 := r ++ repeat zero_trace (Z.to_nat (padded1 - Z.of_nat (length r))) in
  map (fun x => if io w_xpad_from <=? x then nth (Z.to_nat (py_norm padded1 (io w_xpad_src))) r0 zero_trace
                else nth (Z.to_nat x) r0 zero_trace) (zrange 0 padded1).

Definition do_row (has_fields : bool) : outcome (list trace * list (Z * Z)) :=
  bind (if use_min then row_min else row_seg) (fun r =>
  if has_fields && negb (forallb ev_ok hdr_events) then Raise IndexErr
  else Return (xpad_row r, hdr_events)).
End Row.

(* ---- seismic_file_producer: one plane set ---- *)
Definition do_set (has_fields : bool) (p : Z) : outcome (list (list trace) * list (list trace) * list (Z * Z)) :=
  let ptr := w_planes_to_read (gni g) bs0 p in
  bind (mapM (fun i => do_row p ptr i has_fields) (zrange 0 bs0)) (fun rows =>
  let buf := map fst rows in
  Return (buf,
          map (firstn (Z.to_nat (w_hash_x_hi (gni g) (gnx g)))) (firstn (Z.to_nat (w_hash_rows (gni g) bs0 p ptr)) buf),
          flat_map snd rows)).

Definition do_sets (has_fields : bool) : outcome (list (list (list trace) * list (list trace) * list (Z * Z))) :=
  mapM (do_set has_fields) (zrange 0 (w_n_plane_sets (gni g) bs0)).
End Run.

(* slot k of every header array holds the header of source trace t (Some t), or was never written (None: np.zeros) *)
Definition apply_events (alloc : Z) (evs : list (Z * Z)) : list (option Z) :=
  fold_left (fun arr e => set_at (Z.to_nat (py_norm alloc (fst e))) (Some (snd e)) arr) evs (repeat None (Z.to_nat alloc)).
Definition array_of (S : source) (slots : list (option Z)) (f : Z) : list Z :=
  map (fun s => match s with Some t => s_hdr S t f | None => 0 end) slots.

(* ---- SeismicFileConverter.run for a structured 3D source with geometry g ---- *)
Definition convert3d (codes : list Z) (m : mode) (reduce_iops selftest : bool) (bs0 bs1 : Z) (S : source) (g : geo)
  : outcome container :=
  let tc := s_tracecount S in
  (* get_blank_header_info *)
  let alloc := w_header_alloc true false tc (s_hdr S 0 189) (gni g) (gnx g) in
  let tbl := table0 codes m (s_hdr S 0) (s_hdr S (tc - 1)) in
  let fields := stored_fields tbl in
  let store := match m with Strip => false | _ => true end in
  (* make_header: xlines[geom.xlines[0]], xlines[1] - xlines[0] ... on the axes of the SOURCE *)
  let hd := fun (f : (Z -> Z) -> (Z -> Z) -> Z -> Z -> Z -> Z -> Z -> Z) =>
              f (s_xlines S) (s_ilines S) (gi0 g) (gx0 g) (gni g) (gnx g) tc in
  let ix := fun (f : (Z -> Z) -> (Z -> Z) -> Z -> Z -> Z -> Z -> Z -> Z) =>
              f (fun k => k) (fun k => k) (gi0 g) (gx0 g) (gni g) (gnx g) tc in
  bind (py_idx (s_nxl S) (ix w_hdr_origin_xl)) (fun _ =>
  bind (py_idx (s_nil S) (ix w_hdr_origin_il)) (fun _ =>
  if negb ((2 <=? s_nxl S) && (2 <=? s_nil S)) then Raise IndexErr else
  (* seismic_file_producer *)
  let use_min := w_use_minimal reduce_iops selftest (s_nil S) (s_nxl S) (gni g) (gnx g) in
  bind (do_sets S g bs0 bs1 use_min store alloc (negb (Nat.eqb (length fields) 0))) (fun sets =>
  let slots := apply_events alloc (flat_map (fun s => snd s) sets) in
  let arrays := if store then map (fun f => (f, array_of S slots f)) fields else [] in
  (* write_headers *)
  let tbl' := match m with Thorough => prune_table tbl arrays | _ => tbl end in
  let arrays' := match m with Thorough => prune_arrays arrays | _ => arrays end in
  Return {| c_n_il := hd w_hdr_n_il; c_n_xl := hd w_hdr_n_xl;
            c_origin_il := hd w_hdr_origin_il; c_origin_xl := hd w_hdr_origin_xl;
            c_inc_il := hd w_hdr_inc_il; c_inc_xl := hd w_hdr_inc_xl;
            c_hel := hd w_hdr_hel; c_tracecount := hd w_hdr_tracecount;
            c_nha := Z.of_nat (length (stored_fields tbl')); c_table := tbl';
            c_sets := map (fun s => fst (fst s)) sets;
            c_hashed := flat_map (fun s => snd (fst s)) sets;
            c_alloc := alloc;
            c_arrays := arrays' |}))).

(* ---- SeismicFileConverter.__init__ + run.  None: the file is detected as a 2D line (C09's route) ---- *)
Definition window := (option Z * option Z * option Z * option Z)%type.
Definition no_window : window := (None, None, None, None).
Definition win (a b c d : Z) : window := (Some a, Some b, Some c, Some d).

Definition convert (codes : list Z) (m : mode) (w : window) (reduce_iops selftest : bool) (bs0 bs1 : Z) (S : source)
  : option (outcome container) :=
  let '(a, b, c, d) := w in
  if w_window_accepted a b c d then
    match a, b, c, d with
    | Some a', Some b', Some c', Some d' =>
        Some (bind (mk_geo (w_window_geom a' b' c' d')) (convert3d codes m reduce_iops selftest bs0 bs1 S))
    | _, _, _, _ => Some (Raise TypeErr)         (* range(None, ...) *)
    end
  else if w_detect_2d (s_nil S) (s_nxl S) then None
  else Some (bind (mk_geo (w_detect_geom (s_nil S) (s_nxl S))) (convert3d codes m reduce_iops selftest bs0 bs1 S)).

(* the guard of the known finding D6-heuristic-corners: in heuristic mode HeaderwordInfo looks at the first and last
   trace of the SOURCE; the sub-cube's own first and last trace may classify a field differently *)
Definition tables_agree (codes : list Z) (m : mode) (S : source) (a b c d : Z) : bool :=
  let R := restrict S a b c d in
  table_eqb (table0 codes m (s_hdr S 0) (s_hdr S (s_tracecount S - 1)))
            (table0 codes m (s_hdr R 0) (s_hdr R (s_tracecount R - 1))).

(* a window 0 <= a < b <= n_il, 0 <= c < d <= n_xl of a source with at least two lines per axis *)
Definition window_ok (S : source) (a b c d : Z) : bool :=
  (0 <=? a) && (a <? b) && (b <=? s_nil S) && (0 <=? c) && (c <? d) && (d <=? s_nxl S) &&
  (2 <=? s_nil S) && (2 <=? s_nxl S).
End WithTrace.

Arguments s_nil {trace}. Arguments s_nxl {trace}. Arguments s_ns {trace}.
Arguments s_il0 {trace}. Arguments s_dil {trace}. Arguments s_xl0 {trace}. Arguments s_dxl {trace}.
Arguments s_trace {trace}. Arguments s_hdr {trace}.

(* ---------------- the windowed container in closed form (used by the statements of Props/C11.v) ---------------- *)
Section Spec.
Variable trace : Type.
Variables (S : source trace) (a b c d : Z).
(* buffer cell (row r of the padded window, padded crossline x): the sub-cube edge-extended along both axes *)
Definition spec_cell (r x : Z) : trace := s_trace S (a + Z.min r (b - a - 1)) (c + Z.min x (d - c - 1)).
(* flat index, in the source file, of trace k of the window (k counts the window's traces inline-major) *)
Definition spec_src_index (k : Z) : Z := (a + k / (d - c)) * s_nxl S + (c + k mod (d - c)).
(* the stored array of field f: one entry per trace of the window, in window order *)
Definition spec_array (f : Z) : list Z := map (fun k => s_hdr S (spec_src_index k) f) (zrange 0 ((b - a) * (d - c))).
End Spec.

(* ---------------- instance used by the correspondence harness: a trace is its (inline, crossline) ordinal pair ------- *)
Definition prov_source (n_il n_xl ns il0 dil xl0 dxl : Z) (hdr : Z -> Z -> Z) : source (Z * Z) :=
  {| s_nil := n_il; s_nxl := n_xl; s_ns := ns; s_il0 := il0; s_dil := dil; s_xl0 := xl0; s_dxl := dxl;
     s_trace := fun i x => (i, x); s_hdr := hdr |}.

(* printable summary of a container *)
Definition show (c : container (Z * Z)) :=
  ([c_n_il _ c; c_n_xl _ c; c_origin_il _ c; c_origin_xl _ c; c_inc_il _ c; c_inc_xl _ c; c_hel _ c; c_tracecount _ c;
    c_nha _ c; c_alloc _ c],
   c_table _ c, c_sets _ c, c_hashed _ c, c_arrays _ c).
Definition run_show (codes : list Z) (m : mode) (w : window) (reduce_iops selftest : bool) (bs0 bs1 : Z)
  (S : source (Z * Z)) :=
  match convert (Z * Z) (-1, -1) codes m w reduce_iops selftest bs0 bs1 S with
  | None => inl 2
  | Some (Raise e) => inl (match e with IndexErr => 10 | ValueErr => 11 | TypeErr => 12 | ZeroDivErr => 14 | _ => 13 end)
  | Some (Return c) => inr (show c)
  end.
