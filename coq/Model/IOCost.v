(* Model/IOCost.v -- C07c: the I/O a reader performs besides the range reads of one cold sample read.

   Everything named ox_* comes from Gen/OpenIO.v (tools/genx_openio.py: extracted from read.py / loader.py / utils.py on
   every run, with a census that no other statement of those modules touches the file).  rd_* is the GENERATED reader
   header of Gen/Reader.v, hx_* / get_header_dict the trace-header template of C04 (Gen/Headers.v, Model/Headers.v),
   lru_find / lru_hit / lru_miss the functools.lru_cache model of Model/Caches.v (C15).  Hand-written here is only the
   glue: the ORDER in which the extracted reads happen (matched statement positions, see the generator), the
   dictionary `words` of the repaired gen_trace_header, and the loops `for k, v in header.items()` /
   `for d in range(lo, hi)`.

   An I/O request is (absolute file offset, length): what utils.read_range_file turns into seek(offset); read(length)
   and utils.read_range_blob into download_blob(offset=, length=) -- one backend request each (ox_request_file, ox_request_blob). *)
From Coq Require Import ZArith List Bool Lia.
Import ListNotations.
From SZ Require Import Lib.Py Gen.Utils Gen.Reader Gen.Headers Gen.OpenIO Model.Headers.
From SZ Require Model.Caches.
Open Scope Z_scope.

Definition io := (Z * Z)%type.

(* ------------------------------------------------------------------------------------------------ (a) opening *)
(* SgzReader.__init__: headerbytes = read(0, 4096); n_header_blocks = bytes 0:4; if n_header_blocks != 1: read again *)
Definition open_header_reads (nhb : Z) : list io :=
  ox_open_read1 :: (if ox_open_reread nhb then [ox_open_read2 nhb] else []).

(* ------------------------------------------------------------------------------------------------ (c) the loader *)
(* loader state that matters for I/O: has_volume = (compressed_volume is not None) *)
(* SgzLoader.load_compressed_volume *)
Definition load_volume (has_volume : bool) (ds ndb bb : Z) : list io * bool :=
  if ox_load_guard has_volume then ([ox_load_read ds ndb bb], true) else ([], has_volume).
(* SgzLoader.__init__ of a construction that returns (the memory check raises RuntimeError before any read) *)
Definition loader_init (preload : bool) (ds ndb bb : Z) : list io * bool :=
  if preload then load_volume ox_volume_at_init ds ndb bb else ([], ox_volume_at_init).
(* SgzLoader._get_compressed_bytes(offset, length): the single choke point of every sample read *)
Definition gcb (has_volume : bool) (ds off len : Z) : list io :=
  if ox_gcb_in_memory has_volume then [] else [ox_gcb_read ds off len].

(* SgzReader(file, preload=...): (requests in order, has_volume afterwards).  The loader is constructed after both
   header reads with data_start_bytes, compressed_data_diskblocks, block_bytes of the parsed header. *)
Definition open_reader (H : hdr) (preload : bool) : list io * bool :=
  let lv := loader_init preload (rd_data_start_bytes H) (rd_compressed_data_diskblocks H) (rd_block_bytes H) in
  (open_header_reads (rd_n_header_blocks H) ++ fst lv, snd lv).

(* what happens on an open reader afterwards, as far as the data section is concerned *)
Inductive event :=
| Sample (requests : list (Z * Z))   (* a sample read whose loader asks the choke point for these (offset in the data
                                        section, length) ranges: av_reads v of the generated read method *)
| LoadVolume.                         (* loader.load_compressed_volume() called again *)
Fixpoint run_events (vol : bool) (ds ndb bb : Z) (evs : list event) : list io :=
  match evs with
  | [] => []
  | Sample rs :: t => flat_map (fun r => gcb vol ds (fst r) (snd r)) rs ++ run_events vol ds ndb bb t
  | LoadVolume :: t => let lv := load_volume vol ds ndb bb in fst lv ++ run_events (snd lv) ds ndb bb t
  end.
Definition session (H : hdr) (preload : bool) (evs : list event) : list io :=
  let o := open_reader H preload in
  fst o ++ run_events (snd o) (rd_data_start_bytes H) (rd_compressed_data_diskblocks H) (rd_block_bytes H) evs.

(* the requests that overlap the data section [ds, ds + len) *)
Definition overlaps (lo hi : Z) (r : io) : bool := (fst r <? hi) && (lo <? fst r + snd r).
Definition data_requests (H : hdr) (l : list io) : list io :=
  filter (overlaps (rd_data_start_bytes H) (rd_data_start_bytes H + 4096 * rd_compressed_data_diskblocks H)) l.

(* ------------------------------------------------------------------------------------------------ (b) gen_trace_header *)
(* the FileOffset entries of segy_traceheader_template, in dictionary order *)
Definition tpl_offsets (tpl : list (Z * tval)) : list Z :=
  flat_map (fun kv => match snd kv with Off o => [o] | Const _ => [] end) tpl.
(* words = {}; for each FileOffset v: if v not in words: read, words[v] = ... : the offsets read, in order *)
Definition memo_step (acc : list Z) (o : Z) : list Z := if memZ o acc then acc else acc ++ [o].
Definition memo_offsets (l : list Z) : list Z := fold_left memo_step l [].

Inductive hdr_io :=
| WordReads (l : list io)     (* structured file, load_all_headers=False: these 4-byte reads, in order *)
| ViaArrays                   (* _load_variant_headers(False): whole arrays, kept in memory (not a C07c clause) *)
| HdrIndexError.
Definition gen_trace_header_io (memo : bool) (tracecount : Z) (structured load_all : bool) (tpl : list (Z * tval))
                               (index : Z) : hdr_io :=
  if negb (ox_hdr_index_ok index tracecount) then HdrIndexError
  else if ox_hdr_via_arrays load_all structured then ViaArrays
  else WordReads (map (fun o => ox_hdr_word_read o index)
                      (if memo then memo_offsets (tpl_offsets tpl) else tpl_offsets tpl)).

(* on a file as C04 sees it (table at bytes 980:2048, sizes from the header): the reader's template, then the loop *)
Definition trace_header_io (fields : list Z) (F : sgzfile) (load_all : bool) (index : Z) : outcome hdr_io :=
  bind (rd_template fields F) (fun tpl =>
    Return (gen_trace_header_io ox_hdr_memo (f_tracecount F) (rd_structured F) load_all tpl index)).

(* slot k of the footer: array k occupies [foot + k * stride, foot + k * stride + hel), padded to the stride *)
Definition footer_start (nhb ndb : Z) : Z := 4096 * nhb + 4096 * ndb.
Definition word_of_array (nhb ndb stride k index : Z) : io := (footer_start nhb ndb + k * stride + 4 * index, 4).

(* ------------------------------------------------------------------------------------------------ (d) diagonals *)
(* get_trace(index, min_sample_id=s0, max_sample_id=s1, override_unstructured_mapping=True) on a 3D file asks the chunk
   LRU for this key (s0, s1 after defaulting: 0 and n_samples) *)
Definition chunk_key (n_xl bs0 bs1 bs2 s0 s1 index : Z) : list Z :=
  [ox_tr_min_il (ox_tr_il index n_xl) bs0; ox_tr_min_xl (ox_tr_xl index n_xl) bs1; ox_tr_min_z s0 bs2; ox_tr_max_z s1 bs2].

(* cropping arguments of a diagonal reader -> (min_idx, len) *)
Definition diag_window (min_ok max_ok : Z -> Z -> bool) (order_ok : Z -> Z -> bool) (lenf : Z -> Z -> Z)
                       (max_len : Z) (mn mx : option Z) : outcome (Z * Z) :=
  match mn, mx with
  | Some a, Some b =>
      if negb (min_ok a max_len) then Raise IndexErr else
      if negb (max_ok b max_len) then Raise IndexErr else
      if negb (order_ok a b) then Raise IndexErr else Return (a, lenf a b)
  | _, _ => Return (0, max_len)
  end.

(* read_correlated_diagonal: the trace ordinals handed to get_trace, in loop order *)
Definition cd_ordinals (n_xl cd min_idx len : Z) : list Z :=
  if ox_cd_branch cd n_xl
  then map (fun d => ox_cd_ordinal_a d cd n_xl) (zrange (ox_cd_lo_a min_idx len) (ox_cd_hi_a min_idx len))
  else map (fun d => ox_cd_ordinal_b d cd n_xl) (zrange (ox_cd_lo_b min_idx len) (ox_cd_hi_b min_idx len)).
Definition cd_traces (n_il n_xl cd : Z) (mn mx : option Z) : outcome (list Z) :=
  if negb (ox_cd_id_ok cd n_il n_xl) then Raise IndexErr else
  bind (diag_window ox_cd_min_ok ox_cd_max_ok ox_cd_order_ok ox_cd_len (get_correlated_diagonal_length cd n_il n_xl) mn mx)
       (fun w => Return (cd_ordinals n_xl cd (fst w) (snd w))).
(* read_anticorrelated_diagonal *)
Definition ad_ordinals (n_xl ad min_idx len : Z) : list Z :=
  if ox_ad_branch ad n_xl
  then map (fun d => ox_ad_ordinal_a d ad n_xl) (zrange (ox_ad_lo_a min_idx len) (ox_ad_hi_a min_idx len))
  else map (fun d => ox_ad_ordinal_b d ad n_xl) (zrange (ox_ad_lo_b min_idx len) (ox_ad_hi_b min_idx len)).
Definition ad_traces (n_il n_xl ad : Z) (mn mx : option Z) : outcome (list Z) :=
  if negb (ox_ad_id_ok ad n_il n_xl) then Raise IndexErr else
  bind (diag_window ox_ad_min_ok ox_ad_max_ok ox_ad_order_ok ox_ad_len (get_anticorrelated_diagonal_length ad n_il n_xl) mn mx)
       (fun w => Return (ad_ordinals n_xl ad (fst w) (snd w))).

Inductive diagonal := Correlated | Anticorrelated.
Definition diag_traces (dg : diagonal) (n_il n_xl id : Z) (mn mx : option Z) : outcome (list Z) :=
  match dg with Correlated => cd_traces n_il n_xl id mn mx | Anticorrelated => ad_traces n_il n_xl id mn mx end.
(* the keys the chunk LRU is consulted with during one diagonal read *)
Definition diag_keys (dg : diagonal) (n_il n_xl bs0 bs1 bs2 s0 s1 id : Z) (mn mx : option Z) : outcome (list (list Z)) :=
  bind (diag_traces dg n_il n_xl id mn mx) (fun ts => Return (map (chunk_key n_xl bs0 bs1 bs2 s0 s1) ts)).

(* "equal keys are adjacent": whenever the same key occurs at two positions, everything in between is that key *)
Definition contiguous {K} (l : list K) : Prop :=
  forall l1 x l2 y l3, l = l1 ++ x :: l2 ++ y :: l3 -> x = y -> forall z, In z l2 -> z = x.

(* functools.lru_cache(maxsize=c) consulted with the keys ks in order, starting from the table `cache` (most recent
   first): the keys that MISS (for which the wrapped function -- _read_containing_chunk, hence the loader -- runs) *)
Section LRU.
  Variables (K V : Type) (keqb : K -> K -> bool) (compute : K -> V).
  Fixpoint lru_fetches (c : nat) (cache : list (K * V)) (ks : list K) : list K :=
    match ks with
    | [] => []
    | k :: r =>
        match Caches.lru_find keqb k cache with
        | Some v => lru_fetches c (Caches.lru_hit keqb k v cache) r
        | None => k :: lru_fetches c (Caches.lru_miss c k (compute k) cache) r
        end
    end.
End LRU.
Arguments lru_fetches {K V}.

(* default capacity of the chunk LRU: get_chunk_cache_size(shape_pad[0] // bs0, shape_pad[1] // bs1) *)
Definition default_chunk_cache (H : hdr) : option Z :=
  get_chunk_cache_size (ox_cache_arg0 (rd_shape_pad0 H) (rd_blockshape0 H)) (ox_cache_arg1 (rd_shape_pad1 H) (rd_blockshape1 H)).

(* ------------------------------------------------------------------------------------------------ for the harness *)
(* closed, computable entry points evaluated by tools/checks/iocost.py on the values of real files *)
Definition ev_open (hl : list Z) (preload : bool) (evs : list (list (Z * Z))) : list io :=
  session (hdr_of_list hl) preload (map Sample evs).
Definition ev_hdr (memo : bool) (T : list (Z * (Z * Z))) (nha nhb ndb padded tracecount : Z) (structured load_all : bool)
                  (index : Z) : Z * list io :=
  match get_header_dict T nha nhb ndb padded with
  | Return tpl => match gen_trace_header_io memo tracecount structured load_all tpl index with
                  | WordReads l => (0, l) | ViaArrays => (1, []) | HdrIndexError => (2, [])
                  end
  | Raise _ => (3, [])
  end.
Definition ev_diag (anti : bool) (n_il n_xl bs0 bs1 bs2 s0 s1 id : Z) (mn mx : option Z) (cap : Z) (warm : list (list Z))
  : Z * (list (list Z) * list (list Z)) :=
  match diag_keys (if anti then Anticorrelated else Correlated) n_il n_xl bs0 bs1 bs2 s0 s1 id mn mx with
  | Return ks => (0, (ks, lru_fetches Caches.zlist_eqb (fun _ => tt) (Z.to_nat cap) (map (fun k => (k, tt)) warm) ks))
  | Raise _ => (1, ([], []))
  end.
