(* Model/Writer.v -- the 3D plane-set producers (NumPy route, SEG-Y route through segyio and through the reduced-I/O
   reader) as a list of REGIONS of the padded cube handed to zfpy.compress_numpy, in queue order.  All arithmetic
   (padded shape, number of plane sets, np.pad widths, the layout switch, block loop bounds and slice bounds, the
   source line of every buffer row, the edge-replication assignments) comes from Gen/Producer.v, which is generated
   from conversion_utils.py on every run.  Hand-written here: numpy slicing clips to the array extent; np.pad(..,'edge')
   repeats the last row/column/sample; a buffer row of plane set p is absolute row p*bs0 + a of the padded cube; and
   THE ZFP STRUCTURAL ASSUMPTION for compression: compress_numpy of an (A,B,C) array (multiples of 4) is the
   concatenation of its unit codes in C order of unit coordinates. *)
From Coq Require Import ZArith List Bool Lia.
Import ListNotations.
From SZ Require Import Lib.Py Gen.Utils Gen.Producer.
Open Scope Z_scope.

Record region := mkR { r_i0 : Z; r_x0 : Z; r_z0 : Z; r_ni : Z; r_nx : Z; r_nz : Z }.

(* absolute unit coordinates (in the padded cube) of the units of a region, in the order zfpy emits their codes *)
Definition units_of_region (r : region) : list (Z * Z * Z) :=
  flat_map (fun a => flat_map (fun b => map (fun c => (r_i0 r / 4 + a, r_x0 r / 4 + b, r_z0 r / 4 + c))
                                            (zrange 0 (r_nz r / 4))) (zrange 0 (r_nx r / 4))) (zrange 0 (r_ni r / 4)).

Section Params.
Variables n_il n_xl ns bs0 bs1 bs2 : Z.

(* ---------------- NumPy route ---------------- *)
(* rows of in_array[lo:hi] (numpy clips hi to the extent) *)
Definition np_buf_rows (p : Z) : Z := Z.min (np_row_hi n_il n_xl ns bs0 bs1 bs2 p) n_il - np_row_lo n_il n_xl ns bs0 bs1 bs2 p.
Definition np_buf_shape0 (p : Z) : Z := np_buf_rows p + np_padw_i n_il n_xl ns bs0 bs1 bs2 p.
Definition np_buf_shape1 (p : Z) : Z := n_xl + np_padw_x n_il n_xl ns bs0 bs1 bs2 p.
Definition np_buf_shape2 (p : Z) : Z := ns + np_padw_z n_il n_xl ns bs0 bs1 bs2 p.
(* source voxel held by buffer cell (a, x, z) of plane set p: np.pad 'edge' repeats the last real row/column/sample *)
Definition np_buf_src (p a x z : Z) : Z * Z * Z :=
  (np_row_lo n_il n_xl ns bs0 bs1 bs2 p + Z.min a (np_buf_rows p - 1), Z.min x (n_xl - 1), Z.min z (ns - 1)).

Definition np_regions_of_set (p : Z) : list region :=
  if np_whole_set n_il n_xl ns bs0 bs1 bs2 then
    [mkR (p * bs0) 0 0 (np_buf_shape0 p) (np_buf_shape1 p) (np_buf_shape2 p)]
  else
    flat_map (fun x => map (fun z =>
       mkR (p * bs0) (np_block_x_lo n_il n_xl ns bs0 bs1 bs2 x) (np_block_z_lo n_il n_xl ns bs0 bs1 bs2 z)
           (np_buf_shape0 p)
           (Z.min (np_block_x_hi n_il n_xl ns bs0 bs1 bs2 x) (np_buf_shape1 p) - np_block_x_lo n_il n_xl ns bs0 bs1 bs2 x)
           (Z.min (np_block_z_hi n_il n_xl ns bs0 bs1 bs2 z) (np_buf_shape2 p) - np_block_z_lo n_il n_xl ns bs0 bs1 bs2 z))
       (zrange 0 (np_nblocks_z n_il n_xl ns bs0 bs1 bs2))) (zrange 0 (np_nblocks_x n_il n_xl ns bs0 bs1 bs2)).
Definition np_regions : list region := flat_map np_regions_of_set (zrange 0 (np_n_plane_sets n_il n_xl ns bs0 bs1 bs2)).
Definition np_written_units : list (Z * Z * Z) := flat_map units_of_region np_regions.
(* source voxel of the padded-cube cell (i, x, z) as the producer fills it *)
Definition np_cell_src (i x z : Z) : Z * Z * Z := np_buf_src (i / bs0) (i mod bs0) x z.

(* ---------------- SEG-Y route (regular geometry, no window: geom = Geometry3d(0, n_il, 0, n_xl)) ---------------- *)
(* buffer = np.zeros((blockshape[0], padded_shape[1], padded_shape[2])) -- checked textually by the generator *)
Definition sf_regions_of_set (p : Z) : list region :=
  if sf_whole_set n_il n_xl ns bs0 bs1 bs2 then
    [mkR (p * bs0) 0 0 bs0 (sf_padded1 n_il n_xl ns bs0 bs1 bs2) (sf_padded2 n_il n_xl ns bs0 bs1 bs2)]
  else
    flat_map (fun x => map (fun z =>
       mkR (p * bs0) (sf_block_x_lo n_il n_xl ns bs0 bs1 bs2 x) (sf_block_z_lo n_il n_xl ns bs0 bs1 bs2 z)
           bs0
           (Z.min (sf_block_x_hi n_il n_xl ns bs0 bs1 bs2 x) (sf_padded1 n_il n_xl ns bs0 bs1 bs2) - sf_block_x_lo n_il n_xl ns bs0 bs1 bs2 x)
           (Z.min (sf_block_z_hi n_il n_xl ns bs0 bs1 bs2 z) (sf_padded2 n_il n_xl ns bs0 bs1 bs2) - sf_block_z_lo n_il n_xl ns bs0 bs1 bs2 z))
       (zrange 0 (sf_nblocks_z n_il n_xl ns bs0 bs1 bs2))) (zrange 0 (sf_nblocks_x n_il n_xl ns bs0 bs1 bs2)).
Definition sf_regions : list region := flat_map sf_regions_of_set (zrange 0 (sf_n_plane_sets n_il n_xl ns bs0 bs1 bs2)).
Definition sf_written_units : list (Z * Z * Z) := flat_map units_of_region sf_regions.

(* io_thread_func, row a of plane set p.  `minimal` selects the reduced-I/O reader.  The row is first filled for
   crosslines [0, g_nxl) and samples [0, ns) from source line L (crosslines io_xl_lo .. io_xl_hi-1 of it), then
   crosslines >= io_xpad_from copy crossline io_xpad_src, then samples >= io_zpad_from copy sample io_zpad_src. *)
Definition sf_row_line (minimal : bool) (p a : Z) : Z :=
  let ptr := sf_planes_to_read n_il n_xl ns bs0 bs1 bs2 p in
  if minimal then io_min_line 0 0 (n_xl - 1) n_xl bs0 p ptr ns a else io_seg_line 0 0 (n_xl - 1) n_xl bs0 p ptr ns a.
Definition sf_buf_src (minimal : bool) (p a x z : Z) : Z * Z * Z :=
  let ptr := sf_planes_to_read n_il n_xl ns bs0 bs1 bs2 p in
  let x' := if x <? io_xpad_from 0 0 (n_xl - 1) n_xl bs0 p ptr ns a then x else io_xpad_src 0 0 (n_xl - 1) n_xl bs0 p ptr ns a in
  let z' := if z <? io_zpad_from 0 0 (n_xl - 1) n_xl bs0 p ptr ns a then z else io_zpad_src 0 0 (n_xl - 1) n_xl bs0 p ptr ns a in
  (sf_row_line minimal p a, (if minimal then 0 else io_xl_lo 0 0 (n_xl - 1) n_xl bs0 p ptr ns a) + x', z').
Definition sf_cell_src (minimal : bool) (i x z : Z) : Z * Z * Z := sf_buf_src minimal (i / bs0) (i mod bs0) x z.
End Params.

(* the edge extension of the property statement: repeat the edge samples (clamp every coordinate to the real extent) *)
Definition edge_src (n_il n_xl ns i x z : Z) : Z * Z * Z := (Z.min i (n_il - 1), Z.min x (n_xl - 1), Z.min z (ns - 1)).
