(* Model/Coords.v -- hand-written glue around the GENERATED pieces of coq/Gen/Coords.v (tools/genx_coords.py): the
   by-number / by-coordinate entry points of the reader (C02d, C14b).

   Hand-modelled here (everything else is a generated definition cx_...):
     * Python / numpy integer subscripts of a sequence: a negative subscript counts from the end, a subscript outside
       -len .. len-1 raises IndexError (py_get).  On a one-element axis coords[-2] therefore RAISES (it does not wrap).
     * np.where(test)[0] of a one-dimensional array = the ascending list of the positions where test holds (np_where);
       np.where(...) itself is a 1-tuple, so [axis] is a subscript of a one-element sequence and [pick] a subscript of the
       list of positions: with the generated values [0][0] this is "the first position, IndexError when there is none".
     * try / except CLASS: the handler runs iff the raised exception is CLASS (exn_eqb); an exception raised INSIDE the
       handler (coords[-2] on a short axis) propagates.
     * `include_stop and TEST`: TEST (and the subscripts it evaluates) is not evaluated when include_stop is false.
     * the assembly of the pieces into coord_to_index, the index methods, the by-number readers and get_trace_by_coord
       (the statement structure is fixed by the generator's templates).
     * .astype('intc') of an int64 array: two's-complement wrap to cx_line_cast_bits bits (wrap_signed).

   Coordinates are an ABSTRACT type C with the operations coord_ops C (Gen/Coords.v).  The generic theorems ask only that
   c_eqb decides equality (eq_ops); the arithmetic-axis theorems instantiate C := Z with exact + and - (Zops).
   OUTSIDE the model (covered by the direct oracle of tools/checks/coordsx.py and coords.py on real float axes):
     * float64 rounding of + and - : on a sample axis whose interval is not exactly representable the two "one step past the
       end" expressions  zs[-1] + (zs[-1] - zs[-2])  (coord_to_index) and  zs[-1] + zs[1] - zs[0]  (get_trace_by_coord)
       need not be equal, although they are equal in exact arithmetic (finding D50);
     * NaN (not equal to itself), comparisons between a numpy integer array and a Python float or an out-of-range
       integer, non-scalar arguments;  +0.0 and -0.0 are identified (as == does). *)
From Coq Require Import ZArith List Bool Lia.
Import ListNotations.
From SZ Require Import Lib.Py Gen.Reader Gen.Coords.
Open Scope Z_scope.

(* ---------------------------------------------------------------------------------------------------------------- *)
(* sequences with Python subscripts *)
Definition zlen {A} (l : list A) : Z := Z.of_nat (List.length l).

(* the element at a NON-NEGATIVE position *)
Definition zth {A} (l : list A) (i : Z) : option A := if i <? 0 then None else nth_error l (Z.to_nat i).

(* l[k] for a Python int k *)
Definition py_get {A} (l : list A) (k : Z) : outcome A :=
  match zth l (if k <? 0 then k + zlen l else k) with Some x => Return x | None => Raise IndexErr end.

Definition py_get_or {A} (d : A) (l : list A) (k : Z) : A := match py_get l k with Return x => x | Raise _ => d end.

(* the subscripts an expression evaluates, in evaluation order: the first one that does not exist raises *)
Fixpoint eval_subs {A} (l : list A) (ks : list Z) : outcome unit :=
  match ks with [] => Return tt | k :: r => bind (py_get l k) (fun _ => eval_subs l r) end.

(* np.where(test elementwise)[0] *)
Fixpoint where_from {C} (test : C -> bool) (l : list C) (i : Z) : list Z :=
  match l with
  | [] => []
  | x :: r => if test x then i :: where_from test r (i + 1) else where_from test r (i + 1)
  end.
Definition np_where {C} (test : C -> bool) (l : list C) : list Z := where_from test l 0.

Definition exn_code (e : exn) : Z :=
  match e with IndexErr => 0 | WrongDim => 1 | AssertErr => 2 | ValueErr => 3 | TypeErr => 4 | ZeroDivErr => 5
             | RuntimeErr => 6 | IOErr => 7 | OtherErr => 8 end.
Definition exn_eqb (a b : exn) : bool := exn_code a =? exn_code b.

(* ---------------------------------------------------------------------------------------------------------------- *)
(* utils.coord_to_index(coord, coords, include_stop) *)
Definition cm_coord_to_index {C} (O : coord_ops C) (coord : C) (coords : list C) (include_stop : bool) : outcome Z :=
  match bind (py_get [np_where (fun x => cx_where_test O x coord) coords] cx_where_axis)
             (fun m => py_get m cx_where_pick) with
  | Return index => Return index
  | Raise e =>
      if exn_eqb e cx_caught then
        if include_stop then
          bind (eval_subs coords cx_stop_subscripts) (fun _ =>
          if cx_stop_test O coord (py_get_or (c_dflt O) coords) then Return (cx_stop_result (zlen coords))
          else Raise cx_miss)
        else Raise cx_miss
      else Raise e
  end.

(* exact integer coordinates *)
Definition Zops : coord_ops Z :=
  {| c_eqb := Z.eqb; c_ltb := Z.ltb; c_leb := Z.leb; c_add := Z.add; c_sub := Z.sub; c_dflt := 0 |}.

(* ---------------------------------------------------------------------------------------------------------------- *)
(* the axes of a reader *)
Record axes (C : Type) := { ax_il : list C; ax_xl : list C; ax_z : list C }.
Arguments ax_il {C}. Arguments ax_xl {C}. Arguments ax_z {C}.

Definition axis_of {C} (A : axes C) (a : cx_axis) : list C :=
  match a with AxIlines => ax_il A | AxXlines => ax_xl A | AxZslices => ax_z A end.

(* int64 -> signed integer of `bits` bits (numpy astype of an integer array: two's-complement wrap) *)
Definition wrap_signed (bits x : Z) : Z := (x + 2 ^ (bits - 1)) mod 2 ^ bits - 2 ^ (bits - 1).

(* gen_coord_list(start, step, count).astype('intc') as _parse_coordinates builds a line axis *)
Definition line_axis (start step count : Z) : list Z :=
  map (fun k => wrap_signed cx_line_cast_bits (cx_coord_elem start step k)) (zrange 0 count).

(* the axes SgzReader.__init__ builds from the header (H: the fields of Gen.Reader.hdr, X: the start / step fields of the
   line axes); the sample axis zs is a parameter (float64 in the code; here an integer-valued axis) *)
Definition header_axes (H : hdr) (X : chdr) (zs : list Z) : axes Z :=
  {| ax_il := line_axis (cx_ilines_start X) (cx_ilines_step X) (cx_ilines_count H);
     ax_xl := line_axis (cx_xlines_start X) (cx_xlines_step X) (cx_xlines_count H);
     ax_z := zs |}.

(* ---------------------------------------------------------------------------------------------------------------- *)
(* get_inline_index / get_crossline_index / get_zslice_index; given = the include_stop argument of the call, if any *)
Definition cm_get_index {C} (O : coord_ops C) (A : axes C) (ix : cx_indexer) (v : C) (given : option bool) : outcome Z :=
  cm_coord_to_index O v (axis_of A (cx_indexer_axis ix)) (cx_indexer_flag ix given).

(* read_inline_number / read_crossline_number / read_zslice_coord *)
Definition cm_read_by_number {C} (O : coord_ops C) (A : axes C) (H : hdr) (e : cx_entry) (v : C) : outcome arrv :=
  bind (cm_get_index O A (cx_entry_indexer e) v (cx_entry_flag e)) (cx_entry_reader e H).

(* a coordinate computed from self.zslices: the subscripts first (IndexError when one does not exist), then the expression *)
Definition cm_none_coord {C} (O : coord_ops C) (zs : list C) (subs : list Z) (expr : (Z -> C) -> C) : outcome C :=
  bind (eval_subs zs subs) (fun _ => Return (expr (py_get_or (c_dflt O) zs))).

(* the part of get_trace_by_coord before the call of get_trace: the two ordinals handed to get_trace *)
Definition cm_gtbc_window {C} (O : coord_ops C) (A : axes C) (H : hdr) (lo hi : option C) : outcome (Z * Z) :=
  if cx_gtbc_none_by_ordinal then
    bind (match lo with None => Return (cx_gtbc_lo_none_ordinal H)
                      | Some v => cm_get_index O A cx_gtbc_lo_indexer v cx_gtbc_lo_flag end) (fun a =>
    bind (match hi with None => Return (cx_gtbc_hi_none_ordinal H)
                      | Some v => cm_get_index O A cx_gtbc_hi_indexer v cx_gtbc_hi_flag end) (fun b =>
    Return (a, b)))
  else
    bind (match lo with None => cm_none_coord O (ax_z A) cx_gtbc_lo_none_subscripts (cx_gtbc_lo_none_coord O)
                      | Some v => Return v end) (fun lo' =>
    bind (match hi with None => cm_none_coord O (ax_z A) cx_gtbc_hi_none_subscripts (cx_gtbc_hi_none_coord O)
                      | Some v => Return v end) (fun hi' =>
    bind (cm_get_index O A cx_gtbc_lo_indexer lo' cx_gtbc_lo_flag) (fun a =>
    bind (cm_get_index O A cx_gtbc_hi_indexer hi' cx_gtbc_hi_flag) (fun b =>
    Return (a, b))))).

(* get_trace_by_coord(index, min_sample_no, max_sample_no) = get_trace(index, a, b) (override_unstructured_mapping at its
   default False) *)
Definition cm_get_trace_by_coord {C} (O : coord_ops C) (A : axes C) (mask_nth : Z -> outcome Z) (H : hdr)
    (index : Z) (lo hi : option C) : outcome arrv :=
  bind (cm_gtbc_window O A H lo hi) (fun ab => rd_get_trace mask_nth H index (Some (fst ab)) (Some (snd ab)) false).

(* ---------------------------------------------------------------------------------------------------------------- *)
(* vocabulary of the statements *)

(* c_eqb decides equality of coordinates *)
Definition eq_ops {C} (O : coord_ops C) : Prop := forall x y, c_eqb O x y = true <-> x = y.

(* position i holds c and no earlier position does *)
Definition first_at {C} (l : list C) (i : Z) (c : C) : Prop :=
  zth l i = Some c /\ forall j, 0 <= j < i -> zth l j <> Some c.

(* an arithmetic axis: start s, increment d (any sign), n elements *)
Definition arith (s d n : Z) : list Z := map (fun k => s + d * k) (zrange 0 n).

(* the coordinate "one increment past the last element" as coord_to_index computes it; None on an axis with fewer than
   two elements (coords[-2] raises) *)
Definition stop_value {C} (O : coord_ops C) (l : list C) : option C :=
  match py_get l (-1), py_get l (-2) with
  | Return last, Return prev => Some (c_add O last (c_sub O last prev))
  | _, _ => None
  end.

(* the axes have the lengths the header announces *)
Definition axes_fit {C} (H : hdr) (A : axes C) : Prop :=
  zlen (ax_il A) = rd_n_ilines H /\ zlen (ax_xl A) = rd_n_xlines H /\ zlen (ax_z A) = rd_n_samples H.

(* a bound of a coordinate window given by its ordinal on the arithmetic axis (s, d): None stays None *)
Definition cbound (s d : Z) (o : option Z) : option Z := option_map (fun k => s + d * k) o.
