(* Model/Hash.v -- property C20: what the three producers of conversion_utils.py feed to the running SHA-1.

   GENERATED (Gen/Hash.v, from the source text on every run): the loop bounds, planes_to_read / traces_to_read, the
   subscripts given to hash_object.update, the np.pad call (NumPy route), which source line / trace goes to which
   buffer row (io_thread_func, io_thread_func_2d), the byte offsets of the stored digest, the re-blocker's patches.
   HAND-WRITTEN (here): the meaning of those pieces -- numpy basic slicing (stop clipped to the axis length),
   np.pad(..., 'edge'), np.zeros followed by slice assignments, Python's negative index, a header as a byte memory,
   and SHA-1 as an unknown function H of the CONCATENATION of the update arguments (streaming property of hashlib).

   A sample is its four float32 bytes; the buffers are float32 arrays, so hash_object.update(view.copy()) consumes the
   C-order bytes of the view. *)
From Coq Require Import ZArith List Bool Lia.
From Coq Require Import Init.Byte.
Import ListNotations.
From SZ Require Import Lib.Py Gen.Utils Gen.Hash.
Open Scope Z_scope.

(* ---------- samples and their serialisation ---------- *)
Definition sample : Type := (byte * byte * byte * byte)%type.
Definition zero_sample : sample := (x00, x00, x00, x00).           (* np.zeros(..., dtype=np.float32) *)
Definition ser1 (s : sample) : list byte := let '(a, b, c, d) := s in [a; b; c; d].
Definition ser (l : list sample) : list byte := flat_map ser1 l.   (* ndarray.tobytes() of a C-contiguous float32 array *)

(* ---------- sources ---------- *)
Definition cube := Z -> Z -> Z -> sample.        (* inline ordinal, crossline ordinal, sample index *)
Definition section2 := Z -> Z -> sample.         (* trace ordinal, sample index *)

(* C-order samples of a[xlo:xhi, zlo:zhi] for a 2-D array given as a function *)
Definition plane_samples (f : Z -> Z -> sample) (xlo xhi zlo zhi : Z) : list sample :=
  flat_map (fun x => map (f x) (zrange zlo zhi)) (zrange xlo xhi).

(* THE REFERENCE: all real samples in trace order (inline-major, then crossline, then time) *)
Definition cube_stream (c : cube) (n_il n_xl n_s : Z) : list sample :=
  flat_map (fun i => plane_samples (c i) 0 n_xl 0 n_s) (zrange 0 n_il).
Definition section_stream (s : section2) (n_tr n_s : Z) : list sample :=
  flat_map (fun t => map (s t) (zrange 0 n_s)) (zrange 0 n_tr).

(* the part of a file a conversion window selects (il0, xl0 = first inline / crossline ORDINAL of the window) *)
Definition window (file : cube) (il0 xl0 : Z) : cube := fun i x z => file (il0 + i) (xl0 + x) z.

(* ---------- numpy / Python semantics used below ---------- *)
(* index into an axis of `len` items that np.pad(..., 'edge') extended by `before` copies of the first item in
   front (and any number of copies of the last item behind) *)
Definition edge_idx (j before len : Z) : Z := Z.max 0 (Z.min (j - before) (len - 1)).
(* a[lo:hi] on an axis of length n (0 <= lo): the stop is clipped *)
Definition clip (hi n : Z) : Z := Z.min hi n.
(* Python index: negative counts from the end *)
Definition py_idx (j n : Z) : Z := if j <? 0 then j + n else j.

Inductive reader := Segyio | Minimal.

(* ======================================================================================================== *)
Section Cube3d.
Variables n_il n_xl n_s bs0 bs1 bs2 : Z.
Local Notation D f := (f n_il n_xl n_s bs0 bs1 bs2) (only parsing).

(* ---------- numpy_producer ---------- *)
(* buffer = np.pad(in_array[lo:hi, :, :], ((b0, a0), (b1, a1), (b2, a2)), 'edge') of plane set k *)
Definition np_rows_in_slice (k : Z) : Z := clip (D np_buf_hi k) n_il - D np_buf_lo k.
Definition np_buffer (c : cube) (k : Z) : Z -> Z -> Z -> sample :=
  fun i x z => c (D np_buf_lo k + edge_idx i (D np_buf_before0 k) (np_rows_in_slice k))
                 (edge_idx x (D np_buf_before1 k) n_xl)
                 (edge_idx z (D np_buf_before2 k) n_s).
Definition np_shape1 (k : Z) : Z := D np_buf_before1 k + n_xl + D np_buf_after1 k.
Definition np_shape2 (k : Z) : Z := D np_buf_before2 k + n_s + D np_buf_after2 k.

(* argument of the i-th hash_object.update of plane set k: buffer[row, xlo:xhi, zlo:zhi].copy() *)
Definition np_update (c : cube) (k i : Z) : list sample :=
  plane_samples (np_buffer c k (D np_hash_row k i))
                (D np_hash_x_lo k i) (clip (D np_hash_x_hi k i) (np_shape1 k))
                (D np_hash_z_lo k i) (clip (D np_hash_z_hi k i) (np_shape2 k)).
(* all update arguments of one conversion, in program order *)
Definition np_updates (c : cube) : list (list sample) :=
  flat_map (fun k => map (np_update c k) (zrange 0 (D np_hash_count k))) (zrange 0 (D np_n_plane_sets)).
Definition np_hashed (c : cube) : list byte := concat (map ser (np_updates c)).

(* for the correspondence check: (source plane, crosslines, samples) of every update *)
Definition np_plan : list (Z * Z * Z) :=
  flat_map (fun k => map (fun i =>
      (D np_buf_lo k + edge_idx (D np_hash_row k i) (D np_buf_before0 k) (np_rows_in_slice k),
       Z.max 0 (clip (D np_hash_x_hi k i) (np_shape1 k) - D np_hash_x_lo k i),
       Z.max 0 (clip (D np_hash_z_hi k i) (np_shape2 k) - D np_hash_z_lo k i)))
    (zrange 0 (D np_hash_count k))) (zrange 0 (D np_n_plane_sets)).

(* ---------- seismic_file_producer + io_thread_func ---------- *)
Variables il0 xl0 : Z.
Local Notation DI f := (f n_il n_xl n_s bs0 bs1 bs2 il0 xl0) (only parsing).

Definition io_line (r : reader) (k ptr i : Z) : Z :=
  if DI io_real_cond k ptr i
  then match r with Segyio => DI io_line_segyio k ptr i | Minimal => DI io_line_minimal k ptr i end
  else match r with Segyio => DI io_rep_line_segyio k ptr i | Minimal => DI io_rep_line_minimal k ptr i end.

(* the array a reader returns for inline ordinal l, as a function of (crossline, sample) positions:
   segyio: np.asarray(seismicfile.iline[...])[xlo:xhi, :]    reduced I/O: read_line(l), every crossline of the file *)
Definition line_data (r : reader) (file : cube) (k ptr i l : Z) : Z -> Z -> sample :=
  match r with
  | Segyio => fun x z => file l (DI io_src_x_lo k ptr i + x) z
  | Minimal => fun x z => file l x z
  end.

(* row i of the np.zeros buffer after iteration i of io_thread_func: the source assignment, then the crossline
   edge replication, then the sample edge replication *)
Definition sf_row (r : reader) (file : cube) (k i : Z) : Z -> Z -> sample :=
  let ptr := D sf_planes_to_read k in
  let src := line_data r file k ptr i (io_line r k ptr i) in
  let st1 := fun x z =>
    if (DI io_dst_x_lo k ptr i <=? x) && (x <? DI io_dst_x_hi k ptr i) &&
       (DI io_dst_z_lo k ptr i <=? z) && (z <? DI io_dst_z_hi k ptr i)
    then src (x - DI io_dst_x_lo k ptr i) (z - DI io_dst_z_lo k ptr i) else zero_sample in
  let st2 := fun x z =>
    if (DI io_xpad_from k ptr i <=? x) && (0 <=? z) && (z <? n_s) then st1 (DI io_xpad_src k ptr i) z else st1 x z in
  fun x z => if DI io_zpad_from k ptr i <=? z then st2 x (DI io_zpad_src k ptr i) else st2 x z.

(* iteration i writes row io_dst_row i; the generated io_dst_row is the identity (Proofs/Hash.v checks it), so row j
   is written by iteration j when j < io_loop_hi and stays zero otherwise *)
Definition sf_buffer (r : reader) (file : cube) (k : Z) : Z -> Z -> Z -> sample :=
  fun j x z => if (0 <=? j) && (j <? D io_loop_hi) then sf_row r file k j x z else zero_sample.

Definition sf_update (r : reader) (file : cube) (k i : Z) : list sample :=
  plane_samples (sf_buffer r file k (D sf_hash_row k i))
                (D sf_hash_x_lo k i) (clip (D sf_hash_x_hi k i) (D sf_buf_shape1 k))
                (D sf_hash_z_lo k i) (clip (D sf_hash_z_hi k i) (D sf_buf_shape2 k)).
Definition sf_updates (r : reader) (file : cube) : list (list sample) :=
  flat_map (fun k => map (sf_update r file k) (zrange 0 (D sf_hash_count k))) (zrange 0 (D sf_n_plane_sets)).
Definition sf_hashed (r : reader) (file : cube) : list byte := concat (map ser (sf_updates r file)).

(* (source inline ordinal, crosslines, samples) of every update *)
Definition sf_plan (r : reader) : list (Z * Z * Z) :=
  flat_map (fun k => map (fun i =>
      (io_line r k (D sf_planes_to_read k) (D sf_hash_row k i),
       Z.max 0 (clip (D sf_hash_x_hi k i) (D sf_buf_shape1 k) - D sf_hash_x_lo k i),
       Z.max 0 (clip (D sf_hash_z_hi k i) (D sf_buf_shape2 k) - D sf_hash_z_lo k i)))
    (zrange 0 (D sf_hash_count k))) (zrange 0 (D sf_n_plane_sets)).
End Cube3d.

(* ======================================================================================================== *)
Section Section2d.
Variables n_tr n_s bs0 bs1 bs2 : Z.
Local Notation D f := (f n_tr n_s bs0 bs1 bs2) (only parsing).

Definition io2_trace (g ttr i : Z) : Z :=
  if D io2_real_cond g ttr i then D io2_trace_id g ttr i else py_idx (D io2_rep_trace g ttr i) n_tr.

(* row i of the np.zeros((bs1, padded samples)) buffer after iteration i of io_thread_func_2d *)
Definition s2_row (s : section2) (g i : Z) : Z -> sample :=
  let ttr := D s2_traces_to_read g in
  let st1 := fun z =>
    if (D io2_dst_z_lo g ttr i <=? z) && (z <? D io2_dst_z_hi g ttr i)
    then s (io2_trace g ttr i) (z - D io2_dst_z_lo g ttr i) else zero_sample in
  fun z => if D io2_zpad_from g ttr i <=? z then st1 (D io2_zpad_src g ttr i) else st1 z.
Definition s2_buffer (s : section2) (g : Z) : Z -> Z -> sample :=
  fun j z => if (0 <=? j) && (j <? D io2_loop_hi) then s2_row s g j z else zero_sample.

(* the single update of trace group g: seismic_buffer[rlo:rhi, zlo:zhi].copy() *)
Definition s2_update (s : section2) (g : Z) : list sample :=
  plane_samples (s2_buffer s g)
                (D s2_hash_row_lo g) (clip (D s2_hash_row_hi g) (D s2_buf_shape0 g))
                (D s2_hash_z_lo g) (clip (D s2_hash_z_hi g) (D s2_buf_shape1 g)).
Definition s2_updates (s : section2) : list (list sample) := map (s2_update s) (zrange 0 (D s2_n_trace_groups)).
Definition s2_hashed (s : section2) : list byte := concat (map ser (s2_updates s)).

(* (first source trace, traces, samples) of every update *)
Definition s2_plan : list (Z * Z * Z) :=
  map (fun g => (io2_trace g (D s2_traces_to_read g) (D s2_hash_row_lo g),
                 Z.max 0 (clip (D s2_hash_row_hi g) (D s2_buf_shape0 g) - D s2_hash_row_lo g),
                 Z.max 0 (clip (D s2_hash_z_hi g) (D s2_buf_shape1 g) - D s2_hash_z_lo g)))
      (zrange 0 (D s2_n_trace_groups)).
End Section2d.

(* ======================================================================================================== *)
(* the stored digest: a header is a byte memory; slice assignment of equally many bytes; slice read *)
Definition memory := Z -> byte.
Definition patch (m : memory) (off : Z) (v : list byte) : memory :=
  fun o => if (off <=? o) && (o <? off + Z.of_nat (length v)) then nth (Z.to_nat (o - off)) v x00 else m o.
Definition mslice (m : memory) (lo hi : Z) : list byte := map m (zrange lo hi).

(* the re-blocker: new_header[a:b] = int_to_bytes(...) for every generated range, values unknown (4 bytes each) *)
Fixpoint apply_patches (m : memory) (ps : list (Z * list byte)) : memory :=
  match ps with [] => m | (a, v) :: rest => apply_patches (patch m a v) rest end.
Definition patches_match (ranges : list (Z * Z)) (ps : list (Z * list byte)) : Prop :=
  map fst ps = map fst ranges /\ map (fun p => fst p + Z.of_nat (length (snd p))) ps = map snd ranges.

Section Digest.
Variable digest : Type.
Variable H : list byte -> digest.        (* SHA-1 of a byte string; hashlib: update(a); update(b) == update(a + b) *)
Definition collision : Prop := exists s1 s2 : list byte, s1 <> s2 /\ H s1 = H s2.

Definition np_digest n_il n_xl n_s bs0 bs1 bs2 c := H (np_hashed n_il n_xl n_s bs0 bs1 bs2 c).
Definition sf_digest n_il n_xl n_s bs0 bs1 bs2 il0 xl0 r file := H (sf_hashed n_il n_xl n_s bs0 bs1 bs2 il0 xl0 r file).
Definition s2_digest n_tr n_s bs0 bs1 bs2 s := H (s2_hashed n_tr n_s bs0 bs1 bs2 s).
End Digest.

(* ---------- well-formedness of a conversion (boolean, so that it can be evaluated) ---------- *)
Definition wf3 (n_il n_xl n_s bs0 bs1 bs2 : Z) : bool :=
  (1 <=? n_il) && (1 <=? n_xl) && (1 <=? n_s) && (1 <=? bs0) && (1 <=? bs1) && (1 <=? bs2).
Definition wf2 (n_tr n_s bs0 bs1 bs2 : Z) : bool :=
  (1 <=? n_tr) && (1 <=? n_s) && (1 <=? bs1) && (1 <=? bs2).
(* the reduced-I/O reader reads whole file lines: it is only meaningful without a conversion window *)
Definition reader_ok (r : reader) (il0 xl0 : Z) : bool :=
  match r with Segyio => true | Minimal => (il0 =? 0) && (xl0 =? 0) end.
