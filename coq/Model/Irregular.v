(* Model/Irregular.v -- C08: conversion of an irregular (unstructured) 3D SEG-Y and the reader's view of the result.

   GENERATED parts (Gen/Irregular.v, from the Python ast on every run): the arithmetic of get_range, which key
   component / get_range result feeds which geometry attribute, the range() arguments of geom.ilines/xlines, the
   header fields that make the key of traces_ref, the lookup key / buffer subscripts / footer position of
   unstructured_io_thread_func, the footer length, the unstructured fields of make_header, the byte offsets the
   reader parses the axes from, the field and test of the population mask.

   HAND-WRITTEN here (each mirrored /repo function is pinned in tools/pinlist.txt and compared with the real
   objects by tools/checks/irregular.py on every run):
     traces_ref      the dict comprehension of conversion.infer_geometry (a later trace with the same key wins)
     get_range       min / max / number of DISTINCT ids fed to the generated arithmetic
     infer_geometry  utils.InferredGeometry3d.__init__
     plane_writes / buffer_cell    the two loops of unstructured_io_thread_func over one plane-set buffer (np.zeros)
     footer_writes / footer        the header capture of the same loops over all plane sets (np.zeros int32 arrays)
     mask_of / true_positions / mask_nth / select      read.get_unstructured_mask, the ordinal map of get_trace,
                                                       values[mask] of read_variant_headers
     gen_header_field, tracefield_values               read.gen_trace_header / get_tracefield_values (unstructured 3D)
     written_u32 / reported_axis                       struct.pack of make_header, _parse_coordinates + gen_coord_list
     segyio_geometry / detect_route                    segyio's geometry inference (external) as used by
                                                       conversion.detect_geometry
   Samples are never numbers: a buffer cell is CZero or CSample t z (sample z of source trace t). *)
From Coq Require Import ZArith List Bool Lia.
Import ListNotations.
From SZ Require Import Lib.Py Gen.Utils Gen.Irregular.
Open Scope Z_scope.

(* ---------------------------------------------------------------- the source *)
(* header value of trace ordinal t, field f *)
Definition headers := Z -> Z -> Z.
(* (first key component, second key component) of a trace: header fields ig_key_field0 / ig_key_field1 *)
Definition trace := (Z * Z)%type.
Definition survey := list trace.
Definition survey_of (n : Z) (H : headers) : survey :=
  map (fun t => (H t ig_key_field0, H t ig_key_field1)) (zrange 0 n).

Definition key_eqb (a b : trace) : bool := (fst a =? fst b) && (snd a =? snd b).

(* {key: ordinal for ordinal, key in enumerate(...)}: the LAST trace with a key wins *)
Fixpoint tr_lookup_from (s : survey) (i : Z) (k : trace) : option Z :=
  match s with
  | [] => None
  | t :: r => match tr_lookup_from r (i + 1) k with
              | Some j => Some j
              | None => if key_eqb t k then Some i else None
              end
  end.
Definition traces_ref (s : survey) (k : trace) : option Z := tr_lookup_from s 0 k.

(* ---------------------------------------------------------------- geometry inference *)
Definition distinct_count (ids : list Z) : Z := Z.of_nat (length (nodup Z.eq_dec ids)).

(* InferredGeometry3d.get_range(set(ids)) *)
Definition get_range (ids : list Z) : outcome (Z * Z * Z) :=
  match ids with
  | [] => Raise ValueErr                                   (* min() of an empty set *)
  | x :: r => ig_get_range (fold_right Z.min x r) (fold_right Z.max x r) (distinct_count ids)
  end.

Record geom := { g_min_il : Z; g_max_il : Z; g_il_step : Z; g_min_xl : Z; g_max_xl : Z; g_xl_step : Z;
                 g_ilines : Z * Z * Z; g_xlines : Z * Z * Z }.

(* len(range(lo, hi, step)) and range(lo, hi, step)[k] *)
Definition range_len (r : Z * Z * Z) : Z :=
  let '(lo, hi, st) := r in
  if 0 <? st then (if lo <? hi then (hi - lo - 1) / st + 1 else 0)
  else (if hi <? lo then (lo - hi - 1) / (- st) + 1 else 0).
Definition range_nth (r : Z * Z * Z) (k : Z) : Z := let '(lo, _, st) := r in lo + k * st.

Definition infer_geometry (s : survey) : outcome geom :=
  bind (get_range (map fst s)) (fun r0 =>
  bind (get_range (map snd s)) (fun r1 =>
  let '(a0, b0, c0) := r0 in
  let '(a1, b1, c1) := r1 in
  let il := ig_ilines_range a0 b0 c0 a1 b1 c1 in
  let xl := ig_xlines_range a0 b0 c0 a1 b1 c1 in
  (* range() with step 0 raises ValueError *)
  if (snd il =? 0) || (snd xl =? 0) then Raise ValueErr else
  Return {| g_min_il := ig_min_il a0 b0 c0 a1 b1 c1; g_max_il := ig_max_il a0 b0 c0 a1 b1 c1;
            g_il_step := ig_il_step a0 b0 c0 a1 b1 c1;
            g_min_xl := ig_min_xl a0 b0 c0 a1 b1 c1; g_max_xl := ig_max_xl a0 b0 c0 a1 b1 c1;
            g_xl_step := ig_xl_step a0 b0 c0 a1 b1 c1;
            g_ilines := il; g_xlines := xl |})).

Definition n_il (g : geom) : Z := range_len (g_ilines g).
Definition n_xl (g : geom) : Z := range_len (g_xlines g).

(* ---------------------------------------------------------------- unstructured_io_thread_func *)
(* the key looked up in iteration (i, xl_id) of plane set ps *)
Definition lookup_key (g : geom) (bs0 ps i xl_id : Z) : trace :=
  let xl_num := range_nth (g_xlines g) xl_id in
  (ig_index_il ps bs0 i (g_il_step g) (g_min_il g) (g_xl_step g) (g_min_xl g) xl_id xl_num (n_il g) (n_xl g),
   ig_index_xl ps bs0 i (g_il_step g) (g_min_il g) (g_xl_step g) (g_min_xl g) xl_id xl_num (n_il g) (n_xl g)).

(* the slice assignments to one plane-set buffer, in program order: (plane subscript, crossline subscript, source trace) *)
Definition plane_writes (s : survey) (g : geom) (bs0 ps : Z) : list (Z * Z * Z) :=
  flat_map (fun i => flat_map (fun xl_id =>
    let xl_num := range_nth (g_xlines g) xl_id in
    match traces_ref s (lookup_key g bs0 ps i xl_id) with
    | Some t => [(ig_buf_i ps bs0 i (g_il_step g) (g_min_il g) (g_xl_step g) (g_min_xl g) xl_id xl_num (n_il g) (n_xl g),
                  ig_buf_x ps bs0 i (g_il_step g) (g_min_il g) (g_xl_step g) (g_min_xl g) xl_id xl_num (n_il g) (n_xl g), t)]
    | None => []
    end) (zrange 0 (n_xl g))) (zrange 0 bs0).

Inductive cellv := CZero | CSample (t : Z) (z : Z).

(* cell [bi, bx, bz] of the buffer of plane set ps when it is handed to the compressor: np.zeros, then the writes;
   the LAST write that covers the cell decides (ns = trace length) *)
Definition buffer_cell (s : survey) (g : geom) (bs0 ns ps bi bx bz : Z) : cellv :=
  if (ig_buf_zlo ns <=? bz) && (bz <? ig_buf_zhi ns) then
    match find (fun w => (fst (fst w) =? bi) && (snd (fst w) =? bx)) (rev (plane_writes s g bs0 ps)) with
    | Some w => CSample (snd w) (bz - ig_buf_zlo ns)
    | None => CZero
    end
  else CZero.

(* header capture: (position in the footer array, source trace), in program order over all plane sets *)
Definition n_plane_sets (g : geom) (bs0 : Z) : Z := pad (n_il g) bs0 / bs0.
Definition footer_writes (s : survey) (g : geom) (bs0 : Z) : list (Z * Z) :=
  flat_map (fun ps => flat_map (fun i => flat_map (fun xl_id =>
    let xl_num := range_nth (g_xlines g) xl_id in
    match traces_ref s (lookup_key g bs0 ps i xl_id) with
    | Some t => [(ig_t_store ps bs0 i (g_il_step g) (g_min_il g) (g_xl_step g) (g_min_xl g) xl_id xl_num (n_il g) (n_xl g), t)]
    | None => []
    end) (zrange 0 (n_xl g))) (zrange 0 bs0)) (zrange 0 (n_plane_sets g bs0)).

Definition footer_len (g : geom) : Z := ig_footer_len (n_il g) (n_xl g).

(* the footer array of one header field (hv t = value of the field in source trace t): np.zeros(footer_len) then
   array[t_store] = value; a position outside the array is an IndexError (numpy), a negative one wraps *)
Definition footer (s : survey) (g : geom) (bs0 : Z) (hv : Z -> Z) : outcome (list Z) :=
  let L := footer_len g in
  let W := footer_writes s g bs0 in
  if negb (forallb (fun w => (- L <=? fst w) && (fst w <? L)) W) then Raise IndexErr else
  Return (map (fun c => match find (fun w => (if fst w <? 0 then fst w + L else fst w) =? c) (rev W) with
                        | Some w => hv (snd w)
                        | None => 0
                        end) (zrange 0 L)).

(* ---------------------------------------------------------------- reader side *)
(* get_unstructured_mask: footer array of field ig_mask_field, tested element-wise *)
Definition mask_of (vals : list Z) : list bool := map ig_mask_populated vals.

(* np.arange(len(mask))[mask != 0] *)
Fixpoint true_positions (m : list bool) (c : Z) : list Z :=
  match m with
  | [] => []
  | b :: r => if b then c :: true_positions r (c + 1) else true_positions r (c + 1)
  end.

(* int(np.arange(N)[mask != 0][index]): numpy integer indexing (a negative index wraps once) *)
Definition np_index (l : list Z) (i : Z) : outcome Z :=
  let n := Z.of_nat (length l) in
  if (- n <=? i) && (i <? n) then Return (nth (Z.to_nat (if i <? 0 then i + n else i)) l 0) else Raise IndexErr.
Definition mask_nth (m : list bool) (i : Z) : outcome Z := np_index (true_positions m 0) i.

(* values[mask] *)
Fixpoint select (m : list bool) (v : list Z) : list Z :=
  match m, v with
  | b :: mr, x :: vr => if b then x :: select mr vr else select mr vr
  | _, _ => []
  end.

(* gen_trace_header(index)[field] of an unstructured 3D file for a field stored as an array *)
Definition gen_header_field (tracecount : Z) (m : list bool) (vals : list Z) (index : Z) : outcome Z :=
  if negb ((0 <=? index) && (index <? tracecount)) then Raise IndexErr else np_index (select m vals) index.

(* get_tracefield_values(field)[a, b]: the whole array (include_padding=True) reshaped (n_il, n_xl) *)
Definition tracefield_cell (vals : list Z) (nx a b : Z) : Z := nth (Z.to_nat (a * nx + b)) vals 0.

(* get_tracefield_values(field) for a field kept as a constant in the header template (heuristic detection: same value
   v in the first and last trace): np.full(v), zeroed outside the population mask (D30 fix) *)
Definition tracefield_const (m : list bool) (v : Z) : list Z := map (fun b : bool => if b then v else 0) m.

(* ---------------------------------------------------------------- header fields and reported axes *)
Definition two31 : Z := 2147483648.
Definition two32 : Z := 4294967296.
(* struct.pack("<i", v) / struct.pack("<I", v) read back with "<I": struct.error outside the range *)
Definition written_u32 (signed : bool) (v : Z) : outcome Z :=
  if signed then (if (- two31 <=? v) && (v <? two31) then Return (v mod two32) else Raise OtherErr)
  else (if (0 <=? v) && (v <? two32) then Return v else Raise OtherErr).
Fixpoint field_at (l : list (Z * bool * Z)) (off : Z) : outcome Z :=
  match l with
  | [] => Return 0                                    (* bytearray(...) is zero where nothing is written *)
  | (o, sg, v) :: r => if o =? off then written_u32 sg v else field_at r off
  end.
(* .astype('intc') of an int64 *)
Definition wrap32 (y : Z) : Z := (y + two31) mod two32 - two31.
(* gen_coord_list(start, step, count).astype('intc') with the three u32 read at the given offsets; element k of
   gen_coord_list is the generated ig_coord_elem start step k, 0 <= k < count *)
Definition reported_axis (fields : list (Z * bool * Z)) (offs : Z * Z * Z) : outcome (list Z) :=
  let '(o_start, o_step, o_count) := offs in
  bind (field_at fields o_start) (fun start => bind (field_at fields o_step) (fun step =>
  bind (field_at fields o_count) (fun count =>
  Return (map (fun k => wrap32 (ig_coord_elem start step k)) (zrange 0 count))))).

Definition header_of (g : geom) (tracecount : Z) : list (Z * bool * Z) :=
  ig_header_fields (n_il g) (n_xl g) (g_min_il g) (g_min_xl g) (g_il_step g) (g_xl_step g) tracecount.

(* ---------------------------------------------------------------- the true grid and the hypotheses of C08 *)
Record grid := { ga_il : Z; gs_il : Z; gn_il : Z; ga_xl : Z; gs_xl : Z; gn_xl : Z }.

Definition il_idx (G : grid) (t : trace) : Z := (fst t - ga_il G) / gs_il G.
Definition xl_idx (G : grid) (t : trace) : Z := (snd t - ga_xl G) / gs_xl G.
(* row-major grid position of a trace *)
Definition cell_of (G : grid) (t : trace) : Z := il_idx G t * gn_xl G + xl_idx G t.

Definition on_grid (G : grid) (t : trace) : bool :=
  (fst t =? ga_il G + il_idx G t * gs_il G) && (0 <=? il_idx G t) && (il_idx G t <? gn_il G) &&
  (snd t =? ga_xl G + xl_idx G t * gs_xl G) && (0 <=? xl_idx G t) && (xl_idx G t <? gn_xl G).

Definition lex_ltb (a b : trace) : bool := (fst a <? fst b) || ((fst a =? fst b) && (snd a <? snd b)).
(* inline-sorted, crossline ascending within an inline *)
Fixpoint sorted_lex (s : survey) : bool :=
  match s with
  | a :: r => match r with b :: _ => lex_ltb a b && sorted_lex r | [] => true end
  | [] => true
  end.

(* a subset of the grid, in file order, every inline and every crossline of the grid carrying a trace *)
Definition survey_ok (G : grid) (s : survey) : bool :=
  (2 <=? gn_il G) && (2 <=? gn_xl G) && (1 <=? gs_il G) && (1 <=? gs_xl G) &&
  forallb (on_grid G) s && sorted_lex s &&
  forallb (fun k => existsb (fun t => fst t =? ga_il G + k * gs_il G) s) (zrange 0 (gn_il G)) &&
  forallb (fun k => existsb (fun t => snd t =? ga_xl G + k * gs_xl G) s) (zrange 0 (gn_xl G)).

(* D20 guard: no trace carries inline number 0 (more exactly: value ig_mask_field = absent marker) *)
Definition no_zero_inline (s : survey) : bool := forallb (fun t => ig_mask_populated (fst t)) s.

(* all line numbers and the increments are int32 (SEG-Y header fields are) *)
Definition int32_ok (G : grid) : bool :=
  (- two31 <=? ga_il G) && (ga_il G + (gn_il G - 1) * gs_il G <? two31) && (gs_il G <? two31) &&
  (- two31 <=? ga_xl G) && (ga_xl G + (gn_xl G - 1) * gs_xl G <? two31) && (gs_xl G <? two31) &&
  (gn_il G <? two32) && (gn_xl G <? two32).

Definition geom_of_grid (G : grid) : geom :=
  {| g_min_il := ga_il G; g_max_il := ga_il G + (gn_il G - 1) * gs_il G; g_il_step := gs_il G;
     g_min_xl := ga_xl G; g_max_xl := ga_xl G + (gn_xl G - 1) * gs_xl G; g_xl_step := gs_xl G;
     g_ilines := (ga_il G, ga_il G + (gn_il G - 1) * gs_il G + 1, gs_il G);
     g_xlines := (ga_xl G, ga_xl G + (gn_xl G - 1) * gs_xl G + 1, gs_xl G) |}.

(* ---------------------------------------------------------------- which route the converter takes (D27) *)
(* conversion.detect_geometry asks segyio (seismicfile.SeismicFile.open: segyio.open(strict=False)) whether the file is
   structured.  segyio is EXTERNAL code; this is a hand model of its inference for files with one offset, validated
   against the real segyio on every harness sample: sorting from the first two traces; line length = distance until
   the fast-varying line number of the first trace recurs (or the trace count); slow count = traces // line length;
   accepted when the sampled line numbers are unique and the product is the trace count. *)
Fixpoint recur_from (x : Z) (l : list Z) (k : Z) : Z :=
  match l with
  | [] => k
  | y :: r => if y =? x then k else recur_from x r (k + 1)
  end.
Definition recur (l : list Z) : Z := match l with [] => 0 | x :: r => recur_from x r 1 end.
Fixpoint nodupb (l : list Z) : bool :=
  match l with [] => true | x :: r => negb (existsb (Z.eqb x) r) && nodupb r end.
(* l[0], l[stride], ..., count elements *)
Definition sample (l : list Z) (stride count : Z) : list Z := map (fun k => nth (Z.to_nat (k * stride)) l 0) (zrange 0 count).

Definition segyio_counts (fast slow : list Z) : option (Z * Z) :=      (* (slow count, fast count) *)
  let n := Z.of_nat (length fast) in
  let l2 := recur fast in
  let l1 := n / l2 in
  if (l1 * l2 =? n) && nodupb (sample slow l2 l1) && nodupb (firstn (Z.to_nat l2) fast) then Some (l1, l2) else None.

(* Some (iline count, crossline count) when segyio opens the file as structured *)
Definition segyio_geometry (s : survey) : option (Z * Z) :=
  match s with
  | t0 :: t1 :: _ =>
      if fst t0 =? fst t1 then segyio_counts (map snd s) (map fst s)
      else if snd t0 =? snd t1 then
        match segyio_counts (map fst s) (map snd s) with Some (xc, ic) => Some (ic, xc) | None => None end
      else None
  | _ => None                 (* fewer than two traces: outside the domain of C08 *)
  end.

Inductive route := RRegular | R2D | RIrregular.
(* conversion.SeismicFileConverter.detect_geometry *)
Definition detect_route (s : survey) : route :=
  match segyio_geometry s with
  | Some (ic, xc) => if (ic =? 1) || (xc =? 1) then R2D else RRegular
  | None =>
      let f := hd (0, 0) s in let l := last s (0, 0) in
      if (fst f =? 0) && (snd f =? 0) && (fst l =? 0) && (snd l =? 0) then R2D else RIrregular
  end.
Definition segyio_unstructured (s : survey) : bool := match segyio_geometry s with Some _ => false | None => true end.

(* ---------------------------------------------------------------- entry points for the correspondence harness *)
Definition geom_list (g : geom) : list Z :=
  [g_min_il g; g_max_il g; g_il_step g; g_min_xl g; g_max_xl g; g_xl_step g; n_il g; n_xl g].
Definition ev_geometry (s : survey) : outcome (list Z) := bind (infer_geometry s) (fun g => Return (geom_list g)).
(* the footer array of a field whose per-trace values are vals *)
Definition ev_footer (s : survey) (bs0 : Z) (vals : list Z) : outcome (list Z) :=
  bind (infer_geometry s) (fun g => footer s g bs0 (fun t => nth (Z.to_nat t) vals 0)).
(* ordinal -> grid position for every ordinal in [lo, hi) *)
Definition ev_mask_map (s : survey) (bs0 : Z) (lo hi : Z) : outcome (list (outcome Z)) :=
  bind (ev_footer s bs0 (map fst s)) (fun f => Return (map (mask_nth (mask_of f)) (zrange lo hi))).
Definition ev_headers (s : survey) (bs0 : Z) (vals : list Z) (lo hi : Z) : outcome (list (outcome Z)) :=
  bind (ev_footer s bs0 (map fst s)) (fun fi => bind (ev_footer s bs0 vals) (fun fv =>
  Return (map (gen_header_field (Z.of_nat (length s)) (mask_of fi) fv) (zrange lo hi)))).
(* which source trace (or -1 for zeros) each cell [i, x] of the buffer of plane set ps holds, C order over (bs0, px) *)
Definition ev_plane (s : survey) (bs0 ps px : Z) : outcome (list Z) :=
  bind (infer_geometry s) (fun g =>
  Return (flat_map (fun i => map (fun x => match buffer_cell s g bs0 1 ps i x 0 with CSample t _ => t | CZero => -1 end)
                                (zrange 0 px)) (zrange 0 bs0))).
Definition ev_route (s : survey) : Z * Z * Z :=
  (match detect_route s with RRegular => 0 | R2D => 2 | RIrregular => 1 end,
   match segyio_geometry s with Some (ic, xc) => ic | None => -1 end,
   match segyio_geometry s with Some (ic, xc) => xc | None => -1 end).
Definition ev_axes (s : survey) : outcome (list Z * list Z) :=
  bind (infer_geometry s) (fun g =>
  let h := header_of g (Z.of_nat (length s)) in
  bind (reported_axis h ig_rd_ilines_fields) (fun a => bind (reported_axis h ig_rd_xlines_fields) (fun b => Return (a, b)))).
