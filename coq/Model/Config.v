(* Model/Config.v -- C19 configuration soundness: glue between Gen/Config.v (GENERATED from
   seismic_zfp.utils.define_blockshape* and the run() methods of conversion.py) and the property's vocabulary.

   Nothing here is trusted as a model of the code: `define_blockshape_spec` below is a re-arrangement of the generated
   function that Proofs/Config.v proves EQUAL to it by conversion (`gen_is_spec`, by reflexivity), so that the proofs
   can name the two phases of the function (resolution of the free parameter, validation of the result).
   The only hand model is `hdr_rate_code` (three lines of conversion_utils.make_header, pinned in tools/pinlist.txt
   and compared with the header of every file the harness writes). *)
From Coq Require Import ZArith QArith Qround List Bool Lia.
From SZ Require Import Lib.Py Lib.PyConfig Gen.Config.
Import ListNotations.
Open Scope Z_scope.

(* ---------------------------------------------------------------- requests and resolved configurations *)
(* a request: 2D or 3D converter, bits_per_voxel as given (int / float / str), blockshape as given; -1 = free *)
Record cfg := { c_2d : bool; c_bpv : pyarg; c_bs : Z * Z * Z }.
Definition resolved := (Q * (Z * Z * Z))%type.

(* what the converter's run() does with the request before it creates the output file *)
Definition resolve (c : cfg) : outcome resolved :=
  if c_2d c then define_blockshape_2d (c_bpv c) (c_bs c) else define_blockshape_3d (c_bpv c) (c_bs c).

(* ---------------------------------------------------------------- the property's definition of a valid setting *)
Definition rates : list Q := [(1 # 4)%Q; (1 # 2)%Q; (1 # 1)%Q; (2 # 1)%Q; (4 # 1)%Q; (8 # 1)%Q; (16 # 1)%Q; (32 # 1)%Q].
Definition is_rate (q : Q) : Prop := exists k, In k rates /\ (q == k)%Q.
Definition pow2_ge4 (n : Z) : Prop := exists k, 2 <= k /\ n = 2 ^ k.

(* "the bit rate is one of 1/4, 1/2, 1, 2, 4, 8, 16, 32, the block dimensions are powers of two of at least 4 (the
   first being 1 for 2D) and dimensions times bit rate make 32768 bits" *)
Definition wf (d2 : bool) (r : resolved) : Prop :=
  let '(q, (b0, b1, b2)) := r in
  is_rate q /\ (if d2 then b0 = 1 else pow2_ge4 b0) /\ pow2_ge4 b1 /\ pow2_ge4 b2 /\
  (q * inject_Z (b0 * b1 * b2) == inject_Z 32768)%Q.

(* D13: ZFP cannot code a 4x4 unit of floats in fewer than 9 bits, so the (repaired) code refuses 2D below 1 bit *)
Definition supported (d2 : bool) (q : Q) : Prop := d2 = true -> (1 <= q)%Q.

(* boolean versions (for computation and for the non-vacuity examples) *)
Definition pow2_ge4b (n : Z) : bool := (4 <=? n) && (Z.land n (n - 1) =? 0).
Definition wfb (d2 : bool) (r : resolved) : bool :=
  let '(q, (b0, b1, b2)) := r in
  q_in q rates && (if d2 then b0 =? 1 else pow2_ge4b b0) && pow2_ge4b b1 && pow2_ge4b b2 &&
  Qeq_bool (q * inject_Z (b0 * b1 * b2)) (inject_Z 32768).
Definition supportedb (d2 : bool) (q : Q) : bool := negb d2 || Qle_bool 1 q.

(* the number a bits_per_voxel argument denotes; a str denotes what float() makes of it *)
Definition arg_value (a : pyarg) : option Q :=
  match a with AInt z => Some (inject_Z z) | AFloat q => Some q | AStr v => v end.
(* "negative value implies reciprocal": the rate a number other than -1 denotes *)
Definition rate_of_value (v : Q) : Q := if Qlt_bool v (inject_Z (-1)) then (inject_Z 1 / - v)%Q else v.

(* a fully specified valid request (nothing free) *)
Definition valid (c : cfg) : Prop :=
  exists v, arg_value (c_bpv c) = Some v /\ wf (c_2d c) (rate_of_value v, c_bs c).
Definition validb (c : cfg) : bool :=
  match arg_value (c_bpv c) with Some v => wfb (c_2d c) (rate_of_value v, c_bs c) | None => false end.

(* free parameters: a block dimension equal to -1, a bits_per_voxel denoting -1 *)
Definition free_count (c : cfg) : Z :=
  let '(b0, b1, b2) := c_bs c in
  py_count [b0 =? -1; b1 =? -1; b2 =? -1;
            match arg_value (c_bpv c) with Some v => Qeq_bool v (inject_Z (-1)) | None => false end].

(* r completes the request c: every parameter that is not free is kept *)
Definition completes (c : cfg) (r : resolved) : Prop :=
  let '(b0, b1, b2) := c_bs c in
  let '(q, (x, y, z)) := r in
  (b0 = -1 \/ x = b0) /\ (b1 = -1 \/ y = b1) /\ (b2 = -1 \/ z = b2) /\
  exists v, arg_value (c_bpv c) = Some v /\ ((v == inject_Z (-1))%Q \/ (q == rate_of_value v)%Q).

(* ---------------------------------------------------------------- the generated function, re-arranged *)
(* the validation every path ends with *)
Definition final_checks (d2 : bool) (q : Q) (x y z : Z) : outcome resolved :=
  if negb (q_in q rates) then Raise ValueErr
  else if d2 && Qlt_bool q (inject_Z 1) then Raise ValueErr
  else if existsb (fun n => negb ((n >=? 4) && (Z.land n (n - 1) =? 0))) (if d2 then [y; z] else [x; y; z])
       then Raise ValueErr
  else if Qeq_bool (((q * inject_Z x) * inject_Z y) * inject_Z z) (inject_Z (4096 * 8))
       then Return (q, (x, y, z))
  else Raise AssertErr.

(* `1 / -x if x < -1 else x` *)
Definition recip_step (v : Q) : outcome Q :=
  if Qlt_bool v (inject_Z (-1)) then bind (q_truediv (inject_Z 1) (- v)) (fun t => Return t) else Return v.

Definition define_blockshape_spec (a : pyarg) (bs : Z * Z * Z) (d2 : bool) : outcome resolved :=
  let '(b0, b1, b2) := bs in
  if py_count [b0 =? -1; b1 =? -1; b2 =? -1; arg_eq_int a (-1)] >? 1 then Raise ValueErr
  else bind (arg_to_num a) (fun v => bind (recip_step v) (fun q =>
    if Qeq_bool q (inject_Z (-1)) then
      bind (q_truediv (inject_Z (4096 * 8)) (inject_Z (b0 * b1 * b2))) (fun t => final_checks d2 t b0 b1 b2)
    else if b0 =? -1 then
      bind (q_floordiv (inject_Z (4096 * 8)) (inject_Z (b1 * b2) * q)) (fun t => final_checks d2 q (q_int t) b1 b2)
    else if b1 =? -1 then
      bind (q_floordiv (inject_Z (4096 * 8)) (inject_Z (b2 * b0) * q)) (fun t => final_checks d2 q b0 (q_int t) b2)
    else if b2 =? -1 then
      bind (q_floordiv (inject_Z (4096 * 8)) (inject_Z (b0 * b1) * q)) (fun t => final_checks d2 q b0 b1 (q_int t))
    else final_checks d2 q b0 b1 b2)).

(* ---------------------------------------------------------------- the header the writer makes of a configuration *)
(* conversion_utils.make_header (HAND MODEL, pinned):
     if bits_per_voxel < 1: bpv = -int(1 / bits_per_voxel)  else: bpv = int(bits_per_voxel)
     buffer[40:44] = signed_int_to_bytes(bpv); buffer[44:56] = the three block dimensions *)
Definition hdr_rate_code (q : Q) : Z :=
  if Qlt_bool q (inject_Z 1) then - q_int (inject_Z 1 / q) else q_int q.
