(* Model/Faults.v -- hand model of the I/O mechanism for C17 (faults) and C18 (partial files).

   What is modelled (each item mirrors a pinned /repo function or a term of the GENERATED file Gen/Faults.v):
   * the backend: a range read (off, len) against a file (a list of bytes) answers Full, Short k or Fail;
     Full on a file that is too short delivers fewer bytes (that is what a truncated file does);
   * the choke point utils.read_range_file / read_range_blob + check_range_length: the guard is the generated
     `check_range_length_raises`, applied iff the generated wiring flag says so;
   * a task = one checked range read followed by slice assignments  buffer[dst:dst+n] = part[src:src+n]
     (loader._insert_into_buffer, _distribute_chunk_into_buffer), with Python's slice-assignment semantics (a part
     of the wrong length changes the length of the bytearray);
   * sequential loops (first failure propagates at once) and ThreadPoolExecutor fan-outs: every task runs exactly once
     whatever the others do, its exception is stored in its future, the slice assignments of all successful tasks
     reach the shared buffer in an ARBITRARY order (any permutation: this over-approximates every interleaving of
     the worker threads, slice assignment being atomic under the GIL), and `for f in futures: f.result()`
     re-raises the first stored exception iff the generated flag `..._collected` is true;
   * readers as programs that interact with the file only through the choke point and never catch (Gen/Faults.v:
     raw_io_outside_choke_point = [] records that there is no other I/O and no try block);
   * a conversion as a list of writes (offset, bytes): appends and in-place patches; a crash point is a prefix with a
     partial last write;
   * headers.HeaderwordInfo.get_header_dict (the decoding of the 89-row table, with the count assertion).
   Bytes are abstract (Section variable B). *)
From Coq Require Import ZArith List Bool Lia Arith Permutation.
Import ListNotations.
From SZ Require Import Lib.Py Gen.Faults.
Open Scope nat_scope.

Section BYTES.
Variable B : Type.

(* ------------------------------------------------------------------ backend and choke point *)
Inductive answer := Full | Short (k : nat) | Fail.

(* Python file[off:off+len] / f.seek(off); f.read(len) on a file that may be shorter *)
Definition range_bytes (file : list B) (off len : nat) : list B := firstn len (skipn off file).

Definition raw_read (file : list B) (a : answer) (off len : nat) : option (list B) :=
  match a with
  | Fail => None
  | Full => Some (range_bytes file off len)
  | Short k => Some (firstn k (range_bytes file off len))
  end.

(* wired: utils.read_range_file / read_range_blob pass the bytes through check_range_length (generated flag);
   guard: the generated condition under which check_range_length raises *)
Definition checked_read (wired : bool) (guard : Z -> Z -> bool) (file : list B) (a : answer) (off len : nat)
  : outcome (list B) :=
  match raw_read file a off len with
  | None => Raise IOErr
  | Some d => if wired && guard (Z.of_nat (length d)) (Z.of_nat len) then Raise IOErr else Return d
  end.

(* "the range read did not fail and returned as many bytes as requested" *)
Definition delivered (file : list B) (a : answer) (off len : nat) : bool :=
  match raw_read file a off len with None => false | Some d => Nat.eqb (length d) len end.

(* ------------------------------------------------------------------ buffers, moves, tasks *)
(* buf[pos:pos+n] = part *)
Definition splice (buf : list B) (pos n : nat) (part : list B) : list B :=
  firstn pos buf ++ part ++ skipn (pos + n) buf.

Definition op := (nat * nat * list B)%type.                  (* destination, length of the slice, bytes *)
Definition apply_op (buf : list B) (o : op) : list B :=
  match o with (p, n, bs) => splice buf p n bs end.

Definition move := (nat * nat * nat)%type.                   (* source offset in the part, length, destination *)
Record task := { t_off : nat; t_len : nat; t_moves : list move }.

Definition ops_of (part : list B) (t : task) : list op :=
  map (fun m => match m with (s, n, d) => (d, n, range_bytes part s n) end) (t_moves t).

(* well-formedness of a set of destination slots in a buffer of length L (boolean) *)
Definition slot_disj (a b : nat * nat) : bool :=
  (fst a + snd a <=? fst b) || (fst b + snd b <=? fst a).
Fixpoint slots_okb (L : nat) (s : list (nat * nat)) : bool :=
  match s with
  | [] => true
  | a :: r => (fst a + snd a <=? L) && forallb (slot_disj a) r && slots_okb L r
  end.
Definition slot_of (o : op) : nat * nat := match o with (p, n, _) => (p, n) end.
Definition ops_okb (L : nat) (ops : list op) : bool :=
  slots_okb L (map slot_of ops) && forallb (fun o => match o with (_, n, bs) => Nat.eqb (length bs) n end) ops.
(* every move of a task stays inside the bytes read *)
Definition task_okb (t : task) : bool :=
  forallb (fun m => match m with (s, n, _) => s + n <=? t_len t end) (t_moves t).
Definition task_slots (t : task) : list (nat * nat) := map (fun m => match m with (_, n, d) => (d, n) end) (t_moves t).

Section RUN.
Variable wired : bool.
Variable guard : Z -> Z -> bool.
Variable file : list B.
Variable fa : nat -> answer.            (* fault assignment: what the backend does to the k-th range read of the call *)

(* a sequential loop of range reads (il_set, read_chunk_range, the unshuffle loops, 2D, footer reads):
   the first failure propagates, later reads are not issued *)
Fixpoint seq_run (k : nat) (ts : list task) (buf : list B) : outcome (list B) :=
  match ts with
  | [] => Return buf
  | t :: r => bind (checked_read wired guard file (fa k) (t_off t) (t_len t))
                   (fun part => seq_run (S k) r (fold_left apply_op (ops_of part t) buf))
  end.

(* a thread-pool fan-out *)
Fixpoint results (k : nat) (ts : list task) : list (outcome (list B)) :=
  match ts with
  | [] => []
  | t :: r => checked_read wired guard file (fa k) (t_off t) (t_len t) :: results (S k) r
  end.
Fixpoint ok_ops (ts : list task) (rs : list (outcome (list B))) : list op :=
  match ts, rs with
  | t :: ts', Return part :: rs' => ops_of part t ++ ok_ops ts' rs'
  | _ :: ts', Raise _ :: rs' => ok_ops ts' rs'
  | _, _ => []
  end.
Fixpoint first_error (rs : list (outcome (list B))) : option exn :=
  match rs with
  | [] => None
  | Raise e :: _ => Some e
  | Return _ :: r => first_error r
  end.
(* collected: every future is kept and .result() is called on it after the pool has drained (generated flag).
   sched: the order in which the slice assignments of the successful tasks reached the buffer. *)
Definition fanout (collected : bool) (ts : list task) (sched : list op) (buf0 : list B) : outcome (list B) :=
  let buf := fold_left apply_op sched buf0 in
  if collected then match first_error (results 0 ts) with Some e => Raise e | None => Return buf end
  else Return buf.
Definition schedule_of (ts : list task) (sched : list op) : Prop := Permutation sched (ok_ops ts (results 0 ts)).
End RUN.

(* the true data: what the slice assignments write when every read returns the bytes of the file *)
Definition true_ops (file : list B) (ts : list task) : list op :=
  flat_map (fun t => ops_of (range_bytes file (t_off t) (t_len t)) t) ts.
Definition true_buffer (file : list B) (ts : list task) (buf0 : list B) : list B :=
  fold_left apply_op (true_ops file ts) buf0.

(* ------------------------------------------------------------------ readers as programs *)
Inductive prog (R : Type) :=
| PRet (r : R)
| PErr (e : exn)
| PRead (off len : nat) (k : list B -> prog R).
Arguments PRet {R} r.
Arguments PErr {R} e.
Arguments PRead {R} off len k.

Fixpoint run {R} (wired : bool) (guard : Z -> Z -> bool) (file : list B) (p : prog R) : outcome R :=
  match p with
  | PRet r => Return r
  | PErr e => Raise e
  | PRead off len k => bind (checked_read wired guard file Full off len) (fun d => run wired guard file (k d))
  end.

(* ------------------------------------------------------------------ writes and crash points (C18) *)
Definition wr := (nat * list B)%type.            (* f.seek(off); f.write(data)   (an append has off = current length) *)
Definition write_at (f : list B) (w : wr) : list B := splice f (fst w) (length (snd w)) (snd w).
Definition apply_writes (ws : list wr) (f : list B) : list B := fold_left write_at ws f.
(* no write starts beyond the current end of the file (no holes) *)
Fixpoint writes_wf (len : nat) (ws : list wr) : bool :=
  match ws with
  | [] => true
  | w :: r => (fst w <=? len) && writes_wf (Nat.max len (fst w + length (snd w))) r
  end.
Definition cut_write (w : wr) (j : nat) : wr := (fst w, firstn j (snd w)).
(* the file when writing stopped j bytes into write w, after the writes pre *)
Definition crash (pre : list wr) (w : wr) (j : nat) : list B := apply_writes (pre ++ [cut_write w j]) [].
Definition complete (pre : list wr) (w : wr) (post : list wr) : list B := apply_writes (pre ++ w :: post) [].
(* byte i is not written (again) by write w *)
Definition untouched (i : nat) (w : wr) : bool := (i <? fst w) || (fst w + length (snd w) <=? i).
(* byte i of the crash file is final: the rest of w and the later writes leave it alone *)
Definition final_byte (w : wr) (j : nat) (post : list wr) (i : nat) : bool :=
  ((i <? fst w + j) || (fst w + length (snd w) <=? i)) && forallb (untouched i) post.

(* two byte strings read at offset off from the crash file and from the complete file: same length, and equal at
   every position whose byte is final *)
Definition agree (w : wr) (j : nat) (post : list wr) (off : nat) (d d' : list B) : Prop :=
  length d = length d' /\ forall i x, i < length d -> final_byte w j post (off + i) = true -> nth i d x = nth i d' x.

(* a pair of programs that behave alike as long as the bytes they are given agree *)
Fixpoint robust {R} (w : wr) (j : nat) (post : list wr) (p p' : prog R) : Prop :=
  match p, p' with
  | PRet r, PRet r' => r = r'
  | PErr _, PErr _ => True
  | PRead off len k, PRead off' len' k' =>
      off = off' /\ len = len' /\
      forall d d', length d = len -> agree w j post off d d' -> robust w j post (k d) (k' d')
  | _, _ => False
  end.
End BYTES.

Arguments PRet {B R} r.
Arguments PErr {B R} e.
Arguments PRead {B R} off len k.

(* ------------------------------------------------------------------ length-level (Z) version, for evaluation *)
(* the same backend and choke point on lengths only: used by the harness to run the model on the recorded plans *)
Open Scope Z_scope.
Inductive zanswer := ZFull | ZShort (k : Z) | ZFail.
Definition got_len (L : Z) (a : zanswer) (off len : Z) : option Z :=
  let avail := Z.max 0 (Z.min len (L - off)) in
  match a with ZFail => None | ZFull => Some avail | ZShort k => Some (Z.min (Z.max 0 k) avail) end.
Definition zdelivered (L : Z) (a : zanswer) (off len : Z) : bool :=
  match got_len L a off len with None => false | Some n => n =? len end.
Definition zchecked_raises (wired : bool) (guard : Z -> Z -> bool) (L : Z) (a : zanswer) (off len : Z) : bool :=
  match got_len L a off len with None => true | Some n => wired && guard n len end.
Fixpoint assoc_answer (l : list (Z * zanswer)) (k : Z) : zanswer :=
  match l with [] => ZFull | (k', a) :: r => if k =? k' then a else assoc_answer r k end.
Fixpoint plan_raises_from (wired : bool) (guard : Z -> Z -> bool) (L : Z) (fa : list (Z * zanswer)) (k : Z)
                          (plan : list (Z * Z)) : bool :=
  match plan with
  | [] => false
  | (off, len) :: r => zchecked_raises wired guard L (assoc_answer fa k) off len
                       || plan_raises_from wired guard L fa (k + 1) r
  end.
(* does a call whose fault-free run issues the range reads `plan` raise, on a file of length L, under the faults fa?
   file = local file object, blob = remote backend *)
Definition predict_raises_file (L : Z) (fa : list (Z * zanswer)) (plan : list (Z * Z)) : bool :=
  plan_raises_from read_range_file_checked check_range_length_raises L fa 0 plan.
Definition predict_raises_blob (L : Z) (fa : list (Z * zanswer)) (plan : list (Z * Z)) : bool :=
  plan_raises_from read_range_blob_checked check_range_length_raises L fa 0 plan.
(* C18: the same call on the file cut to each of the lengths in `cuts` (no injected fault) *)
Definition predict_cuts (cuts : list Z) (plan : list (Z * Z)) : list bool :=
  map (fun L => predict_raises_file L [] plan) cuts.

(* ------------------------------------------------------------------ the header table (headers.get_header_dict) *)
Definition entry := (Z * Z * Z)%type.             (* trace header byte position, constant, source position *)
Inductive hval := HConst (v : Z) | HOffset (slot : nat).
Fixpoint hlookup (k : Z) (d : list (Z * hval)) : option hval :=
  match d with [] => None | (k', h) :: r => if k =? k' then Some h else hlookup k r end.
Fixpoint header_dict (rows : list entry) (dict : list (Z * hval)) (stored : nat) : list (Z * hval) * nat :=
  match rows with
  | [] => (dict, stored)
  | (k, v0, v1) :: r =>
      if negb (v0 =? 0) || (v1 =? 0) then header_dict r (dict ++ [(k, HConst v0)]) stored
      else match hlookup v1 dict with
           | Some h => header_dict r (dict ++ [(k, h)]) stored
           | None => header_dict r (dict ++ [(k, HOffset stored)]) (S stored)
           end
  end.
(* _decode_traceheader_template: assert len(stored_header_keys) == n_header_arrays *)
Definition open_table (rows : list entry) (count : Z) : outcome (list (Z * hval)) :=
  let (d, s) := header_dict rows [] 0 in
  if Z.of_nat s =? count then Return d else Raise AssertErr.

(* the 'thorough' route: the table written with the header has every row variant (0, own position);
   write_headers later turns the rows whose array is constant into (value, 0) and patches count and table *)
Definition row_variant (e : entry) : bool := match e with (k, v0, v1) => (v0 =? 0) && (v1 =? k) && negb (k =? 0) end.
Definition row_const (e : entry) : bool := match e with (k, v0, v1) => (v1 =? 0) end.
Definition initial_row (e : entry) : entry := match e with (k, _, _) => (k, 0, k) end.
Definition thorough_table_okb (final_rows : list entry) : bool :=
  forallb (fun e => (row_variant e || row_const e) && negb (fst (fst e) =? 0)) final_rows.
Fixpoint distinct_keys (rows : list entry) : bool :=
  match rows with
  | [] => true
  | (k, _, _) :: r => negb (existsb (fun e => fst (fst e) =? k) r) && distinct_keys r
  end.
Definition n_variant (rows : list entry) : nat := length (filter row_variant rows).
(* the table when the patch stopped at a row boundary: the first j rows new, the others still the initial ones *)
Definition torn_table (final_rows : list entry) (j : nat) : list entry :=
  firstn j final_rows ++ map initial_row (skipn j final_rows).
