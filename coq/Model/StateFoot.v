(* Model/StateFoot.v -- C15a: which object state a public method may write.

   Gen/StateFoot.v is a static census (tools/genx_statefoot.py) of the write footprint of every method of every public
   class, closed under the calls it makes.  This file fixes
     - the CACHE set of each class: the pieces of object state whose content is a function of the file alone and
       whose soundness is the invariant `cache_sound` of Model/Caches.v + Proofs/Caches.v (C15):
         mask, variant_headers, include_padding          d_mask, d_vh, d_ipad   (lazy reader caches)
         _read_containing_chunk_cached@lru               d_chunks               (per-reader chunk LRU)
         loader.<method>@lru                             slots                  (class-level lru tables; the method names
                                                                                 are those of Gen/Caches.v)
         file@pos, loader.file@pos                       h_pos                  (position of the handle: irrelevant)
         loader.compressed_volume                        r_vol                  (preloaded volume)
     - the EXCEPTIONS: (class, method, token, kind, reason) -- every write of a public method that is not a cache write
       must be listed here, and each kind must be backed by evidence the generator found in the source;
     - the check `census_ok`, a function of the generated data (so that the refuted forms are instances of it).
   The abstract machine and the preservation theorem are in Proofs/StateFoot.v. *)
From Coq Require Import List String Bool Arith.
From SZ Require Import Gen.Caches Gen.StateFoot.
Import ListNotations.
Local Open Scope string_scope.

Definition smem (x : string) (l : list string) : bool := existsb (String.eqb x) l.

(* ---------------------------------------------------------------------------------------------- the cache set *)
Definition loader_lru_names : list string :=
  map (fun x => fst (fst x)) (cached_methods_2d ++ cached_methods_3d).           (* from Gen/Caches.v *)
Definition loader_cache : list string :=
  ["file@pos"; "compressed_volume"] ++ map (fun n => n ++ "@lru") loader_lru_names.
Definition reader_cache : list string :=
  ["mask"; "variant_headers[]"; "include_padding"; "file@pos"; "_read_containing_chunk_cached@lru"]
  ++ map (fun t => "loader." ++ t) loader_cache.
Definition cache_of (c : class) : list string :=
  if smem "SgzReader" (c_mro c) then reader_cache
  else if smem "SgzLoader" (c_mro c) then loader_cache
  else if String.eqb (c_name c) "SeismicZfpBackendArray" then map (fun t => "sgz_reader." ++ t) reader_cache
  else [].

(* ---------------------------------------------------------------------------------------------- lifecycle methods
   outside the statement: construction, context-manager entry/exit and closing (they create or end the object) *)
Definition lifecycle : list string :=
  ["__init__"; "__new__"; "__enter__"; "__exit__"; "__del__"; "close"; "close_sgz_file"].
Definition checked (m : meth) : bool := m_public m && negb (smem (m_name m) lifecycle).

(* ---------------------------------------------------------------------------------------------- exceptions *)
Inductive ekind :=
| Restored      (* written inside the call, entry value back when the call returns or raises (save / try / finally) *)
| Transient     (* a lock taken by a `with` statement: held during the call only *)
| Scratch       (* per-call scratch kept on self: every method that reads it assigns it first *)
| GuardedAlias  (* static may-write through an alias; the writing branch is not taken for this caller *)
| InputMemo.    (* lazily computed function of the converter's INPUT file, computed at most once *)
Record exn_row := mkE { e_class : string; e_method : string; e_token : string; e_kind : ekind; e_reason : string }.

Definition converters : list string := ["SeismicFileConverter"; "SegyConverter"; "ZgyConverter"; "VdsConverter"].
Definition geom_reason : string :=
  "geom of a SEG-Y/ZGY/VDS converter is detected from the input file by the constructor, or, for an irregular survey, inferred by the first run() (if self.geom is None): a memo of a function of the input file; detect_geometry / infer_geometry are the helpers doing it and take the open input as argument (calling them by hand with another file re-targets the converter: not a read)".
Definition exceptions : list exn_row :=
  [ mkE "SgzConverter" "convert_to_segy" "headerbytes" Restored
        "the SEG-Y format code is substituted in a copy assigned to self.headerbytes for write_segy and the saved original is put back in a finally block (repair of D46)";
    mkE "SeismicZfpBackendArray" "__getitem__" "lock@with" Transient
        "threading.Lock serialising reads of the single reader (repair of D51): released when the with block is left";
    mkE "NumpyConverter" "run" "geom" Scratch
        "run() assigns self.geom = Geometry3d(0, len(ilines), 0, len(xlines)) before using it; nothing else reads it";
    mkE "NumpyConverter" "run" "trace_headers[]" GuardedAlias
        "HeaderwordInfo(variant_header_dict=self.trace_headers) keeps a reference; run_conversion_loop writes headers_dict only in the producers used when the source is not a CubeWithAxes, and run() passes a CubeWithAxes" ]
  ++ flat_map (fun c => map (fun m => mkE c m "geom" InputMemo geom_reason) ["run"; "detect_geometry"; "infer_geometry"]) converters.

Definition triple_mem (a b c : string) (l : list (string * string * string)) : bool :=
  existsb (fun t => String.eqb a (fst (fst t)) && String.eqb b (snd (fst t)) && String.eqb c (snd t)) l.
Definition ends_with_with (t : string) : bool :=
  let n := String.length t in String.eqb (substring (n - 5) 5 t) "@with".

(* an exception counts only with its evidence from the generated data *)
Definition evidence (restored_l : list (string * string * string)) (scratch_l : list (string * string * list string))
                    (alias_guard : bool) (e : exn_row) : bool :=
  match e_kind e with
  | Restored => triple_mem (e_class e) (e_method e) (e_token e) restored_l
  | Transient => ends_with_with (e_token e)
  | Scratch => existsb (fun t => String.eqb (e_class e) (fst (fst t)) && String.eqb (e_token e) (snd (fst t))) scratch_l
  | GuardedAlias => alias_guard
  | InputMemo => true
  end.
Definition excepted (restored_l : list (string * string * string)) (scratch_l : list (string * string * list string))
                    (alias_guard : bool) (c m t : string) : bool :=
  existsb (fun e => String.eqb (e_class e) c && String.eqb (e_method e) m && String.eqb (e_token e) t
                    && evidence restored_l scratch_l alias_guard e) exceptions.

(* ---------------------------------------------------------------------------------------------- the check *)
Definition token_ok restored_l scratch_l alias_guard (c : class) (m : meth) (t : string) : bool :=
  smem t (cache_of c) || excepted restored_l scratch_l alias_guard (c_name c) (m_name m) t.
Definition method_ok restored_l scratch_l alias_guard (c : class) (m : meth) : bool :=
  negb (checked m) || forallb (token_ok restored_l scratch_l alias_guard c m) (m_closure m).
Definition class_ok restored_l scratch_l alias_guard (c : class) : bool :=
  forallb (method_ok restored_l scratch_l alias_guard c) (c_methods c).

Definition pair_mem (a b : string) (l : list (string * string)) : bool :=
  existsb (fun t => String.eqb a (fst t) && String.eqb b (snd t)) l.
(* the only method allowed to call the sticky public read_variant_headers itself, and why *)
Definition sticky_allowed : list (string * string) := [("SgzCropper", "write_cropped_file_by_indexes")].

Definition check (cen : list class) (fns : list (string * list string * list string))
                 (restored_l : list (string * string * string)) (scratch_l : list (string * string * list string))
                 (defaults : list (string * string * string * bool)) (order_uses : list (string * string * string))
                 (sticky : list (string * string)) (crop_guard alias_guard : bool) : bool :=
  forallb (class_ok restored_l scratch_l alias_guard) cen
  && forallb (fun f => match snd (fst f) with [] => true | _ => false end) fns           (* functions write no global state *)
  && forallb (fun d => negb (snd d)) defaults                                          (* no shared default carries state *)
  && match order_uses with [] => true | _ => false end                                 (* the order of a memo is never observed *)
  && forallb (fun p => pair_mem (fst p) (snd p) sticky_allowed) sticky
  && (match sticky with [] => true | _ => crop_guard end).

Definition census_ok : bool :=
  check census census_functions restored scratch mutable_defaults memo_order_uses sticky_header_callers
        cropper_structured_guard numpy_source_branch_guard.

(* ---------------------------------------------------------------------------------------------- protected state
   an attribute token of class c is PROTECTED when it is neither a cache nor named by an exception of a kind that
   leaves a different value behind (Scratch, GuardedAlias, InputMemo).  Restored / Transient tokens stay protected:
   they hold their entry value when the call ends. *)
Definition leaves_value (k : ekind) : bool := match k with Restored | Transient => false | _ => true end.
Definition restoring restored_l scratch_l alias_guard (c m t : string) : bool :=
  existsb (fun e => String.eqb (e_class e) c && String.eqb (e_method e) m && String.eqb (e_token e) t
                    && negb (leaves_value (e_kind e)) && evidence restored_l scratch_l alias_guard e) exceptions.
Definition protected (c : class) (x : string) : bool :=
  negb (smem x (cache_of c))
  && negb (existsb (fun e => String.eqb (e_class e) (c_name c) && String.eqb (e_token e) x && leaves_value (e_kind e)) exceptions).
(* what a call may leave changed: its footprint minus what it restores *)
Definition effective (c : class) (m : meth) : list string :=
  filter (fun t => negb (restoring restored scratch numpy_source_branch_guard (c_name c) (m_name m) t)) (m_closure m).
