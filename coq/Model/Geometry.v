(* Model/Geometry.v -- C05 geometry preservation.
   Semantics (hand-written) of the expression language in which tools/genx_geometry.py emits
   - what conversion_utils.make_header writes to header bytes 4:16, 16:40, 68:72   (Gen/Geometry.v: wr_field_<off>)
   - how read.SgzReader._parse_coordinates / utils.gen_coord_list regenerate the axes (rd_axis_*, gen_coord_list_body)
   The semantics covers: Python int / np.int64 (VZ), np.int32 (VI32, wraps), binary64 (VF, Coq primitive floats),
   struct.pack('<i'/'<I') and struct.unpack('<I'/'<i') of 4 bytes, .astype(int) / .astype('intc') / .astype('float'),
   np.rint, int/int true division.  A header field is represented by the UNSIGNED 32-bit number its four
   little-endian bytes encode.  Mirrored /repo functions (pinned in tools/pinlist.txt): utils.np_float_to_bytes_signed,
   np_float_to_bytes, int_to_bytes, signed_int_to_bytes, bytes_to_int, bytes_to_signed_int, Geometry3d.__init__,
   conversion.SegyConverter.detect_geometry, NumpyConverter.run (geom of a regular source = range(0, len(axis))).
   segyio's sample axis  (numpy.arange(n) * (dt_us / 1000.0)) + t0  is external code, modelled by hand (segy_samples).
   Everything here is validated against the implementation by tools/checks/geometry.py on every run. *)
From Coq Require Import ZArith List Bool String Lia.
From Coq Require PrimFloat Uint63 FloatClass.
From SZ Require Import Lib.Py Gen.Utils Gen.Version Gen.Reader Gen.Geometry.
Import ListNotations.
Open Scope Z_scope.

Notation float := PrimFloat.float.

(* ------------------------------------------------------------------ 32/64-bit integers *)
Definition two31 : Z := 2147483648.
Definition two32 : Z := 4294967296.
Definition two53 : Z := 9007199254740992.
Definition two63 : Z := 9223372036854775808.
Definition two64 : Z := 18446744073709551616.
(* the unsigned value of the 4 bytes struct.pack('<i', x) produces = what struct.unpack('<I') reads back *)
Definition u32 (x : Z) : Z := x mod two32.
(* two's complement reinterpretation: struct.unpack('<i') of 4 bytes holding u / .astype('intc') of an int64 *)
Definition wrap32 (x : Z) : Z := (x + two31) mod two32 - two31.
(* int64 array arithmetic wraps silently *)
Definition wrap64 (x : Z) : Z := (x + two63) mod two64 - two63.
Definition int32_ok (x : Z) : bool := (- two31 <=? x) && (x <? two31).

(* ------------------------------------------------------------------ binary64 through Coq's primitive floats *)
Definition f_of_pos (z : Z) : float := PrimFloat.of_uint63 (Uint63.of_Z z).
(* conversion of an integer with |z| < 2^63 (round to nearest even above 2^53, exact below: as C / numpy do) *)
Definition f_of_Z (z : Z) : float := if z <? 0 then PrimFloat.opp (f_of_pos (- z)) else f_of_pos z.
Definition f_zero : float := f_of_pos 0.
Definition f_is_finite (x : float) : bool :=
  match PrimFloat.classify x with FloatClass.NaN | FloatClass.PInf | FloatClass.NInf => false | _ => true end.
Definition f_signbit (x : float) : bool :=
  match PrimFloat.classify x with
  | FloatClass.NNormal | FloatClass.NSubn | FloatClass.NZero | FloatClass.NInf => true | _ => false end.
(* |x| = m * 2^e exactly, for finite x (m < 2^53); frshiftexp gives a fraction in [1/2,1) and the exponent + 2101 *)
Definition f_decomp (x : float) : Z * Z :=
  let (m, e) := PrimFloat.frshiftexp (PrimFloat.abs x) in
  (Uint63.to_Z (PrimFloat.normfr_mantissa m), Uint63.to_Z e - 2101 - 53).
(* truncation toward zero: float64 -> int64 of .astype(int), for finite x *)
Definition f_trunc_Z (x : float) : Z :=
  let (m, e) := f_decomp x in
  let a := if 0 <=? e then Z.shiftl m e else Z.shiftr m (- e) in
  if f_signbit x then - a else a.
(* m * 2^e (m >= 0) rounded to the nearest integer, ties to even *)
Definition rne_Z (m e : Z) : Z :=
  if 0 <=? e then Z.shiftl m e else
  let q := Z.shiftr m (- e) in
  let r := m - Z.shiftl q (- e) in
  let h := Z.shiftl 1 (- e - 1) in
  if r <? h then q else if h <? r then q + 1 else if Z.even q then q else q + 1.
(* np.rint on a float64: nearest integer, ties to even, sign kept (also of zero); infinities, NaN and |x| >= 2^52 unchanged *)
Definition f_rint (x : float) : float :=
  if negb (f_is_finite x) then x else
  let (m, e) := f_decomp x in
  if 0 <=? e then x else
  let a := f_of_pos (rne_Z m e) in if f_signbit x then PrimFloat.opp a else a.
Definition class_eqb (a b : FloatClass.float_class) : bool :=
  match a, b with
  | FloatClass.PNormal, FloatClass.PNormal | FloatClass.NNormal, FloatClass.NNormal
  | FloatClass.PSubn, FloatClass.PSubn | FloatClass.NSubn, FloatClass.NSubn
  | FloatClass.PZero, FloatClass.PZero | FloatClass.NZero, FloatClass.NZero
  | FloatClass.PInf, FloatClass.PInf | FloatClass.NInf, FloatClass.NInf => true
  | _, _ => false
  end.
(* same non-NaN binary64 value including the sign of zero, i.e. the same 64 bits *)
Definition f_same (x y : float) : bool := PrimFloat.eqb x y && class_eqb (PrimFloat.classify x) (PrimFloat.classify y).

(* ------------------------------------------------------------------ values and environments *)
Inductive val := VZ (z : Z) | VI32 (z : Z) | VF (f : float).

Record genv := {
  e_var : gvar -> val;            (* scalar parameters: tracecount, geom.min_il ..., start / step / count of gen_coord_list *)
  e_arr : garr -> list val;       (* ilines, xlines, samples, geom.ilines, geom.xlines, geom.traces *)
  e_flag : gflag -> bool;         (* unstructured, isinstance(geom, Geometry2d) *)
  e_idx : option Z;               (* Some k: elementwise evaluation of an array expression, np.arange(..)[k] = k *)
  e_u32 : Z -> Z;                 (* reader: unsigned value of the 4 header bytes at an offset *)
  e_f64 : Z -> float;             (* reader: value of the 8 header bytes at an offset *)
  e_ver : Z                       (* reader: encoding of self.file_version *)
}.

Definition to_f (v : val) : outcome float :=
  match v with
  | VF f => Return f
  | VZ z | VI32 z => if Z.abs z <? two63 then Return (f_of_Z z) else Raise OtherErr
  end.

(* + - * with numpy 2 promotion as far as it occurs here; wrapk = inside an int64 array *)
Definition arith (wrapk : bool) (opz : Z -> Z -> Z) (opf : float -> float -> float) (a b : val) : outcome val :=
  match a, b with
  | VZ x, VZ y => Return (VZ (if wrapk then wrap64 (opz x y) else opz x y))
  | VI32 x, VI32 y => Return (VI32 (wrap32 (opz x y)))
  | VF _, _ | _, VF _ => bind (to_f a) (fun x => bind (to_f b) (fun y => Return (VF (opf x y))))
  | _, _ => Raise OtherErr      (* np.int32 with a Python int / np.int64: not needed, left unmodelled (fails closed) *)
  end.

(* true division; int / int is correctly rounded in Python, which for |x|,|y| < 2^53 is the float quotient *)
Definition truediv (a b : val) : outcome val :=
  match a, b with
  | VZ x, VZ y =>
      if y =? 0 then Raise ZeroDivErr
      else if (Z.abs x <? two53) && (Z.abs y <? two53) then Return (VF (PrimFloat.div (f_of_Z x) (f_of_Z y)))
      else Raise OtherErr
  | VF _, _ | _, VF _ =>
      bind (to_f a) (fun x => bind (to_f b) (fun y =>
        if PrimFloat.eqb y f_zero then Raise ZeroDivErr else Return (VF (PrimFloat.div x y))))
  | _, _ => Raise OtherErr
  end.

Fixpoint eval_cond (E : genv) (c : gcond) : outcome bool :=
  match c with
  | CFlag f => Return (e_flag E f)
  | CNot a => bind (eval_cond E a) (fun x => Return (negb x))
  | COr a b => bind (eval_cond E a) (fun x => if x then Return true else eval_cond E b)
  | CAnd a b => bind (eval_cond E a) (fun x => if x then eval_cond E b else Return false)
  | CVerGt M m p => Return (e_ver E >? version_to_encoding M m p false)      (* __gt__ compares encodings *)
  | CF64IsZero off => Return (PrimFloat.eqb (e_f64 E off) f_zero)
  | COpaque _ => Raise OtherErr
  end.

Fixpoint eval (E : genv) (e : gx) : outcome val :=
  let wrapk := match e_idx E with Some _ => true | None => false end in
  match e with
  | XVar v => Return (e_var E v)
  | XIdx a k => match nth_error (e_arr E a) (Z.to_nat k) with Some v => Return v | None => Raise IndexErr end
  | XIdxE a i => bind (eval E i) (fun iv =>
                  match iv with
                  | VZ k | VI32 k =>
                      if k <? 0 then Raise OtherErr        (* a negative index counts from the end: not modelled *)
                      else match nth_error (e_arr E a) (Z.to_nat k) with Some v => Return v | None => Raise IndexErr end
                  | VF _ => Raise IndexErr
                  end)
  | XLen a => Return (VZ (Z.of_nat (List.length (e_arr E a))))
  | XInt z => Return (VZ z)
  | XFlt z => Return (VF (f_of_Z z))
  | XAdd a b => bind (eval E a) (fun x => bind (eval E b) (fun y => arith wrapk Z.add PrimFloat.add x y))
  | XSub a b => bind (eval E a) (fun x => bind (eval E b) (fun y => arith wrapk Z.sub PrimFloat.sub x y))
  | XMul a b => bind (eval E a) (fun x => bind (eval E b) (fun y => arith wrapk Z.mul PrimFloat.mul x y))
  | XTrueDiv a b => bind (eval E a) (fun x => bind (eval E b) (fun y => truediv x y))
  | XRint a => bind (eval E a) (fun x => match x with
                                        | VF f => Return (VF (f_rint f))
                                        | _ => bind (to_f x) (fun f => Return (VF f))
                                        end)
  | XNpArray a => eval E a
  | XNpInt32 a => bind (eval E a) (fun x => match x with
                                           | VZ z | VI32 z => if int32_ok z then Return (VI32 z) else Raise OtherErr
                                           | VF _ => Raise OtherErr
                                           end)
  | XIf c a b => bind (eval_cond E c) (fun t => if t then eval E a else eval E b)
  | XArange _ => match e_idx E with Some k => Return (VZ k) | None => Raise OtherErr end
  | XHdrU32 off => Return (VZ (e_u32 E off))
  | XHdrI32 off => Return (VZ (wrap32 (e_u32 E off)))
  | XHdrF64 off => Return (VF (e_f64 E off))
  | XUndef | XOpaque _ => Raise OtherErr
  end.

(* ------------------------------------------------------------------ writer: packers and header fields *)
(* x.astype(int) of a numpy scalar *)
Definition astype_int (v : val) : outcome Z :=
  match v with
  | VZ z | VI32 z => Return z
  | VF f => if f_is_finite f && (Z.abs (f_trunc_Z f) <? two63) then Return (f_trunc_Z f) else Raise OtherErr
  end.
Definition pack_u (z : Z) : outcome Z := if (0 <=? z) && (z <? two32) then Return z else Raise OtherErr.   (* struct.error *)
Definition pack_i (z : Z) : outcome Z := if int32_ok z then Return (u32 z) else Raise OtherErr.
Definition pack (p : packer) (v : val) : outcome Z :=
  match p with
  | PackU32 => match v with VZ z | VI32 z => pack_u z | VF _ => Raise OtherErr end
  | PackI32 => match v with VZ z | VI32 z => pack_i z | VF _ => Raise OtherErr end
  | PackU32A => bind (astype_int v) pack_u
  | PackI32A => bind (astype_int v) pack_i
  end.
Fixpoint eval_fv (E : genv) (f : fv) : outcome Z :=
  match f with
  | FZero => Return 0
  | FSet p e => bind (eval E e) (pack p)
  | FIf c a b => bind (eval_cond E c) (fun t => if t then eval_fv E a else eval_fv E b)
  end.

(* ------------------------------------------------------------------ reader: axis regeneration *)
Definition astype_elem (t : aty) (v : val) : outcome val :=
  match t with
  | TyIntc => match v with VZ z | VI32 z => Return (VI32 (wrap32 z)) | VF _ => Raise OtherErr end
  | TyFloat => bind (to_f v) (fun f => Return (VF f))
  | TyOther _ => Raise OtherErr
  end.
Fixpoint arange_args (e : gx) : list gx :=
  match e with
  | XArange n => [n]
  | XIdxE _ i => arange_args i
  | XAdd a b | XSub a b | XMul a b | XTrueDiv a b => arange_args a ++ arange_args b
  | XRint a | XNpArray a | XNpInt32 a => arange_args a
  | XIf _ a b => arange_args a ++ arange_args b
  | _ => []
  end.
Definition call_env (E : genv) (s t c : val) (k : option Z) : genv :=
  {| e_var := fun v => match v with V_start => s | V_step => t | V_count => c | _ => e_var E v end;
     e_arr := e_arr E; e_flag := e_flag E; e_idx := k; e_u32 := e_u32 E; e_f64 := e_f64 E; e_ver := e_ver E |}.
(* gen_coord_list(start, step, count).astype(ty): an elementwise expression over exactly one np.arange(n); the result has
   n elements, element k being the expression with the arange replaced by k *)
Definition rd_axis (E : genv) (a : axis_rd) : outcome (list val) :=
  bind (eval E (ax_start a)) (fun s => bind (eval E (ax_step a)) (fun t => bind (eval E (ax_count a)) (fun c =>
  match arange_args gen_coord_list_body with
  | [ne] =>
      bind (eval (call_env E s t c None) ne) (fun nv =>
      match nv with
      | VZ n => mapM (fun k => bind (eval (call_env E s t c (Some k)) gen_coord_list_body) (astype_elem (ax_astype a)))
                     (zrange 0 n)
      | _ => Raise OtherErr
      end)
  | _ => Raise OtherErr
  end))).

(* ------------------------------------------------------------------ sources *)
Definition axis (a s n : Z) : list Z := map (fun k => a + s * k) (zrange 0 n).
Definition zlen {A} (l : list A) : Z := Z.of_nat (List.length l).

(* a regular 3-D source: inline / crossline axes (start, step, count), their element type (np.intc as segyio gives, or int64
   as a NumPy-route caller may give), the sample axis; and the part of it that is converted: geom = Geometry3d(w_il0,
   w_il0 + w_iln, w_xl0, w_xl0 + w_xln) in ORDINALS of the source axes.  A whole-source conversion (SegyConverter without
   min_il..max_xl, NumpyConverter) has the window (0, n_il, 0, n_xl): see whole_cube. *)
Record cube := { c_il0 : Z; c_ils : Z; c_iln : Z; c_xl0 : Z; c_xls : Z; c_xln : Z; c_i32 : bool; c_samples : list val;
                 c_wil0 : Z; c_wiln : Z; c_wxl0 : Z; c_wxln : Z }.
Definition whole_cube (il0 ils iln xl0 xls xln : Z) (i32 : bool) (samples : list val) : cube :=
  {| c_il0 := il0; c_ils := ils; c_iln := iln; c_xl0 := xl0; c_xls := xls; c_xln := xln; c_i32 := i32; c_samples := samples;
     c_wil0 := 0; c_wiln := iln; c_wxl0 := 0; c_wxln := xln |}.
(* the source's axes, and the axes the SGZ file must report: the source's restricted to the window *)
Definition c_src_ilines (c : cube) : list Z := axis (c_il0 c) (c_ils c) (c_iln c).
Definition c_src_xlines (c : cube) : list Z := axis (c_xl0 c) (c_xls c) (c_xln c).
Definition c_ilines (c : cube) : list Z := axis (c_il0 c + c_ils c * c_wil0 c) (c_ils c) (c_wiln c).
Definition c_xlines (c : cube) : list Z := axis (c_xl0 c + c_xls c * c_wxl0 c) (c_xls c) (c_wxln c).
Definition mk_line (i32 : bool) (z : Z) : val := if i32 then VI32 z else VZ z.
(* the arguments make_header receives for it (make_header_seismic_file / make_header_numpy) *)
Definition env_of_cube (c : cube) : genv :=
  {| e_var := fun v => match v with V_tracecount => VZ (c_iln c * c_xln c) | _ => VZ 0 end;
     e_arr := fun a => match a with
                       | A_ilines => map (mk_line (c_i32 c)) (c_src_ilines c)
                       | A_xlines => map (mk_line (c_i32 c)) (c_src_xlines c)
                       | A_samples => c_samples c
                       | A_geom_ilines => map VZ (zrange (c_wil0 c) (c_wil0 c + c_wiln c))
                       | A_geom_xlines => map VZ (zrange (c_wxl0 c) (c_wxl0 c + c_wxln c))
                       | A_geom_traces => []
                       end;
     e_flag := fun _ => false; e_idx := None; e_u32 := fun _ => 0; e_f64 := fun _ => f_zero; e_ver := 0 |}.
(* well-formedness of the source (the quantifier of C05): at least two lines per axis, non-zero steps, every line number an
   int32; int64 axes additionally need a step that struct.pack('<i') accepts; the window is a non-empty ordinal range inside
   the source and its trace count fits the 32-bit field *)
Definition axis_ok (a s n : Z) (i32 : bool) : bool :=
  (2 <=? n) && negb (s =? 0) && int32_ok a && int32_ok (a + s * (n - 1)) && (i32 || int32_ok s).
Definition window_ok (w0 wn n : Z) : bool := (0 <=? w0) && (1 <=? wn) && (w0 + wn <=? n).
Definition cube_ok (c : cube) : bool :=
  axis_ok (c_il0 c) (c_ils c) (c_iln c) (c_i32 c) && axis_ok (c_xl0 c) (c_xls c) (c_xln c) (c_i32 c)
  && window_ok (c_wil0 c) (c_wiln c) (c_iln c) && window_ok (c_wxl0 c) (c_wxln c) (c_xln c)
  && (c_wiln c * c_wxln c <? two32).
(* "the header field at byte offset off of the file written for c holds the unsigned value v" *)
Definition written (c : cube) (off v : Z) : Prop :=
  exists f, In (off, f) wr_fields /\ eval_fv (env_of_cube c) f = Return v.

(* ------------------------------------------------------------------ the sample axis *)
(* segyio: f.samples = (numpy.arange(n) * (getdt() / 1000.0)) + t0, dt in microseconds, t0 = DelayRecordingTime in ms *)
Definition f_thousand : float := f_of_Z 1000.
Definition segy_sample (d t0 i : Z) : float :=
  PrimFloat.add (PrimFloat.mul (f_of_Z i) (PrimFloat.div (f_of_Z d) f_thousand)) (f_of_Z t0).
Definition segy_samples (d t0 n : Z) : list val := map (fun i => VF (segy_sample d t0 i)) (zrange 0 n).
(* environment in which only the sample axis matters (fields 4, 16, 28 mention nothing else: samples_fields_only) *)
Definition samples_env (l : list val) : genv :=
  {| e_var := fun _ => VZ 0; e_arr := fun a => match a with A_samples => l | _ => [] end; e_flag := fun _ => false;
     e_idx := None; e_u32 := fun _ => 0; e_f64 := fun _ => f_zero; e_ver := 0 |}.
(* canonical reader environment of a non-ZGY file (the double at bytes 92:100 is zero) written after version 0.1.6 *)
Definition zs_env (f4 f16 f28 : Z) : genv :=
  {| e_var := fun _ => VZ 0; e_arr := fun _ => []; e_flag := fun _ => false; e_idx := None;
     e_u32 := fun off => if off =? 4 then f4 else if off =? 16 then f16 else if off =? 28 then f28 else 0;
     e_f64 := fun _ => f_zero; e_ver := version_to_encoding 0 1 6 false + 1 |}.
Definition val_same (a b : val) : bool :=
  match a, b with VF x, VF y => f_same x y | VZ x, VZ y | VI32 x, VI32 y => x =? y | _, _ => false end.
Fixpoint list_same (a b : list val) : bool :=
  match a, b with
  | [], [] => true
  | x :: a', y :: b' => val_same x y && list_same a' b'
  | _, _ => false
  end.
(* write fields 4, 16, 28 from the samples l, regenerate the axis, compare bit for bit with l *)
Definition zs_roundtrip (l : list val) : bool :=
  match eval_fv (samples_env l) wr_field_4, eval_fv (samples_env l) wr_field_16, eval_fv (samples_env l) wr_field_28 with
  | Return f4, Return f16, Return f28 =>
      match rd_axis (zs_env f4 f16 f28) rd_axis_zslices with Return r => list_same r l | Raise _ => false end
  | _, _, _ => false
  end.
Definition stored_interval (l : list val) : outcome Z := eval_fv (samples_env l) wr_field_28.
Definition stored_start (l : list val) : outcome Z := eval_fv (samples_env l) wr_field_16.
Definition stored_count (l : list val) : outcome Z := eval_fv (samples_env l) wr_field_4.
Definition returns (o : outcome Z) (v : Z) : bool := match o with Return x => x =? v | Raise _ => false end.

(* element k of the regenerated sample axis as a function of the header fields 16:20 (start) and 28:32 (interval) *)
Definition zs_elem (f16 f28 k : Z) : outcome val :=
  bind (eval (zs_env 0 f16 f28) (ax_start rd_axis_zslices)) (fun s =>
  bind (eval (zs_env 0 f16 f28) (ax_step rd_axis_zslices)) (fun t =>
  bind (eval (call_env (zs_env 0 f16 f28) s t (VZ 0) (Some k)) gen_coord_list_body)
       (astype_elem (ax_astype rd_axis_zslices)))).
(* the checks evaluated over finite domains in Proofs/Geometry.v *)
(* header: interval d us and start t0 ms are stored exactly (both fields depend on the first two samples only) *)
Definition zs_hdr_check (d t0 : Z) : bool :=
  returns (stored_interval (segy_samples d t0 2)) d && returns (stored_start (segy_samples d t0 2)) (u32 t0).
(* element k regenerated from the exact header equals segyio's sample k bit for bit *)
Definition zs_elem_check (d t0 k : Z) : bool :=
  match zs_elem (u32 t0) d k with Return v => val_same v (VF (segy_sample d t0 k)) | Raise _ => false end.
Definition zs_check (d t0 kmax : Z) : bool :=
  zs_hdr_check d t0 && forallb (zs_elem_check d t0) (zrange 0 kmax).

(* ------------------------------------------------------------------ entry points of the correspondence harness *)
Definition assoc (l : list (Z * Z)) (off : Z) : Z :=
  match find (fun p => fst p =? off) l with Some p => snd p | None => 0 end.
(* reader environment of a non-ZGY file from (offset, unsigned field value) pairs and the file version encoding *)
Definition reader_env (fields : list (Z * Z)) (ver : Z) : genv :=
  {| e_var := fun _ => VZ 0; e_arr := fun _ => []; e_flag := fun _ => false; e_idx := None;
     e_u32 := assoc fields; e_f64 := fun _ => f_zero; e_ver := ver |}.
Definition model_write (c : cube) : list (Z * outcome Z) :=
  map (fun p => (fst p, eval_fv (env_of_cube c) (snd p))) wr_fields.
Definition model_read (fields : list (Z * Z)) (ver : Z) : outcome (list val) * outcome (list val) * outcome (list val) :=
  let E := reader_env fields ver in (rd_axis E rd_axis_ilines, rd_axis E rd_axis_xlines, rd_axis E rd_axis_zslices).
(* the header the model writes, as reader input (0 for a field the writer raised on) *)
Definition written_fields (c : cube) : list (Z * Z) :=
  map (fun p => (fst p, match snd p with Return v => v | Raise _ => 0 end)) (model_write c).
