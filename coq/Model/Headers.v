(* Model/Headers.v -- C04: trace headers and file headers through the SGZ container.

   Hand-written glue around Gen/Headers.v (expressions / predicates / constants extracted from the source).  Mirrors
     headers.py          HeaderwordInfo.__init__ (seismicfile / variant_header_list / variant_header_dict / buffer routes),
                         to_list, to_buffer, get_header_array_count, get_header_dict, the _get_* classification helpers
     conversion.py       SeismicFileConverter.get_blank_header_info / write_headers, NumpyConverter.__init__ (header dict
                         part, after the D15 repair) / write_headers
     conversion_utils.py header capture of io_thread_func, io_thread_func_2d, unstructured_io_thread_func; the file header
                         copy of make_header_seismic_file
     read.py             _decode_traceheader_template, gen_trace_header, read_variant_headers, get_unstructured_mask,
                         get_tracefield_values

   Conventions.  A field is its SEG-Y byte code (segyio.tracefield.keys: _get_hw_code is the identity on codes).
   Source headers are a total function  h : trace -> field -> Z.  Python dicts are association lists in insertion
   order.  32-bit words are abstract: struct.pack('<i', v) / np.int32 storage is the identity on [-2^31, 2^31) (the
   theorems assume the values are in that range: segyio only produces such values).  Memory (the 1068-byte table, the
   8 kB header) is a function from byte address to word / byte; the footer is the list of write() calls. *)
From Coq Require Import ZArith List Bool Lia.
Import ListNotations.
From SZ Require Import Lib.Py Gen.Utils Gen.Headers.
Open Scope Z_scope.

(* ---------------------------------------------------------------- small helpers *)
Definition memZ (x : Z) (l : list Z) : bool := existsb (Z.eqb x) l.
Fixpoint assocZ {A} (k : Z) (l : list (Z * A)) : option A :=
  match l with [] => None | (k', v) :: r => if k =? k' then Some v else assocZ k r end.
(* list.index *)
Fixpoint indexZ (k : Z) (l : list Z) : Z :=
  match l with [] => 0 | x :: r => if k =? x then 0 else 1 + indexZ k r end.
Definition i32b (v : Z) : bool := (- 2147483648 <=? v) && (v <? 2147483648).
(* C cast to int32 (ndarray.astype(np.int32)) *)
Definition wrap32 (v : Z) : Z := (v + 2147483648) mod 4294967296 - 2147483648.
(* Python index: negative counts from the end *)
Definition py_index (n i : Z) : Z := if i <? 0 then n + i else i.

(* sorted(set(l)) : insertion sort without repetitions *)
Fixpoint insert_u (x : Z) (l : list Z) : list Z :=
  match l with
  | [] => [x]
  | y :: r => if x <? y then x :: l else if x =? y then l else y :: insert_u x r
  end.
Definition set_sort (l : list Z) : list Z := fold_right insert_u [] l.

(* strictly ascending *)
Fixpoint ascending (l : list Z) : bool :=
  match l with
  | [] => true
  | x :: r => match r with [] => true | y :: _ => (x <? y) && ascending r end
  end.

(* the list of trace-header fields: the keys of segyio.segy.Field(bytearray(240), kind='trace'), in that order.
   Everything below is parametric in it; the well-formedness the theorems need: *)
Definition wf_fields (fields : list Z) : bool :=
  ascending fields && forallb (fun f => 0 <? f) fields && (Z.of_nat (length fields) =? hx_n_entries).

(* segyio 1.9.x (checked against the installed segyio by the harness on every run) *)
Definition segy_fields : list Z :=
  [1; 5; 9; 13; 17; 21; 25; 29; 31; 33; 35; 37; 41; 45; 49; 53; 57; 61; 65; 69; 71; 73; 77; 81; 85; 89; 91; 93; 95; 97; 99;
   101; 103; 105; 107; 109; 111; 113; 115; 117; 119; 121; 123; 125; 127; 129; 131; 133; 135; 137; 139; 141; 143; 145; 147;
   149; 151; 153; 155; 157; 159; 161; 163; 165; 167; 169; 171; 173; 175; 177; 179; 181; 185; 189; 193; 197; 201; 203; 205;
   209; 211; 213; 215; 217; 219; 223; 225; 229; 231].

(* ---------------------------------------------------------------- the table (HeaderwordInfo.table) *)
Definition table := list (Z * (Z * Z)).
(* dict assignment: replace in place, append a new key *)
Fixpoint tbl_set (T : table) (k : Z) (v : Z * Z) : table :=
  match T with
  | [] => [(k, v)]
  | (k', v') :: r => if k' =? k then (k, v) :: r else (k', v') :: tbl_set r k v
  end.
Definition tbl_init (fields : list Z) : table := map (fun f => (f, hx_tbl_default)) fields.
Definition to_list (T : table) : list (Z * Z * Z) := map (fun e => (fst e, fst (snd e), snd (snd e))) T.
Definition header_array_count (T : table) : Z :=
  Z.of_nat (length (filter (fun r => match r with (r0, r1, r2) => hx_is_stored r0 r1 r2 end) (to_list T))).

(* word memory addressed by byte offset (bytearray of zeros, 4-byte slice assignments) *)
Definition wbuf := Z -> Z.
Definition wb_zero : wbuf := fun _ => 0.
Definition wb_set (b : wbuf) (a v : Z) : wbuf := fun x => if x =? a then v else b x.
Fixpoint to_buffer_from (i : Z) (rows : list (Z * Z * Z)) (b : wbuf) : wbuf :=
  match rows with
  | [] => b
  | (r0, r1, r2) :: rest =>
      to_buffer_from (i + 1) rest
        (fold_left (fun b' ov => wb_set b' (hx_enc_start i + fst ov) (snd ov)) (hx_enc_layout r0 r1 r2) b)
  end.
Definition to_buffer (T : table) : wbuf := to_buffer_from 0 (to_list T) wb_zero.

(* HeaderwordInfo(buffer=...) : decode hx_n_entries triples, assign them into the blank table *)
Definition dec_rows (b : wbuf) : list (Z * (Z * Z)) :=
  map (fun i => match map (fun j => b (hx_dec_word_lo i j)) hx_dec_js with
                | [a; c; d] => hx_dec_entry a c d
                | _ => (0, (0, 0))
                end) (zrange 0 hx_n_entries).
Definition from_buffer (fields : list Z) (b : wbuf) : table :=
  fold_left (fun T e => tbl_set T (fst e) (snd e)) (dec_rows b) (tbl_init fields).

(* ---------------------------------------------------------------- classification (seismicfile route, 'heuristic') *)
Section Heuristic.
  Variable fields : list Z.
  Variables fv lv : Z -> Z.          (* header[0][k], header[-1][k] *)
  Definition nonzero_hw := filter (fun k => hx_cls_nonzero (fv k)) fields.
  Definition invariant_hw := filter (fun k => hx_cls_invariant (fv k) (lv k)) fields.
  Definition variant_hw := filter (fun k => hx_cls_variant (fv k) (lv k)) fields.
  Definition invariant_nonzero_hw := filter (fun k => memZ k invariant_hw) nonzero_hw.
  (* for i, hw in enumerate(V): for hw2 in V[:i]: if same: map[hw] = hw2; break *)
  Fixpoint find_dups (seen vs : list Z) : list (Z * Z) :=
    match vs with
    | [] => []
    | hw :: r =>
        let rest := find_dups (seen ++ [hw]) r in
        match find (fun hw2 => hx_cls_same (fv hw) (lv hw) (fv hw2) (lv hw2)) seen with
        | Some hw2 => (hw, hw2) :: rest
        | None => rest
        end
    end.
  Definition duplicate_hw := find_dups [] variant_hw.
  (* variants with duplicates replaced by their target; list(set(..)); sorted by code *)
  Definition unique_hw : list Z :=
    let dups := duplicate_hw in
    set_sort (map (fun hw => match assocZ hw dups with Some g => g | None => hw end) variant_hw).
  (* one iteration of  for hw in header[0]  with the three lists already computed *)
  Definition heur_step_with (inz uniq : list Z) (dups : list (Z * Z)) (T : table) (hw : Z) : table :=
    let T1 := if memZ hw inz then tbl_set T hw (hx_tbl_invariant (fv hw)) else T in
    if memZ hw uniq then tbl_set T1 hw (hx_tbl_unique hw)
    else match assocZ hw dups with
         | Some g => tbl_set T1 hw (hx_tbl_duplicate g)
         | None => T1
         end.
  Definition heur_step : table -> Z -> table := heur_step_with invariant_nonzero_hw unique_hw duplicate_hw.
  Definition heur_table : table :=
    let inz := invariant_nonzero_hw in let uniq := unique_hw in let dups := duplicate_hw in
    fold_left (heur_step_with inz uniq dups) fields (tbl_init fields).
End Heuristic.

(* variant_header_list route *)
Definition listed_table (fields L : list Z) : table :=
  fold_left (fun T hw => tbl_set T hw (hx_tbl_listed hw)) L (tbl_init fields).
(* segyio.TraceField.enums()[lo:hi]; the enums start with the table's fields (harness-checked) *)
Definition listed_all (fields : list Z) : list Z :=
  firstn (Z.to_nat (hx_list_hi - hx_list_lo)) (skipn (Z.to_nat hx_list_lo) fields).
(* variant_header_dict route *)
Definition dict_table (fields L : list Z) : table :=
  fold_left (fun T hw => tbl_set T hw (hx_tbl_dict hw)) L (tbl_init fields).

(* ---------------------------------------------------------------- header capture *)
(* arrays are np.zeros(G); every visited trace t does array[slot t] = header[t][field]; later writes win *)
Definition capture (ts : list Z) (slot : Z -> Z) (h : Z -> Z -> Z) (f : Z) : Z -> Z :=
  let r := map (fun t => (slot t, h t f)) (rev_append ts []) in     (* (element, value) of every visit, latest first *)
  fun p => match assocZ p r with Some v => v | None => 0 end.

(* regular 3D, no window: geom = Geometry3d(0, n_il, 0, n_xl) *)
Definition traces_regular (n_il n_xl bs0 : Z) : list Z :=
  flat_map (fun ps =>
    flat_map (fun i => if i <? hx_planes_to_read ps bs0 n_il
                       then map (fun x => hx_start_trace ps bs0 i n_xl 0 0 + x) (zrange 0 n_xl) else [])
             (zrange 0 bs0))
    (zrange 0 (pad n_il bs0 / bs0)).
Definition slot_regular (n_xl t : Z) : Z := hx_t_store (hx_t_xl t n_xl) (hx_t_il t n_xl) 0 0 n_xl.
(* 2D *)
Definition traces_2d (n bs1 : Z) : list Z :=
  flat_map (fun g => flat_map (fun i => if i <? hx_traces_to_read g bs1 n then [hx_trace_id_2d g bs1 i] else [])
                              (zrange 0 bs1))
           (zrange 0 (pad n bs1 / bs1)).
(* irregular 3D: trace t sits at inline ordinal ili t, crossline ordinal xli t of the inferred grid; traces_ref maps
   a grid cell to the LAST trace with those line numbers, the cell (ps*bs0+i, xl_id) is visited once *)
Definition slot_irregular (n_xl bs0 : Z) (ili xli : Z -> Z) (t : Z) : Z :=
  hx_t_store_irr (xli t) (ili t / bs0) bs0 (ili t mod bs0) n_xl.

(* ---------------------------------------------------------------- the written file (what C04 observes of it) *)
Record sgzfile := {
  f_nhb : Z;                                 (* bytes 0:4 *)
  f_ndb : Z;                                 (* bytes 56:60 *)
  f_hel : Z;                                 (* bytes 60:64 *)
  f_count : Z;                               (* bytes 64:68 *)
  f_tracecount : Z;                          (* bytes 68:72 *)
  f_is3d : bool;                             (* blockshape[0] <> 1 *)
  f_nil : Z; f_nxl : Z;
  f_table : wbuf;                            (* bytes 980:2048, addressed from 980 *)
  f_footer : list (Z * Z * Z * (Z -> Z))     (* write() calls after the data section: (position, data bytes, zero bytes, words) *)
}.

Fixpoint write_footer (padf : Z -> Z) (pos len : Z) (arrs : list (Z -> Z)) : list (Z * Z * Z * (Z -> Z)) :=
  match arrs with
  | [] => []
  | a :: r => (pos, len, padf len, a) :: write_footer padf (pos + len + padf len) len r
  end.

(* read_range(file, off, 4) as int32; None: the range is not one stored word (unaligned, straddling, or past the end) *)
Fixpoint seg_read (segs : list (Z * Z * Z * (Z -> Z))) (off : Z) : option Z :=
  match segs with
  | [] => None
  | (s, len, pd, a) :: r =>
      if (s <=? off) && (off + 4 <=? s + len) then (if (off - s) mod 4 =? 0 then Some (a ((off - s) / 4)) else None)
      else if (s + len <=? off) && (off + 4 <=? s + len + pd) then Some 0
      else if (s <=? off) && (off <? s + len + pd) then None
      else seg_read r off
  end.

(* ---------------------------------------------------------------- writers *)
Inductive mode := Heuristic | Thorough | Exhaustive | Strip.

Definition all_equal (G : Z) (a : Z -> Z) : bool := forallb (fun p => a p =? a 0) (zrange 0 G).

(* get_blank_header_info: (table, keys of headers_dict in order) *)
Definition blank_header_info (md : mode) (fields : list Z) (n : Z) (h : Z -> Z -> Z) : table * list Z :=
  match md with
  | Heuristic => let fv := h 0 in let lv := h (py_index n hx_last_index) in
                 (heur_table fields fv lv, unique_hw fields fv lv)
  | Thorough | Exhaustive => (listed_table fields (listed_all fields), listed_all fields)
  | Strip => (listed_table fields [], [])
  end.

(* write_headers, 'thorough' branch: for hw in list(keys): if np.all(arr == arr[0]): update_table; del *)
Definition thorough_step (G : Z) (cap : Z -> Z -> Z) (st : table * list Z) (hw : Z) : table * list Z :=
  if all_equal G (cap hw) then (tbl_set (fst st) hw (hx_thorough_const (cap hw 0)), remove Z.eq_dec hw (snd st)) else st.

(* SeismicFileConverter.run restricted to headers.  G = elements per header array, cap = the captured arrays *)
Definition segy_write (md : mode) (fields : list Z) (is3d : bool) (n_il n_xl n G ndb : Z) (h : Z -> Z -> Z)
                      (cap : Z -> Z -> Z) : sgzfile :=
  let '(T0, keys0) := blank_header_info md fields n h in
  let '(T, keys) := match md with
                    | Thorough => fold_left (thorough_step G cap) keys0 (T0, keys0)
                    | _ => (T0, keys0)
                    end in
  let hel := if is3d then hx_hel_3d n_xl n_il else hx_hel_2d n in
  {| f_nhb := hx_header_blocks; f_ndb := ndb; f_hel := hel;
     f_count := header_array_count T;      (* make_header, re-written at hx_patch_count_at by 'thorough' *)
     f_tracecount := n; f_is3d := is3d; f_nil := n_il; f_nxl := n_xl;
     f_table := to_buffer T;               (* make_header, re-written at hx_patch_table_at by 'thorough' *)
     f_footer := match md with
                 | Strip => []
                 | _ => write_footer hx_wr_pad (4096 * hx_header_blocks + 4096 * ndb) (4 * G) (map cap keys)
                 end |}.

(* NumpyConverter: OrderedDict(sorted(items)); defaults appended; (D15 repair) sorted again, astype(int32) *)
Definition np_keys (user : list Z) : list Z :=
  let s := set_sort user in
  let s1 := if memZ hx_np_default_il s then s else s ++ [hx_np_default_il] in
  let s2 := if memZ hx_np_default_xl s1 then s1 else s1 ++ [hx_np_default_xl] in
  set_sort s2.
(* arrays are (n_il, n_xl), C order: flat position p = il * n_xl + xl *)
Definition np_array (user : list Z) (ua : Z -> Z -> Z) (ilines xlines : Z -> Z) (n_xl : Z) (k : Z) : Z -> Z :=
  fun p => wrap32 (if memZ k user then ua k p
                   else if k =? hx_np_default_il then ilines (p / n_xl)
                   else if k =? hx_np_default_xl then xlines (p mod n_xl) else 0).
Definition numpy_write (fields user : list Z) (n_il n_xl ndb : Z) (ua : Z -> Z -> Z) (ilines xlines : Z -> Z) : sgzfile :=
  let keys := np_keys user in
  let T := dict_table fields keys in
  {| f_nhb := hx_header_blocks; f_ndb := ndb; f_hel := hx_hel_3d n_xl n_il;
     f_count := header_array_count T; f_tracecount := n_il * n_xl; f_is3d := true; f_nil := n_il; f_nxl := n_xl;
     f_table := to_buffer T;
     f_footer := write_footer hx_np_pad (4096 * hx_header_blocks + 4096 * ndb) (4 * (n_il * n_xl))
                              (map (np_array user ua ilines xlines n_xl) keys) |}.

(* ---------------------------------------------------------------- reader *)
Inductive tval := Const (v : Z) | Off (o : Z).        (* int or FileOffset *)
Record rstate := { rs_dict : list (Z * tval); rs_stored : list Z }.
Definition ghd_step (nhb ndb padded : Z) (st : rstate) (e : Z * (Z * Z)) : rstate :=
  match e with
  | (k, (v0, v1)) =>
      if hx_tpl_invariant v0 v1 then {| rs_dict := rs_dict st ++ [(k, Const v0)]; rs_stored := rs_stored st |}
      else match assocZ v1 (rs_dict st) with
           | Some x => {| rs_dict := rs_dict st ++ [(k, x)]; rs_stored := rs_stored st |}
           | None => {| rs_dict := rs_dict st ++ [(k, Off (hx_tpl_offset nhb ndb (Z.of_nat (length (rs_stored st))) padded))];
                        rs_stored := rs_stored st ++ [k] |}
           end
  end.
Definition get_header_dict (T : table) (n_header_arrays nhb ndb padded : Z) : outcome (list (Z * tval)) :=
  let st := fold_left (ghd_step nhb ndb padded) T {| rs_dict := []; rs_stored := [] |} in
  if Z.of_nat (length (rs_stored st)) =? n_header_arrays then Return (rs_dict st) else Raise AssertErr.

Section Reader.
  Variable fields : list Z.
  Variable F : sgzfile.
  Definition rd_padded : Z := hx_rd_padded (f_hel F).
  Definition rd_template : outcome (list (Z * tval)) :=
    get_header_dict (from_buffer fields (f_table F)) (f_count F) (f_nhb F) (f_ndb F) rd_padded.
  Definition rd_structured : bool := if f_is3d F then hx_rd_structured (f_tracecount F) (f_nil F) (f_nxl F) else false.
  Definition rd_G : Z := f_hel F / 4.                      (* np.frombuffer(hel bytes, int32) *)
  Definition rd_word (off : Z) : outcome Z :=
    match seg_read (f_footer F) off with Some v => Return v | None => Raise IOErr end.
  (* values = frombuffer(read_range(o, hel)); element p *)
  Definition rd_value (o p : Z) : outcome Z :=
    if (0 <=? p) && (p <? rd_G) then rd_word (o + 4 * p) else Raise IndexErr.
  (* get_unstructured_mask: template[mask field] used as an offset *)
  Definition rd_mask (tpl : list (Z * tval)) : outcome (list Z) :=
    match assocZ hx_rd_mask_field tpl with
    | Some (Off o) =>
        bind (mapM (fun p => rd_value o p) (zrange 0 rd_G))
             (fun vs => Return (map fst (filter (fun pv => hx_rd_mask_rule (snd pv)) (combine (zrange 0 rd_G) vs))))
    | Some (Const c) => Raise IOErr      (* reads hel bytes at file position c: not a header array *)
    | None => Raise OtherErr
    end.
  (* variant_headers[k][index] after read_variant_headers(include_padding); m = the (cached) unstructured mask *)
  Definition rd_variant_elem (m : outcome (list Z)) (include_padding : bool) (o index : Z) : outcome Z :=
    if hx_rd_use_mask (f_is3d F) rd_structured include_padding then
      bind m (fun present =>
        match nth_error present (Z.to_nat index) with Some p => rd_value o p | None => Raise IndexErr end)
    else rd_value o index.
  Definition rd_resolve (m : outcome (list Z)) (load_all : bool) (index : Z) (v : tval) : outcome Z :=
    match v with
    | Const c => Return c
    | Off o => if hx_rd_via_arrays load_all rd_structured then rd_variant_elem m false o index
               else rd_word (hx_rd_word_off o index)
    end.
  (* gen_trace_header(index)[f] *)
  Definition read_field (load_all : bool) (index f : Z) : outcome Z :=
    if negb (hx_rd_index_ok index (f_tracecount F)) then Raise IndexErr else
    bind rd_template (fun tpl =>
      let m := rd_mask tpl in
      match assocZ f tpl with Some v => rd_resolve m load_all index v | None => Raise OtherErr end).
  (* gen_trace_header(index) *)
  Definition gen_trace_header (load_all : bool) (index : Z) : outcome (list (Z * Z)) :=
    if negb (hx_rd_index_ok index (f_tracecount F)) then Raise IndexErr else
    bind rd_template (fun tpl =>
      let m := rd_mask tpl in
      mapM (fun kv => bind (rd_resolve m load_all index (snd kv)) (fun x => Return (fst kv, x))) tpl).
  (* get_tracefield_1d(f): read_variant_headers(include_padding=True, [f]); variant_headers[f], or the constant repeated *)
  Definition tracefield_1d (f : Z) : outcome (list Z) :=
    bind rd_template (fun tpl =>
      match assocZ f tpl with
      | Some (Off o) => mapM (fun p => rd_value o p) (zrange 0 rd_G)
      | Some (Const c) =>                                   (* np.full(.., template[f]); values[~mask] = 0 *)
          let ps := zrange 0 (hx_rd_fill_len (f_hel F)) in
          if hx_rd_fill_masked (f_is3d F) rd_structured && negb (c =? 0)   (* filling with 0: the mask is immaterial *)
          then bind (rd_mask tpl) (fun present => Return (map (fun p => if memZ p present then c else 0) ps))
          else Return (map (fun _ => c) ps)
      | None => Raise OtherErr
      end).
End Reader.

(* ---------------------------------------------------------------- the 8 kB header as bytes: SEG-Y file header copy *)
Definition bmem := Z -> Z.
Definition splice (m : bmem) (lo : Z) (bs : list Z) : bmem :=
  fun a => if (lo <=? a) && (a <? lo + Z.of_nat (length bs)) then nth (Z.to_nat (a - lo)) bs 0 else m a.
Definition slice (m : bmem) (lo hi : Z) : list Z := map m (zrange lo hi).
(* make_header_seismic_file: buffer[lo:hi] = f.read(3600); then other slice assignments / in-place patches *)
Definition header_bytes (src : list Z) (later : list (Z * list Z)) : bmem :=
  fold_left (fun m w => splice m (fst w) (snd w)) later
            (splice (fun _ => 0) hx_filehdr_lo (firstn (Z.to_nat hx_filehdr_read) src)).
Definition rd_text (m : bmem) : list Z := slice m hx_rd_text_lo hx_rd_text_hi.
Definition rd_bin (m : bmem) : list Z := slice m hx_rd_bin_lo hx_rd_bin_hi.

(* ---------------------------------------------------------------- evaluation helpers for the correspondence harness *)
(* headers given as sparse columns: (field, values per trace); absent fields are 0 *)
Definition hdr_of_cols (cols : list (Z * list Z)) : Z -> Z -> Z :=
  fun t f => match assocZ f cols with Some col => nth (Z.to_nat t) col 0 | None => 0 end.
Definition table_words (b : wbuf) : list Z := map (fun a => b (4 * a)) (zrange 0 (hx_buf_len / 4)).
Definition show_outcome (o : outcome Z) : Z * Z :=
  match o with Return v => (0, v) | Raise IndexErr => (1, 0) | Raise AssertErr => (2, 0) | Raise IOErr => (3, 0) | Raise _ => (4, 0) end.

(* ---------------------------------------------------------------- geometries (what the converter derives from the source) *)
Record geometry := {
  ge_is3d : bool; ge_nil : Z; ge_nxl : Z;
  ge_n : Z;                 (* tracecount *)
  ge_G : Z;                 (* elements per header array *)
  ge_ts : list Z;           (* source traces in the order their headers are captured *)
  ge_slot : Z -> Z          (* array element a trace is captured into *)
}.
(* regular 3D SEG-Y (no window), blockshape[0] = bs0 *)
Definition geo_regular (n_il n_xl bs0 : Z) : geometry :=
  {| ge_is3d := true; ge_nil := n_il; ge_nxl := n_xl; ge_n := n_il * n_xl; ge_G := hx_reg_array_len n_il n_xl;
     ge_ts := traces_regular n_il n_xl bs0; ge_slot := slot_regular n_xl |}.
(* 2D SEG-Y, blockshape[1] = bs1 (make_header: n_il = n_xl = 0) *)
Definition geo_2d (n bs1 : Z) : geometry :=
  {| ge_is3d := false; ge_nil := 0; ge_nxl := 0; ge_n := n; ge_G := n; ge_ts := traces_2d n bs1; ge_slot := fun t => t |}.
(* irregular 3D SEG-Y: n traces on an inferred n_il x n_xl grid *)
Definition geo_irregular (n_il n_xl bs0 n : Z) (ili xli : Z -> Z) : geometry :=
  {| ge_is3d := true; ge_nil := n_il; ge_nxl := n_xl; ge_n := n; ge_G := hx_irr_array_len n_il n_xl;
     ge_ts := zrange 0 n; ge_slot := slot_irregular n_xl bs0 ili xli |}.
Definition write_geo (md : mode) (fields : list Z) (ge : geometry) (ndb : Z) (h : Z -> Z -> Z) : sgzfile :=
  segy_write md fields (ge_is3d ge) (ge_nil ge) (ge_nxl ge) (ge_n ge) (ge_G ge) ndb h (capture (ge_ts ge) (ge_slot ge) h).

(* ---------------------------------------------------------------- hypotheses of the property, as boolean predicates *)
Definition all_traces (n : Z) (P : Z -> bool) : bool := forallb P (zrange 0 n).
(* every value fits a signed 32-bit word *)
Definition hdr_i32 (fields : list Z) (n : Z) (h : Z -> Z -> Z) : bool :=
  all_traces n (fun t => forallb (fun f => i32b (h t f)) fields).
(* "every field is either constant or differs between the first and last trace" *)
Definition const_or_ends_differ (fields : list Z) (n : Z) (h : Z -> Z -> Z) : bool :=
  forallb (fun f => all_traces n (fun t => h t f =? h 0 f) || negb (h 0 f =? h (n - 1) f)) fields.
(* "no two differing fields coincide on both" *)
Definition no_coinciding_pair (fields : list Z) (n : Z) (h : Z -> Z -> Z) : bool :=
  forallb (fun f => forallb (fun g =>
     (f =? g) || (h 0 f =? h (n - 1) f) || (h 0 g =? h (n - 1) g)
     || negb ((h 0 f =? h 0 g) && (h (n - 1) f =? h (n - 1) g))) fields) fields.

(* the source geometries with one header-array element per trace *)
Definition regular_or_2d (ge : geometry) : Prop :=
  (exists n_il n_xl bs0, 1 <= n_il /\ 1 <= n_xl /\ 1 <= bs0 /\ ge = geo_regular n_il n_xl bs0) \/
  (exists n bs1, 1 <= n /\ 1 <= bs1 /\ ge = geo_2d n bs1).
(* what read-back of the NumPy route must give: the user's array, else the default inline / crossline numbers, else 0;
   as int32 *)
Definition np_expected (user : list Z) (ua : Z -> Z -> Z) (ilines xlines : Z -> Z) (n_xl f t : Z) : Z :=
  np_array user ua ilines xlines n_xl f t.

(* an irregular 3D source: n traces sorted inline-major on an n_il x n_xl grid with at least one empty cell, non-zero
   inline numbers (the reader's presence mask is "stored inline number <> 0") *)
Definition irregular_ok (mask_field : Z) (n_il n_xl bs0 n : Z) (ili xli : Z -> Z) (h : Z -> Z -> Z) : Prop :=
  1 <= n_il /\ 1 <= n_xl /\ 1 <= bs0 /\ 1 <= n < n_il * n_xl /\
  (forall t, 0 <= t < n -> 0 <= ili t < n_il /\ 0 <= xli t < n_xl) /\
  (forall s t, 0 <= s < t -> t < n -> xli s + ili s * n_xl < xli t + ili t * n_xl) /\
  (forall t, 0 <= t < n -> h t mask_field <> 0) /\
  (exists p0, 0 <= p0 < n_il * n_xl /\ forall t, 0 <= t < n -> xli t + ili t * n_xl <> p0).
