(* Model/Accessors.v -- hand-written semantics used by C13 (segyio emulation).

   1. Python: slice objects, slice.indices (CPython PySlice_Unpack + PySlice_AdjustIndices), range(start, stop, step)
      (CPython get_len_of_range), min()/max() of a sequence, sequence indexing with a constant index.
      Gen/Accessors.v (GENERATED from seismic_zfp/accessors.py by tools/genx_accessors.py) is written against these.
   2. The ORACLE side: a hand model of segyio's key resolution -- segyio/line.py (sanitize_slice, Line.ranges,
      Line.__getitem__) for iline / xline, segyio/trace.py + depth.py (Sequence.wrapindex, slice.indices + range) for
      trace / header / depth_slice, and trace.py Attributes.__getitem__.  It is validated against segyio itself on
      every run by tools/checks/emulation.py (correspondence), and against seismic_zfp.utils.coord_to_index (pinned).

   Keys are line numbers or ordinals (Z); values (planes, traces, headers) are C02 / C04 matters. *)
From Coq Require Import ZArith List Bool Lia.
Import ListNotations.
From SZ Require Import Lib.Py.
Open Scope Z_scope.

(* ---------- Python slice objects with integer-or-None fields ---------- *)
Record pyslice := mkslice { sl_start : option Z; sl_stop : option Z; sl_step : option Z }.

(* PySlice_AdjustIndices for one bound *)
Definition adjust_bound (len step v : Z) : Z :=
  if v <? 0 then (if v + len <? 0 then (if step <? 0 then -1 else 0) else v + len)
  else if len <=? v then (if step <? 0 then len - 1 else len)
  else v.

(* slice.indices(len): ValueError for step 0 *)
Definition slice_indices (s : pyslice) (len : Z) : outcome (Z * Z * Z) :=
  let step := match sl_step s with None => 1 | Some k => k end in
  if step =? 0 then Raise ValueErr else
  let start := match sl_start s with
               | None => if step <? 0 then len - 1 else 0
               | Some v => adjust_bound len step v end in
  let stop := match sl_stop s with
              | None => if step <? 0 then -1 else len
              | Some v => adjust_bound len step v end in
  Return (start, stop, step).

(* ---------- range(start, stop, step) ---------- *)
Definition range_len (start stop step : Z) : Z :=
  if 0 <? step then (if start <? stop then (stop - start - 1) / step + 1 else 0)
  else if step <? 0 then (if stop <? start then (start - stop - 1) / (- step) + 1 else 0)
  else 0.

Fixpoint range_nat (lo step : Z) (n : nat) : list Z :=
  match n with O => [] | S k => lo :: range_nat (lo + step) step k end.

Definition range_list (start stop step : Z) : list Z := range_nat start step (Z.to_nat (range_len start stop step)).

(* range() raises ValueError for step 0 *)
Definition py_range (start stop step : Z) : outcome (list Z) :=
  if step =? 0 then Raise ValueErr else Return (range_list start stop step).

(* ---------- sequences of integers (numpy 1-D int arrays / lists) ---------- *)
Definition lmin (l : list Z) : Z := fold_right Z.min (hd 0 l) l.
Definition lmax (l : list Z) : Z := fold_right Z.max (hd 0 l) l.
Definition zlen (l : list Z) : Z := Z.of_nat (length l).
(* l[c] for a constant c, negative constants counting from the end (IndexError outside) *)
Definition seq_get (l : list Z) (c : Z) : outcome Z :=
  let i := if c <? 0 then c + zlen l else c in
  if (0 <=? i) && (i <? zlen l) then Return (nth (Z.to_nat i) l 0) else Raise IndexErr.
Definition mem (k : Z) (l : list Z) : bool := existsb (Z.eqb k) l.

(* Python // and % on ints (floor division, remainder with the sign of the divisor; Coq's Z./ and Z.modulo agree) *)
Definition py_floordiv (a b : Z) : outcome Z := if b =? 0 then Raise ZeroDivErr else Return (a / b).
Definition py_mod (a b : Z) : outcome Z := if b =? 0 then Raise ZeroDivErr else Return (a mod b).

(* a regular axis: n line numbers a, a+s, a+2s, ... (what SgzReader.ilines / xlines and segyio's ilines / xlines are
   for a regular survey; s <> 0, negative for a descending axis) *)
Definition axis (a s : Z) (n : nat) : list Z := range_nat a s n.

(* seismic_zfp.utils.coord_to_index(coord, coords): index of the first occurrence, IndexError when absent (PINNED) *)
Fixpoint index_of (k : Z) (l : list Z) (i : Z) : outcome Z :=
  match l with
  | [] => Raise IndexErr
  | x :: r => if x =? k then Return i else index_of k r (i + 1)
  end.
Definition coord_to_index (coord : Z) (coords : list Z) : outcome Z := index_of coord coords 0.

(* ---------- segyio: iline / xline (segyio/line.py) ---------- *)
(* Python truthiness of an int-or-None: all((s.start, s.stop, s.step)) *)
Definition truthy (o : option Z) : bool := match o with Some v => negb (v =? 0) | None => false end.

Definition sanitize_slice (s : pyslice) (source : list Z) : pyslice :=
  if truthy (sl_start s) && truthy (sl_stop s) && truthy (sl_step s) then s else
  let increasing := match sl_step s with None => true | Some k => 0 <? k end in
  let start := match sl_start s with
               | None => Some (if increasing then lmin source else lmax source) | Some v => Some v end in
  let stop := match sl_stop s with
              | None => Some (if increasing then lmax source + 1 else lmin source - 1) | Some v => Some v end in
  mkslice start stop (sl_step s).

(* Line.ranges: range over sanitize_slice(index).indices(max(keys) + 1), filtered by membership; the order is the range's *)
Definition segyio_line_slice (keys : list Z) (s : pyslice) : outcome (list Z) :=
  bind (slice_indices (sanitize_slice s keys) (lmax keys + 1)) (fun t =>
    let '(start, stop, step) := t in
    bind (py_range start stop step) (fun r => Return (filter (fun k => mem k keys) r))).

(* Line.__getitem__(int): self.heads[index] -- KeyError for an absent line.  KeyError is rendered as OtherErr;
   only "rejected or not" is compared (property text). *)
Definition segyio_line_int (keys : list Z) (k : Z) : outcome Z :=
  if mem k keys then Return k else Raise OtherErr.

(* len(f.iline) = len(heads); iteration = self[:] *)
Definition segyio_line_len (keys : list Z) : Z := zlen keys.
Definition segyio_line_iter (keys : list Z) : outcome (list Z) := segyio_line_slice keys (mkslice None None None).

(* ---------- segyio: trace / header / depth_slice (segyio/trace.py Sequence, depth.py) ---------- *)
Definition segyio_wrapindex (len i : Z) : outcome Z :=
  let j := if i <? 0 then i + len else i in
  if (0 <=? j) && (j <? len) then Return j else Raise IndexErr.

Definition segyio_seq_slice (len : Z) (s : pyslice) : outcome (list Z) :=
  bind (slice_indices s len) (fun t => let '(start, stop, step) := t in py_range start stop step).

(* Attributes.__getitem__: an int i becomes slice(i, i + 1, 1) (so -1 selects nothing), a slice is indices + range *)
Definition segyio_attr_int (len i : Z) : outcome (list Z) :=
  segyio_seq_slice len (mkslice (Some i) (Some (i + 1)) (Some 1)).

Definition rejected {A} (o : outcome A) : bool := match o with Raise _ => true | Return _ => false end.

(* ---------- the documented grammar of line slices (property C13) as boolean predicates ---------- *)
(* a bound is absent or an existing line number *)
Definition bound_ok (keys : list Z) (o : option Z) : bool := match o with None => true | Some v => mem v keys end.
(* a step is absent or a non-zero multiple of the line increment (either sign: axis order and against it) *)
Definition step_ok (s : Z) (o : option Z) : bool :=
  match o with None => true | Some k => negb (k =? 0) && (k mod s =? 0) end.
Definition line_slice_ok (a s : Z) (n : nat) (sl : pyslice) : bool :=
  bound_ok (axis a s n) (sl_start sl) && bound_ok (axis a s n) (sl_stop sl) && step_ok s (sl_step sl).
(* a regular axis of a 3-D file: increment not 0, at least two lines, no negative line numbers *)
Definition axis_ok (a s : Z) (n : nat) : bool :=
  negb (s =? 0) && (2 <=? Z.of_nat n) && (0 <=? lmin (axis a s n)).
(* segyio hands the sanitised slice to slice.indices, which reads a negative stop Python-style: a downward slice
   without stop on an axis that contains line number 0 gets stop -1 = "max" and yields nothing.  No meaningful
   oracle there (DESIGN.md section 7, C13 bounds); everything else is inside the guard. *)
Definition oracle_ok (a s : Z) (n : nat) (sl : pyslice) : bool :=
  match sl_step sl, sl_stop sl with
  | Some k, None => if k <? 0 then 1 <=? lmin (axis a s n) else true
  | _, _ => true
  end.

(* ---------- subvolume[a:b:c] on one axis: the documented meaning ---------- *)
(* an axis of either direction (s > 0 ascending, s < 0 descending).  start absent or a coordinate of the axis; stop absent,
   a coordinate other than the first, or one increment past the last (a + n*s, below the last line of a descending axis);
   step absent or a multiple of the increment that runs in axis order (positive quotient: a negative step on a descending
   axis) *)
Definition sub_slice_ok (a s : Z) (n : nat) (sl : pyslice) : bool :=
  (match sl_start sl with None => true | Some v => mem v (axis a s n) end) &&
  (match sl_stop sl with None => true | Some v => (mem v (axis a s n) && negb (v =? a)) || (v =? a + Z.of_nat n * s) end) &&
  (match sl_step sl with None => true | Some k => (k mod s =? 0) && (0 <? k / s) end).
(* the coordinates it selects: Python's range(start or first, stop or one-past-last, step or increment) *)
Definition sub_coords (a s : Z) (n : nat) (sl : pyslice) : list Z :=
  range_list (match sl_start sl with None => a | Some v => v end)
             (match sl_stop sl with None => a + Z.of_nat n * s | Some v => v end)
             (match sl_step sl with None => s | Some k => k end).
(* a bound that is no coordinate of the axis (a stop may also be the one-past-the-end sentinel): segyio has no such line *)
Definition sub_start_bad (a s : Z) (n : nat) (sl : pyslice) : Prop :=
  exists v, sl_start sl = Some v /\ ~ In v (axis a s n).
Definition sub_stop_bad (a s : Z) (n : nat) (sl : pyslice) : Prop :=
  exists w, sl_stop sl = Some w /\ ~ In w (axis a s n) /\ w <> a + Z.of_nat n * s.
(* the extent test of _check_subscripts in plain terms: v lies in [first, one-past-last) along the axis direction ... *)
Definition sub_start_inside (a s : Z) (n : nat) (v : Z) : Prop :=
  (0 < s /\ a <= v < a + Z.of_nat n * s) \/ (s < 0 /\ a + Z.of_nat n * s < v <= a).
(* ... and w in (first, one-past-last] *)
Definition sub_stop_inside (a s : Z) (n : nat) (w : Z) : Prop :=
  (0 < s /\ a < w <= a + Z.of_nat n * s) \/ (s < 0 /\ a + Z.of_nat n * s <= w < a).
