(* Model/Producer2d.v -- C09 writer side: what seismic_file_producer_2d + io_thread_func_2d + compressor + writer put into
   the data section of a 2D SGZ file, and the header make_header writes for it.

   GENERATED (Gen/Producer2d.v, re-read from /repo on every run): loop bounds, traces_to_read, buffer shape, the
   per-group / per-block switch, slice bounds, ORDER of the queue items, which source trace fills which buffer row, the
   sample copy range and the edge-replication assignment, the integer header fields.
   HAND-WRITTEN here (glue): the meaning of the numpy slice assignments on one buffer row, Python negative indexing,
   "the compressor codes every queued 2-D array unit by unit in C order" (the ZFP structural assumption on the
   compression side, validated by tools/checks/twod.py on every run) and "the writer appends the codes in queue order"
   (queue order = program order: C16). *)
From Coq Require Import ZArith List Bool Lia.
Import ListNotations.
From SZ Require Import Lib.Py Gen.Utils Gen.Reader Gen.Producer2d Spec.Container.
Open Scope Z_scope.

(* Python index normalisation: seq[k] with k < 0 counts from the end *)
Definition py_idx (len k : Z) : Z := if k <? 0 then k + len else k.

(* the 16 samples of the 4x4 unit (xu, zu) of a 2-D image, row-major *)
Definition unit_of {S : Type} (img : Z -> Z -> S) (xu zu : Z) : list S :=
  flat_map (fun p => map (fun q => img (4 * xu + p) (4 * zu + q)) (zrange 0 4)) (zrange 0 4).

Section P2.
Variable sample code : Type.
Variable zero : sample.                       (* np.zeros *)
Variable enc : list sample -> code.           (* the codec on one 4x4 unit (16 samples, row-major) at the file's rate *)
Variable src : Z -> Z -> sample.              (* the source section: src t z = sample z of trace t *)
Variables n ns bs1 bs2 : Z.                   (* len(geom.traces), len(samples), blockshape[1], blockshape[2] *)

(* one row of the group buffer after io_thread_func_2d, column j:
     seismic_buffer = np.zeros(...)
     seismic_buffer[i, copy_lo:copy_hi] = trace            (trace has copy_hi - copy_lo samples)
     seismic_buffer[i, fill_lo:] = seismic_buffer[i, fill_src]   (broadcast of one value, read AFTER the copy) *)
Definition row_after_copy (trace : Z -> sample) (j : Z) : sample :=
  if (io2_copy_lo ns <=? j) && (j <? io2_copy_hi ns) then trace (j - io2_copy_lo ns) else zero.
Definition row_final (trace : Z -> sample) (j : Z) : sample :=
  if io2_fill_lo ns <=? j then row_after_copy trace (io2_fill_src ns) else row_after_copy trace j.

(* the group buffer of trace group g *)
Definition buf (g i j : Z) : sample :=
  row_final (src (py_idx n (io2_row_src bs1 g (p2_traces_to_read n ns bs1 bs2 g) i))) j.

(* zfpy.compress_numpy(a, rate, write_header=False) of a rows x cols array (both multiples of 4): the codes of its
   4x4 units in C order *)
Definition compress2 (rows cols : Z) (a : Z -> Z -> sample) : list code :=
  flat_map (fun xu => map (fun zu => enc (unit_of a xu zu)) (zrange 0 (cols / 4))) (zrange 0 (rows / 4)).

Definition item_codes (it : p2_item) : list code :=
  match it with
  | P2Whole g => compress2 (p2_buffer_rows n ns bs1 bs2) (p2_buffer_cols n ns bs1 bs2) (buf g)
  | P2Block g lo hi => compress2 (p2_buffer_rows n ns bs1 bs2) (hi - lo) (fun i j => buf g i (lo + j))
  end.

(* the data section, as the sequence of unit codes *)
Definition written : list code := flat_map item_codes (p2_items n ns bs1 bs2).

(* the source section extended by replicating the last trace and the last sample *)
Definition extend (t z : Z) : sample := src (Z.min t (n - 1)) (Z.min z (ns - 1)).

(* header store of trace group g: (position in the stored header arrays, source trace) for the rows that hold real traces *)
Definition hdr_stores (g : Z) : list (Z * Z) :=
  flat_map (fun i => if i <? p2_traces_to_read n ns bs1 bs2 g then [(io2_hdr_dst bs1 g i, io2_hdr_src bs1 g i)] else [])
           (zrange 0 (io2_n_rows bs1)).
Definition all_hdr_stores : list (Z * Z) := flat_map hdr_stores (zrange 0 (p2_n_trace_groups n ns bs1 bs2)).
End P2.

(* ---- the header ---- *)
(* the reader's view of a first header block in which exactly `writes` were made on a zeroed buffer *)
Fixpoint lookup (off : Z) (writes : list (Z * Z)) : Z :=
  match writes with
  | [] => 0
  | (o, v) :: rest => let r := lookup off rest in if o =? off then (if existsb (fun w => fst w =? off) rest then r else v) else r
  end.
(* later writes win; make_header writes every offset once (checked by the generator), so this is simply "the value written" *)
Definition hdr_of_writes (w : list (Z * Z)) : hdr :=
  {| h_u32_0 := lookup 0 w; h_u32_4 := lookup 4 w; h_u32_8 := lookup 8 w; h_u32_12 := lookup 12 w;
     h_i32_40 := lookup 40 w; h_u32_44 := lookup 44 w; h_u32_48 := lookup 48 w; h_u32_52 := lookup 52 w;
     h_u32_56 := lookup 56 w; h_u32_60 := lookup 60 w; h_u32_64 := lookup 64 w; h_u32_68 := lookup 68 w;
     h_u32_72 := lookup 72 w |}.

(* valid 2D conversion parameters with an integral bit rate (rates below one bit crash zfpy in 2D: D13) *)
Definition wfp2 (n ns rate bs1 bs2 : Z) : bool :=
  (1 <=? n) && (1 <=? ns) && (1 <=? rate) && (4 <=? bs1) && (bs1 mod 4 =? 0) && (4 <=? bs2) && (bs2 mod 4 =? 0) &&
  (rate * bs1 * bs2 =? 4096 * 8).

(* correspondence instance: samples are their own coordinates, the codec is the identity *)
Definition written_src (n ns bs1 bs2 : Z) : list (list (Z * Z)) :=
  written (Z * Z) (list (Z * Z)) (-1, -1) (fun u => u) pair n ns bs1 bs2.
(* per unit: the 4 source traces and the 4 source samples, and whether the unit is their product *)
Definition unit_summary (u : list (Z * Z)) : list Z * list Z * bool :=
  let rows := map (fun p => fst (nth (4 * p) u (0, 0))) [0; 1; 2; 3]%nat in
  let cols := map (fun q => snd (nth q u (0, 0))) [0; 1; 2; 3]%nat in
  (rows, cols,
   Nat.eqb (length u) 16 &&
   forallb (fun p => forallb (fun q => let c := nth (4 * p + q) u (0, 0) in
                                       (fst c =? nth p rows 0) && (snd c =? nth q cols 0)) [0; 1; 2; 3]%nat) [0; 1; 2; 3]%nat).
Definition written_summary (n ns bs1 bs2 : Z) := map unit_summary (written_src n ns bs1 bs2).
