(* Model/Routes.v -- the conversion ROUTES other than SEG-Y and NumPy: ZGY (pyzgy), VDS (pyvds), SGZ as input
   (properties C01a, C03b, C05a).

   GENERATED (Gen/Routes.v, from the source text on every run): the Filetype values, the extension table of
   SeismicFile.open and the structured flag per type, the converter classes' file types, the store_headers rule, the
   census showing that the data path never looks at the file type, the two doubles and the source / detection code
   fields of make_header_seismic_file, the ZGY header-word table entries, the order of the stored arrays, the symbolic
   element of every array returned by get_zgy_header_arrays, the reader's sample-axis branch and formulas.
   HAND-WRITTEN (here): the meaning of those pieces --
     - Python: str.lower on ASCII, str.strip('.'), isinstance dispatch, dict insertion order, int(float) truncation,
       int/float arithmetic of the scalar expressions `rfx` (binary64 = Coq's primitive floats, as in Model/Geometry.v);
     - numpy: np.round (half to even) followed by astype(np.intc) on values inside the int32 range, ndarray.tobytes()
       of a C-contiguous (rows, cols) int32 grid = row-major words; np.linspace(first, last, num, dtype=np.intc) is a
       PARAMETER `lin` (see lin_exact for what the theorems assume of it);
     - the handle objects (segyio / pyzgy / pyvds / SgzReader emulators): an axis `ilines` and an accessor `iline[number]`;
       pyzgy's and pyvds's SliceAccessor.__getitem__ (external code) is modelled by emu_iline.
   The container pieces (table, to_buffer, footer, reader of trace headers) are those of Model/Headers.v; the integer header
   fields those of Model/HeaderW.v; the sample-axis reader that of Model/Geometry.v (over Gen/Geometry.v).
   Mirrored /repo functions (pinned in tools/pinlist.txt): seismicfile SeismicFile.open, headers
   HeaderwordInfo.get_zgy_header_arrays, headers HeaderwordInfo.__init__, conversion_utils make_header_seismic_file,
   conversion SeismicFileConverter.write_headers, read SgzReader._parse_coordinates. *)
From Coq Require Import ZArith List Bool Lia.
From Coq Require PrimFloat.
Import ListNotations.
From SZ Require Import Lib.Py Gen.Utils Gen.Reader Gen.Header Gen.Headers Gen.Producer Gen.Window Gen.Routes.
From SZ Require Import Model.Writer Model.Headers.
From SZ Require Model.Geometry.
Open Scope Z_scope.

Notation float := PrimFloat.float.

(* ================================================================ 1. SeismicFile.open: extension -> file type -> opener *)
Fixpoint codes_eqb (a b : list Z) : bool :=
  match a, b with
  | [], [] => true
  | x :: a', y :: b' => (x =? y) && codes_eqb a' b'
  | _, _ => false
  end.
Fixpoint assoc_ext (e : list Z) (t : list (list Z * Z)) : option Z :=
  match t with [] => None | (k, v) :: r => if codes_eqb e k then Some v else assoc_ext e r end.
(* str.lower() restricted to ASCII; str.strip('.') removes dots at both ends *)
Definition lower1 (c : Z) : Z := if (65 <=? c) && (c <=? 90) then c + 32 else c.
Fixpoint lstrip_dots (s : list Z) : list Z := match s with 46 :: r => lstrip_dots r | _ => s end.
Definition strip_dots (s : list Z) : list Z := rev (lstrip_dots (rev (lstrip_dots s))).
(* raw = os.path.splitext(filename)[1] *)
Definition ext_norm (raw : list Z) : list Z := strip_dots (map lower1 raw).

(* the file_type argument: absent (None), a Filetype member, anything else *)
Inductive ftarg := NoArg | ArgFt (v : Z) | ArgOther.
Definition open_filetype (raw_ext : list Z) (a : ftarg) : outcome Z :=
  match a with
  | NoArg => match assoc_ext (ext_norm raw_ext) open_ext_table with Some v => Return v | None => Raise ValueErr end
  | ArgFt v => Return v
  | ArgOther => Raise ValueErr
  end.
Definition open_opener_of (ft : Z) : option Z := assocZ ft open_opener.
(* handle.structured; metrics_ok = segyio's cube_metrics succeeded and iline_count * xline_count == tracecount *)
Definition open_structured_of (ft : Z) (metrics_ok : bool) : option bool :=
  match assocZ ft open_structured with Some (Some b) => Some b | Some None => Some metrics_ok | None => None end.
(* entry point of the correspondence harness: (0, file type, opener, structured as 0/1) or (1, 0, 0, 0) for ValueError *)
Definition open_show (raw_ext : list Z) (a : ftarg) (metrics_ok : bool) : Z * Z * Z * Z :=
  match open_filetype raw_ext a with
  | Return ft => match open_opener_of ft, open_structured_of ft metrics_ok with
                 | Some o, Some s => (0, ft, o, if s then 1 else 0)
                 | _, _ => (2, ft, 0, 0)
                 end
  | Raise _ => (1, 0, 0, 0)
  end.

(* ================================================================ 2. handles and the data path *)
(* A handle offers an axis (ordinal -> line number) and an accessor (line number -> plane; None = IndexError).  A plane
   is crossline ordinal -> sample index -> sample. *)
Section Handles.
Variable Smp : Type.
Record handle := { h_ilines : Z -> Z; h_iline : Z -> Z -> Z -> option Smp }.
(* THE CONTRACT the converter relies on (segyio's documented behaviour): iline[ilines[i]] is inline i of the source *)
Definition handle_ok (h : handle) (src : Z -> Z -> Z -> Smp) (n_il : Z) : Prop :=
  forall i x z, 0 <= i < n_il -> h_iline h (h_ilines h i) x z = Some (src i x z).
(* cell (i, x, z) of the padded cube as seismic_file_producer / io_thread_func fill it, for ANY file type (the census of
   Gen/Routes.v: these functions never look at the file type; io_line_by_number_of_ordinal: the plane of row L is
   seismicfile.iline[seismicfile.ilines[L]]); the row / crossline / sample arithmetic is sf_cell_src of Model/Writer.v
   over Gen/Producer.v, segyio reader (reduce_iops is a SEG-Y option) *)
Definition route_cell (h : handle) (n_il n_xl ns bs0 bs1 bs2 i x z : Z) : option Smp :=
  match sf_cell_src n_il n_xl ns bs0 bs1 bs2 false i x z with
  | (L, x', z') => h_iline h (h_ilines h L) x' z'
  end.

(* pyzgy / pyvds: SliceAccessor.__getitem__(int) -- `elif subscript < 0: values_function(len(self) + subscript)` else
   values_function(subscript); values_function = read_inline_number = read_inline(coord_to_index(number, ilines)) *)
Fixpoint find_from (axis : Z -> Z) (key k : Z) (fuel : nat) : option Z :=
  match fuel with O => None | S f => if axis k =? key then Some k else find_from axis key (k + 1) f end.
Definition emu_iline (axis : Z -> Z) (n : Z) (planes : Z -> Z -> Z -> Smp) (key x z : Z) : option Smp :=
  let key' := if key <? 0 then n + key else key in
  match find_from axis key' 0 (Z.to_nat n) with Some i => Some (planes i x z) | None => None end.
Definition emu_handle (axis : Z -> Z) (n : Z) (planes : Z -> Z -> Z -> Smp) : handle :=
  {| h_ilines := axis; h_iline := emu_iline axis n planes |}.
End Handles.
Arguments h_ilines {Smp}. Arguments h_iline {Smp}. Arguments handle_ok {Smp}. Arguments route_cell {Smp}.
Arguments emu_iline {Smp}. Arguments emu_handle {Smp}.

(* ================================================================ 3. scalar expressions *)
Inductive rv := RVZ (z : Z) | RVF (f : float).
Definition f_of_Z := Model.Geometry.f_of_Z.
Definition f_zero := Model.Geometry.f_zero.
Definition rv_f (v : rv) : float := match v with RVZ z => f_of_Z z | RVF f => f end.
(* int op int stays an int; anything with a float is binary64 (ints converted exactly for |z| < 2^53) *)
Definition rv_arith (opz : Z -> Z -> Z) (opf : float -> float -> float) (a b : rv) : rv :=
  match a, b with RVZ x, RVZ y => RVZ (opz x y) | _, _ => RVF (opf (rv_f a) (rv_f b)) end.
(* true division (never raises here: the theorems and the harness keep the divisors non-zero) *)
Definition rv_div (a b : rv) : rv := RVF (PrimFloat.div (rv_f a) (rv_f b)).
Record renv := {
  re_samples0 : float; re_zinc : float; re_corner : Z -> Z -> float; re_nil : Z; re_nxl : Z;
  re_row : Z; re_col : Z; re_f64 : Z -> float }.
Fixpoint reval (E : renv) (e : rfx) : rv :=
  match e with
  | RSamples0 => RVF (re_samples0 E) | RZinc => RVF (re_zinc E) | RCorner k c => RVF (re_corner E k c)
  | RCountIl => RVZ (re_nil E) | RCountXl => RVZ (re_nxl E)
  | RRow => RVF (f_of_Z (re_row E)) | RCol => RVF (f_of_Z (re_col E))
  | RInt z => RVZ z | RFlt z => RVF (f_of_Z z)
  | RHdrF64 off => RVF (re_f64 E off)
  | RAdd a b => rv_arith Z.add PrimFloat.add (reval E a) (reval E b)
  | RSub a b => rv_arith Z.sub PrimFloat.sub (reval E a) (reval E b)
  | RMul a b => rv_arith Z.mul PrimFloat.mul (reval E a) (reval E b)
  | RDiv a b => rv_div (reval E a) (reval E b)
  end.
(* int(x): truncation toward zero *)
Definition rv_int (v : rv) : Z := match v with RVZ z => z | RVF f => Model.Geometry.f_trunc_Z f end.
(* np.round(x).astype(np.intc) for a finite x whose rounded value is an int32 *)
Definition round_intc (f : float) : Z := Model.Geometry.f_trunc_Z (Model.Geometry.f_rint f).
Definition with_rc (E : renv) (r c : Z) : renv :=
  {| re_samples0 := re_samples0 E; re_zinc := re_zinc E; re_corner := re_corner E; re_nil := re_nil E; re_nxl := re_nxl E;
     re_row := r; re_col := c; re_f64 := re_f64 E |}.
(* a ZGY source as the handle presents it *)
Definition zgy_env (samples0 zinc : float) (corner : Z -> Z -> float) (n_il n_xl : Z) : renv :=
  {| re_samples0 := samples0; re_zinc := zinc; re_corner := corner; re_nil := n_il; re_nxl := n_xl;
     re_row := 0; re_col := 0; re_f64 := fun _ => f_zero |}.

(* ================================================================ 4. the header make_header_seismic_file adds to *)
(* the eight bytes at `off` of the header written for a source of file type ft, as a double: the packed expression, or
   +0.0 of the fresh bytearray (make_header assigns nothing in 76:100: mh_assigned, checked in Proofs/Routes.v) *)
Definition route_f64 (ft : Z) (E : renv) (off : Z) : float :=
  match find (fun r => fst (fst r) =? off) (mhs_f64 ft) with
  | Some (_, _, e) => rv_f (reval E e)
  | None => f_zero
  end.
Definition route_source_code (ft : Z) : Z := mhs_source_code ft.
Definition detection_code (mode : nat) : Z := nth mode mhs_detection_codes 0.
(* byte ranges written after make_header returned: the two code fields and the doubles *)
Definition route_later_writes (ft : Z) : list (Z * Z) :=
  [(mhs_source_code_lo, mhs_source_code_hi); (mhs_detection_lo, mhs_detection_hi)] ++ map fst (mhs_f64 ft).
Definition disjoint_from (lo hi : Z) (r : Z * Z) : bool := (snd r <=? lo) || (hi <=? fst r).

(* which table constructor HeaderwordInfo(seismicfile=...) runs: 0 = first/last-trace scan, 1 = ZGY, 2 = RuntimeError *)
Definition hwinfo_route (ft : Z) : Z :=
  if memZ ft hwinfo_scan_filetypes then 0 else if ft =? hwinfo_zgy_filetype then 1 else 2.

(* ================================================================ 5. the ZGY header-word table and the stored arrays *)
(* tv = value of each `ztv` for the source at hand *)
Definition zgy_table (fields : list Z) (tv : ztv -> Z) : table :=
  fold_left (fun T k => tbl_set T k (0, k)) zgy_tbl_self_keys
    (fold_left (fun T kv => tbl_set T (fst kv) (tv (snd kv), 0)) zgy_tbl_consts (tbl_init fields)).
Definition zgy_fn (tv : ztv -> Z) (f : Z) : Z * Z :=
  if memZ f zgy_tbl_self_keys then (0, f)
  else match assocZ f zgy_tbl_consts with Some t => (tv t, 0) | None => hx_tbl_default end.
Definition ztv_of (n_samples : Z) (E : renv) (t : ztv) : Z :=
  match t with TVNSamples => n_samples | TVConst z => z | TVTrunc e => rv_int (reval E e) end.

(* an axis as the handle gives it: first, last, count *)
Record lax := { ax_first : Z; ax_last : Z; ax_n : Z }.
Definition arith_lax (a d n : Z) : lax := {| ax_first := a; ax_last := a + d * (n - 1); ax_n := n |}.

(* the converted window in ORDINALS of the source: geom = Geometry3d(min_il, max_il, min_xl, max_xl) given to the converter, or
   detect_geometry's Geometry3d(0, n_il, 0, n_xl) (Gen/Window.v: w_window_geom, w_detect_geom, w_geom_ilines / w_geom_xlines) *)
Record win := { wi0 : Z; wi1 : Z; wx0 : Z; wx1 : Z }.
Definition win_of (g : Z * Z * Z * Z) : win := match g with (a, b, c, d) => {| wi0 := a; wi1 := b; wx0 := c; wx1 := d |} end.
Definition whole (n_il n_xl : Z) : win := win_of (w_detect_geom n_il n_xl).
Definition win_ok (w : win) (n_il n_xl : Z) : bool :=
  (0 <=? wi0 w) && (wi0 w <? wi1 w) && (wi1 w <=? n_il) && (0 <=? wx0 w) && (wx0 w <? wx1 w) && (wx1 w <=? n_xl).
(* range(start, stop, 1): first element, last element, length *)
Definition rng_first (r : Z * Z * Z) : Z := match r with (a, _, _) => a end.
Definition rng_last (r : Z * Z * Z) : Z := match r with (_, b, _) => b - 1 end.
Definition rng_len (r : Z * Z * Z) : Z := match r with (a, b, _) => b - a end.
Definition g_ilines (w : win) := w_geom_ilines (wi0 w) (wi1 w) (wx0 w) (wx1 w).
Definition g_xlines (w : win) := w_geom_xlines (wi0 w) (wi1 w) (wx0 w) (wx1 w).
Definition win_nil (w : win) : Z := rng_len (g_ilines w).        (* len(geom.ilines) *)
Definition win_nxl (w : win) : Z := rng_len (g_xlines w).
(* the crop of get_blank_header_info on a (rows, cols) grid: numpy clips a slice stop to the extent *)
Definition crop_args {A} (f : Z -> Z -> Z -> Z -> A) (w : win) : A :=
  f (rng_first (g_ilines w)) (rng_last (g_ilines w)) (rng_first (g_xlines w)) (rng_last (g_xlines w)).
Definition crop_r0 (w : win) : Z := crop_args zgy_crop_row_lo w.
Definition crop_c0 (w : win) : Z := crop_args zgy_crop_col_lo w.
Definition crop_rows (w : win) (rows : Z) : Z := Z.min (crop_args zgy_crop_row_hi w) rows - crop_r0 w.
Definition crop_cols (w : win) (cols : Z) : Z := Z.min (crop_args zgy_crop_col_hi w) cols - crop_c0 w.

Section Arrays.
Variable lin : Z -> Z -> Z -> Z -> Z.         (* np.linspace(start, stop, num=num, dtype=np.intc)[k] *)
Variable rnd : rfx -> Z -> Z -> Z.            (* np.round(e).astype(np.intc) at grid position (r, c) of the WHOLE-FILE grid *)
Variables il xl : lax.
Definition zsym_elem (s : zsym) (r c : Z) : Z :=
  match s with
  | ZLines is_il by_row => let a := if is_il then il else xl in lin (ax_first a) (ax_last a) (ax_n a) (if by_row then r else c)
  | ZRound e => rnd e r c
  end.
(* word p of the array stored under `key` for the window w: the whole-file (rows, cols) grid, cropped, tobytes() row-major *)
Definition zgy_warray (w : win) (key p : Z) : Z :=
  let cw := crop_cols w (zgy_grid_cols (ax_n il) (ax_n xl)) in
  match assocZ key zgy_headers_dict with
  | Some pos => zsym_elem (nth (Z.to_nat pos) zgy_returns (ZLines true true)) (crop_r0 w + p / cw) (crop_c0 w + p mod cw)
  | None => 0
  end.
Definition zgy_warray_words (w : win) : Z :=
  crop_rows w (zgy_grid_rows (ax_n il) (ax_n xl)) * crop_cols w (zgy_grid_cols (ax_n il) (ax_n xl)).
(* conversion without a window *)
Definition zgy_array (key p : Z) : Z := zgy_warray (whole (ax_n il) (ax_n xl)) key p.
Definition zgy_array_words : Z := zgy_warray_words (whole (ax_n il) (ax_n xl)).
End Arrays.
(* what the theorems assume of np.linspace with dtype=np.intc on an arithmetic integer axis (validated by the harness) *)
Definition lin_exact (lin : Z -> Z -> Z -> Z -> Z) : Prop :=
  forall a d n k, 2 <= n -> 0 <= k < n -> lin a (a + d * (n - 1)) n k = a + d * k.
(* the concrete rounding of the CDP grids *)
Definition rnd_float (E : renv) (e : rfx) (r c : Z) : Z := round_intc (rv_f (reval (with_rc E r c) e)).

(* the file the ZGY route writes for the window w of an (n_il, n_xl) source, as far as trace headers are concerned: make_header's
   table, count, array length and trace count (window sizes: Gen/Header.v, Gen/Window.v), then SeismicFileConverter.write_headers:
   every (cropped) array of headers_dict in dict order, each array.tobytes() padded with hx_wr_pad *)
Definition zgy_wwrite (fields : list Z) (tv : ztv -> Z) (arr : Z -> Z -> Z) (n_il n_xl : Z) (w : win) (ndb : Z) : sgzfile :=
  let T := zgy_table fields tv in
  {| f_nhb := hx_header_blocks; f_ndb := ndb; f_hel := hx_hel_3d (win_nxl w) (win_nil w); f_count := header_array_count T;
     f_tracecount := win_nil w * win_nxl w; f_is3d := true; f_nil := win_nil w; f_nxl := win_nxl w; f_table := to_buffer T;
     f_footer := write_footer hx_wr_pad (4096 * hx_header_blocks + 4096 * ndb)
                              (4 * (crop_rows w (zgy_grid_rows n_il n_xl) * crop_cols w (zgy_grid_cols n_il n_xl)))
                              (map (fun kv => arr (fst kv)) zgy_headers_dict) |}.
Definition zgy_write (fields : list Z) (tv : ztv -> Z) (arr : Z -> Z -> Z) (n_il n_xl ndb : Z) : sgzfile :=
  zgy_wwrite fields tv arr n_il n_xl (whole n_il n_xl) ndb.
(* what every field of trace t must read back as *)
Definition zgy_expected (tv : ztv -> Z) (arr : Z -> Z -> Z) (f t : Z) : Z :=
  if memZ f zgy_tbl_self_keys then arr f t else fst (zgy_fn tv f).

(* ================================================================ 6. the reader's sample axis on the double branch *)
Definition hdr_renv (f64 : Z -> float) : renv :=
  {| re_samples0 := f_zero; re_zinc := f_zero; re_corner := fun _ _ => f_zero; re_nil := 0; re_nxl := 0; re_row := 0; re_col := 0;
     re_f64 := f64 |}.
Definition rdz_start (f64 : Z -> float) : float := rv_f (reval (hdr_renv f64) rdz_dbl_start).
Definition rdz_step (f64 : Z -> float) : float := rv_f (reval (hdr_renv f64) rdz_dbl_step).
(* element k of gen_coord_list(start, step, count) = start + step * arange(count), binary64 *)
Definition rdz_elem (f64 : Z -> float) (k : Z) : float :=
  PrimFloat.add (rdz_start f64) (PrimFloat.mul (rdz_step f64) (f_of_Z k)).

(* ================================================================ 7. entry points of the correspondence harness *)
Definition show_table (T : table) : list (Z * Z * Z) := to_list T.
(* corners as a list [c00; c01; c10; c11; c20; c21; c30; c31] *)
Definition corner_of (l : list float) (k c : Z) : float := nth (Z.to_nat (2 * k + c)) l f_zero.
(* np.linspace on an arithmetic axis, as lin_exact says (the harness checks numpy against this separately) *)
Definition lin_model (a b n k : Z) : Z := if n <=? 1 then a else a + ((b - a) / (n - 1)) * k.
Definition model_zgy_warrays (corners : list float) (il xl : lax) (w : win) : list (Z * list Z) :=
  let E := zgy_env f_zero f_zero (corner_of corners) (ax_n il) (ax_n xl) in
  map (fun kv => (fst kv, map (zgy_warray lin_model (rnd_float E) il xl w (fst kv)) (zrange 0 (zgy_warray_words il xl w)))) zgy_headers_dict.
Definition model_zgy_arrays (corners : list float) (il xl : lax) : list (Z * list Z) :=
  model_zgy_warrays corners il xl (whole (ax_n il) (ax_n xl)).
Definition model_zgy_table (n_samples : Z) (zinc : float) : list (Z * Z * Z) :=
  let E := zgy_env f_zero zinc (fun _ _ => f_zero) 0 0 in
  filter (fun r => match r with (k, a, b) => negb ((a =? 0) && (b =? 0)) end) (to_list (zgy_table segy_fields (ztv_of n_samples E))).
Definition model_f64_same (ft : Z) (samples0 zinc : float) (off : Z) (actual : float) : bool :=
  Model.Geometry.f_same (route_f64 ft (zgy_env samples0 zinc (fun _ _ => f_zero) 0 0) off) actual.
Definition model_zslices_same (f84 f92 : float) (k : Z) (actual : float) : bool :=
  Model.Geometry.f_same (rdz_elem (fun off => if off =? 84 then f84 else if off =? 92 then f92 else f_zero) k) actual.
