(* Model/Reblock.v -- C12: SgzConverter.convert_to_adv_sgz (conversion.py), the re-blocker from the default layout
   (4,4,1024) at 2 bit per voxel to the z-slice layout (64,64,4).

   Every arithmetic expression (asserts, header patches, loop bounds, i_count/x_count, seek offsets, slice bounds,
   read lengths, footer padding) is GENERATED from the source into Gen/Reblock.v (tools/genx_reblock.py, which
   also checks the statement skeleton).  This file gives the skeleton its meaning:

   * a bytearray is a list; `a[lo:hi] = r` is the list SPLICE (the length changes when len r <> hi - lo, exactly
     as in Python: a short file.read() shrinks the staging buffer); `a[lo:hi]` is the clamped slice;
   * the source file is seen through `file_read L off len`: the bytes of the file from `off`, at most `len` of them,
     fewer (or none) when the file of length L ends -- the re-blocker uses self.file.seek/read directly, NOT the
     loader's length-checked range read;
   * a byte is represented by its PROVENANCE: None = a zero byte of a fresh bytearray, Some o = byte o of the source
     file.  The re-blocker never looks at byte values, so this loses nothing;
   * the header is a list of byte values, patched by splices with struct.pack("<I", v) (raises outside 0..2^32-1);
   * the footer: hand models of headers.HeaderwordInfo.get_header_dict (classification of the 89 template entries
     into constants and file offsets, duplicates aliasing an earlier entry) and of
     read.SgzReader.read_variant_headers on a FRESH reader (both pinned in tools/pinlist.txt); the written footer
     is a list of segments (source array index, mask-filtered?, number of padding bytes).

   Domain of faithfulness: bytearray(n) and bytes(n) raise for n < 0 and slicing with negative bounds counts from
   the end; the model's `zeros` treats a negative length as 0 and uses Python's rule for negative bounds
   (norm_bound).  Proofs/Reblock.v shows that under the two asserts and a well-formed source header every length
   is positive and every bound non-negative, so neither case arises where the theorems speak. *)
From Coq Require Import ZArith List Bool Lia.
Import ListNotations.
From SZ Require Import Lib.Py Gen.Utils Gen.Reader Gen.Reblock.
Open Scope Z_scope.

(* ---------- Python sequences ---------- *)
Definition znth {A} (l : list A) (k : Z) (d : A) : A := if k <? 0 then d else nth (Z.to_nat k) l d.
Definition zlen {A} (l : list A) : Z := Z.of_nat (length l).

(* PySlice_AdjustIndices for step 1: both bounds normalised, stop raised to start *)
Definition sl_a {A} (l : list A) (lo : Z) : Z := norm_bound lo (zlen l).
Definition sl_b {A} (l : list A) (lo hi : Z) : Z := Z.max (sl_a l lo) (norm_bound hi (zlen l)).
(* l[lo:hi] *)
Definition pyslice {A} (l : list A) (lo hi : Z) : list A :=
  firstn (Z.to_nat (sl_b l lo hi - sl_a l lo)) (skipn (Z.to_nat (sl_a l lo)) l).
(* l[lo:hi] = r   (bytearray / list slice assignment, step 1: the result has length len l - (b - a) + len r) *)
Definition splice {A} (l : list A) (lo hi : Z) (r : list A) : list A :=
  firstn (Z.to_nat (sl_a l lo)) l ++ r ++ skipn (Z.to_nat (sl_b l lo hi)) l.

(* ---------- bytes by provenance ---------- *)
Definition sbyte := option Z.
Definition zeros (n : Z) : list sbyte := repeat None (Z.to_nat n).
(* file.seek(off); file.read(len) on a file of L bytes; read(-1) reads to the end *)
Definition file_read (L off len : Z) : list sbyte :=
  map Some (zrange off (if len <? 0 then L else Z.min (off + len) L)).

(* ---------- the data section ---------- *)
(* buffer = bytearray(..); for n in range(..): seek; buffer[idx] = read(..) *)
Definition rb_fill (H : hdr) (L i x : Z) : list sbyte :=
  let ic := rb_i_count H i in let xc := rb_x_count H i ic x in
  fold_left (fun buf n => splice buf (rb_idx_lo H i ic x xc n) (rb_idx_hi H i ic x xc n)
                                 (file_read L (rb_seek H i ic x xc n) (rb_read_len H i ic x xc n)))
            (zrange 0 (rb_n_stop H i ic x xc)) (zeros (rb_buffer_len H i ic x xc)).

(* new_block = bytearray(..); for u in range(..): new_block[a:b] = buffer[c:d] *)
Definition rb_block (H : hdr) (i x : Z) (buf : list sbyte) (z : Z) : list sbyte :=
  let ic := rb_i_count H i in let xc := rb_x_count H i ic x in
  fold_left (fun blk u => splice blk (rb_dst_lo H i ic x xc z u) (rb_dst_hi H i ic x xc z u)
                                 (pyslice buf (rb_src_lo H i ic x xc z u) (rb_src_hi H i ic x xc z u)))
            (zrange 0 (rb_u_stop H i ic x xc z)) (zeros (rb_block_len H i ic x xc z)).

(* everything written between the header and the footer, in order *)
Definition rb_blocks_x (H : hdr) (L i x : Z) : list sbyte :=
  let ic := rb_i_count H i in let xc := rb_x_count H i ic x in
  let buf := rb_fill H L i x in
  flat_map (fun z => rb_block H i x buf z) (zrange 0 (rb_z_stop H i ic x xc)).
Definition rb_blocks_i (H : hdr) (L i : Z) : list sbyte :=
  flat_map (fun x => rb_blocks_x H L i x) (zrange 0 (rb_x_stop H i (rb_i_count H i))).
Definition rb_data (H : hdr) (L : Z) : list sbyte :=
  flat_map (fun i => rb_blocks_i H L i) (zrange 0 (rb_i_stop H)).

(* the (offset, length) of every read issued, in order (for the bounds theorem and the correspondence check) *)
Definition rb_reads (H : hdr) : list (Z * Z) :=
  flat_map (fun i => let ic := rb_i_count H i in
    flat_map (fun x => let xc := rb_x_count H i ic x in
      map (fun n => (rb_seek H i ic x xc n, rb_read_len H i ic x xc n)) (zrange 0 (rb_n_stop H i ic x xc)))
      (zrange 0 (rb_x_stop H i ic))) (zrange 0 (rb_i_stop H)).

(* ---------- the header ---------- *)
Definition le32 (v : Z) : list Z := [v mod 256; (v / 256) mod 256; (v / 65536) mod 256; (v / 16777216) mod 256].
(* utils.int_to_bytes = struct.pack('<I', v): struct.error outside the unsigned 32-bit range *)
Definition int_to_bytes (v : Z) : outcome (list Z) :=
  if (0 <=? v) && (v <? 4294967296) then Return (le32 v) else Raise OtherErr.
Definition rb_header (H : hdr) (hb : list Z) : outcome (list Z) :=
  fold_left (fun acc p => bind acc (fun h => match p with (lo, hi, v) =>
                                     bind (int_to_bytes v) (fun b => Return (splice h lo hi b)) end))
            (rb_header_patches H) (Return hb).

(* parsing a header: the fields of Gen/Reader.v's record are bytes_to_int / bytes_to_signed_int of 4 bytes *)
Definition u32_at (hb : list Z) (o : Z) : Z :=
  znth hb o 0 + 256 * znth hb (o + 1) 0 + 65536 * znth hb (o + 2) 0 + 16777216 * znth hb (o + 3) 0.
Definition i32_at (hb : list Z) (o : Z) : Z := let u := u32_at hb o in if u <? 2147483648 then u else u - 4294967296.
Definition hdr_of_bytes (hb : list Z) : hdr :=
  {| h_u32_0 := u32_at hb 0; h_u32_4 := u32_at hb 4; h_u32_8 := u32_at hb 8; h_u32_12 := u32_at hb 12;
     h_i32_40 := i32_at hb 40; h_u32_44 := u32_at hb 44; h_u32_48 := u32_at hb 48; h_u32_52 := u32_at hb 52;
     h_u32_56 := u32_at hb 56; h_u32_60 := u32_at hb 60; h_u32_64 := u32_at hb 64; h_u32_68 := u32_at hb 68;
     h_u32_72 := u32_at hb 72 |}.
(* a header that differs from H in the blockshape and the disk-block count only *)
Definition set_layout (H : hdr) (b0 b1 b2 ndb : Z) : hdr :=
  {| h_u32_0 := h_u32_0 H; h_u32_4 := h_u32_4 H; h_u32_8 := h_u32_8 H; h_u32_12 := h_u32_12 H;
     h_i32_40 := h_i32_40 H; h_u32_44 := b0; h_u32_48 := b1; h_u32_52 := b2;
     h_u32_56 := ndb; h_u32_60 := h_u32_60 H; h_u32_64 := h_u32_64 H; h_u32_68 := h_u32_68 H;
     h_u32_72 := h_u32_72 H |}.
Definition bytes_ok (hb : list Z) : Prop := Forall (fun b => 0 <= b < 256) hb.

(* ---------- the footer ---------- *)
(* the trace-header template: (field code, constant value, code of the field it duplicates) in table order *)
Definition tmpl := list (Z * Z * Z).
Inductive hentry := EConst (v : Z) | EOff (k : Z).     (* EOff k: FileOffset of the k-th stored array *)
Fixpoint d_lookup {V} (k : Z) (d : list (Z * V)) : option V :=
  match d with [] => None | (k', e) :: r => if k =? k' then Some e else d_lookup k r end.
(* dict[k] = e: replaces in place, else appends (insertion order) *)
Fixpoint d_set {V} (k : Z) (e : V) (d : list (Z * V)) : list (Z * V) :=
  match d with [] => [(k, e)] | (k', e') :: r => if k =? k' then (k, e) :: r else (k', e') :: d_set k e r end.
(* headers.HeaderwordInfo.get_header_dict: one step per table entry; state = (header_dict, len(stored_header_keys)) *)
Definition hd_step (st : list (Z * hentry) * Z) (t : Z * Z * Z) : list (Z * hentry) * Z :=
  match st, t with (d, cnt), (k, v0, v1) =>
    if negb (v0 =? 0) || (v1 =? 0) then (d_set k (EConst v0) d, cnt)
    else match d_lookup v1 d with
         | Some e => (d_set k e d, cnt)
         | None => (d_set k (EOff cnt) d, cnt + 1)
         end
  end.
Definition header_dict (T : tmpl) : list (Z * hentry) * Z := fold_left hd_step T ([], 0).
(* the assert at the end of get_header_dict (checked when the SOURCE is opened) *)
Definition template_ok (T : tmpl) (nha : Z) : bool := snd (header_dict T) =? nha.

(* read.SgzReader.read_variant_headers(include_padding) on a fresh reader, tracefields=None: one entry per key whose
   template value is a FileOffset: (key, (index of the stored array it is read from, mask applied?)) *)
Definition use_mask (H : hdr) (include_padding : bool) : bool :=
  negb (rd_blockshape0_v1 H =? 1) &&
  negb ((if rd_blockshape0_v1 H =? 1 then false else rd_tracecount H =? rd_n_ilines H * rd_n_xlines H) || include_padding).
Definition variant_headers (H : hdr) (T : tmpl) (include_padding : bool) : list (Z * (Z * bool)) :=
  flat_map (fun ke : Z * hentry => match ke with
                                    | (k, EOff j) => [(k, (j, use_mask H include_padding))]
                                    | (_, EConst _) => []
                                    end)
           (fst (header_dict T)).
(* self.hw_info.table[k][1] *)
Definition tmpl_dup (T : tmpl) (k : Z) : Z :=
  match d_lookup k (map (fun t => match t with (c, v0, v1) => (c, v1) end) T) with Some v => v | None => 0 end.

(* one written segment: (source array index, mask-filtered?, zero bytes appended) *)
Definition fseg := (Z * bool * Z)%type.
(* nlive = number of live traces (length of a mask-filtered array) *)
Definition rb_footer (H : hdr) (T : tmpl) (nlive : Z) : outcome (list fseg) :=
  mapM (fun kv : Z * (Z * bool) => match kv with (k, (j, m)) =>
          let alen := if (m : bool) then 4 * nlive else rd_header_entry_length_bytes H in
          let p := rb_footer_pad H alen in
          if p <? 0 then Raise ValueErr else Return (j, m, p) end)
       (filter (fun kv : Z * (Z * bool) => if rb_footer_stored_only then tmpl_dup T (fst kv) =? fst kv else true)
               (variant_headers H T rb_footer_include_padding)).

(* ---------- the whole conversion ---------- *)
Record outfile := { o_header : list Z; o_data : list sbyte; o_footer : list fseg }.
Definition rb_guard (H : hdr) : bool := rb_assert_rate H && rb_assert_blockshape H.
(* H = the reader's parsed header of the source, hb = its header bytes, T = its template, L = its length in bytes *)
Definition reblock (H : hdr) (hb : list Z) (T : tmpl) (L nlive : Z) : outcome outfile :=
  if negb (rb_assert_rate H) then Raise AssertErr else
  if negb (rb_assert_blockshape H) then Raise AssertErr else
  bind (rb_header H hb) (fun h =>
  bind (rb_footer H T nlive) (fun f =>
  Return {| o_header := h; o_data := rb_data H L; o_footer := f |})).
