(* Model/Cli.v -- the command line interface (seismic_zfp/cli.py): a HAND MODEL of what click does with the declarations
   that Gen/Cli.v extracts from the source, composed with the GENERATED wiring of the three command callbacks.

   What is generated (Gen/Cli.v, re-extracted from cli.py on every run, whole module matched, fail closed):
     the option groups, per command the decorator stack, the callback's signature, the class it constructs, the method it
     calls and which callback parameter each argument of the two calls receives; the API signatures of conversion.py.

   What is hand-written here and therefore ASSUMED of click (trusted base; re-validated on every run by
   tools/checks/clix.py against the installed click: parameter order, names, types and defaults of the real Command
   objects, conversion of sample tokens by click.INT / click.BOOL, and the calls a CliRunner invocation really makes):
     K1 decorators.  A parameter decorator appends its declaration to a memo on the function; decorators apply bottom-up;
        @add_options(g) applies the options of g in the loop order of add_options (reversed, per the generated flag);
        command() reverses the memo.  (click/decorators.py: _param_memo, command)
     K2 names.  An option declared "--long-name" binds to the parameter `long_name`, an argument declared "in-file" to
        `in_file`: leading dashes dropped, '-' replaced by '_', lower-cased.  (Option._parse_decls / Argument._parse_decls)
     K3 values.  After parsing the command line click holds, for every option, either nothing or the raw tokens that
        followed its LAST occurrence (nargs tokens; an occurrence with fewer is a usage error raised by the parser), and
        the positional tokens in order.  An option that does not occur takes its declared default (None if none was
        declared).  Raw tokens are converted by the declared type:
          click.INT    Python int(token).  MODELLED ON the tokens  -?[0-9]+  (what str(int) produces); on every other
                       token the model refuses.  Python's int() also accepts a leading '+', surrounding white space,
                       '_' between digits and non-ASCII digits: the model is silent about those spellings (theorems are
                       stated for tokens the model parses).
          click.BOOL   token.strip().lower() looked up in click's table {1 yes true on t y -> True, 0 no false off f n
                       and the empty string -> False}; white space stripping is not modelled
          Tuple of k INT   exactly k tokens, each converted by INT, made a tuple
          click.Path   the token itself (a str); with exists=True a usage error unless the file exists
        A missing required argument, an unconvertible token or a surplus positional token is a usage error: click exits
        with status 2 and the callback is NOT called.
     K4 --version (click.version_option) is eager: if present (and the parser itself did not fail, e.g. on an option with
        too few tokens at the end of the command line), the version is printed and the callback is not called.
     K5 the callback is called with exactly one keyword argument per exposed parameter, named by K2; Python binds them to
        the signature by name (a name the signature lacks, or a repeated one, is a TypeError; an absent one takes the
        signature's default, here always None).
   The tokeniser itself (which token belongs to which option, "--" handling, option prefixes, abbreviations) is NOT
   modelled: an invocation is given as the positional tokens and a map option-name -> raw tokens. *)
From Coq Require Import ZArith List Bool String Ascii DecimalString DecimalZ DecimalPos.
From SZ Require Import Lib.Py Lib.PyConfig Gen.Config Model.Config Gen.Window Model.Window Gen.Cli.
Import ListNotations.
Open Scope Z_scope.
Open Scope string_scope.

(* ---------------------------------------------------------------- K1: decorator stacking *)
Definition deco_appends (rev_loop : bool) (d : cli_deco) : list cli_decl :=
  match d with
  | UseParam p => [p]
  | UseGroup g => if rev_loop then rev g else g     (* for option in reversed(options): func = option(func) *)
  end.
(* the memo after all decorators ran: the bottom decorator is applied first *)
Definition click_memo (rev_loop : bool) (stack : list cli_deco) : list cli_decl :=
  flat_map (deco_appends rev_loop) (rev stack).
(* command(): params.extend(reversed(memo)) *)
Definition click_params (rev_loop : bool) (stack : list cli_deco) : list cli_decl := rev (click_memo rev_loop stack).
(* the declarations in source reading order: top decorator first, groups in list order *)
Definition declared_order (stack : list cli_deco) : list cli_decl :=
  flat_map (fun d => match d with UseParam p => [p] | UseGroup g => g end) stack.

(* ---------------------------------------------------------------- K2: name mangling *)
Definition ascii_lower (c : ascii) : ascii :=
  let n := nat_of_ascii c in if ((65 <=? n) && (n <=? 90))%nat then ascii_of_nat (n + 32) else c.
Fixpoint mangle (s : string) : string :=
  match s with
  | EmptyString => EmptyString
  | String c t => String (if Ascii.eqb c "-" then "_"%char else ascii_lower c) (mangle t)
  end.
(* _split_opt: the prefix is the first character, doubled if the second one is the same *)
Definition strip_prefix (s : string) : string :=
  match s with
  | String "-" (String "-" t) => t
  | String "-" t => t
  | _ => s
  end.
Definition option_name (decl : string) : string := mangle (strip_prefix decl).
Definition argument_name (decl : string) : string := mangle decl.
Definition decl_name (d : cli_decl) : option string :=
  match d with
  | DArgument decl _ _ => Some (argument_name decl)
  | DOption decl _ _ => Some (option_name decl)
  | DVersion => None                               (* expose_value=False *)
  end.

(* ---------------------------------------------------------------- K3: conversion of raw tokens *)
(* int(token) on -?[0-9]+ ; str(int) *)
Definition parse_int (s : string) : option Z := option_map Z.of_int (NilZero.int_of_string s).
Definition show_int (z : Z) : string := NilZero.string_of_int (Z.to_int z).

Fixpoint lower (s : string) : string :=
  match s with EmptyString => EmptyString | String c t => String (ascii_lower c) (lower t) end.
Definition bool_states : list (string * bool) :=
  [("1", true); ("0", false); ("yes", true); ("no", false); ("true", true); ("false", false); ("on", true); ("off", false);
   ("t", true); ("f", false); ("y", true); ("n", false); ("", false)].
Fixpoint assoc {A} (k : string) (l : list (string * A)) : option A :=
  match l with [] => None | (k', v) :: t => if String.eqb k k' then Some v else assoc k t end.
Definition parse_bool (s : string) : option bool := assoc (lower s) bool_states.
Definition show_bool (b : bool) : string := if b then "true" else "false".

(* the converters, abstracted so that the binding can be computed symbolically; `click_std exists` is the real thing *)
Record converters := { cv_int : string -> option Z; cv_bool : string -> option bool; cv_exists : string -> bool }.
Definition click_std (file_exists : string -> bool) : converters :=
  {| cv_int := parse_int; cv_bool := parse_bool; cv_exists := file_exists |}.

Fixpoint convert_ints (C : converters) (raw : list string) : option (list Z) :=
  match raw with
  | [] => Some []
  | s :: t => match cv_int C s, convert_ints C t with Some z, Some l => Some (z :: l) | _, _ => None end
  end.
Definition convert (C : converters) (ty : cli_ty) (raw : list string) : option cli_val :=
  match ty, raw with
  | CInt, [s] => option_map VInt (cv_int C s)
  | CBool, [s] => option_map VBool (cv_bool C s)
  | CIntTuple k, _ => if Nat.eqb (List.length raw) k then option_map VInts (convert_ints C raw) else None
  | CPath must_exist, [s] => if must_exist && negb (cv_exists C s) then None else Some (VStr s)
  | _, _ => None
  end.

(* an invocation of one command, after tokenisation *)
Record invocation := { iv_args : list string; iv_opt : string -> option (list string) }.

(* the value of an option: its raw tokens converted, or its default *)
Definition bound (C : converters) (ty : cli_ty) (default : cli_val) (raw : option (list string)) : option cli_val :=
  match raw with Some r => convert C ty r | None => Some default end.

(* the keyword arguments click passes to the callback, or None = usage error (exit status 2, callback not called) *)
Fixpoint bind_params (C : converters) (ps : list cli_decl) (args : list string) (opt : string -> option (list string))
  : option (list (string * cli_val)) :=
  match ps with
  | [] => match args with [] => Some [] | _ :: _ => None end
  | DArgument decl ty required :: ps' =>
      match args with
      | a :: args' =>
          match convert C ty [a], bind_params C ps' args' opt with
          | Some v, Some rest => Some ((argument_name decl, v) :: rest)
          | _, _ => None
          end
      | [] => if required then None
              else option_map (cons (argument_name decl, VNone)) (bind_params C ps' [] opt)
      end
  | DOption decl ty default :: ps' =>
      match bound C ty default (opt decl), bind_params C ps' args opt with
      | Some v, Some rest => Some ((option_name decl, v) :: rest)
      | _, _ => None
      end
  | DVersion :: ps' => bind_params C ps' args opt
  end.

(* ---------------------------------------------------------------- K5: Python's binding of keyword arguments *)
Fixpoint mem (s : string) (l : list string) : bool :=
  match l with [] => false | x :: t => String.eqb s x || mem s t end.
Fixpoint nodupb (l : list string) : bool :=
  match l with [] => true | x :: t => negb (mem x t) && nodupb t end.
Definition py_bind (signature : list string) (kwargs : list (string * cli_val)) : option (string -> cli_val) :=
  if forallb (fun kv => mem (fst kv) signature) kwargs && nodupb (map fst kwargs)
  then Some (fun p => match assoc p kwargs with Some v => v | None => VNone end)    (* every default in cli.py is None *)
  else None.

(* ---------------------------------------------------------------- a command, and running it *)
Record api_call := { call_name : string; call_pos : list cli_val; call_kw : list (string * cli_val) }.
Definition mk_call (name : string) (a : list cli_val * list (string * cli_val)) : api_call :=
  {| call_name := name; call_pos := fst a; call_kw := snd a |}.

Record command := {
  cmd_name : string;
  cmd_stack : list cli_deco;
  cmd_signature : list string;
  cmd_ctor : string;
  cmd_ctor_args : (string -> cli_val) -> list cli_val * list (string * cli_val);
  cmd_method : string;
  cmd_run_args : (string -> cli_val) -> list cli_val * list (string * cli_val) }.

(* the three commands, every field GENERATED *)
Definition cmd_sgy2sgz : command :=
  {| cmd_name := cli_sgy2sgz_command; cmd_stack := cli_sgy2sgz_stack; cmd_signature := cli_sgy2sgz_signature;
     cmd_ctor := cli_sgy2sgz_ctor; cmd_ctor_args := cli_sgy2sgz_ctor_args;
     cmd_method := cli_sgy2sgz_method; cmd_run_args := cli_sgy2sgz_run_args |}.
Definition cmd_zgy2sgz : command :=
  {| cmd_name := cli_zgy2sgz_command; cmd_stack := cli_zgy2sgz_stack; cmd_signature := cli_zgy2sgz_signature;
     cmd_ctor := cli_zgy2sgz_ctor; cmd_ctor_args := cli_zgy2sgz_ctor_args;
     cmd_method := cli_zgy2sgz_method; cmd_run_args := cli_zgy2sgz_run_args |}.
Definition cmd_sgz2sgy : command :=
  {| cmd_name := cli_sgz2sgy_command; cmd_stack := cli_sgz2sgy_stack; cmd_signature := cli_sgz2sgy_signature;
     cmd_ctor := cli_sgz2sgy_ctor; cmd_ctor_args := cli_sgz2sgy_ctor_args;
     cmd_method := cli_sgz2sgy_method; cmd_run_args := cli_sgz2sgy_run_args |}.
Definition all_commands : list command := [cmd_sgy2sgz; cmd_zgy2sgz; cmd_sgz2sgy].

Definition cmd_params (c : command) : list cli_decl := click_params cli_add_options_reversed (cmd_stack c).
Definition has_version (ps : list cli_decl) : bool :=
  existsb (fun d => match d with DVersion => true | _ => false end) ps.

(* what one invocation does: the two API calls `with <ctor>(...) as converter: converter.<method>(...)`, in this order *)
Inductive cli_result :=
| CliCalls (ctor : api_call) (method : api_call)
| CliVersion            (* --version: printed, status 0, nothing called *)
| CliUsageError         (* status 2, nothing called *)
| CliTypeError.         (* the callback's signature does not take what click passes *)

Definition cli_run (C : converters) (c : command) (iv : invocation) : cli_result :=
  let ps := cmd_params c in
  if has_version ps && (match iv_opt iv "--version" with Some _ => true | None => false end) then CliVersion
  else match bind_params C ps (iv_args iv) (iv_opt iv) with
       | None => CliUsageError
       | Some kwargs =>
           match py_bind (cmd_signature c) kwargs with
           | None => CliTypeError
           | Some env => CliCalls (mk_call (cmd_ctor c) (cmd_ctor_args c env)) (mk_call (cmd_method c) (cmd_run_args c env))
           end
       end.

(* static well-formedness of a command: the names click derives are exactly the callback's parameters, once each *)
Definition exposed_names (c : command) : list string :=
  flat_map (fun d => match decl_name d with Some n => [n] | None => [] end) (cmd_params c).
Definition wired (c : command) : bool :=
  nodupb (exposed_names c) && forallb (fun n => mem n (cmd_signature c)) (exposed_names c) &&
  forallb (fun n => mem n (exposed_names c)) (cmd_signature c).

(* ---------------------------------------------------------------- option assignments, as a user means them *)
Definition optz (o : option Z) : cli_val := match o with Some z => VInt z | None => VNone end.
Definition opt3 (o : option (Z * Z * Z)) : cli_val :=
  match o with Some (x, y, z) => VInts [x; y; z] | None => VNone end.

(* raw tokens of the seven options of sgy2sgz (None = the option does not occur) *)
Record sgy2sgz_raw := {
  r_bpv : option string; r_bs : option (string * string * string); r_ri : option string;
  r_min_il : option string; r_max_il : option string; r_min_xl : option string; r_max_xl : option string }.
Definition one (o : option string) : option (list string) := option_map (fun s => [s]) o.
Definition sgy2sgz_lookup (r : sgy2sgz_raw) (flag : string) : option (list string) :=
  if String.eqb flag "--bits-per-voxel" then one (r_bpv r)
  else if String.eqb flag "--blockshape" then option_map (fun t => match t with (a, b, c) => [a; b; c] end) (r_bs r)
  else if String.eqb flag "--reduce-iops" then one (r_ri r)
  else if String.eqb flag "--min-il" then one (r_min_il r)
  else if String.eqb flag "--max-il" then one (r_max_il r)
  else if String.eqb flag "--min-xl" then one (r_min_xl r)
  else if String.eqb flag "--max-xl" then one (r_max_xl r)
  else None.
Definition sgy2sgz_invocation (input output : string) (r : sgy2sgz_raw) : invocation :=
  {| iv_args := [input; output]; iv_opt := sgy2sgz_lookup r |}.

(* the values of the seven options *)
Record sgy2sgz_opts := {
  o_bpv : option Z; o_bs : option (Z * Z * Z); o_ri : option bool;
  o_min_il : option Z; o_max_il : option Z; o_min_xl : option Z; o_max_xl : option Z }.
(* raw token r denotes value v under converter f (both absent, or r converts to v) *)
Definition denotes {A} (f : string -> option A) (r : option string) (v : option A) : Prop :=
  match r, v with None, None => True | Some s, Some a => f s = Some a | _, _ => False end.
Definition denotes3 (f : string -> option Z) (r : option (string * string * string)) (v : option (Z * Z * Z)) : Prop :=
  match r, v with
  | None, None => True
  | Some (a, b, c), Some (x, y, z) => f a = Some x /\ f b = Some y /\ f c = Some z
  | _, _ => False
  end.
Definition raw_denotes (C : converters) (r : sgy2sgz_raw) (o : sgy2sgz_opts) : Prop :=
  denotes (cv_int C) (r_bpv r) (o_bpv o) /\ denotes3 (cv_int C) (r_bs r) (o_bs o) /\ denotes (cv_bool C) (r_ri r) (o_ri o) /\
  denotes (cv_int C) (r_min_il r) (o_min_il o) /\ denotes (cv_int C) (r_max_il r) (o_max_il o) /\
  denotes (cv_int C) (r_min_xl r) (o_min_xl o) /\ denotes (cv_int C) (r_max_xl r) (o_max_xl o).
(* the canonical spelling of an assignment: str(int), "true" / "false" *)
Definition render (o : sgy2sgz_opts) : sgy2sgz_raw :=
  {| r_bpv := option_map show_int (o_bpv o);
     r_bs := option_map (fun t => match t with (x, y, z) => (show_int x, show_int y, show_int z) end) (o_bs o);
     r_ri := option_map show_bool (o_ri o);
     r_min_il := option_map show_int (o_min_il o); r_max_il := option_map show_int (o_max_il o);
     r_min_xl := option_map show_int (o_min_xl o); r_max_xl := option_map show_int (o_max_xl o) |}.

(* the API calls the property texts mean by "the same conversion through the API" *)
Definition api_sgy2sgz (input output : string) (o : sgy2sgz_opts) : cli_result :=
  CliCalls
    {| call_name := "SegyConverter"; call_pos := [VStr input];
       call_kw := [("min_il", optz (o_min_il o)); ("max_il", optz (o_max_il o));
                   ("min_xl", optz (o_min_xl o)); ("max_xl", optz (o_max_xl o))] |}
    {| call_name := "run"; call_pos := [VStr output];
       call_kw := [("bits_per_voxel", VInt (match o_bpv o with Some b => b | None => 4 end));
                   ("blockshape", opt3 (o_bs o));
                   ("reduce_iops", VBool (match o_ri o with Some b => b | None => false end))] |}.
Definition api_zgy2sgz (input output : string) (bpv : option Z) : cli_result :=
  CliCalls {| call_name := "ZgyConverter"; call_pos := [VStr input]; call_kw := [] |}
           {| call_name := "run"; call_pos := [VStr output];
              call_kw := [("bits_per_voxel", VInt (match bpv with Some b => b | None => 4 end))] |}.
Definition api_sgz2sgy (input output : string) : cli_result :=
  CliCalls {| call_name := "SgzConverter"; call_pos := [VStr input]; call_kw := [] |}
           {| call_name := "convert_to_segy"; call_pos := [VStr output]; call_kw := [] |}.

(* ---------------------------------------------------------------- the API side of a call (Python's argument binding) *)
(* a call f(pos..., kw=...) against the parameter list of f (name, literal default or None): every keyword names a
   parameter that is not already filled positionally, no parameter without a default is left unfilled.  Returns the
   value every parameter of f is bound to, in parameter order; None = TypeError. *)
Fixpoint zip_pos (params : list (string * option cli_val)) (pos : list cli_val) : option (list (string * cli_val)) :=
  match pos, params with
  | [], _ => Some []
  | v :: pos', (p, _) :: params' => option_map (cons (p, v)) (zip_pos params' pos')
  | _ :: _, [] => None
  end.
Fixpoint fill (params : list (string * option cli_val)) (given : list (string * cli_val)) : option (list (string * cli_val)) :=
  match params with
  | [] => Some []
  | (p, d) :: params' =>
      match (match assoc p given with Some v => Some v | None => d end), fill params' given with
      | Some v, Some rest => Some ((p, v) :: rest)
      | _, _ => None
      end
  end.
Definition api_bind (params : list (string * option cli_val)) (c : api_call) : option (list (string * cli_val)) :=
  match zip_pos params (call_pos c) with
  | None => None
  | Some bound =>
      let given := (bound ++ call_kw c)%list in
      if forallb (fun kv => mem (fst kv) (map fst params)) given && nodupb (map fst given)
      then fill params given else None
  end.

(* ---------------------------------------------------------------- the other two commands, and small accessors *)
Definition zgy2sgz_invocation (input output : string) (bpv : option string) : invocation :=
  {| iv_args := [input; output];
     iv_opt := fun flag => if String.eqb flag "--bits-per-voxel" then one bpv else None |}.
Definition sgz2sgy_invocation (input output : string) : invocation :=
  {| iv_args := [input; output]; iv_opt := fun _ => None |}.

Definition the_calls (r : cli_result) : option (api_call * api_call) :=
  match r with CliCalls a b => Some (a, b) | _ => None end.

(* no options at all *)
Definition no_options : sgy2sgz_opts :=
  {| o_bpv := None; o_bs := None; o_ri := None; o_min_il := None; o_max_il := None; o_min_xl := None; o_max_xl := None |}.

(* ---------------------------------------------------------------- C19: the configuration a run(...) call requests *)
Local Open Scope Z_scope.
(* SeismicFileConverter.run (pinned, read by genx_config): if blockshape is None: blockshape = (1, 16, -1) [2D] /
   (4, 4, -1) [3D]; then define_blockshape_2d / _3d (bits_per_voxel, blockshape) -- Model.Config.resolve *)
Definition run_cfg (d2 : bool) (bits_per_voxel : pyarg) (blockshape : option (Z * Z * Z)) : cfg :=
  {| c_2d := d2; c_bpv := bits_per_voxel;
     c_bs := match blockshape with Some t => t | None => if d2 then default_blockshape_2d else default_blockshape_3d end |}.

(* the configuration arguments of a run(...) call made by the CLI: bits_per_voxel is a Python int, blockshape None or a
   3-tuple of ints *)
Definition cfg_of_call (d2 : bool) (run : api_call) : option cfg :=
  match assoc "bits_per_voxel" (call_kw run), assoc "blockshape" (call_kw run) with
  | Some (VInt b), Some VNone => Some (run_cfg d2 (AInt b) None)
  | Some (VInt b), Some (VInts [x; y; z]) => Some (run_cfg d2 (AInt b) (Some (x, y, z)))
  | Some (VInt b), None => Some (run_cfg d2 (AInt b) None)          (* blockshape not passed (zgy2sgz): run()'s default, None *)
  | _, _ => None
  end.

Definition cli_bpv (o : sgy2sgz_opts) : Z := match o_bpv o with Some b => b | None => 4 end.


(* ---------------------------------------------------------------- C11: the window a constructor call requests *)
Definition val_optz (v : cli_val) : option (option Z) :=
  match v with VNone => Some None | VInt z => Some (Some z) | _ => None end.
Definition window_of_call (ctor : api_call) : option window :=
  match assoc "min_il" (call_kw ctor), assoc "max_il" (call_kw ctor), assoc "min_xl" (call_kw ctor), assoc "max_xl" (call_kw ctor) with
  | Some a, Some b, Some c, Some d =>
      match val_optz a, val_optz b, val_optz c, val_optz d with
      | Some a', Some b', Some c', Some d' => Some (a', b', c', d')
      | _, _, _, _ => None
      end
  | _, _, _, _ => None
  end.
Definition reduce_iops_of_call (run : api_call) : option bool :=
  match assoc "reduce_iops" (call_kw run) with Some (VBool b) => Some b | _ => None end.

Definition cli_window (o : sgy2sgz_opts) : window := (o_min_il o, o_max_il o, o_min_xl o, o_max_xl o).
Definition cli_reduce_iops (o : sgy2sgz_opts) : bool := match o_ri o with Some b => b | None => false end.

