(* Model/Xarray.v -- hand-written glue for the xarray backend (seismic_zfp/sgz_xarray.py), packages C02e / C07d.

   1. numpy BASIC INDEXING as a specification (the np_ definitions): what V[key] is for a 3-D array V and a key that holds, per axis, an
      int or a slice (start, stop, step: int or None).  Written from numpy's documentation: a slice selects the indices
      range( *slice.indices(n)) (Model/Accessors.v: slice_indices = CPython's PySlice_Unpack + PySlice_AdjustIndices,
      range_len = CPython's get_len_of_range), the result keeps one axis per slice, of that length, and drops the axes
      addressed by an int; an int k is valid for -n <= k < n and means k + n when negative, otherwise IndexError; a slice
      step of 0 is a ValueError.  tools/checks/xarrayx.py compares np_dims / np_src with numpy itself on every run.
   2. The model of SeismicZfpBackendArray._raw_indexing_method (xa_raw): the loop, the early return and the final call are
      written here; every expression in them is a definition of Gen/Xarray.v (GENERATED from sgz_xarray.py on every run),
      the reader is the GENERATED rd_read_subvolume (Gen/Reader.v), and the trailing [tuple(post)] is numpy basic
      indexing again (np_getitem3 below, the executable form of the specification in 1).

   What is assumed about xarray (outside /repo; the TRUSTED BASE of C02e / C07d, validated by the harness on every run):
   indexing.explicit_indexing_adapter(key, shape, IndexingSupport.BASIC, raw) and indexing.LazilyIndexedArray hand the raw
   method a tuple with one int or slice per axis (numpy basic-indexing keys) and apply to its result only numpy indexing of
   their own (the second stage of xarray's decomposition of outer / vectorised selections); they never touch the file. *)
From Coq Require Import ZArith List Bool Lia.
Import ListNotations.
From SZ Require Import Lib.Py Model.Accessors Gen.Reader Gen.Xarray.
Open Scope Z_scope.

(* ---------- keys ---------- *)
Inductive key1 := KInt (k : Z) | KSlice (s : pyslice).
Definition key3 := (key1 * key1 * key1)%type.

(* steps are not 0 (numpy and slice.indices raise ValueError for a zero step) *)
Definition step_nonzero (k : key1) : bool :=
  match k with KInt _ => true | KSlice s => match sl_step s with Some 0 => false | _ => true end end.
Definition key_steps_ok (key : key3) : bool :=
  let '(k0, k1, k2) := key in step_nonzero k0 && step_nonzero k1 && step_nonzero k2.
(* an int key is valid on an axis of length n *)
Definition int_in_range (k : key1) (n : Z) : bool :=
  match k with KInt k => (- n <=? k) && (k <? n) | KSlice _ => true end.

(* ---------- 1. numpy basic indexing, the specification ---------- *)
(* (start, stop, step) of a slice on an axis of length n; (0, 0, 1) stands in for the ValueError case *)
Definition np_indices (s : pyslice) (n : Z) : Z * Z * Z :=
  match slice_indices s n with Return t => t | Raise _ => (0, 0, 1) end.
(* the result axes this key contributes: none for an int, one of length len(range( *s.indices(n))) for a slice *)
Definition np_dims (k : key1) (n : Z) : list Z :=
  match k with
  | KInt _ => []
  | KSlice s => let '(a, b, c) := np_indices s n in [range_len a b c]
  end.
(* the source index on this axis of result position j (j is ignored for an int) *)
Definition np_src (k : key1) (n : Z) (j : Z) : Z :=
  match k with
  | KInt k => if k <? 0 then k + n else k
  | KSlice s => let '(a, _, c) := np_indices s n in a + j * c
  end.
(* number of positions selected on the axis (1 for an int) *)
Definition np_count (k : key1) (n : Z) : Z :=
  match k with KInt _ => 1 | KSlice s => let '(a, b, c) := np_indices s n in range_len a b c end.

Definition np_shape3 (key : key3) (n0 n1 n2 : Z) : list Z :=
  let '(k0, k1, k2) := key in np_dims k0 n0 ++ np_dims k1 n1 ++ np_dims k2 n2.

(* distribute a result index over the sliced axes: (j for this axis, rest of the index) *)
Definition take_idx (k : key1) (idx : list Z) : Z * list Z :=
  match k with
  | KInt _ => (0, idx)
  | KSlice _ => match idx with j :: r => (j, r) | [] => (0, []) end
  end.
(* the source voxel of result cell idx *)
Definition np_src3 (key : key3) (n0 n1 n2 : Z) (idx : list Z) : Z * Z * Z :=
  let '(k0, k1, k2) := key in
  let '(j0, r0) := take_idx k0 idx in
  let '(j1, r1) := take_idx k1 r0 in
  let '(j2, _) := take_idx k2 r1 in
  (np_src k0 n0 j0, np_src k1 n1 j1, np_src k2 n2 j2).

(* the bounding box of the selection on one axis (meaningful when np_count > 0): smallest selected index and one past
   the largest *)
Definition np_lo (k : key1) (n : Z) : Z := Z.min (np_src k n 0) (np_src k n (np_count k n - 1)).
Definition np_hi (k : key1) (n : Z) : Z := Z.max (np_src k n 0) (np_src k n (np_count k n - 1)) + 1.
Definition np_empty3 (key : key3) (n0 n1 n2 : Z) : bool :=
  let '(k0, k1, k2) := key in (np_count k0 n0 =? 0) || (np_count k1 n1 =? 0) || (np_count k2 n2 =? 0).

(* ---------- numpy basic indexing of a provenance array (used for the trailing [tuple(post)]) ---------- *)
(* one axis: IndexError for an int out of range, ValueError for a zero step (raised in axis order) *)
Definition np_check (k : key1) (n : Z) : outcome unit :=
  match k with
  | KInt _ => if int_in_range k n then Return tt else Raise IndexErr
  | KSlice s => bind (slice_indices s n) (fun _ => Return tt)
  end.
Definition np_getitem3 (a : arrv) (key : key3) : outcome arrv :=
  match av_shape a with
  | [n0; n1; n2] =>
      let '(k0, k1, k2) := key in
      bind (np_check k0 n0) (fun _ => bind (np_check k1 n1) (fun _ => bind (np_check k2 n2) (fun _ =>
      let sh := np_shape3 key n0 n1 n2 in
      Return {| av_shape := sh;
                av_cell := fun idx => if in_shape sh idx
                                      then let '(i, x, z) := np_src3 key n0 n1 n2 idx in av_cell a [i; x; z] else PBad;
                av_reads := av_reads a |})))
  | _ => Raise IndexErr
  end.

(* np.zeros(shape, dtype=...) *)
Definition a_zeros (shape : list Z) : arrv :=
  {| av_shape := shape; av_cell := fun idx => if in_shape shape idx then PZero else PBad; av_reads := [] |}.

(* ---------- 2. SeismicZfpBackendArray._raw_indexing_method ---------- *)
(* one iteration of  for k, n in zip(key, self.shape):  -> (what is appended to bounds, what is appended to post) *)
Definition xa_axis (k : key1) (n : Z) : outcome ((Z * Z) * key1) :=
  match k with
  | KSlice s =>
      bind (xa_indices s n) (fun t => let '(start, stop, step) := t in
        Return (if xa_slice_empty start stop step then xa_bounds_empty else xa_bounds_slice start stop step,
                KSlice (xa_post_slice start stop step)))
  | KInt k =>
      let i := xa_int_norm k n in
      if negb (xa_int_ok i n) then Raise IndexErr else Return (xa_bounds_int i, KInt xa_post_int)
  end.

(* tuple(len(range( *k.indices(n))) for k, n in zip(key, self.shape) if isinstance(k, slice)): the entries of one axis
   (k.indices(n) has already succeeded in the loop) *)
Definition xa_zeros_dims (k : key1) (n : Z) : list Z :=
  match k with
  | KInt _ => []
  | KSlice s => match xa_indices s n with Return (start, stop, step) => [xa_zeros_len start stop step] | Raise _ => [] end
  end.

Definition xa_raw (H : hdr) (key : key3) : outcome arrv :=
  let '(k0, k1, k2) := key in
  let '(n0, n1, n2) := xa_shape H in
  bind (xa_axis k0 n0) (fun p0 => bind (xa_axis k1 n1) (fun p1 => bind (xa_axis k2 n2) (fun p2 =>
  if xa_pair_empty (fst (fst p0)) (snd (fst p0)) || xa_pair_empty (fst (fst p1)) (snd (fst p1))
     || xa_pair_empty (fst (fst p2)) (snd (fst p2))
  then Return (a_zeros (xa_zeros_dims k0 n0 ++ xa_zeros_dims k1 n1 ++ xa_zeros_dims k2 n2))
  else
    let '(a0, a1, a2, a3, a4, a5) := xa_subvolume_args (fst p0) (fst p1) (fst p2) in
    bind (rd_read_subvolume H a0 a1 a2 a3 a4 a5 xa_access_padding xa_multithreading) (fun v =>
    np_getitem3 v (snd p0, snd p1, snd p2))))).

(* ---------- evaluation helpers for the correspondence harness (tools/checks/xarrayx.py) ---------- *)
Definition prov_code (p : prov) : Z * Z := match p with PUnit o c => (o, c) | PZero => (-1, 0) | PBad => (-2, 0) end.
(* (tag, shape, provenance of the probed cells, reads); tag 0 = returned, 1 = IndexError, 2 = ValueError, 3 = other *)
Definition xa_probe (hl : list Z) (key : key3) (cells : list (list Z)) : Z * list Z * list (Z * Z) * list (Z * Z) :=
  match xa_raw (hdr_of_list hl) key with
  | Return v => (0, av_shape v, map (fun idx => prov_code (av_cell v idx)) cells, av_reads v)
  | Raise IndexErr => (1, [], [], [])
  | Raise ValueErr => (2, [], [], [])
  | Raise _ => (3, [], [], [])
  end.
(* the specification side for one axis: (valid, dims, [np_src j for the probed j], lo, hi) *)
Definition np_probe (k : key1) (n : Z) (js : list Z) : bool * list Z * list Z * Z * Z :=
  (int_in_range k n && step_nonzero k, np_dims k n, map (np_src k n) js, np_lo k n, np_hi k n).
