(* C16 writer pipeline: small-step interleaving semantics of queue.Queue and of the threads of run_conversion_loop.
   HAND-WRITTEN glue.  The thread programs are NOT written here: they are the operation lists generated from
   conversion_utils.py (Gen/Pipeline.v); this file is an interpreter of such lists, so that a changed operation order
   changes the behaviour of the model.

   queue.Queue(maxsize=cap), cap >= 1 (CPython Lib/queue.py):
     put(x)      blocks while len(items) = cap; then appends x and increments unfinished_tasks
     get()       blocks while items is empty; then pops the head
     task_done() decrements unfinished_tasks; raises ValueError if it is already 0 (the thread dies)
     join()      blocks while unfinished_tasks > 0
   A step is one operation of one started thread whose operation is enabled; which thread moves is the scheduler's
   choice (any).  Granularity: thread start, put, get, compress, task_done, join, file write, flush. *)
From Coq Require Import List Bool Arith Lia.
Import ListNotations.
From SZ Require Export Gen.Pipeline.

(* items travelling through the queues: raw plane set / block number k, its compressed form, or an unbound variable *)
Inductive item := Raw (k : nat) | Comp (k : nat) | Junk.
Definition compress (x : item) : item := match x with Raw k => Comp k | y => y end.
(* what has been written to the output file, in order *)
Inductive event := EHeader | EBlock (x : item) | EFlush.

Record queue := { items : list item; unf : nat; cap : nat }.
Record thread := { started : bool; cur : list op; loop : list op; reg : item }.
   (* cur: the operations left in the current pass (never empty while the thread can still run);
      loop: the body of `while True` (empty for the calling thread); reg: the item in hand *)
Record st := { total : nat;                (* number of items the producer will put *)
               next : nat;                 (* number of items produced so far *)
               qc : queue; qw : queue;
               tm : thread; tc : thread; tw : thread;
               file : list event }.

Record progs := { p_main : list op; p_cpro : list op; p_cloop : list op; p_wpro : list op; p_wloop : list op }.
Definition gen_progs : progs :=
  {| p_main := main_ops; p_cpro := compressor_pro; p_cloop := compressor_loop; p_wpro := writer_pro; p_wloop := writer_loop |}.

Definition first_pass (pro lp : list op) : list op := match pro with [] => lp | _ => pro end.
Definition init (P : progs) (n capc capw : nat) : st :=
  {| total := n; next := 0;
     qc := {| items := []; unf := 0; cap := capc |};
     qw := {| items := []; unf := 0; cap := capw |};
     tm := {| started := true; cur := p_main P; loop := []; reg := Junk |};
     tc := {| started := false; cur := first_pass (p_cpro P) (p_cloop P); loop := p_cloop P; reg := Junk |};
     tw := {| started := false; cur := first_pass (p_wpro P) (p_wloop P); loop := p_wloop P; reg := Junk |};
     file := [] |}.

Definition get_q (q : qid) (s : st) : queue := match q with Qc => qc s | Qw => qw s end.
Definition set_q (q : qid) (v : queue) (s : st) : st :=
  match q with
  | Qc => {| total := total s; next := next s; qc := v; qw := qw s; tm := tm s; tc := tc s; tw := tw s; file := file s |}
  | Qw => {| total := total s; next := next s; qc := qc s; qw := v; tm := tm s; tc := tc s; tw := tw s; file := file s |}
  end.
Definition get_t (t : tid) (s : st) : thread := match t with TM => tm s | TC => tc s | TW => tw s end.
Definition set_t (t : tid) (v : thread) (s : st) : st :=
  match t with
  | TM => {| total := total s; next := next s; qc := qc s; qw := qw s; tm := v; tc := tc s; tw := tw s; file := file s |}
  | TC => {| total := total s; next := next s; qc := qc s; qw := qw s; tm := tm s; tc := v; tw := tw s; file := file s |}
  | TW => {| total := total s; next := next s; qc := qc s; qw := qw s; tm := tm s; tc := tc s; tw := v; file := file s |}
  end.
Definition set_next (k : nat) (s : st) : st :=
  {| total := total s; next := k; qc := qc s; qw := qw s; tm := tm s; tc := tc s; tw := tw s; file := file s |}.
Definition emit (e : event) (s : st) : st :=
  {| total := total s; next := next s; qc := qc s; qw := qw s; tm := tm s; tc := tc s; tw := tw s; file := file s ++ [e] |}.

(* the thread has executed the head of cur: move to the next operation, wrapping around into the loop body *)
Definition advance (th : thread) (r : item) : thread :=
  {| started := started th;
     cur := match cur th with _ :: (_ :: _) as rest => rest | _ => loop th end;
     loop := loop th; reg := r |}.
Definition dead (th : thread) : thread := {| started := started th; cur := []; loop := []; reg := reg th |}.
Definition full (q : queue) : bool := cap q <=? length (items q).
Definition enqueue (x : item) (q : queue) : queue := {| items := items q ++ [x]; unf := S (unf q); cap := cap q |}.

(* one operation of thread t; None: t is not started, has finished, or its operation blocks *)
Definition step (t : tid) (s : st) : option st :=
  let th := get_t t s in
  if negb (started th) then None else
  match cur th with
  | [] => None
  | o :: _ =>
    let adv := fun (r : item) (s0 : st) => set_t t (advance th r) s0 in
    match o with
    | Start t' =>
        let s1 := adv (reg th) s in
        let th' := get_t t' s1 in
        Some (set_t t' {| started := true; cur := cur th'; loop := loop th'; reg := reg th' |} s1)
    | Produce q =>
        if next s <? total s then
          if full (get_q q s) then None
          else let s1 := set_next (S (next s)) (set_q q (enqueue (Raw (next s)) (get_q q s)) s) in
               Some (if S (next s) =? total s then adv (reg th) s1 else s1)
        else Some (adv (reg th) s)
    | Get q =>
        match items (get_q q s) with
        | [] => None
        | x :: r => Some (adv x (set_q q {| items := r; unf := unf (get_q q s); cap := cap (get_q q s) |} s))
        end
    | Compress => Some (adv (compress (reg th)) s)
    | Put q => if full (get_q q s) then None else Some (adv (reg th) (set_q q (enqueue (reg th) (get_q q s)) s))
    | TaskDone q =>
        match unf (get_q q s) with
        | O => Some (set_t t (dead th) s)       (* ValueError: the thread dies *)
        | S u => Some (adv (reg th) (set_q q {| items := items (get_q q s); unf := u; cap := cap (get_q q s) |} s))
        end
    | Join q => match unf (get_q q s) with O => Some (adv (reg th) s) | S _ => None end
    | WriteHeader => Some (adv (reg th) (emit EHeader s))
    | WriteFile => Some (adv (reg th) (emit (EBlock (reg th)) s))
    | Flush => Some (adv (reg th) (emit EFlush s))
    end
  end.

Definition Step (s s' : st) : Prop := exists t, step t s = Some s'.
Definition enabled (t : tid) (s : st) : bool := match step t s with Some _ => true | None => false end.
(* the calling thread has returned from run_conversion_loop *)
Definition main_done (s : st) : Prop := cur (tm s) = [].
Definition main_doneb (s : st) : bool := match cur (tm s) with [] => true | _ => false end.

(* a schedule is any list of thread choices; run stops with None if a chosen thread cannot move *)
Fixpoint run (sched : list tid) (s : st) : option st :=
  match sched with
  | [] => Some s
  | t :: r => match step t s with Some s' => run r s' | None => None end
  end.

(* n steps *)
Inductive nsteps : nat -> st -> st -> Prop :=
| ns_O s : nsteps 0 s s
| ns_S k s s1 s2 : nsteps k s s1 -> Step s1 s2 -> nsteps (S k) s s2.

(* the file a strictly sequential execution produces *)
Definition sequential_file (n : nat) : list event := EHeader :: map (fun k => EBlock (Comp k)) (seq 0 n) ++ [EFlush].

(* ---- observation functions used by the correspondence harness (tools/checks/pipeline.py) ------------------------ *)
Definition item_code (x : item) : nat := match x with Comp k => 10 + k | Raw k => 1000 + k | Junk => 3 end.
Definition event_code (e : event) : nat := match e with EHeader => 1 | EFlush => 2 | EBlock x => item_code x end.
Definition mask (s : st) : nat :=
  (if enabled TM s then 1 else 0) + (if enabled TC s then 2 else 0) + (if enabled TW s then 4 else 0).
(* replay a schedule: the enabled-set before every step, the number of steps done, whether the calling thread has
   returned, the enabled-set at the end, the file *)
Fixpoint observe (sched : list tid) (s : st) (acc : list nat) (k : nat) : list nat * nat * bool * nat * list nat :=
  match sched with
  | [] => (rev acc, k, main_doneb s, mask s, map event_code (file s))
  | t :: r => match step t s with
              | Some s' => observe r s' (mask s :: acc) (S k)
              | None => (rev acc, k, main_doneb s, mask s, map event_code (file s))
              end
  end.
Definition observe_gen (n capc capw : nat) (sched : list tid) := observe sched (init gen_progs n capc capw) [] 0.
