(* Proofs/Faults.v -- C17 (I/O failures) and C18 (partial files): proofs about Model/Faults.v, tied to the code
   through the GENERATED Gen/Faults.v (guard, wiring flags, future collection flags, slot expressions, write order,
   header slices) and Gen/Reader.v (the read methods do not depend on the patched header field). *)
From Coq Require Import String.
From Coq Require Import ZArith List Bool Lia Arith Permutation.
Import ListNotations.
From SZ Require Import Lib.Py Gen.Utils Gen.Version Gen.Reader Gen.Faults Model.Faults Proofs.PyLemmas Proofs.Layout.
Close Scope string_scope.
Open Scope nat_scope.

(* ================================================================== list lemmas *)
Section LISTS.
Variable B : Type.
Implicit Types l buf part : list B.

Lemma nth_firstn_lt l n i (x : B) : i < n -> nth i (firstn n l) x = nth i l x.
Proof.
  revert n i. induction l as [|a l IH]; intros n i Hi.
  - rewrite firstn_nil. reflexivity.
  - destruct n; [lia|]. destruct i; cbn; [reflexivity|]. apply IH. lia.
Qed.

Lemma nth_skipn_add l n i (x : B) : nth i (skipn n l) x = nth (n + i) l x.
Proof.
  revert n. induction l as [|a l IH]; intros n.
  - rewrite skipn_nil. destruct i, n; reflexivity.
  - destruct n; cbn; [reflexivity | apply IH].
Qed.

Lemma range_bytes_length l off len : length (range_bytes B l off len) = Nat.min len (length l - off).
Proof. unfold range_bytes. rewrite firstn_length, skipn_length. reflexivity. Qed.

Lemma nth_range_bytes l off len i (x : B) : i < len -> nth i (range_bytes B l off len) x = nth (off + i) l x.
Proof. intro Hi. unfold range_bytes. rewrite nth_firstn_lt by exact Hi. apply nth_skipn_add. Qed.

Lemma splice_length buf pos n part :
  pos <= length buf -> length (splice B buf pos n part) = pos + length part + (length buf - (pos + n)).
Proof. intro Hp. unfold splice. rewrite !app_length, firstn_length, skipn_length. lia. Qed.

(* the general picture of  buf[pos:pos+n] = part  *)
Lemma nth_splice buf pos n part i (x : B) : pos <= length buf ->
  nth i (splice B buf pos n part) x =
    if i <? pos then nth i buf x
    else if i <? pos + length part then nth (i - pos) part x
    else nth (i - length part + n) buf x.
Proof.
  intro Hp. unfold splice.
  assert (Lf : length (firstn pos buf) = pos) by (rewrite firstn_length; lia).
  destruct (i <? pos) eqn:E1.
  - apply Nat.ltb_lt in E1. rewrite app_nth1 by lia. apply nth_firstn_lt. exact E1.
  - apply Nat.ltb_ge in E1. rewrite app_nth2 by lia. rewrite Lf.
    destruct (i <? pos + length part) eqn:E2.
    + apply Nat.ltb_lt in E2. rewrite app_nth1 by lia. reflexivity.
    + apply Nat.ltb_ge in E2. rewrite app_nth2 by lia. rewrite nth_skipn_add. f_equal. lia.
Qed.

(* a slice assignment of the right length inside the buffer *)
Lemma nth_splice_eq buf pos n part i (x : B) : pos + n <= length buf -> length part = n ->
  nth i (splice B buf pos n part) x = if (pos <=? i) && (i <? pos + n) then nth (i - pos) part x else nth i buf x.
Proof.
  intros Hb Hl. rewrite nth_splice by lia. rewrite Hl.
  destruct (Nat.ltb_spec i pos), (Nat.leb_spec pos i), (Nat.ltb_spec i (pos + n)); cbn [andb]; try lia; try reflexivity.
  f_equal. lia.
Qed.

Lemma splice_length_eq buf pos n part : pos + n <= length buf -> length part = n ->
  length (splice B buf pos n part) = length buf.
Proof. intros Hb Hl. rewrite splice_length by lia. lia. Qed.
End LISTS.

(* ================================================================== the choke point *)
Section CHOKE.
Variable B : Type.
Variable wired : bool.
Variable guard : Z -> Z -> bool.
Hypothesis Wired : wired = true.
Hypothesis Guard : forall a b, guard a b = negb (Z.eqb a b).

Lemma delivered_bytes file a off len :
  delivered B file a off len = true -> raw_read B file a off len = Some (range_bytes B file off len).
Proof.
  unfold delivered, raw_read. destruct a as [|k|]; intro H; try discriminate; [reflexivity|].
  apply Nat.eqb_eq in H. f_equal. apply firstn_all2.
  rewrite firstn_length in H. pose proof (range_bytes_length B file off len). lia.
Qed.

(* the patched choke point: the bytes of the file, or an error; never anything else *)
Lemma checked_read_spec file a off len :
  checked_read B wired guard file a off len =
    if delivered B file a off len then Return (range_bytes B file off len) else Raise IOErr.
Proof.
  destruct (delivered B file a off len) eqn:D.
  - pose proof (delivered_bytes _ _ _ _ D) as R. unfold checked_read. rewrite R.
    unfold delivered in D. rewrite R in D. apply Nat.eqb_eq in D. rewrite Wired, Guard, D, Z.eqb_refl. reflexivity.
  - unfold checked_read, delivered in *. destruct (raw_read B file a off len) as [d|]; [|reflexivity].
    rewrite Wired, Guard. cbn [andb]. apply Nat.eqb_neq in D.
    replace (Z.of_nat (length d) =? Z.of_nat len)%Z with false; [reflexivity|].
    symmetry. apply Z.eqb_neq. lia.
Qed.

(* a fault-free read of a range is delivered iff the range lies inside the file (or is empty) *)
Lemma delivered_full file off len :
  delivered B file Full off len = (off + len <=? length file) || (len =? 0).
Proof.
  unfold delivered, raw_read. rewrite range_bytes_length.
  destruct (Nat.leb_spec (off + len) (length file)), (Nat.eqb_spec len 0), (Nat.eqb_spec (Nat.min len (length file - off)) len);
    cbn [orb]; try reflexivity; lia.
Qed.

Lemma delivered_inside file a off len : delivered B file a off len = true -> off + len <= length file \/ len = 0.
Proof.
  intro D. pose proof (delivered_bytes _ _ _ _ D) as R. unfold delivered in D. rewrite R in D.
  apply Nat.eqb_eq in D. rewrite range_bytes_length in D. lia.
Qed.

(* ---------------- sequential loops ---------------- *)
Lemma seq_run_fault file fa ts : forall k0 buf k t,
  nth_error ts k = Some t -> delivered B file (fa (k0 + k)) (t_off t) (t_len t) = false ->
  exists e, seq_run B wired guard file fa k0 ts buf = Raise e.
Proof.
  induction ts as [|t0 r IH]; intros k0 buf k t Hn Hd; [destruct k; discriminate|].
  cbn [seq_run]. rewrite checked_read_spec. destruct k as [|k].
  - cbn in Hn. injection Hn as <-. rewrite Nat.add_0_r in Hd. rewrite Hd. eexists. reflexivity.
  - destruct (delivered B file (fa k0) (t_off t0) (t_len t0)); [|eexists; reflexivity]. cbn [bind].
    apply (IH (S k0) _ k t Hn). replace (S k0 + k) with (k0 + S k) by lia. exact Hd.
Qed.

Lemma seq_run_ok file fa ts : forall k0 buf,
  (forall k t, nth_error ts k = Some t -> delivered B file (fa (k0 + k)) (t_off t) (t_len t) = true) ->
  seq_run B wired guard file fa k0 ts buf = Return (true_buffer B file ts buf).
Proof.
  induction ts as [|t0 r IH]; intros k0 buf H; [reflexivity|].
  cbn [seq_run]. rewrite checked_read_spec. pose proof (H 0 t0 eq_refl) as H0. rewrite Nat.add_0_r in H0. rewrite H0.
  cbn [bind]. rewrite IH.
  - unfold true_buffer, true_ops. cbn [flat_map]. rewrite fold_left_app. reflexivity.
  - intros k t Hn. replace (S k0 + k) with (k0 + S k) by lia. apply H. exact Hn.
Qed.

(* ---------------- fan-outs ---------------- *)
Lemma results_fault file fa ts : forall k0 k t,
  nth_error ts k = Some t -> delivered B file (fa (k0 + k)) (t_off t) (t_len t) = false ->
  exists e, first_error B (results B wired guard file fa k0 ts) = Some e.
Proof.
  induction ts as [|t0 r IH]; intros k0 k t Hn Hd; [destruct k; discriminate|].
  cbn [results first_error]. rewrite checked_read_spec. destruct k as [|k].
  - cbn in Hn. injection Hn as <-. rewrite Nat.add_0_r in Hd. rewrite Hd. eexists. reflexivity.
  - destruct (delivered B file (fa k0) (t_off t0) (t_len t0)); [|eexists; reflexivity].
    apply (IH (S k0) k t Hn). replace (S k0 + k) with (k0 + S k) by lia. exact Hd.
Qed.

Lemma results_ok file fa ts : forall k0,
  (forall k t, nth_error ts k = Some t -> delivered B file (fa (k0 + k)) (t_off t) (t_len t) = true) ->
  first_error B (results B wired guard file fa k0 ts) = None /\
  ok_ops B ts (results B wired guard file fa k0 ts) = true_ops B file ts.
Proof.
  induction ts as [|t0 r IH]; intros k0 H; [split; reflexivity|].
  cbn [results first_error ok_ops]. rewrite checked_read_spec.
  pose proof (H 0 t0 eq_refl) as H0. rewrite Nat.add_0_r in H0. rewrite H0.
  destruct (IH (S k0)) as [E1 E2].
  - intros k t Hn. replace (S k0 + k) with (k0 + S k) by lia. apply H. exact Hn.
  - split; [exact E1|]. unfold true_ops. cbn [flat_map]. rewrite E2. reflexivity.
Qed.
End CHOKE.

(* ================================================================== disjoint slice assignments commute *)
Section ORDER.
Variable B : Type.

Definition covers (o : op B) (i : nat) : bool := match o with (p, n, _) => (p <=? i) && (i <? p + n) end.
Definition op_inb (L : nat) (o : op B) : Prop := match o with (p, n, bs) => p + n <= L /\ length bs = n end.
Definition op_byte (o : op B) (i : nat) (x : B) : B := match o with (p, _, bs) => nth (i - p) bs x end.

(* In-based reading of the boolean well-formedness *)
Definition ops_ok (L : nat) (ops : list (op B)) : Prop :=
  (forall o, In o ops -> op_inb L o) /\
  (forall o1 o2 i, In o1 ops -> In o2 ops -> covers o1 i = true -> covers o2 i = true -> o1 = o2).

Lemma slots_okb_in L s : slots_okb L s = true -> forall a, In a s -> fst a + snd a <= L.
Proof.
  induction s as [|a0 r IH]; intros H a Ha; [destruct Ha|]. cbn [slots_okb] in H.
  apply andb_prop in H as [H1 H3]. apply andb_prop in H1 as [H1 H2].
  destruct Ha as [<-|Ha]; [apply Nat.leb_le; exact H1 | apply IH; assumption].
Qed.

Lemma ops_okb_ok L ops : ops_okb B L ops = true -> ops_ok L ops.
Proof.
  unfold ops_okb. intro H. apply andb_prop in H as [HS HL]. split.
  - intros o Ho. destruct o as [[p n] bs]. split.
    + apply (slots_okb_in L _ HS (p, n)). change (p, n) with (slot_of B (p, n, bs)). apply in_map. exact Ho.
    + rewrite forallb_forall in HL. specialize (HL _ Ho). apply Nat.eqb_eq. exact HL.
  - clear HL. induction ops as [|o r IH]; intros o1 o2 i H1 H2 C1 C2; [destruct H1|].
    cbn [map slots_okb] in HS. apply andb_prop in HS as [HA HR]. apply andb_prop in HA as [_ HD].
    rewrite forallb_forall in HD.
    assert (X : forall oa ob, In ob r -> covers oa i = true -> covers ob i = true ->
                 slot_disj (slot_of B oa) (slot_of B ob) = true -> False).
    { intros [[pa na] ba] [[pb nb] bb] _ Ca Cb Dj. unfold covers in Ca, Cb. unfold slot_disj, slot_of in Dj. cbn [fst snd] in Dj.
      apply andb_prop in Ca as [Ca1 Ca2]. apply andb_prop in Cb as [Cb1 Cb2].
      apply Nat.leb_le in Ca1, Cb1. apply Nat.ltb_lt in Ca2, Cb2.
      apply orb_prop in Dj as [Dj|Dj]; apply Nat.leb_le in Dj; lia. }
    destruct H1 as [<-|H1], H2 as [<-|H2].
    + reflexivity.
    + exfalso. apply (X o o2 H2 C1 C2). apply HD. apply in_map. exact H2.
    + exfalso. apply (X o o1 H1 C2 C1). apply HD. apply in_map. exact H1.
    + apply (IH HR o1 o2 i H1 H2 C1 C2).
Qed.

Lemma apply_op_length L buf o : length buf = L -> op_inb L o -> length (apply_op B buf o) = L.
Proof. intros HL Ho. destruct o as [[p n] bs]. destruct Ho as [Hb Hn]. cbn [apply_op]. rewrite splice_length_eq; lia. Qed.

Lemma fold_length L ops : forall buf, length buf = L -> (forall o, In o ops -> op_inb L o) ->
  length (fold_left (apply_op B) ops buf) = L.
Proof.
  induction ops as [|o r IH]; intros buf HL H; [exact HL|]. cbn [fold_left]. apply IH.
  - apply apply_op_length; [exact HL | apply H; left; reflexivity].
  - intros o' Ho'. apply H. right. exact Ho'.
Qed.

Lemma nth_apply_op L buf o i x : length buf = L -> op_inb L o ->
  nth i (apply_op B buf o) x = if covers o i then op_byte o i x else nth i buf x.
Proof.
  intros HL Ho. destruct o as [[p n] bs]. destruct Ho as [Hb Hn]. cbn [apply_op covers op_byte].
  apply nth_splice_eq; lia.
Qed.

(* byte i of the buffer after any sequence of pairwise disjoint slice assignments: decided by the one assignment
   that covers i, whatever its place in the sequence *)
Lemma fold_nth L ops : ops_ok L ops -> forall s buf i x, (forall o, In o s -> In o ops) -> length buf = L ->
  nth i (fold_left (apply_op B) s buf) x =
    match find (fun o => covers o i) ops with
    | Some o => if existsb (fun o' => covers o' i) s then op_byte o i x else nth i buf x
    | None => nth i buf x
    end.
Proof.
  intros [OI OU]. induction s as [|o r IH]; intros buf i x Sub HL.
  - cbn [fold_left existsb]. destruct (find _ ops); reflexivity.
  - cbn [fold_left existsb].
    assert (Ho : In o ops) by (apply Sub; left; reflexivity).
    rewrite IH; [| intros o' Ho'; apply Sub; right; exact Ho' | apply apply_op_length; [exact HL | apply OI; exact Ho]].
    rewrite (nth_apply_op L) by (exact HL || (apply OI; exact Ho)).
    destruct (find (fun o0 => covers o0 i) ops) as [oc|] eqn:F.
    + apply find_some in F as [Foc Fc].
      destruct (covers o i) eqn:C; cbn [orb].
      * assert (o = oc) by (apply (OU o oc i); assumption). subst oc.
        destruct (existsb _ r); reflexivity.
      * reflexivity.
    + assert (C : covers o i = false).
      { destruct (covers o i) eqn:C; [|reflexivity]. pose proof (find_none _ _ F o Ho) as N. cbn in N. congruence. }
      rewrite C. reflexivity.
Qed.

Lemma existsb_perm (f : op B -> bool) s1 s2 : Permutation s1 s2 -> existsb f s1 = existsb f s2.
Proof.
  intro P. induction P; cbn [existsb]; try congruence.
  destruct (f x), (f y); reflexivity.
Qed.

(* ORDER INDEPENDENCE: any two completion orders of the same set of disjoint slice assignments give the same buffer *)
Lemma order_independent_ok L ops s1 s2 buf : ops_ok L ops -> length buf = L ->
  Permutation s1 ops -> Permutation s2 ops ->
  fold_left (apply_op B) s1 buf = fold_left (apply_op B) s2 buf.
Proof.
  intros OK HL P1 P2.
  assert (S1 : forall o, In o s1 -> In o ops) by (intros o Ho; apply (Permutation_in _ P1 Ho)).
  assert (S2 : forall o, In o s2 -> In o ops) by (intros o Ho; apply (Permutation_in _ P2 Ho)).
  destruct OK as [OI OU].
  assert (L1 : length (fold_left (apply_op B) s1 buf) = L) by (apply fold_length; [exact HL | intros; apply OI, S1; assumption]).
  assert (L2 : length (fold_left (apply_op B) s2 buf) = L) by (apply fold_length; [exact HL | intros; apply OI, S2; assumption]).
  destruct buf as [|b0 buf'].
  - (* empty buffer: L = 0 *)
    cbn in HL. subst L. destruct (fold_left _ s1 []), (fold_left _ s2 []); try discriminate. reflexivity.
  - apply (nth_ext _ _ b0 b0); [congruence|]. intros i _.
    rewrite (fold_nth L ops (conj OI OU) s1) by assumption.
    rewrite (fold_nth L ops (conj OI OU) s2) by assumption.
    rewrite (existsb_perm _ s1 s2); [reflexivity|]. transitivity ops; [exact P1 | symmetry; exact P2].
Qed.
End ORDER.

(* ================================================================== C17: the three theorems, for every task list *)
Section C17.
Variable B : Type.
Variable wired : bool.
Variable guard : Z -> Z -> bool.
Hypothesis Wired : wired = true.
Hypothesis Guard : forall a b, guard a b = negb (Z.eqb a b).

Definition raises {A} (o : outcome A) : Prop := exists e, o = Raise e.

(* every move of every task inside the bytes read, destinations pairwise disjoint and inside the buffer *)
Definition tasks_okb (L : nat) (ts : list task) : bool :=
  forallb task_okb ts && slots_okb L (flat_map task_slots ts).

Lemma slot_of_ops_of part t : map (slot_of B) (ops_of B part t) = task_slots t.
Proof. unfold ops_of, task_slots. rewrite map_map. apply map_ext. intros [[s n] d]. reflexivity. Qed.

Lemma slots_true_ops file ts : map (slot_of B) (true_ops B file ts) = flat_map task_slots ts.
Proof.
  unfold true_ops. induction ts as [|t r IH]; [reflexivity|]. cbn [flat_map]. rewrite map_app, IH, slot_of_ops_of. reflexivity.
Qed.

Lemma true_ops_okb L file fa ts :
  tasks_okb L ts = true ->
  (forall k t, nth_error ts k = Some t -> delivered B file (fa k) (t_off t) (t_len t) = true) ->
  ops_okb B L (true_ops B file ts) = true.
Proof.
  unfold tasks_okb, ops_okb. intros H D. apply andb_prop in H as [HT HS]. rewrite slots_true_ops, HS. cbn [andb].
  apply forallb_forall. intros [[p n] bs] Ho. unfold true_ops in Ho. apply in_flat_map in Ho as (t & Ht & Ho).
  unfold ops_of in Ho. apply in_map_iff in Ho as ([[s n'] d] & E & Hm). injection E as <- <- <-.
  rewrite forallb_forall in HT. specialize (HT t Ht). unfold task_okb in HT. rewrite forallb_forall in HT.
  specialize (HT _ Hm). cbn in HT. apply Nat.leb_le in HT.
  apply In_nth_error in Ht as (k & Hk). specialize (D k t Hk).
  pose proof (delivered_bytes B file _ _ _ D) as R. unfold delivered in D. rewrite R in D. apply Nat.eqb_eq in D.
  apply Nat.eqb_eq. rewrite range_bytes_length, D. lia.
Qed.

(* ---- fault_raises ---- *)
Theorem fault_raises_seq file fa ts buf k t :
  nth_error ts k = Some t -> delivered B file (fa k) (t_off t) (t_len t) = false ->
  raises (seq_run B wired guard file fa 0 ts buf).
Proof. intros Hn Hd. exact (seq_run_fault B wired guard Wired Guard file fa ts 0 buf k t Hn Hd). Qed.

Theorem fault_raises_fanout collected file fa ts sched buf0 k t : collected = true ->
  nth_error ts k = Some t -> delivered B file (fa k) (t_off t) (t_len t) = false ->
  raises (fanout B wired guard file fa collected ts sched buf0).
Proof.
  intros -> Hn Hd. unfold fanout.
  destruct (results_fault B wired guard Wired Guard file fa ts 0 k t Hn Hd) as (e & E). rewrite E. exists e. reflexivity.
Qed.

(* ---- no_fault_true_data ---- *)
Theorem no_fault_true_data_seq file fa ts buf :
  (forall k t, nth_error ts k = Some t -> delivered B file (fa k) (t_off t) (t_len t) = true) ->
  seq_run B wired guard file fa 0 ts buf = Return (true_buffer B file ts buf).
Proof. intro H. exact (seq_run_ok B wired guard Wired Guard file fa ts 0 buf H). Qed.

Theorem no_fault_true_data_fanout collected file fa ts sched buf0 :
  tasks_okb (length buf0) ts = true ->
  (forall k t, nth_error ts k = Some t -> delivered B file (fa k) (t_off t) (t_len t) = true) ->
  schedule_of B wired guard file fa ts sched ->
  fanout B wired guard file fa collected ts sched buf0 = Return (true_buffer B file ts buf0).
Proof.
  intros OK D S. unfold fanout, schedule_of in *.
  destruct (results_ok B wired guard Wired Guard file fa ts 0 D) as [E1 E2]. rewrite E1. rewrite E2 in S.
  pose proof (ops_okb_ok B _ _ (true_ops_okb _ file fa ts OK D)) as OO.
  rewrite (order_independent_ok B (length buf0) (true_ops B file ts) sched (true_ops B file ts) buf0 OO eq_refl S (Permutation_refl _)).
  destruct collected; reflexivity.
Qed.

Lemma first_error_none file fa ts : forall k0,
  first_error B (results B wired guard file fa k0 ts) = None ->
  forall k t, nth_error ts k = Some t -> delivered B file (fa (k0 + k)) (t_off t) (t_len t) = true.
Proof.
  induction ts as [|t0 r IH]; intros k0 H k t Hn; [destruct k; discriminate|].
  cbn [results first_error] in H. rewrite (checked_read_spec B wired guard Wired Guard) in H.
  destruct (delivered B file (fa k0) (t_off t0) (t_len t0)) eqn:D; [|discriminate].
  destruct k as [|k].
  - cbn in Hn. injection Hn as <-. rewrite Nat.add_0_r. exact D.
  - replace (k0 + S k) with (S k0 + k) by lia. apply (IH (S k0) H k t Hn).
Qed.

(* ---- order_independent: any two completion orders, any fault assignment: the same outcome ---- *)
Theorem order_independent file fa ts s1 s2 buf0 :
  tasks_okb (length buf0) ts = true ->
  schedule_of B wired guard file fa ts s1 -> schedule_of B wired guard file fa ts s2 ->
  fanout B wired guard file fa true ts s1 buf0 = fanout B wired guard file fa true ts s2 buf0.
Proof.
  intros OK S1 S2. destruct (first_error B (results B wired guard file fa 0 ts)) as [e|] eqn:E.
  - unfold fanout. rewrite E. reflexivity.
  - pose proof (first_error_none file fa ts 0 E) as D.
    rewrite (no_fault_true_data_fanout true file fa ts s1 buf0 OK D S1).
    rewrite (no_fault_true_data_fanout true file fa ts s2 buf0 OK D S2). reflexivity.
Qed.

(* the buffer itself does not depend on the order either (this is the part that is about memory, not exceptions) *)
Theorem order_independent_buffer (L : nat) (ops s1 s2 : list (op B)) buf :
  ops_okb B L ops = true -> length buf = L -> Permutation s1 ops -> Permutation s2 ops ->
  fold_left (apply_op B) s1 buf = fold_left (apply_op B) s2 buf.
Proof. intros OK HL P1 P2. exact (order_independent_ok B L ops s1 s2 buf (ops_okb_ok B L ops OK) HL P1 P2). Qed.

(* what the true data is, byte by byte: the byte of the file that the covering move copies *)
Theorem true_buffer_byte file ts buf0 t s n d i x :
  tasks_okb (length buf0) ts = true ->
  (forall t', In t' ts -> t_off t' + t_len t' <= length file) ->
  In t ts -> In (s, n, d) (t_moves t) -> d <= i < d + n ->
  nth i (true_buffer B file ts buf0) x = nth (t_off t + s + (i - d)) file x.
Proof.
  intros OK Inside Ht Hm Hi.
  assert (D : forall k t', nth_error ts k = Some t' -> delivered B file Full (t_off t') (t_len t') = true).
  { intros k t' Hk. rewrite delivered_full. apply nth_error_In in Hk. specialize (Inside t' Hk).
    apply orb_true_iff. left. apply Nat.leb_le. exact Inside. }
  pose proof (ops_okb_ok B _ _ (true_ops_okb _ file (fun _ => Full) ts OK D)) as OO.
  unfold true_buffer. rewrite (fold_nth B (length buf0) (true_ops B file ts) OO (true_ops B file ts) buf0 i x (fun o H => H) eq_refl).
  set (o := (d, n, range_bytes B (range_bytes B file (t_off t) (t_len t)) s n)).
  assert (Ho : In o (true_ops B file ts)).
  { unfold true_ops. apply in_flat_map. exists t. split; [exact Ht|]. unfold ops_of. apply in_map_iff. exists (s, n, d). split; [reflexivity | exact Hm]. }
  assert (Co : covers B o i = true).
  { unfold o, covers. apply andb_true_iff. split; [apply Nat.leb_le | apply Nat.ltb_lt]; lia. }
  destruct (find (fun o0 => covers B o0 i) (true_ops B file ts)) as [oc|] eqn:F.
  - apply find_some in F as [Foc Fc]. destruct OO as [_ OU]. assert (oc = o) by (apply (OU oc o i); assumption). subst oc.
    replace (existsb (fun o' => covers B o' i) (true_ops B file ts)) with true.
    2:{ symmetry. apply existsb_exists. exists o. split; assumption. }
    unfold o, op_byte.
    unfold tasks_okb in OK. apply andb_prop in OK as [HT _]. rewrite forallb_forall in HT. specialize (HT t Ht).
    unfold task_okb in HT. rewrite forallb_forall in HT. specialize (HT _ Hm). cbn in HT. apply Nat.leb_le in HT.
    rewrite nth_range_bytes by lia. rewrite nth_range_bytes by lia. f_equal. lia.
  - pose proof (find_none _ _ F o Ho) as N. cbv beta in N. rewrite Co in N. discriminate.
Qed.
End C17.

(* ================================================================== ties to the GENERATED code (Gen/Faults.v) *)
(* each of these is closed by computation on the generated term: deleting the length check, dropping a
   `.result()`, reading around the choke point or adding a try block makes the corresponding lemma fail *)
Open Scope Z_scope.

Lemma guard_is_length_check : forall a b, check_range_length_raises a b = negb (a =? b).
Proof. reflexivity. Qed.
Lemma file_backend_checked : read_range_file_checked = true.
Proof. reflexivity. Qed.
Lemma blob_backend_checked : read_range_blob_checked = true.
Proof. reflexivity. Qed.
Lemma futures_collected :
  xl_set_collected = true /\ zslice_set_collected = true /\ zslice_set_adv_collected = true /\ chunk_range_mt_collected = true.
Proof. repeat split; reflexivity. Qed.
(* the same fact as recorded by the main translator in Gen/Reader.v *)
Lemma futures_collected_reader :
  ld_read_and_decompress_xl_set_futures_checked = true /\ ld_read_and_decompress_zslice_set_futures_checked = true /\
  ld_read_and_decompress_zslice_set_adv_futures_checked = true /\ ld_read_and_decompress_chunk_range_futures_checked = true.
Proof. repeat split; reflexivity. Qed.
Lemma compressed_bytes_range ds off len : get_compressed_bytes_range ds off len = (ds + off, len).
Proof. reflexivity. Qed.
Lemma io_through_choke_point :
  raw_io_outside_choke_point = [] /\ reader_installs_only_choke_points = true /\ preload_through_read_range = true /\
  read_range_sites = [("read.SgzReader.__init__", 2); ("read.SgzReader.get_unstructured_mask", 1);
                      ("read.SgzReader.read_variant_headers", 1); ("read.SgzReader.gen_trace_header", 1);
                      ("loader.SgzLoader.load_compressed_volume", 1); ("loader.SgzLoader._get_compressed_bytes", 1)]%string.
Proof. repeat split; reflexivity. Qed.

(* the model's two backends, with the generated guard and wiring *)
Definition read_range_file (B : Type) := checked_read B read_range_file_checked check_range_length_raises.
Definition read_range_blob (B : Type) := checked_read B read_range_blob_checked check_range_length_raises.

(* ---- the fan-outs' slots, as the code computes them ---- *)
Definition zmove (m : Z * Z * Z) : move := match m with (s, n, d) => (Z.to_nat s, Z.to_nat n, Z.to_nat d) end.
Definition ztask (r : Z * Z) (mv : list (Z * Z * Z)) : task :=
  {| t_off := Z.to_nat (fst r); t_len := Z.to_nat (snd r); t_moves := map zmove mv |}.

Lemma regular_slots L : 0 <= L -> forall k lo T, 0 <= lo -> (lo + Z.of_nat k) * L <= T ->
  slots_okb (Z.to_nat T) (map (fun j => (Z.to_nat (j * L), Z.to_nat L)) (zrange_nat lo k)) = true.
Proof.
  intros HL. induction k as [|k IH]; intros lo T Hlo HT; [reflexivity|].
  cbn [zrange_nat map slots_okb fst snd]. rewrite Nat2Z.inj_succ in HT.
  apply andb_true_intro; split; [apply andb_true_intro; split|].
  - apply Nat.leb_le. rewrite <- Z2Nat.inj_add by nia. apply Z2Nat.inj_le; nia.
  - apply forallb_forall. intros a Ha. apply in_map_iff in Ha as (j & <- & Hj). apply in_zrange_nat in Hj.
    unfold slot_disj. cbn [fst snd]. apply orb_true_iff. left. apply Nat.leb_le.
    rewrite <- Z2Nat.inj_add by nia. apply Z2Nat.inj_le; nia.
  - apply IH; lia.
Qed.

Lemma single_move_slots (r : Z -> Z * Z) (n : Z) (d : Z -> Z) l :
  flat_map task_slots (map (fun j => ztask (r j) [(0, n, d j)]) l) = map (fun j => (Z.to_nat (d j), Z.to_nat n)) l.
Proof. induction l as [|j l IH]; [reflexivity|]. cbn [map flat_map]. rewrite IH. reflexivity. Qed.

Lemma single_move_tasks_ok (r : Z -> Z * Z) (n : Z) (d : Z -> Z) l :
  (forall j, snd (r j) = n) -> forallb task_okb (map (fun j => ztask (r j) [(0, n, d j)]) l) = true.
Proof.
  intro Hr. apply forallb_forall. intros t Ht. apply in_map_iff in Ht as (j & <- & _).
  unfold task_okb, ztask. cbn [t_moves t_len map zmove forallb]. rewrite Hr. rewrite Nat.leb_refl. reflexivity.
Qed.

(* read_and_decompress_xl_set *)
Definition xl_tasks (cb P0 P1 x : Z) : list task :=
  map (fun j => ztask (xl_set_read cb P1 x j) (xl_set_moves cb j)) (zrange 0 (xl_set_ntasks P0)).
Lemma xl_set_tasks_ok cb P0 P1 x : 0 <= cb -> 0 <= P0 -> P0 mod 4 = 0 ->
  tasks_okb (Z.to_nat (xl_set_buflen cb P0)) (xl_tasks cb P0 P1 x) = true.
Proof.
  intros Hcb HP Hm. unfold tasks_okb, xl_tasks, xl_set_moves, xl_set_ntasks, xl_set_buflen.
  rewrite (single_move_tasks_ok (xl_set_read cb P1 x) cb (fun j => j * cb)) by reflexivity.
  rewrite (single_move_slots (xl_set_read cb P1 x) cb (fun j => j * cb)). cbn [andb].
  unfold zrange. apply regular_slots; [exact Hcb | lia |].
  rewrite Z.sub_0_r, Z2Nat.id by (apply Z.div_pos; lia). rewrite Z.add_0_l.
  rewrite (exact_div P0 4 ltac:(lia) Hm) at 2.
  replace (cb * (4 * (P0 / 4))) with (P0 / 4 * cb * 4) by ring. rewrite Z_div_mult by lia. lia.
Qed.

(* read_and_decompress_zslice_set *)
Definition zslice_tasks (bb bs2 cb ub zf zid b0 b1 : Z) : list task :=
  map (fun k => ztask (zslice_set_read bb bs2 cb ub zf zid k) (zslice_set_moves ub k)) (zrange 0 (zslice_set_ntasks b0 b1)).
Lemma zslice_set_tasks_ok bb bs2 cb ub zf zid b0 b1 : 0 <= ub -> 0 <= b0 -> 0 <= b1 ->
  tasks_okb (Z.to_nat (zslice_set_buflen b0 b1 ub)) (zslice_tasks bb bs2 cb ub zf zid b0 b1) = true.
Proof.
  intros Hub H0 H1. unfold tasks_okb, zslice_tasks, zslice_set_moves, zslice_set_ntasks, zslice_set_buflen.
  rewrite (single_move_tasks_ok (zslice_set_read bb bs2 cb ub zf zid) ub (fun k => k * ub)) by reflexivity.
  rewrite (single_move_slots (zslice_set_read bb bs2 cb ub zf zid) ub (fun k => k * ub)). cbn [andb].
  unfold zrange. apply regular_slots; [exact Hub | lia |].
  rewrite Z.sub_0_r, Z2Nat.id by nia. nia.
Qed.

(* the decompression fan-out of read_and_decompress_chunk_range: slots are groups of 4 planes of the cube *)
Definition mt_tasks (max_il min_il : Z) : list task :=
  map (fun u => ztask (0, 4) (chunk_range_mt_moves u)) (zrange 0 (chunk_range_mt_ntasks max_il min_il)).
Lemma chunk_range_mt_tasks_ok max_il min_il :
  tasks_okb (Z.to_nat (chunk_range_mt_buflen max_il min_il)) (mt_tasks max_il min_il) = true.
Proof.
  unfold tasks_okb, mt_tasks, chunk_range_mt_moves, chunk_range_mt_ntasks, chunk_range_mt_buflen.
  set (n := (max_il + 3) / 4 - min_il / 4).
  assert (E : forall u, [(0, u * 4 + 4 - u * 4, u * 4)] = [(0, 4, u * 4)]) by (intro u; repeat f_equal; ring).
  rewrite (map_ext _ (fun u => ztask (0, 4) [(0, 4, u * 4)])) by (intro u; rewrite E; reflexivity).
  rewrite (single_move_tasks_ok (fun _ => (0, 4)) 4 (fun u => u * 4)) by reflexivity.
  rewrite (single_move_slots (fun _ => (0, 4)) 4 (fun u => u * 4)). cbn [andb].
  unfold zrange. destruct (Z_le_gt_dec 0 n) as [Hn|Hn].
  - apply regular_slots; [lia | lia |]. rewrite Z.sub_0_r, Z2Nat.id by lia. lia.
  - replace (Z.to_nat (n - 0)) with O by lia. reflexivity.
Qed.

(* ---- the length-level evaluator agrees with the byte-level model ---- *)
Definition zans (a : answer) : zanswer :=
  match a with Full => ZFull | Short k => ZShort (Z.of_nat k) | Fail => ZFail end.

Lemma zdelivered_spec (B : Type) (file : list B) a off len :
  zdelivered (Z.of_nat (length file)) (zans a) (Z.of_nat off) (Z.of_nat len) = delivered B file a off len.
Proof.
  unfold zdelivered, delivered, got_len, raw_read. destruct a as [|k|]; cbn [zans]; [| |reflexivity].
  - rewrite range_bytes_length.
    match goal with |- (?a =? ?b)%Z = (?c =? ?d)%nat => destruct (Z.eqb_spec a b), (Nat.eqb_spec c d) end; try reflexivity; lia.
  - rewrite firstn_length, range_bytes_length.
    match goal with |- (?a =? ?b)%Z = (?c =? ?d)%nat => destruct (Z.eqb_spec a b), (Nat.eqb_spec c d) end; try reflexivity; lia.
Qed.

Lemma zchecked_raises_spec guard : (forall a b, guard a b = negb (a =? b)) -> forall L a off len,
  zchecked_raises true guard L a off len = negb (zdelivered L a off len).
Proof.
  intros G L a off len. unfold zchecked_raises, zdelivered. destruct (got_len L a off len); [|reflexivity].
  rewrite G. reflexivity.
Qed.

Definition range_of (t : task) : Z * Z := (Z.of_nat (t_off t), Z.of_nat (t_len t)).

Lemma plan_raises_iff (B : Type) guard (G : forall a b, guard a b = negb (a =? b)) (file : list B) fa zfa :
  (forall k, assoc_answer zfa (Z.of_nat k) = zans (fa k)) ->
  forall ts k0,
  plan_raises_from true guard (Z.of_nat (length file)) zfa (Z.of_nat k0) (map range_of ts) = true <->
  exists k t, nth_error ts k = Some t /\ delivered B file (fa (k0 + k)%nat) (t_off t) (t_len t) = false.
Proof.
  intros A. induction ts as [|t r IH]; intro k0.
  - cbn. split; [discriminate | intros (k & t & H & _); destruct k; discriminate].
  - cbn [map plan_raises_from range_of]. rewrite (zchecked_raises_spec guard G), A, zdelivered_spec.
    replace (Z.of_nat k0 + 1) with (Z.of_nat (S k0)) by lia. rewrite orb_true_iff, IH. split.
    + intros [H|(k & t' & Hn & Hd)].
      * exists O, t. split; [reflexivity|]. rewrite Nat.add_0_r. apply negb_true_iff. exact H.
      * exists (S k), t'. split; [exact Hn|]. replace (k0 + S k)%nat with (S k0 + k)%nat by lia. exact Hd.
    + intros (k & t' & Hn & Hd). destruct k as [|k].
      * left. cbn in Hn. injection Hn as <-. rewrite Nat.add_0_r in Hd. apply negb_true_iff. exact Hd.
      * right. exists k, t'. split; [exact Hn|]. replace (S k0 + k)%nat with (k0 + S k)%nat by lia. exact Hd.
Qed.

(* what the harness evaluates (predict_raises_file / _blob on the recorded plan) is the model's verdict *)
Theorem predict_raises_sound (B : Type) (file : list B) fa zfa ts buf :
  (forall k, assoc_answer zfa (Z.of_nat k) = zans (fa k)) ->
  (predict_raises_file (Z.of_nat (length file)) zfa (map range_of ts) = true <->
   raises (seq_run B read_range_file_checked check_range_length_raises file fa 0 ts buf)) /\
  (predict_raises_blob (Z.of_nat (length file)) zfa (map range_of ts) = true <->
   forall sched buf0, raises (fanout B read_range_blob_checked check_range_length_raises file fa true ts sched buf0)).
Proof.
  intro A. unfold predict_raises_file, predict_raises_blob.
  pose proof (plan_raises_iff B check_range_length_raises guard_is_length_check file fa zfa A ts O) as P.
  change (Z.of_nat 0) with 0 in P. split.
  - rewrite file_backend_checked. rewrite P. split.
    + intros (k & t & Hn & Hd). exact (fault_raises_seq B true _ eq_refl guard_is_length_check file fa ts buf k t Hn Hd).
    + intros (e & E).
      destruct (plan_raises_from true check_range_length_raises (Z.of_nat (length file)) zfa 0 (map range_of ts)) eqn:Q.
      * apply P. reflexivity.
      * exfalso. rewrite (no_fault_true_data_seq B true _ eq_refl guard_is_length_check file fa ts buf) in E; [discriminate|].
        intros k t Hn. destruct (delivered B file (fa k) (t_off t) (t_len t)) eqn:D; [reflexivity|].
        exfalso. assert (X : false = true) by (apply P; exists k, t; split; assumption). discriminate.
  - rewrite blob_backend_checked. rewrite P. split.
    + intros (k & t & Hn & Hd) sched buf0.
      exact (fault_raises_fanout B true _ eq_refl guard_is_length_check true file fa ts sched buf0 k t eq_refl Hn Hd).
    + intros H. specialize (H [] []). destruct H as (e & E). unfold fanout in E.
      destruct (first_error B (results B true check_range_length_raises file fa 0 ts)) as [e'|] eqn:F; [|discriminate].
      destruct (plan_raises_from true check_range_length_raises (Z.of_nat (length file)) zfa 0 (map range_of ts)) eqn:Q.
      * apply P. reflexivity.
      * exfalso.
        assert (D : forall k t, nth_error ts k = Some t -> delivered B file (fa (0 + k)%nat) (t_off t) (t_len t) = true).
        { intros k t Hn. destruct (delivered B file (fa (0 + k)%nat) (t_off t) (t_len t)) eqn:D; [reflexivity|].
          exfalso. assert (X : false = true) by (apply P; exists k, t; split; assumption). discriminate. }
        destruct (results_ok B true _ eq_refl guard_is_length_check file fa ts 0 D) as [E1 _]. congruence.
Qed.

(* ================================================================== C18: writes, crash points, stable bytes *)
Open Scope nat_scope.
Section WRITES.
Variable B : Type.
Implicit Types f g : list B.

Lemma write_at_length f w : fst w <= length f -> length (write_at B f w) = Nat.max (length f) (fst w + length (snd w)).
Proof. intro H. unfold write_at. rewrite splice_length by exact H. lia. Qed.

Lemma nth_write_at f w i x : fst w <= length f ->
  nth i (write_at B f w) x =
    if (fst w <=? i) && (i <? fst w + length (snd w)) then nth (i - fst w) (snd w) x else nth i f x.
Proof.
  intro H. unfold write_at. rewrite nth_splice by exact H.
  destruct (Nat.ltb_spec i (fst w)), (Nat.leb_spec (fst w) i), (Nat.ltb_spec i (fst w + length (snd w)));
    cbn [andb]; try lia; try reflexivity. f_equal. lia.
Qed.

Lemma apply_writes_length ws : forall f, writes_wf B (length f) ws = true -> length f <= length (apply_writes B ws f).
Proof.
  induction ws as [|w r IH]; intros f H; [cbn; lia|]. cbn [writes_wf] in H. apply andb_prop in H as [H1 H2].
  apply Nat.leb_le in H1. cbn [apply_writes fold_left]. fold (apply_writes B r (write_at B f w)).
  specialize (IH (write_at B f w)). rewrite write_at_length in IH by exact H1. specialize (IH H2). lia.
Qed.

Lemma apply_untouched ws i x : forall f, writes_wf B (length f) ws = true -> forallb (untouched B i) ws = true ->
  nth i (apply_writes B ws f) x = nth i f x.
Proof.
  induction ws as [|w r IH]; intros f H U; [reflexivity|]. cbn [writes_wf] in H. apply andb_prop in H as [H1 H2].
  apply Nat.leb_le in H1. cbn [forallb] in U. apply andb_prop in U as [U1 U2].
  cbn [apply_writes fold_left]. fold (apply_writes B r (write_at B f w)).
  rewrite IH; [| rewrite write_at_length by exact H1; exact H2 | exact U2].
  rewrite nth_write_at by exact H1. unfold untouched in U1.
  assert (U : i < fst w \/ fst w + length (snd w) <= i).
  { apply orb_prop in U1 as [U1|U1]; [left; apply Nat.ltb_lt; exact U1 | right; apply Nat.leb_le; exact U1]. }
  destruct (Nat.leb_spec (fst w) i), (Nat.ltb_spec i (fst w + length (snd w))); cbn [andb]; try reflexivity. lia.
Qed.

Lemma writes_wf_app a : forall b f, writes_wf B (length f) (a ++ b) = true ->
  writes_wf B (length f) a = true /\ writes_wf B (length (apply_writes B a f)) b = true.
Proof.
  induction a as [|w r IH]; intros b f H; [split; [reflexivity | exact H]|].
  cbn [app writes_wf] in H. apply andb_prop in H as [H1 H2]. pose proof H1 as H1'. apply Nat.leb_le in H1'.
  cbn [apply_writes fold_left]. fold (apply_writes B r (write_at B f w)).
  destruct (IH b (write_at B f w)) as [I1 I2]; [rewrite write_at_length by exact H1'; exact H2|].
  split; [|exact I2]. cbn [writes_wf]. rewrite H1. rewrite write_at_length in I1 by exact H1'. exact I1.
Qed.

Lemma apply_writes_app a b f : apply_writes B (a ++ b) f = apply_writes B b (apply_writes B a f).
Proof. unfold apply_writes. apply fold_left_app. Qed.

Section CRASH.
Variables (pre : list (wr B)) (w : wr B) (j : nat) (post : list (wr B)).
Hypothesis WF : writes_wf B 0 (pre ++ w :: post) = true.
Hypothesis J : j <= length (snd w).
Let base := apply_writes B pre [].
Let cur := crash B pre w j.
Let fin := complete B pre w post.

Lemma crash_facts : fst w <= length base /\ writes_wf B (length (write_at B base w)) post = true /\
  cur = write_at B base (cut_write B w j) /\ fin = apply_writes B post (write_at B base w).
Proof.
  destruct (writes_wf_app pre (w :: post) [] WF) as [_ W2]. fold base in W2. cbn [writes_wf] in W2.
  apply andb_prop in W2 as [W2 W3]. apply Nat.leb_le in W2. split; [exact W2|]. split.
  - rewrite write_at_length by exact W2. exact W3.
  - split; unfold cur, fin, crash, complete; rewrite apply_writes_app; reflexivity.
Qed.

Lemma crash_length : length cur = Nat.max (length base) (fst w + j) /\ length cur <= length fin.
Proof.
  destruct crash_facts as (W & WP & EC & EF). rewrite EC, EF.
  assert (LC : length (write_at B base (cut_write B w j)) = Nat.max (length base) (fst w + j)).
  { rewrite write_at_length by exact W. cbn [cut_write fst snd]. rewrite firstn_length. lia. }
  split; [exact LC|]. pose proof (apply_writes_length post _ WP) as G. rewrite write_at_length in G by exact W. lia.
Qed.

(* prefix_stable: a byte of the partial file that no pending write touches already has its final value *)
Theorem prefix_stable i x : i < length cur -> final_byte B w j post i = true -> nth i cur x = nth i fin x.
Proof.
  intros Hi Hf. destruct crash_facts as (W & WP & EC & EF). rewrite EC, EF.
  unfold final_byte in Hf. apply andb_prop in Hf as [Hw Hp].
  assert (U : i < fst w + j \/ fst w + length (snd w) <= i).
  { apply orb_prop in Hw as [Hw|Hw]; [left; apply Nat.ltb_lt; exact Hw | right; apply Nat.leb_le; exact Hw]. }
  rewrite (apply_untouched post i x _ WP Hp).
  rewrite !nth_write_at by exact W. cbn [cut_write fst snd]. rewrite firstn_length.
  replace (Nat.min j (length (snd w))) with j by lia.
  destruct (Nat.leb_spec (fst w) i), (Nat.ltb_spec i (fst w + j)), (Nat.ltb_spec i (fst w + length (snd w)));
    cbn [andb]; try lia; try reflexivity.
  apply nth_firstn_lt. lia.
Qed.

(* what a range read of the partial file and of the complete file return: they agree on every final byte *)
Lemma range_agree off len : off + len <= length cur ->
  agree B w j post off (range_bytes B cur off len) (range_bytes B fin off len).
Proof.
  intro H. destruct crash_length as [_ LF]. unfold agree. rewrite !range_bytes_length. split; [lia|].
  intros i x Hi Hfb. replace (Nat.min len (length cur - off)) with len in Hi by lia.
  rewrite !nth_range_bytes by exact Hi. apply prefix_stable; [lia | exact Hfb].
Qed.

Lemma agree_all_final off d d' : agree B w j post off d d' ->
  (forall i, i < length d -> final_byte B w j post (off + i) = true) -> d = d'.
Proof.
  intros [HL HA] HF. destruct d as [|b0 d0].
  - destruct d'; [reflexivity | discriminate].
  - apply (nth_ext _ _ b0 b0); [exact HL|]. intros i Hi. apply HA; [exact Hi | apply HF; exact Hi].
Qed.

Variable wired : bool.
Variable guard : Z -> Z -> bool.
Hypothesis Wired : wired = true.
Hypothesis Guard : forall a b, guard a b = negb (Z.eqb a b).

(* a range that is not wholly inside the partial file cannot be read *)
Theorem short_range_raises off len : length cur < off + len -> 0 < len ->
  checked_read B wired guard cur Full off len = Raise IOErr.
Proof.
  intros H1 H2. rewrite (checked_read_spec B wired guard Wired Guard), delivered_full.
  destruct (Nat.leb_spec (off + len) (length cur)), (Nat.eqb_spec len 0); cbn [orb]; try lia. reflexivity.
Qed.

(* prefix_read: a reader program that behaves alike on byte strings that agree on the final bytes either raises on
   the partial file or returns what it returns on the complete file *)
Theorem prefix_read {R} (p p' : prog B R) : robust B w j post p p' ->
  raises (run B wired guard cur p) \/ run B wired guard cur p = run B wired guard fin p'.
Proof.
  revert p'. induction p as [r|e|off len k IH]; intros p' HR; destruct p' as [r'|e'|off' len' k']; cbn [robust] in HR; try contradiction.
  - right. cbn [run]. rewrite HR. reflexivity.
  - left. eexists. reflexivity.
  - destruct HR as (<- & <- & HK). cbn [run]. rewrite !(checked_read_spec B wired guard Wired Guard), !delivered_full.
    destruct crash_length as [_ LF].
    destruct (Nat.leb_spec (off + len) (length cur)) as [In|Out].
    + replace (off + len <=? length fin) with true by (symmetry; apply Nat.leb_le; lia). cbn [orb bind].
      apply IH. apply HK; [rewrite range_bytes_length; lia | apply range_agree; exact In].
    + destruct (Nat.eqb_spec len 0) as [Z0|NZ]; cbn [orb].
      * rewrite orb_true_r. cbn [bind]. apply IH. subst len. unfold range_bytes. cbn [firstn]. apply HK; [reflexivity|].
        split; [reflexivity | intros i x Hi; cbn in Hi; lia].
      * left. eexists. reflexivity.
Qed.

(* ways to establish robustness *)
Lemma robust_ret {R} (r : R) : robust B w j post (PRet r) (PRet r).
Proof. reflexivity. Qed.
Lemma robust_err {R} e e' : @robust B R w j post (PErr e) (PErr e').
Proof. exact I. Qed.
(* a read none of whose bytes is still to be patched (every sample read, every footer read) *)
Lemma robust_final_read {R} off len (k k' : list B -> prog B R) :
  (forall i, off <= i < off + len -> final_byte B w j post i = true) ->
  (forall d, length d = len -> robust B w j post (k d) (k' d)) ->
  robust B w j post (PRead off len k) (PRead off len k').
Proof.
  intros HF HK. cbn [robust]. split; [reflexivity|]. split; [reflexivity|]. intros d d' HL A.
  rewrite <- (agree_all_final off d d' A); [apply HK; exact HL|]. intros i Hi. apply HF. lia.
Qed.
(* a read of bytes that may still change (the header): the continuation must not depend on those bytes *)
Lemma robust_insensitive_read {R} off len (k k' : list B -> prog B R) :
  (forall d d', length d = len -> agree B w j post off d d' -> robust B w j post (k d) (k' d')) ->
  robust B w j post (PRead off len k) (PRead off len k').
Proof. intro H. cbn [robust]. split; [reflexivity|]. split; [reflexivity|]. exact H. Qed.
End CRASH.
End WRITES.

(* ================================================================== C18: what the code writes, and which reader
   attributes can depend on bytes that are patched later (all closed by computation on GENERATED terms) *)
Open Scope Z_scope.

Lemma segy_order : segy_write_order =
  [WHeader; WBlocks; WPatch 64 4 OnlyThorough; WPatch 980 1068 OnlyThorough; WFooter UnlessStrip; WPatch 960 20 Always].
Proof. reflexivity. Qed.
Lemma numpy_order : numpy_write_order = [WHeader; WBlocks; WFooter Always; WPatch 960 20 Always].
Proof. reflexivity. Qed.
Lemma loop_flushes : loop_joins_then_flushes = true /\ header_bytes_len = 8192.
Proof. split; reflexivity. Qed.

(* is the event written on a route with / without 'thorough', with / without 'strip' *)
Definition enabled (thorough strip : bool) (c : wcond) : bool :=
  match c with Always => true | OnlyThorough => thorough | UnlessStrip => negb strip end.
(* byte ranges still to be overwritten in place once the first k events are complete *)
Definition pending_patches (thorough strip : bool) (o : list wev) (k : nat) : list (Z * Z) :=
  flat_map (fun e => match e with WPatch off len c => if enabled thorough strip c then [(off, len)] else [] | _ => [] end)
           (skipn k o).
(* the model's requirements on an order of events:
   the header comes first and the blocks second (so every size field is final before any data exists);
   every patch lies inside the header, beyond the size fields the reader derives its layout from, except the array count;
   once a footer array may exist, only the hash bytes are still pending (so a table that does not describe the
   footer never coexists with footer bytes) *)
Definition patch_inside_header (e : wev) : bool :=
  match e with
  | WPatch off len _ => ((64 <=? off) && (off + len <=? 68)) || ((960 <=? off) && (off + len <=? 2048))
  | _ => true
  end.
Fixpoint after_footer_only_hash (seen_footer : bool) (o : list wev) : bool :=
  match o with
  | [] => true
  | WFooter _ :: r => after_footer_only_hash true r
  | WPatch off len _ :: r => (negb seen_footer || ((960 <=? off) && (off + len <=? 980))) && after_footer_only_hash seen_footer r
  | _ :: r => negb seen_footer && after_footer_only_hash seen_footer r
  end.
Definition order_okb (o : list wev) : bool :=
  match o with
  | WHeader :: WBlocks :: r =>
      forallb patch_inside_header r && after_footer_only_hash false r
      && forallb (fun e => match e with WHeader | WBlocks => false | _ => true end) r
  | _ => false
  end.
Lemma write_orders_ok : order_okb segy_write_order = true /\ order_okb numpy_write_order = true.
Proof. split; reflexivity. Qed.

Lemma pending_segy :
  (* before / while the data section is written *)
  pending_patches true false segy_write_order 2 = [(64, 4); (980, 1068); (960, 20)] /\
  pending_patches false false segy_write_order 2 = [(960, 20)] /\
  (* after the count patch, after the table patch, while the footer is written *)
  pending_patches true false segy_write_order 3 = [(980, 1068); (960, 20)] /\
  pending_patches true false segy_write_order 4 = [(960, 20)] /\
  pending_patches true false segy_write_order 5 = [(960, 20)] /\
  pending_patches true false segy_write_order 6 = [] /\
  pending_patches false false numpy_write_order 2 = [(960, 20)] /\
  pending_patches false false numpy_write_order 4 = [].
Proof. repeat split; reflexivity. Qed.

(* which methods of SgzReader slice the bytes of each patch out of the header *)
Definition slice_users (lo hi : Z) : list string :=
  map (fun r => fst (fst r)) (filter (fun r => (snd (fst r) <? hi) && (lo <? snd r)) header_slices).
Lemma hash_bytes_users : slice_users 960 980 = ["get_source_data_hash"]%string.
Proof. reflexivity. Qed.
Lemma count_bytes_users : slice_users 64 68 = ["_parse_data_sizes"]%string.
Proof. reflexivity. Qed.
Lemma table_bytes_users : slice_users 980 2048 = ["_decode_traceheader_template"]%string.
Proof. reflexivity. Qed.

(* the generated read methods take the header as the record hdr; the array count (bytes 64..68, the only parsed
   size field that is ever patched) is field h_u32_64: no sample read depends on it *)
Definition set_count (H : hdr) (v : Z) : hdr :=
  {| h_u32_0 := h_u32_0 H; h_u32_4 := h_u32_4 H; h_u32_8 := h_u32_8 H; h_u32_12 := h_u32_12 H; h_i32_40 := h_i32_40 H;
     h_u32_44 := h_u32_44 H; h_u32_48 := h_u32_48 H; h_u32_52 := h_u32_52 H; h_u32_56 := h_u32_56 H;
     h_u32_60 := h_u32_60 H; h_u32_64 := v; h_u32_68 := h_u32_68 H; h_u32_72 := h_u32_72 H |}.

Lemma sample_reads_ignore_count H v mask_nth :
  rd_init (set_count H v) = rd_init H /\
  (forall a, rd_read_inline (set_count H v) a = rd_read_inline H a) /\
  (forall a, rd_read_crossline (set_count H v) a = rd_read_crossline H a) /\
  (forall a, rd_read_zslice (set_count H v) a = rd_read_zslice H a) /\
  (forall a b c d e f p q, rd_read_subvolume (set_count H v) a b c d e f p q = rd_read_subvolume H a b c d e f p q) /\
  rd_read_volume (set_count H v) = rd_read_volume H /\
  (forall a b c d p, rd_read_subplane (set_count H v) a b c d p = rd_read_subplane H a b c d p) /\
  (forall i lo hi ov, rd_get_trace mask_nth (set_count H v) i lo hi ov = rd_get_trace mask_nth H i lo hi ov) /\
  (forall a b c d e, rd_read_correlated_diagonal mask_nth (set_count H v) a b c d e = rd_read_correlated_diagonal mask_nth H a b c d e) /\
  (forall a b c d e, rd_read_anticorrelated_diagonal mask_nth (set_count H v) a b c d e = rd_read_anticorrelated_diagonal mask_nth H a b c d e).
Proof. repeat split; intros; reflexivity. Qed.

(* ================================================================== the header table on the 'thorough' route *)
Fixpoint decode_rows (rows : list entry) (s : nat) : list (Z * hval) :=
  match rows with
  | [] => []
  | (k, v0, v1) :: r => if row_variant (k, v0, v1) then (k, HOffset s) :: decode_rows r (S s) else (k, HConst v0) :: decode_rows r s
  end.
Definition key (e : entry) : Z := fst (fst e).

Lemma hlookup_app k d1 d2 : hlookup k (d1 ++ d2) = match hlookup k d1 with Some h => Some h | None => hlookup k d2 end.
Proof. induction d1 as [|[k' h] r IH]; [reflexivity|]. cbn [app hlookup]. destruct (k =? k'); [reflexivity | exact IH]. Qed.

Lemma distinct_keys_tail e r : distinct_keys (e :: r) = true ->
  distinct_keys r = true /\ forall e', In e' r -> key e' <> key e.
Proof.
  destruct e as [[k v0] v1]. cbn [distinct_keys]. intro H. apply andb_prop in H as [H1 H2]. split; [exact H2|].
  intros e' He' E. apply negb_true_iff in H1. assert (X : existsb (fun e0 => fst (fst e0) =? k) r = true).
  { apply existsb_exists. exists e'. split; [exact He'|]. apply Z.eqb_eq. exact E. }
  congruence.
Qed.

Lemma header_dict_simple rows : forall dict s,
  thorough_table_okb rows = true -> distinct_keys rows = true ->
  (forall e, In e rows -> hlookup (key e) dict = None) ->
  header_dict rows dict s = (dict ++ decode_rows rows s, (s + n_variant rows)%nat).
Proof.
  induction rows as [|[[k v0] v1] r IH]; intros dict s OK DK FR.
  - cbn. rewrite app_nil_r, Nat.add_0_r. reflexivity.
  - cbn [thorough_table_okb forallb] in OK. apply andb_prop in OK as [OK1 OK2].
    destruct (distinct_keys_tail _ _ DK) as [DK2 NE].
    pose proof (FR _ (or_introl eq_refl)) as F0. cbn [key fst] in F0.
    assert (NEXT : forall h e, In e r -> hlookup (key e) (dict ++ [(k, h)]) = None).
    { intros h e He. rewrite hlookup_app, (FR e (or_intror He)). cbn [hlookup].
      destruct (Z.eqb_spec (key e) k) as [E|_]; [exfalso; exact (NE e He E) | reflexivity]. }
    apply andb_prop in OK1 as [OK1 K0]. cbn [fst] in K0. apply negb_true_iff in K0. apply Z.eqb_neq in K0.
    cbn [header_dict decode_rows]. unfold n_variant. cbn [filter].
    destruct (row_variant (k, v0, v1)) eqn:V.
    + unfold row_variant in V. apply andb_prop in V as [V1 _]. apply andb_prop in V1 as [V0 V1].
      apply Z.eqb_eq in V0, V1. subst v0 v1. cbn [negb orb]. replace (0 =? 0) with true by reflexivity. cbn [negb orb].
      replace (k =? 0) with false by (symmetry; apply Z.eqb_neq; exact K0). rewrite F0.
      rewrite (IH _ _ OK2 DK2 (NEXT _)). rewrite <- app_assoc. cbn [app length]. f_equal. unfold n_variant. lia.
    + cbn [orb] in OK1. unfold row_const in OK1. apply Z.eqb_eq in OK1. subst v1. replace (0 =? 0) with true by reflexivity.
      rewrite orb_true_r. rewrite (IH _ _ OK2 DK2 (NEXT _)). rewrite <- app_assoc. reflexivity.
Qed.

Lemma open_table_simple rows count : thorough_table_okb rows = true -> distinct_keys rows = true ->
  open_table rows count = if Z.of_nat (n_variant rows) =? count then Return (decode_rows rows 0) else Raise AssertErr.
Proof.
  intros OK DK. unfold open_table. rewrite (header_dict_simple rows [] O OK DK) by (intros; reflexivity). reflexivity.
Qed.

Lemma initial_rows_ok rows : thorough_table_okb rows = true ->
  thorough_table_okb (map initial_row rows) = true /\ n_variant (map initial_row rows) = length rows /\
  (distinct_keys rows = true -> distinct_keys (map initial_row rows) = true).
Proof.
  induction rows as [|[[k v0] v1] r IH]; intro OK; [repeat split; reflexivity|].
  cbn [thorough_table_okb forallb] in OK. apply andb_prop in OK as [OK1 OK2]. destruct (IH OK2) as (I1 & I2 & I3).
  apply andb_prop in OK1 as [_ K0]. cbn [fst] in K0.
  assert (V : row_variant (k, 0, k) = true).
  { unfold row_variant. rewrite !Z.eqb_refl, K0. reflexivity. }
  repeat split.
  - cbn [map initial_row thorough_table_okb forallb]. rewrite V. cbn [orb andb fst]. rewrite K0. exact I1.
  - unfold n_variant in *. cbn [map initial_row filter]. rewrite V. cbn [length]. rewrite I2. reflexivity.
  - intro DK. cbn [distinct_keys] in DK. apply andb_prop in DK as [D1 D2]. cbn [map initial_row distinct_keys].
    rewrite (I3 D2), andb_true_r. apply negb_true_iff. apply negb_true_iff in D1.
    rewrite <- D1. clear. induction r as [|[[k' a] b] r IH]; [reflexivity|]. cbn [map initial_row existsb fst]. rewrite IH. reflexivity.
Qed.

Lemma okb_app a b : thorough_table_okb (a ++ b) = thorough_table_okb a && thorough_table_okb b.
Proof. unfold thorough_table_okb. apply forallb_app. Qed.
Lemma n_variant_app a b : n_variant (a ++ b) = (n_variant a + n_variant b)%nat.
Proof. unfold n_variant. rewrite filter_app, app_length. reflexivity. Qed.

Lemma n_variant_le rows : (n_variant rows <= length rows)%nat.
Proof. unfold n_variant. induction rows as [|e r IH]; [cbn; lia|]. cbn [filter]. destruct (row_variant e); cbn [length]; lia. Qed.

Lemma all_variant rows : n_variant rows = length rows -> map initial_row rows = rows.
Proof.
  induction rows as [|[[k v0] v1] r IH]; intro H; [reflexivity|].
  pose proof (n_variant_le r) as LE. unfold n_variant in *. cbn [filter] in H.
  destruct (row_variant (k, v0, v1)) eqn:V; cbn [length] in H; [|lia].
  cbn [map initial_row]. rewrite IH by lia. unfold row_variant in V. apply andb_prop in V as [V1 _]. apply andb_prop in V1 as [V0 V1].
  apply Z.eqb_eq in V0, V1. subst. reflexivity.
Qed.

Lemma distinct_keys_same_keys a b : map key a = map key b -> distinct_keys a = distinct_keys b.
Proof.
  revert b. induction a as [|[[k x] y] r IH]; intros [|[[k' x'] y'] r'] E; try discriminate; [reflexivity|].
  cbn [map key fst] in E. injection E as -> E. cbn [distinct_keys]. rewrite (IH r' E). f_equal. f_equal.
  clear IH. revert r' E. induction r as [|e r IH]; intros [|e' r'] E; try discriminate; [reflexivity|].
  cbn [map] in E. injection E as E0 E. cbn [existsb]. unfold key in E0. rewrite E0, (IH r' E). reflexivity.
Qed.

(* before the patch: every header word is a file offset into a footer that does not exist yet *)
Theorem thorough_before_patch rows count : thorough_table_okb rows = true -> distinct_keys rows = true ->
  open_table (map initial_row rows) count =
    if Z.of_nat (length rows) =? count then Return (decode_rows (map initial_row rows) 0) else Raise AssertErr.
Proof.
  intros OK DK. destruct (initial_rows_ok rows OK) as (I1 & I2 & I3). rewrite (open_table_simple _ _ I1 (I3 DK)), I2. reflexivity.
Qed.
Lemma initial_rows_all_offsets rows : forall s k h, thorough_table_okb rows = true ->
  In (k, h) (decode_rows (map initial_row rows) s) -> exists slot, h = HOffset slot.
Proof.
  induction rows as [|[[k0 v0] v1] r IH]; intros s k h OK Hin; [destruct Hin|].
  cbn [thorough_table_okb forallb] in OK. apply andb_prop in OK as [OK1 OK2]. apply andb_prop in OK1 as [_ K0]. cbn [fst] in K0.
  cbn [map initial_row decode_rows] in Hin. unfold row_variant in Hin. rewrite !Z.eqb_refl, K0 in Hin. cbn [andb] in Hin.
  destruct Hin as [E|Hin]; [injection E as _ <-; eexists; reflexivity | exact (IH _ _ _ OK2 Hin)].
Qed.

(* a patch that stopped at a row boundary: the count assertion fails, or the table already is the final one *)
Theorem thorough_row_tear rows j : thorough_table_okb rows = true -> distinct_keys rows = true ->
  open_table (torn_table rows j) (Z.of_nat (n_variant rows)) = Raise AssertErr \/ torn_table rows j = rows.
Proof.
  intros OK DK. unfold torn_table.
  pose proof (firstn_skipn j rows) as FS.
  assert (OKs : thorough_table_okb (firstn j rows) = true /\ thorough_table_okb (skipn j rows) = true).
  { rewrite <- FS, okb_app in OK. apply andb_prop in OK. exact OK. }
  destruct OKs as [OKa OKb]. destruct (initial_rows_ok _ OKb) as (I1 & I2 & _).
  assert (OKt : thorough_table_okb (firstn j rows ++ map initial_row (skipn j rows)) = true) by (rewrite okb_app, OKa, I1; reflexivity).
  assert (DKt : distinct_keys (firstn j rows ++ map initial_row (skipn j rows)) = true).
  { rewrite <- DK. apply distinct_keys_same_keys. rewrite <- FS at 3. rewrite !map_app. f_equal.
    rewrite map_map. apply map_ext. intros [[k a] b]. reflexivity. }
  rewrite (open_table_simple _ _ OKt DKt), n_variant_app, I2.
  destruct (Z.eqb_spec (Z.of_nat (n_variant (firstn j rows) + length (skipn j rows))) (Z.of_nat (n_variant rows))) as [E|NE];
    [right | left; reflexivity].
  rewrite <- FS in E at 3. rewrite n_variant_app in E. rewrite all_variant by lia. exact FS.
Qed.

(* count patched, table not yet: refused unless nothing was constant *)
Theorem thorough_count_only rows : thorough_table_okb rows = true -> distinct_keys rows = true ->
  n_variant rows <> length rows ->
  open_table (map initial_row rows) (Z.of_nat (n_variant rows)) = Raise AssertErr.
Proof.
  intros OK DK NE. rewrite (thorough_before_patch rows _ OK DK).
  destruct (Z.eqb_spec (Z.of_nat (length rows)) (Z.of_nat (n_variant rows))); [lia | reflexivity].
Qed.

(* KNOWN FINDING (torn value): a patch that stops INSIDE the 4 value bytes of the last constant row leaves
   (position, low bytes of the value, position): the reader takes it for the constant `low bytes`; the count matches *)
Example torn_value_refuted :
  let final_rows := [(1, 5, 0); (5, 70000, 0)] in
  let torn := [(1, 5, 0); (5, 70000 mod 256, 5)] in
  thorough_table_okb final_rows = true /\ distinct_keys final_rows = true /\
  open_table final_rows (Z.of_nat (n_variant final_rows)) = Return [(1, HConst 5); (5, HConst 70000)] /\
  open_table torn (Z.of_nat (n_variant final_rows)) = Return [(1, HConst 5); (5, HConst 112)].
Proof. repeat split; reflexivity. Qed.

(* ================================================================== final statements (with the generated wiring) *)
Open Scope nat_scope.
Definition backends : list bool := [read_range_file_checked; read_range_blob_checked].
Definition collected_flags : list bool := [xl_set_collected; zslice_set_collected; zslice_set_adv_collected; chunk_range_mt_collected].
Lemma backends_true w : In w backends -> w = true.
Proof. intros [<-|[<-|[]]]; reflexivity. Qed.
Lemma collected_true c : In c collected_flags -> c = true.
Proof. intros [<-|[<-|[<-|[<-|[]]]]]; reflexivity. Qed.

Lemma c17_choke_point (B : Type) (file : list B) a off len :
  read_range_file B file a off len = (if delivered B file a off len then Return (range_bytes B file off len) else Raise IOErr) /\
  read_range_blob B file a off len = (if delivered B file a off len then Return (range_bytes B file off len) else Raise IOErr).
Proof.
  split; [exact (checked_read_spec B _ _ file_backend_checked guard_is_length_check file a off len)
         | exact (checked_read_spec B _ _ blob_backend_checked guard_is_length_check file a off len)].
Qed.

Lemma c17_fault_raises (B : Type) (file : list B) (fa : nat -> answer) (ts : list task) k t wired :
  In wired backends -> nth_error ts k = Some t -> delivered B file (fa k) (t_off t) (t_len t) = false ->
  (forall buf, raises (seq_run B wired check_range_length_raises file fa 0 ts buf)) /\
  (forall collected sched buf0, In collected collected_flags ->
     raises (fanout B wired check_range_length_raises file fa collected ts sched buf0)).
Proof.
  intros Hw Hn Hd. pose proof (backends_true _ Hw) as ->. split.
  - intro buf. exact (fault_raises_seq B true _ eq_refl guard_is_length_check file fa ts buf k t Hn Hd).
  - intros c sched buf0 Hc.
    exact (fault_raises_fanout B true _ eq_refl guard_is_length_check c file fa ts sched buf0 k t (collected_true _ Hc) Hn Hd).
Qed.

Lemma c17_no_fault_true_data (B : Type) (file : list B) (fa : nat -> answer) (ts : list task) wired :
  In wired backends ->
  (forall k t, nth_error ts k = Some t -> delivered B file (fa k) (t_off t) (t_len t) = true) ->
  (forall buf, seq_run B wired check_range_length_raises file fa 0 ts buf = Return (true_buffer B file ts buf)) /\
  (forall collected sched buf0, tasks_okb (length buf0) ts = true ->
     schedule_of B wired check_range_length_raises file fa ts sched ->
     fanout B wired check_range_length_raises file fa collected ts sched buf0 = Return (true_buffer B file ts buf0)).
Proof.
  intros Hw D. pose proof (backends_true _ Hw) as ->. split.
  - intro buf. exact (no_fault_true_data_seq B true _ eq_refl guard_is_length_check file fa ts buf D).
  - intros c sched buf0 OK S. exact (no_fault_true_data_fanout B true _ eq_refl guard_is_length_check c file fa ts sched buf0 OK D S).
Qed.

Lemma c17_order_independent (B : Type) (file : list B) (fa : nat -> answer) (ts : list task) wired collected s1 s2 buf0 :
  In wired backends -> In collected collected_flags -> tasks_okb (length buf0) ts = true ->
  schedule_of B wired check_range_length_raises file fa ts s1 -> schedule_of B wired check_range_length_raises file fa ts s2 ->
  fanout B wired check_range_length_raises file fa collected ts s1 buf0 =
  fanout B wired check_range_length_raises file fa collected ts s2 buf0.
Proof.
  intros Hw Hc OK S1 S2. pose proof (backends_true _ Hw) as ->. pose proof (collected_true _ Hc) as ->.
  exact (order_independent B true _ eq_refl guard_is_length_check file fa ts s1 s2 buf0 OK S1 S2).
Qed.

Lemma c17_true_buffer_byte (B : Type) (file : list B) ts buf0 t s n d i x :
  tasks_okb (length buf0) ts = true -> (forall t', In t' ts -> t_off t' + t_len t' <= length file) ->
  In t ts -> In (s, n, d) (t_moves t) -> d <= i < d + n ->
  nth i (true_buffer B file ts buf0) x = nth (t_off t + s + (i - d)) file x.
Proof. exact (true_buffer_byte B file ts buf0 t s n d i x). Qed.

Lemma c18_short_range_raises (B : Type) (pre : list (wr B)) (w : wr B) j : j <= length (snd w) ->
  forall off len, length (crash B pre w j) < off + len -> 0 < len ->
  read_range_file B (crash B pre w j) Full off len = Raise IOErr.
Proof.
  intros J off len. exact (short_range_raises B pre w j J _ _ file_backend_checked guard_is_length_check off len).
Qed.

Lemma c18_prefix_read (B : Type) pre w j post : writes_wf B 0 (pre ++ w :: post) = true -> j <= length (snd w) ->
  forall R (p p' : prog B R), robust B w j post p p' ->
  raises (run B read_range_file_checked check_range_length_raises (crash B pre w j) p) \/
  run B read_range_file_checked check_range_length_raises (crash B pre w j) p =
  run B read_range_file_checked check_range_length_raises (complete B pre w post) p'.
Proof.
  intros WF J R p p'. exact (prefix_read B pre w j post WF J _ _ file_backend_checked guard_is_length_check p p').
Qed.

(* KNOWN FINDING (hash): get_source_data_hash slices bytes 960..980 out of the header read at open; before the hash
   patch they are zero.  Witness: header of 8192 zero bytes, then the 20-byte patch. *)
Definition p_hash : prog nat (list nat) := PRead 0 8192 (fun hb => PRet (range_bytes nat hb 960 20)).
Example hash_before_patch_refuted :
  let pre := [(0, repeat 0 8192)] in let w := (960, repeat 7 20) in
  writes_wf nat 0 (pre ++ [w]) = true /\
  run nat read_range_file_checked check_range_length_raises (crash nat pre w 0) p_hash = Return (repeat 0 20) /\
  run nat read_range_file_checked check_range_length_raises (complete nat pre w []) p_hash = Return (repeat 7 20).
Proof. repeat split; vm_compute; reflexivity. Qed.

(* non-vacuity witnesses *)
Example c17_witness :
  let file := [10; 11; 12; 13; 14; 15; 16; 17; 18; 19] in
  let ts := [ {| t_off := 0; t_len := 4; t_moves := [(0, 4, 4)] |}; {| t_off := 4; t_len := 4; t_moves := [(0, 2, 0); (2, 2, 2)] |} ] in
  let buf0 := repeat 0 8 in
  tasks_okb (length buf0) ts = true /\
  (forall k t, nth_error ts k = Some t -> delivered nat file Full (t_off t) (t_len t) = true) /\
  true_buffer nat file ts buf0 = [14; 15; 16; 17; 10; 11; 12; 13] /\
  delivered nat file (Short 2) 4 4 = false /\ delivered nat (firstn 7 file) Full 4 4 = false /\ delivered nat file Fail 0 4 = false.
Proof.
  cbv zeta. repeat split; try reflexivity.
  intros [|[|[|k]]] t E; cbn in E; try discriminate; injection E as <-; reflexivity.
Qed.

Example c18_witness :
  let pre := [(0, [1; 2; 3; 4])] in let w := (4, [5; 6; 7]) in let post := [(1, [9])] in
  writes_wf nat 0 (pre ++ w :: post) = true /\ crash nat pre w 1 = [1; 2; 3; 4; 5] /\ complete nat pre w post = [1; 9; 3; 4; 5; 6; 7] /\
  final_byte nat w 1 post 0 = true /\ final_byte nat w 1 post 1 = false /\ final_byte nat w 1 post 4 = true.
Proof. repeat split; reflexivity. Qed.

Open Scope Z_scope.
Example c18_table_witness :
  let rows := [(1, 0, 1); (5, 4000, 0); (9, 0, 9); (13, 0, 0)] in
  thorough_table_okb rows = true /\ distinct_keys rows = true /\ n_variant rows = 2%nat /\
  open_table rows 2 = Return [(1, HOffset 0); (5, HConst 4000); (9, HOffset 1); (13, HConst 0)] /\
  torn_table rows 2 = [(1, 0, 1); (5, 4000, 0); (9, 0, 9); (13, 0, 13)].
Proof. repeat split; reflexivity. Qed.

(* ================================================================== the fourth fan-out *)
Open Scope Z_scope.
(* ---- read_and_decompress_zslice_set_adv: one block read per task, distributed into blockshape0/4 sub-slices ---- *)
Lemma distinct_slots L Q qs : 0 <= L -> NoDup qs -> (forall q, In q qs -> 0 <= q < Q) ->
  slots_okb (Z.to_nat (Q * L)) (map (fun q => (Z.to_nat (q * L), Z.to_nat L)) qs) = true.
Proof.
  intros HL ND HB. induction qs as [|q r IH]; [reflexivity|].
  inversion ND as [|q' r' NI ND']; subst. cbn [map slots_okb fst snd].
  pose proof (HB q (or_introl eq_refl)) as Bq.
  apply andb_true_intro; split; [apply andb_true_intro; split|].
  - apply Nat.leb_le. rewrite <- Z2Nat.inj_add by nia. apply Z2Nat.inj_le; nia.
  - apply forallb_forall. intros a Ha. apply in_map_iff in Ha as (q2 & <- & H2).
    assert (NE : q2 <> q) by (intro; subst; contradiction).
    pose proof (HB q2 (or_intror H2)) as B2.
    unfold slot_disj. cbn [fst snd]. apply orb_true_iff.
    destruct (Z_lt_le_dec q q2); [left|right]; apply Nat.leb_le; rewrite <- Z2Nat.inj_add by nia; apply Z2Nat.inj_le; nia.
  - apply IH; [exact ND' | intros; apply HB; right; assumption].
Qed.

Lemma NoDup_app' {A} (a b : list A) : NoDup a -> NoDup b -> (forall x, In x a -> ~ In x b) -> NoDup (a ++ b).
Proof.
  induction a as [|x a IH]; intros Na Nb D; [exact Nb|]. inversion Na as [|x' a' NI Na']; subst. cbn. constructor.
  - intro H. apply in_app_or in H as [H|H]; [contradiction | exact (D x (or_introl eq_refl) H)].
  - apply IH; [exact Na' | exact Nb | intros y Hy; apply D; right; exact Hy].
Qed.

Lemma NoDup_map_inj_in {A B} (f : A -> B) l : NoDup l -> (forall x y, In x l -> In y l -> f x = f y -> x = y) -> NoDup (map f l).
Proof.
  induction l as [|a l IH]; intros N I; [constructor|]. inversion N as [|a' l' NI N']; subst. cbn. constructor.
  - intro H. apply in_map_iff in H as (y & E & Hy). assert (y = a) by (apply I; [right; exact Hy | left; reflexivity | exact E]).
    subst. contradiction.
  - apply IH; [exact N' | intros x y Hx Hy; apply I; right; assumption].
Qed.

Lemma NoDup_flat_map_inj {A B} (g : A -> list B) l : NoDup l -> (forall a, In a l -> NoDup (g a)) ->
  (forall a a' x, In a l -> In a' l -> In x (g a) -> In x (g a') -> a = a') -> NoDup (flat_map g l).
Proof.
  induction l as [|a l IH]; intros N G D; [constructor|]. inversion N as [|a' l' NI N']; subst. cbn [flat_map].
  apply NoDup_app'.
  - apply G. left. reflexivity.
  - apply IH; [exact N' | intros; apply G; right; assumption | intros b b' x Hb Hb'; apply D; right; assumption].
  - intros x Hx Hf. apply in_flat_map in Hf as (b & Hb & Hxb).
    assert (a = b) by (apply (D a b x); [left; reflexivity | right; exact Hb | exact Hx | exact Hxb]). subst. contradiction.
Qed.

Definition qf (b1 nsub b s : Z) : Z := ((b / b1) * nsub + s) * b1 + b mod b1.

Lemma qf_inj b1 nsub b s b' s' : 0 < b1 -> 0 <= s < nsub -> 0 <= s' < nsub -> 0 <= b -> 0 <= b' ->
  qf b1 nsub b s = qf b1 nsub b' s' -> b = b' /\ s = s'.
Proof.
  intros H1 Hs Hs' Hb Hb' E. unfold qf in E.
  pose proof (Z.mod_pos_bound b b1 H1) as R. pose proof (Z.mod_pos_bound b' b1 H1) as R'.
  destruct (Z.div_mod_unique b1 (b / b1 * nsub + s) (b' / b1 * nsub + s') (b mod b1) (b' mod b1)) as [E1 E2]; [lia | lia | lia |].
  destruct (Z.div_mod_unique nsub (b / b1) (b' / b1) s s') as [E3 E4]; [lia | lia | lia |].
  split; [|exact E4]. rewrite (Z.div_mod b b1), (Z.div_mod b' b1) by lia. rewrite E3, E2. reflexivity.
Qed.

Lemma qf_bound b0 b1 nsub b s : 0 < b1 -> 0 <= b0 -> 0 <= b < b0 * b1 -> 0 <= s < nsub -> 0 <= qf b1 nsub b s < b0 * nsub * b1.
Proof.
  intros H1 H0 Hb Hs. unfold qf. pose proof (Z.mod_pos_bound b b1 H1) as R.
  assert (I : 0 <= b / b1 < b0). { split; [apply Z.div_pos; lia | apply Z.div_lt_upper_bound; lia]. }
  set (i := b / b1) in *. set (r := b mod b1) in *.
  assert (A : 0 <= i * nsub + s <= b0 * nsub - 1) by nia.
  split; [nia|]. assert ((i * nsub + s) * b1 <= (b0 * nsub - 1) * b1) by nia. nia.
Qed.

Definition adv_tasks (bb b0 b1 b2 bs0 r1 r2 zf : Z) : list task :=
  map (fun b => ztask (zslice_set_adv_read bb b1 b2 zf b) (zslice_set_adv_moves bb b1 bs0 r1 r2 b)) (zrange 0 (zslice_set_adv_ntasks b0 b1)).

Lemma flat_map_map {A B C} (f : A -> B) (g : B -> list C) l : flat_map g (map f l) = flat_map (fun a => g (f a)) l.
Proof. induction l as [|a l IH]; [reflexivity|]. cbn. rewrite IH. reflexivity. Qed.
Lemma map_flat_map {A B C} (f : B -> C) (g : A -> list B) l : map f (flat_map g l) = flat_map (fun a => map f (g a)) l.
Proof. induction l as [|a l IH]; [reflexivity|]. cbn. rewrite map_app, IH. reflexivity. Qed.
Lemma flat_map_ext_in {A B} (f g : A -> list B) l : (forall a, In a l -> f a = g a) -> flat_map f l = flat_map g l.
Proof. induction l as [|a l IH]; intro H; [reflexivity|]. cbn. rewrite (H a (or_introl eq_refl)), IH; [reflexivity|]. intros; apply H; right; assumption. Qed.

Lemma zslice_set_adv_tasks_ok bb b0 b1 b2 bs0 r1 r2 zf :
  0 <= r1 / 8 -> 0 <= bs0 / 4 -> 0 <= b0 -> 0 < b1 -> bb = (bs0 / 4) * (r1 / 8) -> r2 / 8 = b1 * (r1 / 8) ->
  tasks_okb (Z.to_nat (zslice_set_adv_buflen bb b0 b1)) (adv_tasks bb b0 b1 b2 bs0 r1 r2 zf) = true.
Proof.
  intros Hs Hn H0 H1 Ebb Erow. set (sbs := r1 / 8) in *. set (nsub := bs0 / 4) in *.
  unfold tasks_okb, adv_tasks, zslice_set_adv_ntasks, zslice_set_adv_buflen. apply andb_true_intro; split.
  - apply forallb_forall. intros t Ht. apply in_map_iff in Ht as (b & <- & Hb).
    unfold task_okb, ztask, zslice_set_adv_moves, zslice_set_adv_read. cbn [t_moves t_len snd]. fold sbs nsub.
    apply forallb_forall. intros m Hm. apply in_map_iff in Hm as (m0 & <- & Hm0). apply in_map_iff in Hm0 as (s & <- & Hs0).
    apply in_zrange in Hs0. cbn [zmove]. apply Nat.leb_le. rewrite <- Z2Nat.inj_add by nia. apply Z2Nat.inj_le; nia.
  - rewrite flat_map_map.
    rewrite (flat_map_ext_in _ (fun b => map (fun s => (Z.to_nat (qf b1 nsub b s * sbs), Z.to_nat sbs)) (zrange 0 nsub))).
    2:{ intros b Hb. unfold task_slots, ztask, zslice_set_adv_moves. cbn [t_moves]. fold sbs nsub. rewrite !map_map.
        apply map_ext. intro s. cbn [zmove]. f_equal; f_equal; [|ring]. rewrite Ebb, Erow. unfold qf. ring. }
    rewrite <- (flat_map_ext_in (fun b => map (fun q => (Z.to_nat (q * sbs), Z.to_nat sbs)) (map (qf b1 nsub b) (zrange 0 nsub))))
      by (intros; rewrite map_map; reflexivity).
    rewrite <- map_flat_map.
    replace (bb * b0 * b1) with ((b0 * nsub * b1) * sbs) by (rewrite Ebb; ring).
    apply distinct_slots; [exact Hs | |].
    + apply NoDup_flat_map_inj.
      * apply zrange_NoDup.
      * intros b Hb. apply NoDup_map_inj_in; [apply zrange_NoDup|]. intros s s' Hs1 Hs2 E. apply in_zrange in Hs1, Hs2, Hb.
        apply (qf_inj b1 nsub b s b s'); lia || exact E.
      * intros b b' q Hb Hb' Hq Hq'. apply in_map_iff in Hq as (s & Es & Hs1). apply in_map_iff in Hq' as (s' & Es' & Hs2).
        apply in_zrange in Hs1, Hs2, Hb, Hb'. apply (qf_inj b1 nsub b s b' s'); first [lia | congruence].
    + intros q Hq. apply in_flat_map in Hq as (b & Hb & Hq). apply in_map_iff in Hq as (s & <- & Hs1).
      apply in_zrange in Hs1, Hb. apply qf_bound; lia.
Qed.
