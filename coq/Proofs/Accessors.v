(* Proofs/Accessors.v -- C13: the key lists of the emulator's accessors (Gen/Accessors.v, GENERATED from
   seismic_zfp/accessors.py) equal those of segyio (hand model in Model/Accessors.v), for every regular axis and every
   slice of the documented grammar.  All statements are unbounded (induction over range length, arithmetic). *)
From Coq Require Import ZArith List Bool Lia Sorting.Sorted.
Import ListNotations.
From SZ Require Import Lib.Py Model.Accessors Gen.Accessors.
Open Scope Z_scope.

(* ------------------------------------------------------------------ range *)
Lemma range_nat_length lo k n : length (range_nat lo k n) = n.
Proof. revert lo; induction n as [|n IH]; intros lo; cbn [range_nat length]; [reflexivity | now rewrite IH]. Qed.

Lemma range_nat_In lo k n x :
  In x (range_nat lo k n) <-> exists i, 0 <= i < Z.of_nat n /\ x = lo + i * k.
Proof.
  revert lo; induction n as [|n IH]; intros lo; cbn [range_nat In].
  - split; [tauto | intros (i & Hi & _); lia].
  - rewrite IH. split.
    + intros [E | (i & Hi & E)].
      * exists 0. split; [lia | lia].
      * exists (i + 1). split; [lia | lia].
    + intros (i & Hi & E). destruct (Z.eq_dec i 0) as [Z0 | NZ].
      * left. subst i. lia.
      * right. exists (i - 1). split; [lia | lia].
Qed.

Lemma range_nat_sorted lo k n : 0 < k -> StronglySorted Z.lt (range_nat lo k n).
Proof.
  intros Hk. revert lo; induction n as [|n IH]; intros lo; cbn [range_nat].
  - constructor.
  - constructor; [apply IH |].
    apply Forall_forall. intros x Hx. apply range_nat_In in Hx. destruct Hx as (i & Hi & E). nia.
Qed.

(* range_len for a positive step: the number of i >= 0 with start + i*step < stop *)
Lemma range_len_pos_spec start stop k i : 0 < k ->
  (0 <= i < range_len start stop k <-> 0 <= i /\ start + i * k < stop).
Proof.
  intros Hk. unfold range_len. replace (0 <? k) with true by (symmetry; apply Z.ltb_lt; lia).
  destruct (start <? stop) eqn:E.
  - apply Z.ltb_lt in E.
    pose proof (Z.div_mod (stop - start - 1) k ltac:(lia)) as DM.
    pose proof (Z.mod_pos_bound (stop - start - 1) k Hk) as MB.
    set (q := (stop - start - 1) / k) in *. set (r := (stop - start - 1) mod k) in *.
    split.
    + intros [H0 H1]. split; [lia |]. nia.
    + intros [H0 H1]. split; [lia |]. nia.
  - apply Z.ltb_ge in E. split; [lia |]. intros [H0 H1]. nia.
Qed.

Lemma range_len_neg_spec start stop k i : k < 0 ->
  (0 <= i < range_len start stop k <-> 0 <= i /\ stop < start + i * k).
Proof.
  intros Hk. unfold range_len. replace (0 <? k) with false by (symmetry; apply Z.ltb_ge; lia).
  replace (k <? 0) with true by (symmetry; apply Z.ltb_lt; lia).
  destruct (stop <? start) eqn:E.
  - apply Z.ltb_lt in E.
    pose proof (Z.div_mod (start - stop - 1) (- k) ltac:(lia)) as DM.
    pose proof (Z.mod_pos_bound (start - stop - 1) (- k) ltac:(lia)) as MB.
    set (q := (start - stop - 1) / (- k)) in *. set (r := (start - stop - 1) mod (- k)) in *.
    split.
    + intros [H0 H1]. split; [lia |]. nia.
    + intros [H0 H1]. split; [lia |]. nia.
  - apply Z.ltb_ge in E. split; [lia |]. intros [H0 H1]. nia.
Qed.

Lemma range_len_nonneg start stop k : 0 <= range_len start stop k.
Proof.
  unfold range_len. destruct (0 <? k) eqn:E1.
  - apply Z.ltb_lt in E1. destruct (start <? stop) eqn:E2; [| lia]. apply Z.ltb_lt in E2.
    pose proof (Z.div_pos (stop - start - 1) k ltac:(lia) E1). lia.
  - destruct (k <? 0) eqn:E3; [| lia]. apply Z.ltb_lt in E3. destruct (stop <? start) eqn:E2; [| lia].
    apply Z.ltb_lt in E2. pose proof (Z.div_pos (start - stop - 1) (- k) ltac:(lia) ltac:(lia)). lia.
Qed.

Lemma range_list_In_pos start stop k x : 0 < k ->
  (In x (range_list start stop k) <-> exists i, 0 <= i /\ x = start + i * k /\ x < stop).
Proof.
  intros Hk. unfold range_list. rewrite range_nat_In. rewrite Z2Nat.id by apply range_len_nonneg.
  split.
  - intros (i & Hi & E). apply (range_len_pos_spec start stop k i Hk) in Hi. exists i. subst x. tauto.
  - intros (i & H0 & E & Hlt). exists i. split; [| exact E]. apply (range_len_pos_spec start stop k i Hk). subst x. tauto.
Qed.

Lemma range_list_In_neg start stop k x : k < 0 ->
  (In x (range_list start stop k) <-> exists i, 0 <= i /\ x = start + i * k /\ stop < x).
Proof.
  intros Hk. unfold range_list. rewrite range_nat_In. rewrite Z2Nat.id by apply range_len_nonneg.
  split.
  - intros (i & Hi & E). apply (range_len_neg_spec start stop k i Hk) in Hi. exists i. subst x. tauto.
  - intros (i & H0 & E & Hlt). exists i. split; [| exact E]. apply (range_len_neg_spec start stop k i Hk). subst x. tauto.
Qed.

(* ------------------------------------------------------------------ sorted lists *)
Lemma sorted_ext (l1 l2 : list Z) :
  StronglySorted Z.lt l1 -> StronglySorted Z.lt l2 -> (forall x, In x l1 <-> In x l2) -> l1 = l2.
Proof.
  revert l2; induction l1 as [|a l1 IH]; intros l2 S1 S2 E.
  - destruct l2 as [|b l2]; [reflexivity |]. exfalso. apply (proj2 (E b)). now left.
  - destruct l2 as [|b l2]; [exfalso; apply (proj1 (E a)); now left |].
    inversion S1 as [| ? ? S1' F1]; subst. inversion S2 as [| ? ? S2' F2]; subst.
    rewrite Forall_forall in F1, F2.
    assert (a = b) as ->.
    { destruct (proj1 (E a) (or_introl eq_refl)) as [Eb | Hb]; [now subst |].
      destruct (proj2 (E b) (or_introl eq_refl)) as [Ea | Ha]; [now subst |].
      specialize (F1 _ Ha). specialize (F2 _ Hb). lia. }
    f_equal. apply IH; [assumption | assumption |].
    intros x. split; intros Hx.
    + destruct (proj1 (E x) (or_intror Hx)) as [Eb | Hb]; [| exact Hb]. subst x. specialize (F1 _ Hx). lia.
    + destruct (proj2 (E x) (or_intror Hx)) as [Eb | Hb]; [| exact Hb]. subst x. specialize (F2 _ Hx). lia.
Qed.

Lemma filter_sorted (f : Z -> bool) l : StronglySorted Z.lt l -> StronglySorted Z.lt (filter f l).
Proof.
  induction 1 as [| a l S IH F]; cbn [filter]; [constructor |].
  destruct (f a); [| exact IH]. constructor; [exact IH |].
  rewrite Forall_forall in *. intros x Hx. apply filter_In in Hx. now apply F.
Qed.

Lemma filter_all (f : Z -> bool) l : (forall x, In x l -> f x = true) -> filter f l = l.
Proof.
  induction l as [|a l IH]; intros A; cbn [filter]; [reflexivity |].
  rewrite (A a (or_introl eq_refl)). f_equal. apply IH. intros x Hx. apply A. now right.
Qed.

(* ------------------------------------------------------------------ min / max / membership of a regular axis *)
Lemma mem_In k l : mem k l = true <-> In k l.
Proof.
  unfold mem. rewrite existsb_exists. split.
  - intros (x & Hx & E). apply Z.eqb_eq in E. now subst.
  - intros Hk. exists k. split; [assumption | apply Z.eqb_refl].
Qed.

Lemma fold_min_spec d l :
  (fold_right Z.min d l = d \/ In (fold_right Z.min d l) l) /\ fold_right Z.min d l <= d /\
  (forall x, In x l -> fold_right Z.min d l <= x).
Proof.
  induction l as [|a l (IH1 & IH2 & IH3)]; cbn [fold_right In].
  - split; [now left | split; [lia | tauto]].
  - split; [| split].
    + destruct (Z.min_spec a (fold_right Z.min d l)) as [[_ E] | [_ E]]; rewrite E.
      * right. now left.
      * destruct IH1 as [E1 | I1]; [left; exact E1 | right; right; exact I1].
    + lia.
    + intros x [E | Hx]; [subst; lia | specialize (IH3 x Hx); lia].
Qed.

Lemma fold_max_spec d l :
  (fold_right Z.max d l = d \/ In (fold_right Z.max d l) l) /\ d <= fold_right Z.max d l /\
  (forall x, In x l -> x <= fold_right Z.max d l).
Proof.
  induction l as [|a l (IH1 & IH2 & IH3)]; cbn [fold_right In].
  - split; [now left | split; [lia | tauto]].
  - split; [| split].
    + destruct (Z.max_spec a (fold_right Z.max d l)) as [[_ E] | [_ E]]; rewrite E.
      * destruct IH1 as [E1 | I1]; [left; exact E1 | right; right; exact I1].
      * right. now left.
    + lia.
    + intros x [E | Hx]; [subst; lia | specialize (IH3 x Hx); lia].
Qed.

Lemma lmin_unique l m : In m l -> (forall x, In x l -> m <= x) -> lmin l = m.
Proof.
  intros Hm Hle. unfold lmin. destruct l as [|a l]; [contradiction |]. cbn [hd].
  destruct (fold_min_spec a (a :: l)) as (H1 & H2 & H3).
  assert (In (fold_right Z.min a (a :: l)) (a :: l)) as Hin.
  { destruct H1 as [E | I]; [rewrite E; now left | exact I]. }
  specialize (H3 m Hm). specialize (Hle _ Hin). lia.
Qed.

Lemma lmax_unique l m : In m l -> (forall x, In x l -> x <= m) -> lmax l = m.
Proof.
  intros Hm Hle. unfold lmax. destruct l as [|a l]; [contradiction |]. cbn [hd].
  destruct (fold_max_spec a (a :: l)) as (H1 & H2 & H3).
  assert (In (fold_right Z.max a (a :: l)) (a :: l)) as Hin.
  { destruct H1 as [E | I]; [rewrite E; now left | exact I]. }
  specialize (H3 m Hm). specialize (Hle _ Hin). lia.
Qed.

(* lowest and highest line number of the axis a, a+s, ..., a+(n-1)s *)
Definition axis_lo (a s : Z) (n : nat) : Z := if 0 <? s then a else a + (Z.of_nat n - 1) * s.
Definition axis_hi (a s : Z) (n : nat) : Z := if 0 <? s then a + (Z.of_nat n - 1) * s else a.

Lemma axis_In a s n k : In k (axis a s n) <-> exists i, 0 <= i < Z.of_nat n /\ k = a + i * s.
Proof. apply range_nat_In. Qed.

Lemma axis_lmin a s n : (0 < n)%nat -> s <> 0 -> lmin (axis a s n) = axis_lo a s n.
Proof.
  intros Hn Hs. unfold axis_lo. apply lmin_unique.
  - apply axis_In. destruct (0 <? s) eqn:E.
    + exists 0. lia.
    + exists (Z.of_nat n - 1). lia.
  - intros x Hx. apply axis_In in Hx. destruct Hx as (i & Hi & ->). destruct (0 <? s) eqn:E.
    + apply Z.ltb_lt in E. nia.
    + apply Z.ltb_ge in E. nia.
Qed.

Lemma axis_lmax a s n : (0 < n)%nat -> s <> 0 -> lmax (axis a s n) = axis_hi a s n.
Proof.
  intros Hn Hs. unfold axis_hi. apply lmax_unique.
  - apply axis_In. destruct (0 <? s) eqn:E.
    + exists (Z.of_nat n - 1). lia.
    + exists 0. lia.
  - intros x Hx. apply axis_In in Hx. destruct Hx as (i & Hi & ->). destruct (0 <? s) eqn:E.
    + apply Z.ltb_lt in E. nia.
    + apply Z.ltb_ge in E. nia.
Qed.

Lemma axis_hi_lo a s n : axis_hi a s n = axis_lo a s n + (Z.of_nat n - 1) * Z.abs s.
Proof. unfold axis_hi, axis_lo. destruct (0 <? s) eqn:E; [apply Z.ltb_lt in E | apply Z.ltb_ge in E]; lia. Qed.

(* membership in direction-free form: lo + j*|s| for 0 <= j < n *)
Lemma axis_mem a s n k : s <> 0 ->
  (In k (axis a s n) <-> exists j, 0 <= j < Z.of_nat n /\ k = axis_lo a s n + j * Z.abs s).
Proof.
  intros Hs. rewrite axis_In. unfold axis_lo. destruct (0 <? s) eqn:E.
  - apply Z.ltb_lt in E. rewrite Z.abs_eq by lia. tauto.
  - apply Z.ltb_ge in E. rewrite Z.abs_neq by lia. split.
    + intros (i & Hi & ->). exists (Z.of_nat n - 1 - i). split; [lia | lia].
    + intros (j & Hj & ->). exists (Z.of_nat n - 1 - j). split; [lia | lia].
Qed.

Lemma seq_get_axis_0 a s n : (0 < n)%nat -> seq_get (axis a s n) 0 = Return a.
Proof.
  intros Hn. unfold seq_get, zlen, axis. rewrite range_nat_length.
  replace (0 <? 0) with false by reflexivity. cbv beta iota zeta.
  replace ((0 <=? 0) && (0 <? Z.of_nat n)) with true by (symmetry; apply andb_true_iff; split; [reflexivity | apply Z.ltb_lt; lia]).
  destruct n as [|n]; [lia |]. reflexivity.
Qed.

Lemma seq_get_axis_1 a s n : (1 < n)%nat -> seq_get (axis a s n) 1 = Return (a + s).
Proof.
  intros Hn. unfold seq_get, zlen, axis. rewrite range_nat_length.
  replace (1 <? 0) with false by reflexivity. cbv beta iota zeta.
  replace ((0 <=? 1) && (1 <? Z.of_nat n)) with true by (symmetry; apply andb_true_iff; split; [reflexivity | apply Z.ltb_lt; lia]).
  destruct n as [|[|n]]; [lia | lia |]. reflexivity.
Qed.

(* ------------------------------------------------------------------ closed form of the GENERATED SliceAccessor code *)
Definition sla_step (inc : Z) (sl : pyslice) : Z := match sl_step sl with None => Z.abs inc | Some v => v end.
Definition sla_start (keys : list Z) (inc : Z) (sl : pyslice) : Z :=
  match sl_start sl with None => if 0 <? sla_step inc sl then lmin keys else lmax keys | Some v => v end.
Definition sla_stop (keys : list Z) (inc : Z) (sl : pyslice) : Z :=
  match sl_stop sl with None => if 0 <? sla_step inc sl then lmax keys + 1 else lmin keys - 1 | Some v => v end.

Lemma sla_closed_form keys k0 k1 sl :
  seq_get keys 0 = Return k0 -> seq_get keys 1 = Return k1 ->
  sla_getitem_slice keys sl =
  py_range (sla_start keys (k1 - k0) sl) (sla_stop keys (k1 - k0) sl) (sla_step (k1 - k0) sl).
Proof.
  intros H0 H1. unfold sla_getitem_slice, sla_start, sla_stop, sla_step. rewrite H0, H1.
  destruct sl as [[st|] [sp|] [k|]]; cbn [sl_start sl_stop sl_step bind];
    repeat (match goal with |- context [0 <? ?x] => destruct (0 <? x) end; cbn [bind]); reflexivity.
Qed.

(* ------------------------------------------------------------------ closed form of the segyio model *)
Lemma sanitize_closed sl keys :
  sanitize_slice sl keys =
  mkslice (Some (match sl_start sl with
                 | None => if match sl_step sl with None => true | Some k => 0 <? k end then lmin keys else lmax keys
                 | Some v => v end))
          (Some (match sl_stop sl with
                 | None => if match sl_step sl with None => true | Some k => 0 <? k end then lmax keys + 1 else lmin keys - 1
                 | Some v => v end))
          (sl_step sl).
Proof.
  unfold sanitize_slice, truthy. destruct sl as [[st|] [sp|] [k|]]; cbn [sl_start sl_stop sl_step andb negb];
    repeat match goal with |- context [?x =? 0] => destruct (x =? 0) end; cbn [andb negb]; reflexivity.
Qed.

Lemma adjust_inside len step v : 0 <= v < len -> adjust_bound len step v = v.
Proof.
  intros Hv. unfold adjust_bound. replace (v <? 0) with false by (symmetry; apply Z.ltb_ge; lia).
  replace (len <=? v) with false by (symmetry; apply Z.leb_gt; lia). reflexivity.
Qed.

Lemma adjust_at_len len step : 0 <= len -> 0 < step -> adjust_bound len step len = len.
Proof.
  intros Hl Hs. unfold adjust_bound. replace (len <? 0) with false by (symmetry; apply Z.ltb_ge; lia).
  rewrite Z.leb_refl. replace (step <? 0) with false by (symmetry; apply Z.ltb_ge; lia). reflexivity.
Qed.

(* ------------------------------------------------------------------ the line-slice theorem *)
Section Line.
Variables (a s : Z) (n : nat).
Hypothesis Hs : s <> 0.
Hypothesis Hn : (2 <= n)%nat.
Let keys := axis a s n.
Let lo := axis_lo a s n.
Let hi := axis_hi a s n.
Let d := Z.abs s.

Lemma Hd : 0 < d. Proof. unfold d. lia. Qed.
Lemma Hmin : lmin keys = lo. Proof. apply axis_lmin; [lia | exact Hs]. Qed.
Lemma Hmax : lmax keys = hi. Proof. apply axis_lmax; [lia | exact Hs]. Qed.
Lemma Hhi : hi = lo + (Z.of_nat n - 1) * d. Proof. apply axis_hi_lo. Qed.
Lemma Hmem k : mem k keys = true <-> exists j, 0 <= j < Z.of_nat n /\ k = lo + j * d.
Proof. rewrite mem_In. apply axis_mem. exact Hs. Qed.
Lemma lo_mem : mem lo keys = true. Proof. apply Hmem. exists 0. lia. Qed.
Lemma hi_mem : mem hi keys = true. Proof. apply Hmem. exists (Z.of_nat n - 1). rewrite Hhi. lia. Qed.
Lemma mem_bounds k : mem k keys = true -> lo <= k <= hi.
Proof. intros Hk. apply Hmem in Hk. destruct Hk as (j & Hj & ->). rewrite Hhi. pose proof Hd. nia. Qed.

(* a stop bound of the grammar: an existing line number, or the default one past the end in the direction of travel *)
Definition stop_up (sp : Z) : Prop := mem sp keys = true \/ sp = hi + 1.
Definition stop_down (sp : Z) : Prop := mem sp keys = true \/ sp = lo - 1.

Lemma stop_up_form sp : stop_up sp -> exists j, 0 <= j <= Z.of_nat n /\ (sp = lo + j * d \/ (j = Z.of_nat n /\ sp = hi + 1)).
Proof.
  intros [Hk | ->].
  - apply Hmem in Hk. destruct Hk as (j & Hj & ->). exists j. split; [lia | now left].
  - exists (Z.of_nat n). split; [lia | now right].
Qed.

(* every element of an upward range from a line to a stop of the grammar, in steps that are multiples of d, is a line *)
Lemma up_all_lines st sp k x : mem st keys = true -> stop_up sp -> 0 < k -> (d | k) ->
  In x (range_list st sp k) -> mem x keys = true.
Proof.
  intros Hst Hsp Hk (q & Hq) Hx. apply (range_list_In_pos st sp k x Hk) in Hx. destruct Hx as (i & Hi & -> & Hlt).
  apply Hmem in Hst. destruct Hst as (j & Hj & ->). pose proof Hd as Hd'.
  assert (0 < q) as Hq0 by nia.
  apply Hmem. exists (j + i * q). split; [| subst k; ring].
  split; [nia |].
  assert (lo + j * d + i * k <= hi) as Hle.
  { destruct Hsp as [Hk2 | ->]; [| lia]. apply mem_bounds in Hk2. lia. }
  rewrite Hhi in Hle. subst k. nia.
Qed.

Lemma down_all_lines st sp k x : mem st keys = true -> stop_down sp -> k < 0 -> (d | k) ->
  In x (range_list st sp k) -> mem x keys = true.
Proof.
  intros Hst Hsp Hk (q & Hq) Hx. apply (range_list_In_neg st sp k x Hk) in Hx. destruct Hx as (i & Hi & -> & Hlt).
  apply Hmem in Hst. destruct Hst as (j & Hj & ->). pose proof Hd as Hd'.
  assert (q < 0) as Hq0 by nia.
  apply Hmem. exists (j + i * q). split; [| subst k; ring].
  assert (lo <= lo + j * d + i * k) as Hle.
  { destruct Hsp as [Hk2 | ->]; [| lia]. apply mem_bounds in Hk2. lia. }
  subst k. split; [nia | nia].
Qed.

(* step absent: segyio walks the line numbers one by one and keeps the existing ones; the emulator walks in steps of d *)
Lemma up_unit_filter st sp : mem st keys = true -> stop_up sp ->
  filter (fun k => mem k keys) (range_list st sp 1) = range_list st sp d.
Proof.
  intros Hst Hsp. pose proof Hd as Hd'. apply sorted_ext.
  - apply filter_sorted. apply range_nat_sorted. lia.
  - apply range_nat_sorted. exact Hd'.
  - intros x. rewrite filter_In. rewrite (range_list_In_pos st sp 1 x ltac:(lia)). rewrite (range_list_In_pos st sp d x Hd').
    pose proof Hst as Hst'. apply Hmem in Hst'. destruct Hst' as (j & Hj & Est).
    split.
    + intros ((i & Hi & Ex & Hlt) & Hm). apply Hmem in Hm. destruct Hm as (j' & Hj' & Ex').
      exists (j' - j). split; [nia | split; [lia | exact Hlt]].
    + intros (i & Hi & Ex & Hlt). split.
      * exists (i * d). split; [nia | split; [lia | exact Hlt]].
      * apply (up_all_lines st sp d x Hst Hsp Hd' (Z.divide_refl d)).
        apply (range_list_In_pos st sp d x Hd'). exists i. tauto.
Qed.

Definition slice_step_nonzero (sl : pyslice) : Prop := match sl_step sl with Some k => k <> 0 | None => True end.

Theorem line_slice_agree_core sl :
  0 <= lo ->
  (match sl_start sl with None => True | Some v => mem v keys = true end) ->
  (match sl_stop sl with None => True | Some v => mem v keys = true end) ->
  (match sl_step sl with None => True | Some k => k <> 0 /\ (d | k) end) ->
  (match sl_step sl, sl_stop sl with Some k, None => k < 0 -> 1 <= lo | _, _ => True end) ->
  sla_getitem_slice keys sl = segyio_line_slice keys sl /\
  exists l, sla_getitem_slice keys sl = Return l /\ Forall (fun k => mem k keys = true) l.
Proof.
  intros Hlo Hst Hsp Hk Hq. pose proof Hd as Hd'. pose proof Hhi as Hhi'.
  assert (lo <= hi) as Hlh by nia.
  assert (0 <= hi) as Hhi0 by lia.
  rewrite (sla_closed_form keys a (a + s) sl) by (apply seq_get_axis_0 || apply seq_get_axis_1; lia).
  replace (a + s - a) with s by ring.
  unfold segyio_line_slice. rewrite sanitize_closed. rewrite Hmin, Hmax.
  unfold sla_start, sla_stop, sla_step, slice_indices. cbn [sl_start sl_stop sl_step]. rewrite Hmin, Hmax. fold d.
  destruct (sl_step sl) as [k|] eqn:Ek.
  - (* explicit step *)
    destruct Hk as [Hk0 Hdiv].
    replace (k =? 0) with false by (symmetry; apply Z.eqb_neq; exact Hk0).
    unfold py_range. replace (k =? 0) with false by (symmetry; apply Z.eqb_neq; exact Hk0).
    destruct (0 <? k) eqn:Epos.
    + apply Z.ltb_lt in Epos.
      set (st := match sl_start sl with None => lo | Some v => v end).
      set (sp := match sl_stop sl with None => hi + 1 | Some v => v end).
      assert (mem st keys = true) as Mst by (subst st; destruct (sl_start sl); [exact Hst | apply lo_mem]).
      assert (stop_up sp) as Msp by (subst sp; destruct (sl_stop sl); [left; exact Hsp | now right]).
      assert (adjust_bound (hi + 1) k st = st) as ->.
      { apply adjust_inside. apply mem_bounds in Mst. lia. }
      assert (adjust_bound (hi + 1) k sp = sp) as ->.
      { destruct Msp as [M | ->]; [apply adjust_inside; apply mem_bounds in M; lia | apply adjust_at_len; lia]. }
      cbn [bind]. unfold py_range. replace (k =? 0) with false by (symmetry; apply Z.eqb_neq; exact Hk0). cbn [bind].
      rewrite filter_all by (intros x Hx; exact (up_all_lines st sp k x Mst Msp Epos Hdiv Hx)).
      split; [reflexivity |]. eexists; split; [reflexivity |].
      apply Forall_forall. intros x Hx. exact (up_all_lines st sp k x Mst Msp Epos Hdiv Hx).
    + apply Z.ltb_ge in Epos. assert (k < 0) as Eneg by lia.
      set (st := match sl_start sl with None => hi | Some v => v end).
      set (sp := match sl_stop sl with None => lo - 1 | Some v => v end).
      assert (mem st keys = true) as Mst by (subst st; destruct (sl_start sl); [exact Hst | apply hi_mem]).
      assert (stop_down sp) as Msp by (subst sp; destruct (sl_stop sl); [left; exact Hsp | now right]).
      assert (adjust_bound (hi + 1) k st = st) as ->.
      { apply adjust_inside. apply mem_bounds in Mst. lia. }
      assert (adjust_bound (hi + 1) k sp = sp) as ->.
      { apply adjust_inside. subst sp. destruct (sl_stop sl) as [v|]; [apply mem_bounds in Hsp; lia |].
        specialize (Hq Eneg). lia. }
      cbn [bind]. unfold py_range. replace (k =? 0) with false by (symmetry; apply Z.eqb_neq; exact Hk0). cbn [bind].
      rewrite filter_all by (intros x Hx; exact (down_all_lines st sp k x Mst Msp Eneg Hdiv Hx)).
      split; [reflexivity |]. eexists; split; [reflexivity |].
      apply Forall_forall. intros x Hx. exact (down_all_lines st sp k x Mst Msp Eneg Hdiv Hx).
  - (* step absent *)
    replace (0 <? d) with true by (symmetry; apply Z.ltb_lt; exact Hd').
    cbn [Z.eqb]. cbv iota.
    set (st := match sl_start sl with None => lo | Some v => v end).
    set (sp := match sl_stop sl with None => hi + 1 | Some v => v end).
    assert (mem st keys = true) as Mst by (subst st; destruct (sl_start sl); [exact Hst | apply lo_mem]).
    assert (stop_up sp) as Msp by (subst sp; destruct (sl_stop sl); [left; exact Hsp | now right]).
    assert (adjust_bound (hi + 1) 1 st = st) as ->.
    { apply adjust_inside. apply mem_bounds in Mst. lia. }
    assert (adjust_bound (hi + 1) 1 sp = sp) as ->.
    { destruct Msp as [M | ->]; [apply adjust_inside; apply mem_bounds in M; lia | apply adjust_at_len; lia]. }
    unfold py_range. replace (d =? 0) with false by (symmetry; apply Z.eqb_neq; lia).
    cbn [bind Z.eqb]. rewrite (up_unit_filter st sp Mst Msp).
    split; [reflexivity |]. eexists; split; [reflexivity |].
    apply Forall_forall. intros x Hx. exact (up_all_lines st sp d x Mst Msp Hd' (Z.divide_refl d) Hx).
Qed.
End Line.

(* ------------------------------------------------------------------ boolean-guard versions (what Props/C13.v states) *)
Lemma axis_ok_facts a s n : axis_ok a s n = true -> s <> 0 /\ (2 <= n)%nat /\ 0 <= axis_lo a s n.
Proof.
  unfold axis_ok. rewrite !andb_true_iff, negb_true_iff, Z.eqb_neq, !Z.leb_le. intros [[Hs Hn] Hlo].
  split; [exact Hs | split; [lia |]]. rewrite <- (axis_lmin a s n) by (lia || exact Hs). exact Hlo.
Qed.

Lemma step_ok_divides s k : s <> 0 -> negb (k =? 0) && (k mod s =? 0) = true -> k <> 0 /\ (Z.abs s | k).
Proof.
  intros Hs. rewrite andb_true_iff, negb_true_iff, Z.eqb_neq, Z.eqb_eq. intros [Hk Hm]. split; [exact Hk |].
  apply Z.divide_abs_l. apply Z.mod_divide; assumption.
Qed.

Theorem line_slice_agree a s n sl :
  axis_ok a s n = true -> line_slice_ok a s n sl = true -> oracle_ok a s n sl = true ->
  sla_getitem_slice (axis a s n) sl = segyio_line_slice (axis a s n) sl.
Proof.
  intros Ha Hsl Ho. destruct (axis_ok_facts a s n Ha) as (Hs & Hn & Hlo).
  unfold line_slice_ok in Hsl. rewrite !andb_true_iff in Hsl. destruct Hsl as [[Hst Hsp] Hk].
  apply (line_slice_agree_core a s n Hs Hn sl Hlo).
  - unfold bound_ok in Hst. destruct (sl_start sl); [exact Hst | exact I].
  - unfold bound_ok in Hsp. destruct (sl_stop sl); [exact Hsp | exact I].
  - unfold step_ok in Hk. destruct (sl_step sl) as [k|]; [apply step_ok_divides; assumption | exact I].
  - unfold oracle_ok in Ho. destruct (sl_step sl) as [k|]; [| exact I]. destruct (sl_stop sl); [exact I |].
    intros Hneg. replace (k <? 0) with true in Ho by (symmetry; apply Z.ltb_lt; exact Hneg).
    apply Z.leb_le in Ho. rewrite (axis_lmin a s n) in Ho by (lia || exact Hs). exact Ho.
Qed.

(* inside the grammar the emulator only asks for existing lines: a slice is never rejected (segyio never rejects one) *)
Theorem line_slice_keys_exist a s n sl :
  axis_ok a s n = true -> line_slice_ok a s n sl = true -> oracle_ok a s n sl = true ->
  exists l, sla_getitem_slice (axis a s n) sl = Return l /\ Forall (fun k => mem k (axis a s n) = true) l.
Proof.
  intros Ha Hsl Ho. destruct (axis_ok_facts a s n Ha) as (Hs & Hn & Hlo).
  unfold line_slice_ok in Hsl. rewrite !andb_true_iff in Hsl. destruct Hsl as [[Hst Hsp] Hk].
  apply (line_slice_agree_core a s n Hs Hn sl Hlo).
  - unfold bound_ok in Hst. destruct (sl_start sl); [exact Hst | exact I].
  - unfold bound_ok in Hsp. destruct (sl_stop sl); [exact Hsp | exact I].
  - unfold step_ok in Hk. destruct (sl_step sl) as [k|]; [apply step_ok_divides; assumption | exact I].
  - unfold oracle_ok in Ho. destruct (sl_step sl) as [k|]; [| exact I]. destruct (sl_stop sl); [exact I |].
    intros Hneg. replace (k <? 0) with true in Ho by (symmetry; apply Z.ltb_lt; exact Hneg).
    apply Z.leb_le in Ho. rewrite (axis_lmin a s n) in Ho by (lia || exact Hs). exact Ho.
Qed.

(* iteration: Accessor.__iter__ = iter(self[:]) against Line.__iter__ = self[:] *)
Theorem line_iter_agree a s n : axis_ok a s n = true ->
  acc_iter (sla_getitem_slice (axis a s n)) = segyio_line_iter (axis a s n).
Proof. intros Ha. unfold acc_iter, segyio_line_iter. apply line_slice_agree; [exact Ha | reflexivity | reflexivity]. Qed.

(* iteration yields every line exactly once, in ascending line-number order, whatever the direction of the axis *)
Theorem line_iter_ascending a s n : axis_ok a s n = true ->
  acc_iter (sla_getitem_slice (axis a s n)) = Return (axis (axis_lo a s n) (Z.abs s) n).
Proof.
  intros Ha. destruct (axis_ok_facts a s n Ha) as (Hs & Hn & Hlo). unfold acc_iter.
  rewrite (sla_closed_form (axis a s n) a (a + s)) by (apply seq_get_axis_0 || apply seq_get_axis_1; lia).
  replace (a + s - a) with s by ring. unfold sla_start, sla_stop, sla_step. cbn [sl_start sl_stop sl_step].
  replace (0 <? Z.abs s) with true by (symmetry; apply Z.ltb_lt; lia).
  rewrite (axis_lmin a s n), (axis_lmax a s n) by (lia || exact Hs). rewrite axis_hi_lo.
  unfold py_range. replace (Z.abs s =? 0) with false by (symmetry; apply Z.eqb_neq; lia).
  f_equal. unfold range_list, axis. f_equal.
  unfold range_len. replace (0 <? Z.abs s) with true by (symmetry; apply Z.ltb_lt; lia).
  set (d := Z.abs s). set (lo := axis_lo a s n). assert (0 < d) as Hd by (unfold d; lia).
  replace (lo <? lo + (Z.of_nat n - 1) * d + 1) with true by (symmetry; apply Z.ltb_lt; nia).
  replace (lo + (Z.of_nat n - 1) * d + 1 - lo - 1) with ((Z.of_nat n - 1) * d) by ring.
  rewrite Z.div_mul by lia. replace (Z.of_nat n - 1 + 1) with (Z.of_nat n) by ring. apply Nat2Z.id.
Qed.

(* a single line number: segyio's KeyError for an absent line, the emulator's IndexError from coord_to_index *)
Lemma index_of_spec k l i : (exists j, index_of k l i = Return j) <-> In k l.
Proof.
  revert i; induction l as [|x l IH]; intros i; cbn [index_of In].
  - split; [intros (j & E); discriminate | tauto].
  - destruct (x =? k) eqn:E.
    + apply Z.eqb_eq in E. split; [intros _; now left | intros _; eexists; reflexivity].
    + apply Z.eqb_neq in E. rewrite IH. split; [intros H; now right | intros [H | H]; [contradiction | exact H]].
Qed.

Theorem line_int_agree keys k :
  rejected (segyio_line_int keys k) = rejected (bind (sla_getitem_int keys k) (fun k' => coord_to_index k' keys)).
Proof.
  unfold segyio_line_int, sla_getitem_int, coord_to_index. cbn [bind].
  destruct (mem k keys) eqn:E.
  - apply mem_In in E. apply (index_of_spec k keys 0) in E. destruct E as (j & ->). reflexivity.
  - destruct (index_of k keys 0) as [j|e] eqn:E2; [| reflexivity].
    exfalso. assert (In k keys) as Hin by (apply (index_of_spec k keys 0); eexists; exact E2).
    apply mem_In in Hin. congruence.
Qed.

Theorem line_len_agree keys : acc_len (zlen keys) = segyio_line_len keys.
Proof. reflexivity. Qed.

(* ------------------------------------------------------------------ ordinal accessors: trace, header, depth_slice *)
Theorem ordinal_slice_agree n sl : acc_getitem_slice n sl = segyio_seq_slice n sl.
Proof. reflexivity. Qed.

Lemma adjust_bound_range len step v : 0 <= len ->
  (0 < step -> 0 <= adjust_bound len step v <= len) /\ (step < 0 -> -1 <= adjust_bound len step v <= len - 1).
Proof.
  intros Hl. unfold adjust_bound. split; intros Hs.
  - replace (step <? 0) with false by (symmetry; apply Z.ltb_ge; lia).
    destruct (v <? 0) eqn:E1; [destruct (v + len <? 0) eqn:E2 | destruct (len <=? v) eqn:E3];
      try apply Z.ltb_lt in E1; try apply Z.ltb_ge in E1; try apply Z.ltb_lt in E2; try apply Z.ltb_ge in E2;
      try apply Z.leb_le in E3; try apply Z.leb_gt in E3; lia.
  - replace (step <? 0) with true by (symmetry; apply Z.ltb_lt; lia).
    destruct (v <? 0) eqn:E1; [destruct (v + len <? 0) eqn:E2 | destruct (len <=? v) eqn:E3];
      try apply Z.ltb_lt in E1; try apply Z.ltb_ge in E1; try apply Z.ltb_lt in E2; try apply Z.ltb_ge in E2;
      try apply Z.leb_le in E3; try apply Z.leb_gt in E3; lia.
Qed.

(* a slice with a non-zero step is never rejected and only ever asks for existing ordinals *)
Theorem ordinal_slice_in_range n sl : 0 <= n -> sl_step sl <> Some 0 ->
  exists l, acc_getitem_slice n sl = Return l /\ Forall (fun j => 0 <= j < n) l.
Proof.
  intros Hn Hz. unfold acc_getitem_slice, slice_indices.
  set (k := match sl_step sl with None => 1 | Some k => k end).
  assert (k <> 0) as Hk by (subst k; destruct (sl_step sl) as [k|]; [congruence | lia]).
  replace (k =? 0) with false by (symmetry; apply Z.eqb_neq; exact Hk). cbn [bind]. unfold py_range.
  replace (k =? 0) with false by (symmetry; apply Z.eqb_neq; exact Hk).
  eexists; split; [reflexivity |]. apply Forall_forall. intros x Hx.
  destruct (Z_lt_le_dec 0 k) as [Hpos | Hneg].
  - replace (k <? 0) with false in Hx by (symmetry; apply Z.ltb_ge; lia).
    apply (range_list_In_pos _ _ k x Hpos) in Hx. destruct Hx as (i & Hi & Ex & Hlt).
    assert (0 <= match sl_start sl with None => 0 | Some v => adjust_bound n k v end) as H1.
    { destruct (sl_start sl) as [v|]; [apply (adjust_bound_range n k v Hn); exact Hpos | lia]. }
    assert (match sl_stop sl with None => n | Some v => adjust_bound n k v end <= n) as H2.
    { destruct (sl_stop sl) as [v|]; [apply (adjust_bound_range n k v Hn); exact Hpos | lia]. }
    nia.
  - assert (k < 0) as Hneg' by lia. replace (k <? 0) with true in Hx by (symmetry; apply Z.ltb_lt; lia).
    apply (range_list_In_neg _ _ k x Hneg') in Hx. destruct Hx as (i & Hi & Ex & Hlt).
    assert (match sl_start sl with None => n - 1 | Some v => adjust_bound n k v end <= n - 1) as H1.
    { destruct (sl_start sl) as [v|]; [apply (adjust_bound_range n k v Hn); exact Hneg' | lia]. }
    assert (-1 <= match sl_stop sl with None => -1 | Some v => adjust_bound n k v end) as H2.
    { destruct (sl_stop sl) as [v|]; [apply (adjust_bound_range n k v Hn); exact Hneg' | lia]. }
    nia.
Qed.

(* a step of 0 is rejected by both (ValueError) *)
Theorem ordinal_slice_zero_step n sl : sl_step sl = Some 0 ->
  rejected (acc_getitem_slice n sl) = true /\ rejected (segyio_seq_slice n sl) = true.
Proof. intros E. unfold acc_getitem_slice, segyio_seq_slice, slice_indices. rewrite E. split; reflexivity. Qed.

(* integer subscripts (negative ordinals count from the end): the key the emulator hands to the reader is in range
   exactly when segyio's wrapindex accepts, and then it is the same ordinal *)
Theorem ordinal_int_agree n i :
  match segyio_wrapindex n i with
  | Return j => acc_getitem_int n i = Return j /\ 0 <= j < n
  | Raise _ => exists j, acc_getitem_int n i = Return j /\ ~ (0 <= j < n)
  end.
Proof.
  unfold segyio_wrapindex, acc_getitem_int. destruct (i <? 0) eqn:E.
  - destruct ((0 <=? i + n) && (i + n <? n)) eqn:E2.
    + apply andb_true_iff in E2. destruct E2 as [A B]. apply Z.leb_le in A. apply Z.ltb_lt in B.
      split; [f_equal; ring | lia].
    + exists (n + i). split; [reflexivity |]. intros [A B]. apply andb_false_iff in E2.
      destruct E2 as [E2 | E2]; [apply Z.leb_gt in E2 | apply Z.ltb_ge in E2]; lia.
  - destruct ((0 <=? i) && (i <? n)) eqn:E2.
    + apply andb_true_iff in E2. destruct E2 as [A B]. apply Z.leb_le in A. apply Z.ltb_lt in B. split; [reflexivity | lia].
    + exists i. split; [reflexivity |]. intros [A B]. apply andb_false_iff in E2.
      destruct E2 as [E2 | E2]; [apply Z.leb_gt in E2 | apply Z.ltb_ge in E2]; lia.
Qed.

Theorem ordinal_len_agree n : acc_len n = n.
Proof. reflexivity. Qed.

(* ------------------------------------------------------------------ the oracle model on attributes(f)[i] (D25) *)
Lemma range_list_unit i : range_list i (i + 1) 1 = [i].
Proof.
  unfold range_list, range_len. cbn [Z.ltb Z.compare]. replace (i <? i + 1) with true by (symmetry; apply Z.ltb_lt; lia).
  replace (i + 1 - i - 1) with 0 by ring. reflexivity.
Qed.

(* segyio: an in-range non-negative integer selects a ONE-ELEMENT ARRAY (the emulator returns a numpy scalar) *)
Theorem attr_int_segyio_inrange n i : 0 <= i < n -> segyio_attr_int n i = Return [i].
Proof.
  intros Hi. unfold segyio_attr_int, segyio_seq_slice, slice_indices. cbn [sl_start sl_stop sl_step Z.eqb].
  rewrite (adjust_inside n 1 i) by lia.
  assert (adjust_bound n 1 (i + 1) = i + 1) as ->.
  { destruct (Z.eq_dec (i + 1) n) as [<- | NE]; [apply adjust_at_len; lia | apply adjust_inside; lia]. }
  cbn [bind]. unfold py_range. cbn [Z.eqb]. now rewrite range_list_unit.
Qed.

(* ------------------------------------------------------------------ subvolume[a:b:c, ...]: one axis *)
Lemma range_nat_nth lo k n i : (i < n)%nat -> nth i (range_nat lo k n) 0 = lo + Z.of_nat i * k.
Proof.
  revert lo i; induction n as [|n IH]; intros lo i Hi; [lia |]. destruct i as [|i]; cbn [range_nat nth].
  - lia.
  - rewrite IH by lia. lia.
Qed.

Lemma seq_get_axis_last a s n : (0 < n)%nat -> seq_get (axis a s n) (-1) = Return (a + (Z.of_nat n - 1) * s).
Proof.
  intros Hn. unfold seq_get, zlen, axis. rewrite range_nat_length.
  replace (-1 <? 0) with true by reflexivity. cbv beta iota zeta.
  replace ((0 <=? -1 + Z.of_nat n) && (-1 + Z.of_nat n <? Z.of_nat n)) with true
    by (symmetry; apply andb_true_iff; split; [apply Z.leb_le | apply Z.ltb_lt]; lia).
  rewrite range_nat_nth by lia. rewrite Z2Nat.id by lia. f_equal. ring.
Qed.

Lemma index_of_raise k l i e : index_of k l i = Raise e -> e = IndexErr.
Proof.
  revert i; induction l as [|x l IH]; intros i; cbn [index_of]; [congruence |].
  destruct (x =? k); [discriminate | apply IH].
Qed.

Lemma coord_to_index_absent k l : ~ In k l -> coord_to_index k l = Raise IndexErr.
Proof.
  intros Hk. unfold coord_to_index. destruct (index_of k l 0) as [j|e] eqn:E.
  - exfalso. apply Hk. apply (index_of_spec k l 0). eexists; exact E.
  - f_equal. exact (index_of_raise k l 0 e E).
Qed.

Lemma index_of_range_nat lo s n i j : s <> 0 -> 0 <= i < Z.of_nat n ->
  index_of (lo + i * s) (range_nat lo s n) j = Return (j + i).
Proof.
  intros Hs. revert lo i j; induction n as [|n IH]; intros lo i j Hi; [lia |]. cbn [range_nat index_of].
  destruct (lo =? lo + i * s) eqn:E.
  - apply Z.eqb_eq in E. assert (i = 0) by nia. subst i. f_equal. lia.
  - apply Z.eqb_neq in E. assert (i <> 0) by (intros ->; lia).
    replace (lo + i * s) with (lo + s + (i - 1) * s) by ring. rewrite IH by lia. f_equal. lia.
Qed.

Lemma coord_to_index_axis a s n i : s <> 0 -> 0 <= i < Z.of_nat n -> coord_to_index (a + i * s) (axis a s n) = Return i.
Proof. intros Hs Hi. unfold coord_to_index, axis. rewrite index_of_range_nat by assumption. f_equal. Qed.

Lemma map_range_nat a s i0 k n :
  map (fun i => a + i * s) (range_nat i0 k n) = range_nat (a + i0 * s) (k * s) n.
Proof.
  revert i0; induction n as [|n IH]; intros i0; cbn [range_nat map]; [reflexivity |].
  f_equal. rewrite IH. f_equal. ring.
Qed.

Lemma range_len_scale_pos i0 i1 k s : 0 < s -> 0 < k -> range_len (i0 * s) (i1 * s) (k * s) = range_len i0 i1 k.
Proof.
  intros Hs Hk. unfold range_len.
  replace (0 <? k * s) with true by (symmetry; apply Z.ltb_lt; nia).
  replace (0 <? k) with true by (symmetry; apply Z.ltb_lt; lia).
  destruct (i0 <? i1) eqn:E.
  - apply Z.ltb_lt in E. replace (i0 * s <? i1 * s) with true by (symmetry; apply Z.ltb_lt; nia).
    f_equal. symmetry.
    pose proof (Z.div_mod (i1 - i0 - 1) k ltac:(lia)) as DM.
    pose proof (Z.mod_pos_bound (i1 - i0 - 1) k Hk) as MB.
    set (q := (i1 - i0 - 1) / k) in *. set (r := (i1 - i0 - 1) mod k) in *.
    apply (Z.div_unique (i1 * s - i0 * s - 1) (k * s) q ((r + 1) * s - 1)); [left; nia | nia].
  - apply Z.ltb_ge in E. replace (i0 * s <? i1 * s) with false by (symmetry; apply Z.ltb_ge; nia). reflexivity.
Qed.

(* range(-x, -y, -k) has as many elements as range(x, y, k) *)
Lemma range_len_opp x y k : range_len (- x) (- y) (- k) = range_len x y k.
Proof.
  unfold range_len. destruct (Z.ltb_spec 0 k) as [P | P].
  - replace (0 <? - k) with false by (symmetry; apply Z.ltb_ge; lia).
    replace (- k <? 0) with true by (symmetry; apply Z.ltb_lt; lia).
    replace (- y <? - x) with (x <? y)
      by (destruct (Z.ltb_spec x y); symmetry; [apply Z.ltb_lt | apply Z.ltb_ge]; lia).
    replace (- x - - y - 1) with (y - x - 1) by ring. rewrite Z.opp_involutive. reflexivity.
  - destruct (Z.ltb_spec k 0) as [N | N].
    + replace (0 <? - k) with true by (symmetry; apply Z.ltb_lt; lia).
      replace (- x <? - y) with (y <? x)
        by (destruct (Z.ltb_spec y x); symmetry; [apply Z.ltb_lt | apply Z.ltb_ge]; lia).
      replace (- y - - x - 1) with (x - y - 1) by ring. reflexivity.
    + assert (k = 0) as -> by lia. reflexivity.
Qed.

(* the increment s may have either sign; the ordinal stride k is positive *)
Lemma range_len_scale i0 i1 k s : s <> 0 -> 0 < k -> range_len (i0 * s) (i1 * s) (k * s) = range_len i0 i1 k.
Proof.
  intros Hs Hk. destruct (Z_lt_le_dec 0 s) as [P | N]; [apply range_len_scale_pos; assumption |].
  rewrite <- range_len_opp.
  replace (- (i0 * s)) with (i0 * (- s)) by ring. replace (- (i1 * s)) with (i1 * (- s)) by ring.
  replace (- (k * s)) with (k * (- s)) by ring. apply range_len_scale_pos; lia.
Qed.

Lemma range_len_shift a x y k : range_len (a + x) (a + y) k = range_len x y k.
Proof.
  unfold range_len.
  replace (a + x <? a + y) with (x <? y)
    by (destruct (Z.ltb_spec x y); symmetry; [apply Z.ltb_lt | apply Z.ltb_ge]; lia).
  replace (a + y <? a + x) with (y <? x)
    by (destruct (Z.ltb_spec y x); symmetry; [apply Z.ltb_lt | apply Z.ltb_ge]; lia).
  replace (a + y - (a + x) - 1) with (y - x - 1) by ring.
  replace (a + x - (a + y) - 1) with (x - y - 1) by ring. reflexivity.
Qed.

(* the coordinates at the ordinals range(i0, i1, k) are range(a + i0*s, a + i1*s, k*s): ascending AND descending axes *)
Lemma range_list_affine a s i0 i1 k : s <> 0 -> 0 < k ->
  map (fun i => a + i * s) (range_list i0 i1 k) = range_list (a + i0 * s) (a + i1 * s) (k * s).
Proof.
  intros Hs Hk. unfold range_list. rewrite map_range_nat. f_equal. f_equal.
  rewrite range_len_shift. symmetry. apply range_len_scale; assumption.
Qed.

Lemma bind_if_return {A B} (b : bool) (x y : A) (f : A -> outcome B) :
  bind (if b then Return x else Return y) f = f (if b then x else y).
Proof. destruct b; reflexivity. Qed.

Lemma bind_rejected {A B} (m : outcome A) (f : A -> outcome B) :
  rejected m = true \/ (forall x, rejected (f x) = true) -> rejected (bind m f) = true.
Proof. destruct m as [x | e]; cbn [bind rejected]; intros [H | H]; auto; discriminate. Qed.

(* the direction of an axis as _check_subscripts computes it from the increment *)
Definition sub_sign (s : Z) : Z := if s <? 0 then - 1 else 1.

Section Subvolume.
Variables (a s : Z) (n : nat).
Hypothesis Hs : s <> 0.
Hypothesis Hn : (2 <= n)%nat.
Let coords := axis a s n.
Let past := a + Z.of_nat n * s.
Let sg := sub_sign s.

(* closed forms of the GENERATED _check_subscripts / _get_index_subscripts on a regular axis *)
Lemma sub_check_axis sl :
  sub_check_subscripts sl coords =
  bind (match sl_start sl with Some v => if (sg * a <=? sg * v) && (sg * v <? sg * past) then Return tt else Raise IndexErr | None => Return tt end) (fun _ =>
  bind (match sl_stop sl with Some v => if (sg * a <? sg * v) && (sg * v <=? sg * past) then Return tt else Raise IndexErr | None => Return tt end) (fun _ =>
  match sl_step sl with Some k => if k mod s =? 0 then Return tt else Raise IndexErr | None => Return tt end)).
Proof.
  unfold sub_check_subscripts, coords. rewrite seq_get_axis_0, seq_get_axis_1, seq_get_axis_last by lia.
  cbn [bind]. replace (a + s - a) with s by ring. rewrite bind_if_return. fold (sub_sign s). cbn [bind]. fold sg.
  unfold py_mod. replace (s =? 0) with false by (symmetry; apply Z.eqb_neq; exact Hs). cbn [bind].
  replace (a + (Z.of_nat n - 1) * s + s) with past by (unfold past; ring).
  destruct (sl_start sl) as [v|]; [destruct ((sg * a <=? sg * v) && (sg * v <? sg * past)) |]; cbn [bind]; try reflexivity;
    (destruct (sl_stop sl) as [w|]; [destruct ((sg * a <? sg * w) && (sg * w <=? sg * past)) |]; cbn [bind]; try reflexivity;
     (destruct (sl_step sl) as [k|]; [destruct (k mod s =? 0) |]; reflexivity)).
Qed.

(* the sign-generic range tests in plain terms *)
Lemma start_test_spec v : (sg * a <=? sg * v) && (sg * v <? sg * past) = true <-> sub_start_inside a s n v.
Proof.
  unfold sub_start_inside. fold past. rewrite andb_true_iff, Z.leb_le, Z.ltb_lt. unfold sg, sub_sign.
  destruct (Z.ltb_spec s 0) as [N | P]; lia.
Qed.

Lemma stop_test_spec w : (sg * a <? sg * w) && (sg * w <=? sg * past) = true <-> sub_stop_inside a s n w.
Proof.
  unfold sub_stop_inside. fold past. rewrite andb_true_iff, Z.leb_le, Z.ltb_lt. unfold sg, sub_sign.
  destruct (Z.ltb_spec s 0) as [N | P]; lia.
Qed.

Lemma sub_index_axis sl :
  sub_get_index_subscripts sl coords =
  bind (match sl_start sl with Some v => coord_to_index v coords | None => Return 0 end) (fun i0 =>
  bind (match sl_stop sl with Some v => if v =? past then Return (Z.of_nat n) else coord_to_index v coords | None => Return (Z.of_nat n) end) (fun i1 =>
  Return (i0, match sl_step sl with Some k => k / s | None => 1 end, i1))).
Proof.
  unfold sub_get_index_subscripts, coords. rewrite seq_get_axis_0, seq_get_axis_1, seq_get_axis_last by lia.
  cbn [bind]. unfold py_floordiv. replace (a + s - a) with s by ring.
  replace (s =? 0) with false by (symmetry; apply Z.eqb_neq; exact Hs). cbn [bind].
  replace (a + (Z.of_nat n - 1) * s + (a + s) - a) with past by (unfold past; ring).
  unfold zlen, axis. rewrite range_nat_length.
  destruct (sl_start sl) as [v|]; [destruct (coord_to_index v (range_nat a s n)) |]; cbn [bind]; try reflexivity;
    (destruct (sl_stop sl) as [w|]; [destruct (w =? past); [| destruct (coord_to_index w (range_nat a s n))] |]; cbn [bind]; try reflexivity;
     (destruct (sl_step sl) as [k|]; reflexivity)).
Qed.

(* an axis of EITHER direction: a slice of the documented form passes the checks, and the ordinals handed to read_subvolume
   with the stride applied to its result select exactly the coordinates range(start, stop, step), in axis order *)
Theorem subvolume_axis_agree sl : sub_slice_ok a s n sl = true ->
  sub_check_subscripts sl coords = Return tt /\
  exists i0 k i1, sub_get_index_subscripts sl coords = Return (i0, k, i1) /\ 0 <= i0 /\ i1 <= Z.of_nat n /\ 0 < k /\
    map (fun i => a + i * s) (range_list i0 i1 k) = sub_coords a s n sl.
Proof.
  intros Hok. unfold sub_slice_ok in Hok. rewrite !andb_true_iff in Hok. destruct Hok as [[Hst Hsp] Hk].
  (* start *)
  assert (exists i0, 0 <= i0 < Z.of_nat n /\ match sl_start sl with Some v => v | None => a end = a + i0 * s /\
          match sl_start sl with Some v => coord_to_index v coords | None => Return 0 end = Return i0) as (i0 & Hi0 & Est & Ei0).
  { destruct (sl_start sl) as [v|].
    - apply mem_In in Hst. apply axis_In in Hst. destruct Hst as (i & Hi & ->). exists i. split; [exact Hi | split; [reflexivity |]].
      apply coord_to_index_axis; assumption.
    - exists 0. split; [lia | split; [ring | reflexivity]]. }
  (* stop *)
  assert (exists i1, 0 < i1 <= Z.of_nat n /\ match sl_stop sl with Some v => v | None => past end = a + i1 * s /\
          match sl_stop sl with Some v => if v =? past then Return (Z.of_nat n) else coord_to_index v coords | None => Return (Z.of_nat n) end = Return i1)
    as (i1 & Hi1 & Esp & Ei1).
  { destruct (sl_stop sl) as [v|].
    - destruct (v =? past) eqn:E.
      + apply Z.eqb_eq in E. exists (Z.of_nat n). split; [lia | split; [subst v; reflexivity | reflexivity]].
      + apply orb_true_iff in Hsp. destruct Hsp as [Hsp | Hsp]; [| apply Z.eqb_eq in Hsp; apply Z.eqb_neq in E; contradiction].
        apply andb_true_iff in Hsp. destruct Hsp as [Hm Hna]. apply negb_true_iff, Z.eqb_neq in Hna.
        apply mem_In in Hm. apply axis_In in Hm. destruct Hm as (i & Hi & ->).
        exists i. split; [assert (i <> 0) by (intros ->; apply Hna; ring); lia | split; [reflexivity |]].
        apply coord_to_index_axis; assumption.
    - exists (Z.of_nat n). split; [lia | split; [reflexivity | reflexivity]]. }
  (* step *)
  assert (exists k, 0 < k /\ match sl_step sl with Some c => c | None => s end = k * s /\
          match sl_step sl with Some c => c / s | None => 1 end = k) as (k & Hk0 & Ek & Ekk).
  { destruct (sl_step sl) as [c|].
    - apply andb_true_iff in Hk. destruct Hk as [Hm Hq]. apply Z.eqb_eq in Hm. apply Z.ltb_lt in Hq.
      exists (c / s). split; [exact Hq | split; [| reflexivity]].
      pose proof (Z.div_mod c s Hs) as DM. rewrite Hm in DM. lia.
    - exists 1. split; [lia | split; [ring | reflexivity]]. }
  split.
  - rewrite sub_check_axis.
    assert (match sl_start sl with Some v => if (sg * a <=? sg * v) && (sg * v <? sg * past) then Return tt else Raise IndexErr | None => Return tt end = Return tt) as ->.
    { destruct (sl_start sl) as [v|]; [| reflexivity]. cbn in Est. subst v.
      replace ((sg * a <=? sg * (a + i0 * s)) && (sg * (a + i0 * s) <? sg * past)) with true; [reflexivity |].
      symmetry. apply start_test_spec. unfold sub_start_inside. fold past. unfold past.
      destruct (Z_lt_le_dec 0 s); [left | right]; nia. }
    assert (match sl_stop sl with Some v => if (sg * a <? sg * v) && (sg * v <=? sg * past) then Return tt else Raise IndexErr | None => Return tt end = Return tt) as ->.
    { destruct (sl_stop sl) as [v|]; [| reflexivity]. cbn in Esp. subst v.
      replace ((sg * a <? sg * (a + i1 * s)) && (sg * (a + i1 * s) <=? sg * past)) with true; [reflexivity |].
      symmetry. apply stop_test_spec. unfold sub_stop_inside. fold past. unfold past.
      destruct (Z_lt_le_dec 0 s); [left | right]; nia. }
    cbn [bind]. destruct (sl_step sl) as [c|]; [| reflexivity].
    apply andb_true_iff in Hk. destruct Hk as [Hm _]. rewrite Hm. reflexivity.
  - exists i0, k, i1. rewrite sub_index_axis, Ei0, Ei1, Ekk. cbn [bind].
    split; [reflexivity | split; [lia | split; [lia | split; [exact Hk0 |]]]].
    rewrite (range_list_affine a s i0 i1 k Hs Hk0). unfold sub_coords. fold past. rewrite Est, Esp, Ek. reflexivity.
Qed.

(* _check_subscripts raises nothing but IndexError on a regular axis *)
Lemma sub_check_axis_outcome sl : sub_check_subscripts sl coords = Return tt \/ sub_check_subscripts sl coords = Raise IndexErr.
Proof.
  rewrite sub_check_axis.
  destruct (sl_start sl) as [v|]; [destruct ((sg * a <=? sg * v) && (sg * v <? sg * past)) |]; cbn [bind]; auto;
    (destruct (sl_stop sl) as [w|]; [destruct ((sg * a <? sg * w) && (sg * w <=? sg * past)) |]; cbn [bind]; auto;
     (destruct (sl_step sl) as [k|]; [destruct (k mod s =? 0) |]; auto)).
Qed.

(* a start outside [first, one-past-last) along the axis direction is rejected: ascending and descending axes *)
Theorem subvolume_start_outside_rejected sl v : sl_start sl = Some v -> ~ sub_start_inside a s n v ->
  sub_check_subscripts sl coords = Raise IndexErr.
Proof.
  intros E Hv. rewrite sub_check_axis, E.
  replace ((sg * a <=? sg * v) && (sg * v <? sg * past)) with false; [reflexivity |].
  symmetry. apply not_true_is_false. intros T. apply Hv. apply start_test_spec. exact T.
Qed.

(* a stop outside (first, one-past-last] along the axis direction is rejected *)
Theorem subvolume_stop_outside_rejected sl w : sl_stop sl = Some w -> ~ sub_stop_inside a s n w ->
  sub_check_subscripts sl coords = Raise IndexErr.
Proof.
  intros E Hw. rewrite sub_check_axis, E.
  replace ((sg * a <? sg * w) && (sg * w <=? sg * past)) with false.
  - destruct (sl_start sl) as [v|]; [destruct ((sg * a <=? sg * v) && (sg * v <? sg * past)) |]; reflexivity.
  - symmetry. apply not_true_is_false. intros T. apply Hw. apply stop_test_spec. exact T.
Qed.

(* a step that is no multiple of the increment is rejected *)
Theorem subvolume_step_not_multiple_rejected sl c : sl_step sl = Some c -> c mod s <> 0 ->
  sub_check_subscripts sl coords = Raise IndexErr.
Proof.
  intros E Hc. rewrite sub_check_axis, E. replace (c mod s =? 0) with false by (symmetry; apply Z.eqb_neq; exact Hc).
  destruct (sl_start sl) as [v|]; [destruct ((sg * a <=? sg * v) && (sg * v <? sg * past)) |]; cbn [bind]; try reflexivity;
    (destruct (sl_stop sl) as [w|]; [destruct ((sg * a <? sg * w) && (sg * w <=? sg * past)) |]; reflexivity).
Qed.

(* a start inside the extent that is no coordinate of the axis is rejected by coord_to_index *)
Theorem subvolume_start_off_axis_rejected sl v : sl_start sl = Some v -> ~ In v coords ->
  sub_get_index_subscripts sl coords = Raise IndexErr.
Proof. intros E Hv. rewrite sub_index_axis, E. rewrite coord_to_index_absent by exact Hv. reflexivity. Qed.

(* ... and so is a stop that is neither a coordinate nor the one-past-the-end sentinel *)
Theorem subvolume_stop_off_axis_rejected sl w : sl_stop sl = Some w -> ~ In w coords -> w <> past ->
  sub_get_index_subscripts sl coords = Raise IndexErr.
Proof.
  intros E Hw Hp. rewrite sub_index_axis, E. replace (w =? past) with false by (symmetry; apply Z.eqb_neq; exact Hp).
  rewrite (coord_to_index_absent w coords Hw).
  destruct (sl_start sl) as [v|]; [| reflexivity].
  destruct (coord_to_index v coords) as [i | e] eqn:Ev; [reflexivity |].
  cbn [bind]. f_equal. exact (index_of_raise v coords 0 e Ev).
Qed.

(* _get_index_subscripts raises nothing but IndexError on a regular axis *)
Lemma sub_index_axis_raise sl e : sub_get_index_subscripts sl coords = Raise e -> e = IndexErr.
Proof.
  rewrite sub_index_axis.
  destruct (sl_start sl) as [v|].
  - destruct (coord_to_index v coords) as [i | e1] eqn:Ev; cbn [bind].
    + destruct (sl_stop sl) as [w|]; [| discriminate].
      destruct (w =? past); [discriminate |].
      destruct (coord_to_index w coords) as [j | e2] eqn:Ew; cbn [bind]; [discriminate |].
      intros [= <-]. exact (index_of_raise w coords 0 e2 Ew).
    + intros [= <-]. exact (index_of_raise v coords 0 e1 Ev).
  - cbn [bind]. destruct (sl_stop sl) as [w|]; [| discriminate].
    destruct (w =? past); [discriminate |].
    destruct (coord_to_index w coords) as [j | e2] eqn:Ew; cbn [bind]; [discriminate |].
    intros [= <-]. exact (index_of_raise w coords 0 e2 Ew).
Qed.

Lemma sub_index_bad sl : sub_start_bad a s n sl \/ sub_stop_bad a s n sl ->
  sub_get_index_subscripts sl coords = Raise IndexErr.
Proof.
  intros [(v & E & Hv) | (w & E & Hw & Hp)].
  - exact (subvolume_start_off_axis_rejected sl v E Hv).
  - exact (subvolume_stop_off_axis_rejected sl w E Hw Hp).
Qed.
End Subvolume.

(* ------------------------------------------------------------------ subvolume[a:b:c, d:e:f, g:h:i]: the three axes *)
Section Subvolume3.
Variables (a1 s1 a2 s2 a3 s3 : Z) (n1 n2 n3 : nat).
Hypothesis Hs1 : s1 <> 0.
Hypothesis Hs2 : s2 <> 0.
Hypothesis Hs3 : s3 <> 0.
Hypothesis Hn1 : (2 <= n1)%nat.
Hypothesis Hn2 : (2 <= n2)%nat.
Hypothesis Hn3 : (2 <= n3)%nat.

(* what one axis of the result must be: ordinals first..end (exclusive) inside the axis, a positive stride, and the
   coordinates at range(first, end, stride) are exactly Python's range(start, stop, step) over coordinates *)
Definition sub_axis_reads (a s : Z) (n : nat) (sl : pyslice) (t : Z * Z * Z) : Prop :=
  let '(i0, i1, k) := t in
  0 <= i0 /\ i1 <= Z.of_nat n /\ 0 < k /\ map (fun i => a + i * s) (range_list i0 i1 k) = sub_coords a s n sl.

Theorem subvolume_getitem_agree il xl z :
  sub_slice_ok a1 s1 n1 il = true -> sub_slice_ok a2 s2 n2 xl = true -> sub_slice_ok a3 s3 n3 z = true ->
  exists ti tx tz, sub_getitem (axis a1 s1 n1) (axis a2 s2 n2) (axis a3 s3 n3) il xl z = Return (ti, tx, tz) /\
    sub_axis_reads a1 s1 n1 il ti /\ sub_axis_reads a2 s2 n2 xl tx /\ sub_axis_reads a3 s3 n3 z tz.
Proof.
  intros O1 O2 O3.
  destruct (subvolume_axis_agree a1 s1 n1 Hs1 Hn1 il O1) as (C1 & i0 & ki & i1 & G1 & A1).
  destruct (subvolume_axis_agree a2 s2 n2 Hs2 Hn2 xl O2) as (C2 & x0 & kx & x1 & G2 & A2).
  destruct (subvolume_axis_agree a3 s3 n3 Hs3 Hn3 z O3) as (C3 & z0 & kz & z1 & G3 & A3).
  exists (i0, i1, ki), (x0, x1, kx), (z0, z1, kz).
  unfold sub_getitem. rewrite C1, C2, C3, G1, G2, G3. cbn [bind].
  split; [reflexivity |]. unfold sub_axis_reads. tauto.
Qed.

(* a start that is no coordinate of its axis, or a stop that is neither a coordinate nor the one-past-the-end value, on ANY
   of the three axes: the whole expression is rejected (by _check_subscripts or by coord_to_index) *)
Theorem subvolume_getitem_rejects il xl z :
  (sub_start_bad a1 s1 n1 il \/ sub_stop_bad a1 s1 n1 il) \/ (sub_start_bad a2 s2 n2 xl \/ sub_stop_bad a2 s2 n2 xl) \/
  (sub_start_bad a3 s3 n3 z \/ sub_stop_bad a3 s3 n3 z) ->
  sub_getitem (axis a1 s1 n1) (axis a2 s2 n2) (axis a3 s3 n3) il xl z = Raise IndexErr.
Proof.
  intros B. unfold sub_getitem.
  destruct (sub_check_axis_outcome a1 s1 n1 Hs1 Hn1 il) as [-> | ->]; [| reflexivity]. cbn [bind].
  destruct (sub_check_axis_outcome a2 s2 n2 Hs2 Hn2 xl) as [-> | ->]; [| reflexivity]. cbn [bind].
  destruct (sub_check_axis_outcome a3 s3 n3 Hs3 Hn3 z) as [-> | ->]; [| reflexivity]. cbn [bind].
  destruct B as [B | B].
  { rewrite (sub_index_bad a1 s1 n1 Hs1 Hn1 il B). reflexivity. }
  destruct (sub_get_index_subscripts il (axis a1 s1 n1)) as [[[? ?] ?] | e] eqn:E1.
  2:{ cbn [bind]. f_equal. exact (sub_index_axis_raise a1 s1 n1 Hs1 Hn1 il e E1). }
  cbn [bind]. destruct B as [B | B].
  { rewrite (sub_index_bad a2 s2 n2 Hs2 Hn2 xl B). reflexivity. }
  destruct (sub_get_index_subscripts xl (axis a2 s2 n2)) as [[[? ?] ?] | e] eqn:E2.
  2:{ cbn [bind]. f_equal. exact (sub_index_axis_raise a2 s2 n2 Hs2 Hn2 xl e E2). }
  cbn [bind]. rewrite (sub_index_bad a3 s3 n3 Hs3 Hn3 z B). reflexivity.
Qed.
End Subvolume3.
