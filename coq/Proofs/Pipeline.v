(* C16 writer pipeline: proofs.  For ALL n >= 1, ALL capacities >= 1, ALL schedules.
   The thread programs are the generated lists of Gen/Pipeline.v, run by the interpreter of Model/Pipeline.v.
   Structure: a counter abstraction `cst` (program counters as positions in the generated lists + four counters),
   a concretisation `conc : cst -> st` that rebuilds the whole list-based state (queue contents as item lists, registers,
   the file as an event list), and the simulation lemmas `sim_TM/TC/TW`:
       step t (conc c) = option_map conc (cstep t c)
   proved by running the interpreter on the generated programs.  Every reachable state is `conc c` for a `c`
   satisfying `CInv` (pipeline_inv); the theorems follow by linear arithmetic on counters. *)
From Coq Require Import List Bool Arith Lia.
Import ListNotations.
From SZ Require Import Model.Pipeline.

(* the generated programs are exactly the ones these proofs were written for; if the order of operations in
   conversion_utils.py changes, this lemma and then the simulation lemmas fail *)
Lemma generated_programs_eq :
  main_ops = [Start TC; Start TW; Produce Qc; Join Qc; Join Qw; Flush] /\
  compressor_pro = [] /\ compressor_loop = [Get Qc; Compress; Put Qw; TaskDone Qc] /\
  writer_pro = [WriteHeader] /\ writer_loop = [Get Qw; WriteFile; TaskDone Qw] /\
  caller_ops = [[CallLoop; WriteFooters; PatchHash]; [CallLoop; WriteFooters; PatchHash]].
Proof. repeat split; reflexivity. Qed.

Section Counters.
Variables n capc capw : nat.
Hypothesis Hn : 1 <= n.
Hypothesis Hcc : 1 <= capc.
Hypothesis Hcw : 1 <= capw.

Record cst := { mpc : nat; cpc : nat; wpc : nat; d : nat; h : nat; lw : nat; lc : nat }.
Definition holdc (p : nat) := match p with 1 | 2 => 1 | _ => 0 end.
Definition ackc (p : nat) := match p with 3 => 1 | _ => 0 end.
Definition holdw (p : nat) := match p with 2 => 1 | _ => 0 end.
Definition ackw (p : nat) := match p with 3 => 1 | _ => 0 end.
Notation hold_c c := (holdc (cpc c)).
Notation ack_c c := (ackc (cpc c)).
Notation hold_w c := (holdw (wpc c)).
Notation ack_w c := (ackw (wpc c)).
Notation nb c := (d c + ack_c c + hold_c c).
Notation na c := (nb c + lc c).
Notation nf c := (h c + ack_w c).
Notation ne c := (nf c + hold_w c).
Definition lastc k := match k with 0 => Junk | S j => Comp j end.
Definition blocks (k : nat) : list event := map (fun j => EBlock (Comp j)) (seq 0 k).

Definition conc (c : cst) : st :=
  {| total := n; next := na c;
     qc := {| items := map Raw (seq (nb c) (lc c)); unf := ack_c c + hold_c c + lc c; cap := capc |};
     qw := {| items := map Comp (seq (ne c) (lw c)); unf := ack_w c + hold_w c + lw c; cap := capw |};
     tm := {| started := true; cur := skipn (mpc c) main_ops; loop := []; reg := Junk |};
     tc := {| started := 1 <=? mpc c; cur := skipn (cpc c) compressor_loop; loop := compressor_loop;
              reg := match cpc c with 0 => lastc (d c) | 1 => Raw (d c) | _ => Comp (d c) end |};
     tw := {| started := 2 <=? mpc c;
              cur := match wpc c with 0 => writer_pro | S k => skipn k writer_loop end; loop := writer_loop;
              reg := match wpc c with 0 => Junk | 1 => lastc (h c) | _ => Comp (h c) end |};
     file := (if wpc c =? 0 then [] else [EHeader]) ++ blocks (nf c) ++ (if 6 <=? mpc c then [EFlush] else []) |}.

Definition CInv (c : cst) : Prop :=
  mpc c <= 6 /\ cpc c <= 3 /\ wpc c <= 3 /\
  d c + ack_c c = ne c + lw c /\
  na c <= n /\ lc c <= capc /\ lw c <= capw /\
  (mpc c < 1 -> cpc c = 0) /\
  (mpc c < 2 -> wpc c = 0 /\ na c = 0) /\
  (wpc c = 0 -> h c = 0) /\
  (mpc c <= 2 -> na c < n) /\
  (3 <= mpc c -> na c = n) /\
  (4 <= mpc c -> d c = n) /\
  (5 <= mpc c -> h c = n).

Definition upd_m c m := {| mpc := m; cpc := cpc c; wpc := wpc c; d := d c; h := h c; lw := lw c; lc := lc c |}.
Definition cstep (t : tid) (c : cst) : option cst :=
  match t with
  | TM => match mpc c with
          | 0 => Some (upd_m c 1) | 1 => Some (upd_m c 2)
          | 2 => if capc <=? lc c then None
                 else Some {| mpc := if S (na c) =? n then 3 else 2; cpc := cpc c; wpc := wpc c; d := d c; h := h c; lw := lw c; lc := S (lc c) |}
          | 3 => match ack_c c + hold_c c + lc c with 0 => Some (upd_m c 4) | _ => None end
          | 4 => match ack_w c + hold_w c + lw c with 0 => Some (upd_m c 5) | _ => None end
          | 5 => Some (upd_m c 6)
          | _ => None
          end
  | TC => if mpc c <? 1 then None else
          match cpc c with
          | 0 => match lc c with 0 => None | S l => Some {| mpc := mpc c; cpc := 1; wpc := wpc c; d := d c; h := h c; lw := lw c; lc := l |} end
          | 1 => Some {| mpc := mpc c; cpc := 2; wpc := wpc c; d := d c; h := h c; lw := lw c; lc := lc c |}
          | 2 => if capw <=? lw c then None else Some {| mpc := mpc c; cpc := 3; wpc := wpc c; d := d c; h := h c; lw := S (lw c); lc := lc c |}
          | _ => Some {| mpc := mpc c; cpc := 0; wpc := wpc c; d := S (d c); h := h c; lw := lw c; lc := lc c |}
          end
  | TW => if mpc c <? 2 then None else
          match wpc c with
          | 0 => Some {| mpc := mpc c; cpc := cpc c; wpc := 1; d := d c; h := h c; lw := lw c; lc := lc c |}
          | 1 => match lw c with 0 => None | S l => Some {| mpc := mpc c; cpc := cpc c; wpc := 2; d := d c; h := h c; lw := l; lc := lc c |} end
          | 2 => Some {| mpc := mpc c; cpc := cpc c; wpc := 3; d := d c; h := h c; lw := lw c; lc := lc c |}
          | _ => Some {| mpc := mpc c; cpc := cpc c; wpc := 1; d := d c; h := S (h c); lw := lw c; lc := lc c |}
          end
  end.

Ltac norm := unfold conc, enqueue, advance, dead, blocks; cbn -[seq Nat.leb Nat.ltb Nat.eqb];
  rewrite <- ?plus_n_Sm, ?Nat.add_0_r, ?seq_S, ?map_app; cbn -[seq Nat.leb Nat.ltb Nat.eqb].
Lemma sim_TM c : CInv c -> step TM (conc c) = option_map conc (cstep TM c).
Proof.
  destruct c as [m cp wp d0 h0 lw0 lc0]. unfold CInv. cbn [mpc cpc wpc d h lw lc].
  intros (I1&I2&I3&I4&I5&I6&I7&I8&I9&I10&I11&I12&I13&I14).
  destruct m as [|[|[|[|[|[|[|m]]]]]]]; try lia.
  - reflexivity.
  - reflexivity.
  - assert (A : d0 + ackc cp + holdc cp + lc0 < n) by lia. apply Nat.ltb_lt in A.
    unfold step. cbn -[Nat.ltb Nat.leb Nat.eqb seq]. rewrite A. unfold full. cbn -[Nat.ltb Nat.leb Nat.eqb seq].
    rewrite map_length, seq_length. cbn -[Nat.ltb Nat.leb Nat.eqb seq].
    destruct (capc <=? lc0) eqn:F; [reflexivity|].
    destruct (S (d0 + ackc cp + holdc cp + lc0) =? n) eqn:E.
    + norm. reflexivity.
    + norm. reflexivity.
  - cbn -[conc step]. destruct (ackc cp + holdc cp + lc0) eqn:U; unfold step; norm; rewrite U; reflexivity.
  - cbn -[conc step]. destruct (ackw wp + holdw wp + lw0) eqn:U; unfold step; norm; rewrite U; reflexivity.
  - unfold step; norm. cbn. rewrite ?app_nil_r, <- ?app_assoc. reflexivity.
  - reflexivity.
Qed.

Ltac red0 := unfold step, conc, enqueue, advance, dead, blocks, full.
Ltac arith := repeat (progress (rewrite ?Nat.add_0_r, ?Nat.add_1_r, <- ?plus_n_Sm)).
Ltac normC := red0; cbn -[Nat.eqb]; arith; cbn -[Nat.eqb]; rewrite ?map_length, ?seq_length.
Ltac normA := red0; cbn -[Nat.eqb seq]; arith; rewrite ?seq_S, ?map_app, ?map_length, ?seq_length; cbn -[Nat.eqb seq].

Lemma sim_TC c : CInv c -> step TC (conc c) = option_map conc (cstep TC c).
Proof.
  destruct c as [m cp wp d0 h0 lw0 lc0]. unfold CInv. cbn [mpc cpc wpc d h lw lc].
  intros (I1&I2&I3&I4&I5&I6&I7&I8&I9&I10&I11&I12&I13&I14).
  destruct m as [|m]; [reflexivity|].
  destruct cp as [|[|[|[|cp]]]]; try lia.
  - destruct lc0 as [|l]; [reflexivity|]. normC. reflexivity.
  - normC. reflexivity.
  - cbn -[conc step]. destruct (capw <=? lw0) eqn:F.
    + normC. rewrite F. reflexivity.
    + assert (E4 : h0 + ackw wp + holdw wp + lw0 = d0) by (cbn in I4; lia).
      normA. rewrite F, E4. reflexivity.
  - normC. reflexivity.
Qed.

Lemma sim_TW c : CInv c -> step TW (conc c) = option_map conc (cstep TW c).
Proof.
  destruct c as [m cp wp d0 h0 lw0 lc0]. unfold CInv. cbn [mpc cpc wpc d h lw lc].
  intros (I1&I2&I3&I4&I5&I6&I7&I8&I9&I10&I11&I12&I13&I14).
  destruct m as [|[|m]]; [reflexivity|reflexivity|].
  destruct wp as [|[|[|[|wp]]]]; try lia.
  - assert (h0 = 0) by lia. subst h0. assert (M : m <= 2) by lia.
    destruct m as [|[|[|m]]]; try lia; normC; reflexivity.
  - destruct lw0 as [|l]; [reflexivity|]. normC. reflexivity.
  - assert (M : m <= 2) by (destruct cp as [|[|[|[|cp]]]]; cbn in *; lia).
    destruct m as [|[|[|m]]]; try lia; normA; rewrite ?app_nil_r, <- ?app_assoc; reflexivity.
  - normC. reflexivity.
Qed.


Definition c0 : cst := {| mpc := 0; cpc := 0; wpc := 0; d := 0; h := 0; lw := 0; lc := 0 |}.
Lemma conc_init : conc c0 = init gen_progs n capc capw.
Proof. reflexivity. Qed.
Lemma cinv_init : CInv c0.
Proof. unfold CInv, c0; cbn. repeat split; lia. Qed.

Ltac pcs m cp wp :=
  destruct m as [|[|[|[|[|[|[|m]]]]]]]; try lia;
  destruct cp as [|[|[|[|cp]]]]; try lia;
  destruct wp as [|[|[|[|wp]]]]; try lia.

Lemma cinv_step t c c' : CInv c -> cstep t c = Some c' -> CInv c'.
Proof.
  destruct c as [m cp wp d0 h0 lw0 lc0]. unfold CInv. cbn [mpc cpc wpc d h lw lc].
  intros (I1&I2&I3&I4&I5&I6&I7&I8&I9&I10&I11&I12&I13&I14) H.
  pcs m cp wp; cbn [ackc holdc ackw holdw] in *; destruct t; cbn -[Nat.eqb Nat.leb] in H;
  try match type of H with context [Nat.eqb ?x ?y] => let E := fresh "E" in destruct (Nat.eqb x y) eqn:E; [apply Nat.eqb_eq in E | apply Nat.eqb_neq in E] end;
  repeat match type of H with
  | (if ?b then _ else _) = _ => let E := fresh "E" in destruct b eqn:E; [try apply Nat.leb_le in E; try apply Nat.eqb_eq in E | try apply Nat.leb_gt in E; try apply Nat.eqb_neq in E]
  | (match ?x with 0 => _ | S _ => _ end) = _ => let E := fresh "E" in destruct x eqn:E
  | Some _ = Some _ => injection H as H; subst c'
  | None = Some _ => discriminate H
  end; unfold upd_m; cbn [mpc cpc wpc d h lw lc ackc holdc ackw holdw]; repeat split; try lia.
Qed.

(* number of operations executed so far: every step executes exactly one *)
Definition ticks (c : cst) : nat :=
  (if mpc c <=? 2 then mpc c + na c else mpc c + n - 1) + (4 * d c + cpc c) + (3 * h c + wpc c).

Ltac step_cases H c' :=
  try match type of H with context [Nat.eqb ?x ?y] => let E := fresh "E" in destruct (Nat.eqb x y) eqn:E; [apply Nat.eqb_eq in E | apply Nat.eqb_neq in E] end;
  repeat match type of H with
  | (if ?b then _ else _) = _ => let E := fresh "E" in destruct b eqn:E; [try apply Nat.leb_le in E; try apply Nat.eqb_eq in E | try apply Nat.leb_gt in E; try apply Nat.eqb_neq in E]
  | (match ?x with 0 => _ | S _ => _ end) = _ => let E := fresh "E" in destruct x eqn:E
  | Some _ = Some _ => injection H as H; subst c'
  | None = Some _ => discriminate H
  end.

Lemma ticks_step t c c' : CInv c -> cstep t c = Some c' -> ticks c' = S (ticks c).
Proof.
  destruct c as [m cp wp d0 h0 lw0 lc0]. unfold CInv, ticks. cbn [mpc cpc wpc d h lw lc].
  intros (I1&I2&I3&I4&I5&I6&I7&I8&I9&I10&I11&I12&I13&I14) H.
  destruct t.
  - destruct m as [|[|[|[|[|[|[|m]]]]]]]; try lia; cbn -[Nat.eqb Nat.leb] in H; step_cases H c';
    unfold upd_m; cbn [mpc cpc wpc d h lw lc Nat.leb]; lia.
  - destruct cp as [|[|[|[|cp]]]]; try lia; cbn -[Nat.eqb Nat.leb Nat.ltb] in H; step_cases H c';
    cbn [mpc cpc wpc d h lw lc ackc holdc]; destruct (m <=? 2); lia.
  - destruct wp as [|[|[|[|wp]]]]; try lia; cbn -[Nat.eqb Nat.leb Nat.ltb] in H; step_cases H c';
    cbn [mpc cpc wpc d h lw lc ackw holdw]; destruct (m <=? 2); lia.
Qed.

Lemma ticks_bound c : CInv c -> ticks c <= 8 * n + 6.
Proof.
  destruct c as [m cp wp d0 h0 lw0 lc0]. unfold CInv, ticks. cbn [mpc cpc wpc d h lw lc].
  intros (I1&I2&I3&I4&I5&I6&I7&I8&I9&I10&I11&I12&I13&I14).
  destruct cp as [|[|[|[|cp]]]]; try lia; destruct wp as [|[|[|[|wp]]]]; try lia; cbn [ackc holdc ackw holdw] in *;
  (destruct (m <=? 2) eqn:E; [apply Nat.leb_le in E | apply Nat.leb_gt in E]); lia.
Qed.

Lemma c_no_deadlock c : CInv c -> mpc c <> 6 -> exists t c', cstep t c = Some c'.
Proof.
  destruct c as [m cp wp d0 h0 lw0 lc0]. unfold CInv. cbn [mpc cpc wpc d h lw lc].
  intros (I1&I2&I3&I4&I5&I6&I7&I8&I9&I10&I11&I12&I13&I14) NF.
  destruct m as [|[|m]]; [exists TM; eexists; reflexivity | exists TM; eexists; reflexivity | ].
  (* both workers started *)
  destruct wp as [|[|[|[|wp]]]]; try lia; try (exists TW; eexists; reflexivity).
  destruct lw0 as [|l]; [ | exists TW; eexists; reflexivity].
  destruct cp as [|[|[|[|cp]]]]; try lia; try (exists TC; eexists; reflexivity).
  - destruct lc0 as [|l]; [ | exists TC; eexists; reflexivity].
    cbn [ackc holdc ackw holdw] in *. exists TM.
    destruct m as [|[|[|[|m]]]]; try lia.
    + cbn -[Nat.eqb Nat.leb]. destruct (capc <=? 0) eqn:E; [apply Nat.leb_le in E; lia|]. eexists; reflexivity.
    + eexists; reflexivity.
    + eexists; reflexivity.
    + eexists; reflexivity.
  - exists TC. cbn -[Nat.eqb Nat.leb]. destruct (capw <=? 0) eqn:E; [apply Nat.leb_le in E; lia|]. eexists; reflexivity.
Qed.

Lemma c_final c : CInv c -> mpc c = 6 ->
  cpc c = 0 /\ wpc c = 1 /\ d c = n /\ h c = n /\ lw c = 0 /\ lc c = 0.
Proof.
  destruct c as [m cp wp d0 h0 lw0 lc0]. unfold CInv. cbn [mpc cpc wpc d h lw lc].
  intros (I1&I2&I3&I4&I5&I6&I7&I8&I9&I10&I11&I12&I13&I14) F. subst m.
  destruct cp as [|[|[|[|cp]]]]; try lia; destruct wp as [|[|[|[|wp]]]]; try lia; cbn [ackc holdc ackw holdw] in *; lia.
Qed.
End Counters.

Arguments conc n capc capw c : assert.
Section Lift.
Variables n capc capw : nat.
Hypothesis Hn : 1 <= n.
Hypothesis Hcc : 1 <= capc.
Hypothesis Hcw : 1 <= capw.
Notation INIT := (init gen_progs n capc capw).
Notation CONC := (conc n capc capw).
Notation CINV := (CInv n capc capw).

Lemma sim t c : CINV c -> step t (CONC c) = option_map CONC (cstep n capc capw t c).
Proof. destruct t; [apply sim_TM | apply sim_TC | apply sim_TW]; assumption. Qed.

Lemma step_conc t c s' : CINV c -> step t (CONC c) = Some s' ->
  exists c', cstep n capc capw t c = Some c' /\ s' = CONC c' /\ CINV c' /\ ticks n c' = S (ticks n c).
Proof.
  intros I H. rewrite (sim t c I) in H. destruct (cstep n capc capw t c) as [c'|] eqn:E; [|discriminate].
  cbn in H. injection H as H. exists c'. split; [reflexivity|]. split; [symmetry; assumption|]. split.
  - exact (cinv_step n capc capw Hn Hcc Hcw t c c' I E).
  - exact (ticks_step n capc capw Hn Hcc Hcw t c c' I E).
Qed.

Theorem pipeline_inv k s : nsteps k INIT s -> exists c, CINV c /\ s = CONC c /\ ticks n c = k.
Proof.
  intros H. remember INIT as s0 eqn:E0. induction H as [s|k s s1 s2 H IH [t St]]; subst.
  - exists c0. split; [apply cinv_init; assumption|]. split; [symmetry; apply conc_init|reflexivity].
  - destruct (IH eq_refl) as (c & I & -> & T).
    destruct (step_conc t c s2 I St) as (c' & _ & -> & I' & T').
    exists c'. split; [assumption|]. split; [reflexivity|]. lia.
Qed.

Lemma main_done_conc c : CINV c -> (main_done (CONC c) <-> mpc c = 6).
Proof.
  intros I. destruct c as [m cp wp d0 h0 lw0 lc0]. unfold main_done, conc. cbn [tm cur mpc].
  destruct I as (I1 & _). cbn [mpc] in I1.
  destruct m as [|[|[|[|[|[|[|m]]]]]]]; try lia; cbn; split; intros H; try discriminate H; try reflexivity; try lia.
Qed.

Theorem terminates k s : nsteps k INIT s -> k <= 8 * n + 6.
Proof. intros H. destruct (pipeline_inv k s H) as (c & I & _ & <-). apply (ticks_bound n capc capw); assumption. Qed.

Theorem no_deadlock k s : nsteps k INIT s -> ~ main_done s -> exists t s', step t s = Some s'.
Proof.
  intros H NF. destruct (pipeline_inv k s H) as (c & I & -> & _).
  assert (M : mpc c <> 6) by (intros E; apply NF; apply main_done_conc; assumption).
  destruct (c_no_deadlock n capc capw Hn Hcc Hcw c I M) as (t & c' & E).
  exists t, (CONC c'). rewrite sim by assumption. rewrite E. reflexivity.
Qed.

Theorem final_file k s : nsteps k INIT s -> main_done s -> file s = sequential_file n /\ k = 8 * n + 6.
Proof.
  intros H F. destruct (pipeline_inv k s H) as (c & I & -> & <-).
  apply main_done_conc in F; [|assumption].
  destruct (c_final n capc capw Hn Hcc Hcw c I F) as (A1 & A2 & A3 & A4 & A5 & A6).
  destruct c as [m cp wp d0 h0 lw0 lc0]. cbn [mpc cpc wpc d h lw lc] in *. subst.
  split.
  - unfold conc, sequential_file, blocks. cbn. rewrite Nat.add_0_r. reflexivity.
  - unfold ticks. cbn. lia.
Qed.

Theorem quiescent k s : nsteps k INIT s -> main_done s -> forall t, step t s = None.
Proof.
  intros H F t. destruct (pipeline_inv k s H) as (c & I & -> & _).
  apply main_done_conc in F; [|assumption].
  destruct (c_final n capc capw Hn Hcc Hcw c I F) as (A1 & A2 & A3 & A4 & A5 & A6).
  rewrite sim by assumption.
  destruct c as [m cp wp d0 h0 lw0 lc0]. cbn [mpc cpc wpc d h lw lc] in *. subst.
  destruct t; reflexivity.
Qed.

Theorem file_prefix k s : nsteps k INIT s -> exists rest, file s ++ rest = sequential_file n.
Proof.
  intros H. destruct (pipeline_inv k s H) as (c & I & -> & _).
  destruct (Nat.eq_dec (mpc c) 6) as [F|NF].
  - exists []. rewrite app_nil_r.
    assert (N : nsteps k INIT (CONC c)) by assumption.
    apply (final_file k (CONC c) N). apply main_done_conc; assumption.
  - destruct c as [m cp wp d0 h0 lw0 lc0]. unfold CInv in I. cbn [mpc cpc wpc d h lw lc] in *.
    destruct I as (I1&I2&I3&I4&I5&I6&I7&I8&I9&I10&I11&I12&I13&I14).
    assert (FL : (6 <=? m) = false) by (apply Nat.leb_gt; lia).
    unfold conc, sequential_file, blocks. cbn [file mpc cpc wpc d h lw lc]. rewrite FL, app_nil_r.
    assert (LE : h0 + ackw wp <= n).
    { destruct cp as [|[|[|[|cp]]]]; try lia; destruct wp as [|[|[|[|wp]]]]; try lia; cbn [ackc holdc ackw holdw] in *; lia. }
    set (f := h0 + ackw wp) in *.
    assert (SP : seq 0 n = seq 0 f ++ seq f (n - f)).
    { replace n with (f + (n - f)) at 1 by lia. rewrite seq_app. reflexivity. }
    destruct wp as [|wp].
    + assert (h0 = 0) by lia. subst h0. cbn in f. subst f. cbn. eexists. reflexivity.
    + cbn [Nat.eqb]. exists (map (fun j => EBlock (Comp j)) (seq f (n - f)) ++ [EFlush]).
      rewrite SP, map_app. cbn. rewrite <- app_assoc. reflexivity.
Qed.

(* schedules as lists of thread choices *)
Lemma run_nsteps sched : forall k s0 s, nsteps k INIT s0 -> run sched s0 = Some s -> nsteps (k + length sched) INIT s.
Proof.
  induction sched as [|t r IH]; intros k s0 s N R; cbn in R.
  - injection R as <-. cbn. rewrite Nat.add_0_r. assumption.
  - destruct (step t s0) as [s1|] eqn:E; [|discriminate].
    cbn [length]. rewrite <- plus_n_Sm. apply (IH (S k) s1 s); [|assumption].
    econstructor; [eassumption|]. exists t. assumption.
Qed.

Theorem all_schedules sched s : run sched INIT = Some s ->
  length sched <= 8 * n + 6 /\ (exists rest, file s ++ rest = sequential_file n) /\ (main_done s -> length sched = 8 * n + 6 /\ file s = sequential_file n /\ forall t, step t s = None) /\ (~ main_done s -> exists t s', step t s = Some s').
Proof.
  intros R. pose proof (run_nsteps sched 0 INIT s (ns_O _) R) as N. cbn in N.
  split; [eapply terminates; eassumption|].
  split; [eapply file_prefix; eassumption|].
  split.
  - intros F. destruct (final_file _ _ N F) as (A & B). repeat split; auto. eapply quiescent; eassumption.
  - intros NF. eapply no_deadlock; eassumption.
Qed.
End Lift.

(* sensitivity of the model: with task_done moved before put in the compressor (the mutation of DESIGN.md 4.5) there
   is a schedule after which the calling thread has returned and block 0 is missing from the file *)
Definition mutant_progs : progs :=
  {| p_main := main_ops; p_cpro := compressor_pro; p_cloop := [Get Qc; Compress; TaskDone Qc; Put Qw];
     p_wpro := writer_pro; p_wloop := writer_loop |}.
Lemma mutant_taskdone_before_put_refuted :
  exists sched s, run sched (init mutant_progs 1 1 1) = Some s /\ main_done s /\ file s = [EHeader; EFlush] /\
                  file s <> sequential_file 1 /\ enabled TC s = true.
Proof.
  exists [TM; TM; TW; TM; TC; TC; TC; TM; TM; TM]. eexists. split; [vm_compute; reflexivity|].
  split; [reflexivity|]. split; [reflexivity|]. split; [discriminate|reflexivity].
Qed.
