(* Read paths of the default layout (blockshape (4, 4, N)): inline set, crossline set, z-slice set.
   Each lemma: the GENERATED loader method returns an array whose cells are the specification decoder's. *)
From Coq Require Import ZArith List Bool Lia.
Import ListNotations.
From SZ Require Import Lib.Py Gen.Utils Gen.Version Gen.Reader Spec.Container Proofs.PyLemmas Proofs.Layout.
Open Scope Z_scope.

Definition default_layout (H : hdr) : Prop := s_bs0 H = 4 /\ s_bs1 H = 4.

Section DEFAULT.
Variable H : hdr.
Hypothesis W : wf3 H = true.
Hypothesis D : default_layout H.
Let F := wf3_facts H W.

Lemma ub_u2 : (s_bs2 H / 4) * s_ub3 H = 4096.
Proof. pose proof (f_block H F) as B. destruct D as [D0 D1]. rewrite D0, D1 in B. change (4 / 4) with 1 in B. lia. Qed.

Lemma PZ4 : s_PZ H / 4 = (s_PZ H / s_bs2 H) * (s_bs2 H / 4).
Proof.
  destruct (f_PZ H F) as (_ & M & _ & _). apply div4_split; [pose proof (f_bs2 H F); lia | apply (f_bs2m H F) | exact M].
Qed.

Lemma cb_units : rd_chunk_bytes H = s_ub3 H * (s_PZ H / 4).
Proof. rewrite (r_cb H F), PZ4, <- ub_u2. ring. Qed.

Lemma unit_index3_default iu xu zu : 0 <= zu ->
  unit_index3 H iu xu zu = (iu * (s_PX H / 4) + xu) * (s_PZ H / 4) + zu.
Proof.
  intro Hz. unfold unit_index3. destruct D as [D0 D1]. rewrite D0, D1. change (4 / 4) with 1.
  rewrite !Z.div_1_r, !Z.mod_1_r, PZ4.
  pose proof (f_bs2 H F). pose proof (f_bs2m H F) as M.
  assert (U2 : 0 < s_bs2 H / 4) by (apply Z.div_str_pos; lia).
  pose proof (Z.div_mod zu (s_bs2 H / 4) ltac:(lia)) as DM. nia.
Qed.

Lemma div4_lt a P : 0 <= a < P -> P mod 4 = 0 -> 0 <= a / 4 < P / 4.
Proof.
  intros Ha Hm. split; [apply Z.div_pos; lia|].
  apply Z.div_lt_upper_bound; [lia|]. rewrite <- (exact_div P 4) by lia. lia.
Qed.

(* ---------------- inline set ---------------- *)
Lemma il_set_ok i : 0 <= i -> i mod 4 = 0 ->
  exists v, ld_read_and_decompress_il_set H i = Return v /\
    av_shape v = [4; s_PX H; s_PZ H] /\
    (forall a x z, 0 <= a < 4 -> 0 <= x < s_PX H -> 0 <= z < s_PZ H ->
       av_cell v [a; x; z] = spec_cell3 H (i + a) x z) /\
    av_reads v = [(s_ub3 H * unit_index3 H (i / 4) 0 0, s_ub3 H * ((s_PX H / 4) * (s_PZ H / 4)))].
Proof.
  intros Hi Hi4. unfold ld_read_and_decompress_il_set.
  rewrite (r_fl_cb H F), (r_fl_p2 H F). cbv iota.
  eexists. split; [reflexivity|].
  destruct D as [D0 D1].
  destruct (f_PX H F) as (_ & _ & PX4 & PXb). destruct (f_PZ H F) as (_ & _ & PZ4' & PZb).
  pose proof (f_ub H F) as Ub.
  assert (CBX : rd_chunk_bytes H * rd_shape_pad1 H / 4 = s_ub3 H * ((s_PX H / 4) * (s_PZ H / 4))).
  { rewrite cb_units, (r_P1 H F). rewrite (exact_div (s_PX H) 4 ltac:(lia) PX4) at 1.
    replace (s_ub3 H * (s_PZ H / 4) * (4 * (s_PX H / 4))) with ((s_ub3 H * ((s_PX H / 4) * (s_PZ H / 4))) * 4) by ring.
    apply Z_div_mult. lia. }
  rewrite (r_bs0 H F), (r_P1 H F), (r_P2 H F), D0 in *. rewrite CBX.
  split; [reflexivity|]. split.
  - intros a x z Ha Hx Hz. cbn [a_decomp av_cell].
    pose proof (div4_lt x _ Hx PX4) as Hx4. pose proof (div4_lt z _ Hz PZ4') as Hz4.
    set (X4 := s_PX H / 4) in *. set (Z4 := s_PZ H / 4) in *.
    assert (K : unit_no [4; s_PX H; s_PZ H] [a; x; z] 0 = (x / 4) * Z4 + z / 4).
    { cbn [unit_no]. rewrite !cdiv_exact by (assumption || reflexivity). change (4 / 4) with 1.
      rewrite (Z.div_small a 4) by lia. fold X4 Z4. ring. }
    assert (K0 : 0 <= (x / 4) * Z4 + z / 4 < X4 * Z4) by nia.
    set (k := (x / 4) * Z4 + z / 4) in *.
    assert (K1 : 0 <= k * s_ub3 H) by nia.
    assert (K2 : (k + 1) * s_ub3 H <= s_ub3 H * (X4 * Z4)) by nia.
    erewrite decomp_cell_hit with (ub := s_ub3 H) (k := k);
      [ | apply in_shape3; lia | apply (r_ubof H F) | exact Ub | exact K
        | intros r1 r2 [<-|[]] [<-|[]]; left; reflexivity | left; reflexivity | cbn [rd_lo]; lia | cbn [rd_hi]; lia ].
    subst k.
    unfold spec_cell3. cbn [rd_src cell_no]. f_equal.
    + rewrite unit_index3_default by lia. fold X4 Z4.
      replace ((i + a) / 4) with (i / 4).
      2:{ rewrite (exact_div i 4 ltac:(lia) Hi4) at 2. rewrite Z.mul_comm, Z.div_add_l by lia.
          rewrite (Z.div_small a 4) by lia. lia. }
      ring.
    + replace ((i + a) mod 4) with (a mod 4); [ring|].
      rewrite (exact_div i 4 ltac:(lia) Hi4) at 1. rewrite Z.add_comm, Z.mul_comm, Z_mod_plus_full. reflexivity.
  - cbn [a_decomp av_reads reads_of map]. rewrite unit_index3_default by lia.
    f_equal. f_equal. ring.
Qed.

End DEFAULT.

(* ---------------- read_inline, default layout ---------------- *)
Section INLINE.
Variable H : hdr.
Hypothesis W : wf3 H = true.
Hypothesis D : default_layout H.
Let F := wf3_facts H W.

Lemma read_inline_default il : 0 <= il < s_nil H ->
  exists v, rd_read_inline H il = Return v /\ av_shape v = [s_nxl H; s_ns H] /\
    (forall x z, 0 <= x < s_nxl H -> 0 <= z < s_ns H -> av_cell v [x; z] = spec_cell3 H il x z) /\
    av_reads v = [(s_ub3 H * unit_index3 H (il / 4) 0 0, s_ub3 H * ((s_PX H / 4) * (s_PZ H / 4)))].
Proof.
  intro Hil. unfold rd_read_inline.
  rewrite (r_not2d H F), (r_bs0 H F), (r_bs1 H F), (r_nil H F), (r_nxl H F), (r_ns H F).
  destruct D as [D0 D1]. rewrite D0, D1. cbv iota.
  replace ((0 <=? il) && (il <? s_nil H)) with true by lia. cbn [negb]. cbv iota.
  change ((4 =? 4) && (4 =? 4)) with true. cbv iota.
  pose proof (Z.div_mod il 4 ltac:(lia)) as DM. pose proof (Z.mod_pos_bound il 4 ltac:(lia)) as MB.
  destruct (il_set_ok H W (conj D0 D1) (4 * (il / 4))) as (v & Ev & Sv & Cv & Rv).
  { assert (0 <= il / 4) by (apply Z.div_pos; lia). lia. }
  { rewrite Z.mul_comm. apply Z_mod_mult. }
  rewrite Ev. cbn [bind].
  destruct (f_PX H F) as (PX1 & _ & _ & _). destruct (f_PZ H F) as (PZ1 & _ & _ & _).
  pose proof (f_nxl H F). pose proof (f_ns H F).
  unfold a_slice. rewrite Sv. cbn [subs_ok slice_shape].
  replace ((- (4) <=? il mod 4) && (il mod 4 <? 4) && true) with true by lia. cbn [negb bind].
  rewrite !norm_bound_in by lia. rewrite !Z.sub_0_r.
  replace (Z.max 0 (s_nxl H)) with (s_nxl H) by lia. replace (Z.max 0 (s_ns H)) with (s_ns H) by lia.
  eexists. split; [reflexivity|]. cbn [av_shape av_cell av_reads]. split; [reflexivity|]. split.
  - intros x z Hx Hz. rewrite in_shape2 by lia. cbn [slice_index].
    replace (il mod 4 <? 0) with false by lia. rewrite !norm_bound_in by lia. rewrite !Z.add_0_l.
    rewrite Cv by lia. f_equal. lia.
  - rewrite Rv. replace (4 * (il / 4) / 4) with (il / 4); [reflexivity|].
    rewrite Z.mul_comm, Z_div_mult by lia. reflexivity.
Qed.
End INLINE.

(* ---------------- crossline set and z-slice set ---------------- *)
Section XLZ.
Variable H : hdr.
Hypothesis W : wf3 H = true.
Hypothesis D : default_layout H.
Let F := wf3_facts H W.

Lemma in_regular (off : Z -> Z) L lo hi j :
  lo <= j < hi -> In (off j, L, j * L) (flat_map (fun j => [(off j, L, j * L)]) (zrange lo hi)).
Proof. intro Hj. apply in_flat_map. exists j. split; [apply in_zrange; exact Hj | left; reflexivity]. Qed.

Lemma xl_set_ok x : 0 <= x -> x mod 4 = 0 ->
  exists v, ld_read_and_decompress_xl_set H x = Return v /\
    av_shape v = [s_PI H; 4; s_PZ H] /\
    (forall a b c, 0 <= a < s_PI H -> 0 <= b < 4 -> 0 <= c < s_PZ H ->
       av_cell v [a; b; c] = spec_cell3 H a (x + b) c) /\
    av_reads v = map (fun j => (s_ub3 H * unit_index3 H j (x / 4) 0, s_ub3 H * (s_PZ H / 4))) (zrange 0 (s_PI H / 4)).
Proof.
  intros Hx Hx4. unfold ld_read_and_decompress_xl_set.
  rewrite (r_fl_cb H F), (r_fl_p2 H F). cbv iota.
  eexists. split; [reflexivity|].
  destruct D as [D0 D1].
  destruct (f_PX H F) as (_ & _ & PX4 & PXb). destruct (f_PZ H F) as (_ & _ & PZ4' & PZb).
  destruct (f_PI H F) as (_ & _ & PI4 & PIb).
  pose proof (f_ub H F) as Ub.
  assert (CBX : rd_chunk_bytes H * rd_shape_pad1 H / 4 = s_ub3 H * ((s_PX H / 4) * (s_PZ H / 4))).
  { rewrite (cb_units H W (conj D0 D1)), (r_P1 H F). rewrite (exact_div (s_PX H) 4 ltac:(lia) PX4) at 1.
    replace (s_ub3 H * (s_PZ H / 4) * (4 * (s_PX H / 4))) with ((s_ub3 H * ((s_PX H / 4) * (s_PZ H / 4))) * 4) by ring.
    apply Z_div_mult. lia. }
  rewrite (r_bs1 H F), (r_P0 H F), (r_P2 H F), D1, CBX.
  pose proof (cb_units H W (conj D0 D1)) as CB.
  set (X4 := s_PX H / 4) in *. set (Z4 := s_PZ H / 4) in *. set (ub := s_ub3 H) in *.
  set (cb := rd_chunk_bytes H) in *.
  assert (Z4pos : 0 < Z4) by (subst Z4; apply Z.div_str_pos; pose proof (f_bs2 H F); lia).
  split; [reflexivity|]. split.
  - intros a b c Ha Hb Hc. cbn [a_decomp av_cell].
    pose proof (div4_lt a _ Ha PI4) as Ha4. pose proof (div4_lt c _ Hc PZ4') as Hc4. fold Z4 in Hc4.
    assert (K : unit_no [s_PI H; 4; s_PZ H] [a; b; c] 0 = (a / 4) * Z4 + c / 4).
    { cbn [unit_no]. rewrite !cdiv_exact by (assumption || reflexivity). change (4 / 4) with 1.
      rewrite (Z.div_small b 4) by lia. fold Z4. ring. }
    set (j := a / 4) in *. set (k := j * Z4 + c / 4) in *.
    assert (K1 : j * cb <= 0 + k * ub) by (subst k; rewrite CB; nia).
    assert (K2 : 0 + (k + 1) * ub <= j * cb + cb) by (subst k; rewrite CB; nia).
    erewrite decomp_cell_hit with (ub := ub) (k := k)
      (r := ((x / 4) * cb + j * (ub * (X4 * Z4)), cb, j * cb));
      [ | apply in_shape3; lia | apply (r_ubof H F) | exact Ub | exact K
        | apply (compat_regular (fun j => x / 4 * cb + j * (ub * (X4 * Z4))) cb); subst cb; rewrite CB; nia
        | apply (in_regular (fun j => x / 4 * cb + j * (ub * (X4 * Z4))) cb); lia
        | cbn [rd_lo]; lia | cbn [rd_hi]; lia ].
    unfold spec_cell3. cbn [rd_src cell_no]. f_equal.
    + rewrite (unit_index3_default H W (conj D0 D1)) by lia. fold X4 Z4 ub.
      replace ((x + b) / 4) with (x / 4).
      2:{ rewrite (exact_div x 4 ltac:(lia) Hx4) at 2. rewrite Z.mul_comm, Z.div_add_l by lia.
          rewrite (Z.div_small b 4) by lia. lia. }
      fold j. subst k. rewrite CB. ring.
    + replace ((x + b) mod 4) with (b mod 4); [ring|].
      rewrite (exact_div x 4 ltac:(lia) Hx4) at 1. rewrite Z.add_comm, Z.mul_comm, Z_mod_plus_full. reflexivity.
  - cbn [a_decomp av_reads]. unfold reads_of. rewrite map_flat_map_single. apply map_ext. intro j.
    rewrite (unit_index3_default H W (conj D0 D1)) by lia. fold X4 Z4 ub. rewrite CB. f_equal; ring.
Qed.
End XLZ.

Section ZSET.
Variable H : hdr.
Hypothesis W : wf3 H = true.
Hypothesis D : default_layout H.
Let F := wf3_facts H W.

Lemma zsplit z m : 0 < m -> m mod 4 = 0 -> z / 4 = (z / m) * (m / 4) + (z mod m) / 4.
Proof.
  intros Hm M4. pose proof (exact_div m 4 ltac:(lia) M4) as E. set (u := m / 4) in *.
  rewrite (Z.div_mod z m ltac:(lia)) at 1. rewrite E at 1.
  replace (4 * u * (z / m) + z mod m) with ((z / m * u) * 4 + z mod m) by ring.
  rewrite Z.div_add_l by lia. reflexivity.
Qed.

Lemma zslice_set_ok z b2 : 0 <= z < s_PZ H ->
  exists v, ld_read_and_decompress_zslice_set H (s_PI H / 4) (s_PX H / 4) b2 (z / s_bs2 H) z = Return v /\
    av_shape v = [s_PI H; s_PX H; 4] /\
    (forall a b c, 0 <= a < s_PI H -> 0 <= b < s_PX H -> 0 <= c < 4 ->
       av_cell v [a; b; c] = spec_cell3 H a b (4 * (z / 4) + c)) /\
    av_reads v = map (fun k => (s_ub3 H * (k * (s_PZ H / 4) + z / 4), s_ub3 H)) (zrange 0 ((s_PI H / 4) * (s_PX H / 4))).
Proof.
  intro Hz. unfold ld_read_and_decompress_zslice_set.
  rewrite (r_fl_cb H F), (r_fl_bs2 H F). cbn [orb]. cbv iota.
  erewrite flat_mapM_Return by (intros; reflexivity). cbn [bind].
  eexists. split; [reflexivity|].
  destruct D as [D0 D1].
  destruct (f_PX H F) as (_ & _ & PX4 & PXb). destruct (f_PZ H F) as (_ & _ & PZ4' & PZb).
  destruct (f_PI H F) as (_ & _ & PI4 & PIb).
  pose proof (f_ub H F) as Ub. pose proof (f_bs2 H F) as B2. pose proof (f_bs2m H F) as B2m.
  pose proof (cb_units H W (conj D0 D1)) as CB.
  rewrite (r_P0 H F), (r_P1 H F), (r_bb H F), (r_ub H F), (r_bs2 H F).
  assert (OFF : z / s_bs2 H * 4096 + z mod s_bs2 H / 4 * s_ub3 H = s_ub3 H * (z / 4)).
  { rewrite (zsplit z (s_bs2 H)) by lia. rewrite <- (ub_u2 H W (conj D0 D1)). ring. }
  set (X4 := s_PX H / 4) in *. set (I4 := s_PI H / 4) in *. set (Z4 := s_PZ H / 4) in *. set (ub := s_ub3 H) in *.
  set (cb := rd_chunk_bytes H) in *.
  split; [reflexivity|]. split.
  - intros a b c Ha Hb Hc. cbn [a_decomp av_cell].
    pose proof (div4_lt a _ Ha PI4) as Ha4. pose proof (div4_lt b _ Hb PX4) as Hb4. fold I4 in Ha4. fold X4 in Hb4.
    assert (K : unit_no [s_PI H; s_PX H; 4] [a; b; c] 0 = (a / 4) * X4 + b / 4).
    { cbn [unit_no]. rewrite !cdiv_exact by (assumption || reflexivity). change (4 / 4) with 1.
      rewrite (Z.div_small c 4) by lia. fold X4. ring. }
    set (k := (a / 4) * X4 + b / 4) in *.
    assert (Kr : 0 <= k < I4 * X4) by (subst k; nia).
    erewrite decomp_cell_hit with (ub := ub) (k := k)
      (r := (z / s_bs2 H * 4096 + z mod s_bs2 H / 4 * ub + k * cb, ub, k * ub));
      [ | apply in_shape3; lia | apply (r_ubof H F) | exact Ub | exact K
        | apply (compat_regular (fun k => z / s_bs2 H * 4096 + z mod s_bs2 H / 4 * ub + k * cb) ub); lia
        | apply (in_regular (fun k => z / s_bs2 H * 4096 + z mod s_bs2 H / 4 * ub + k * cb) ub); lia
        | cbn [rd_lo]; lia | cbn [rd_hi]; lia ].
    unfold spec_cell3. cbn [rd_src cell_no]. f_equal.
    + assert (Hz4 : 0 <= z / 4) by (apply Z.div_pos; lia).
      rewrite (unit_index3_default H W (conj D0 D1)).
      2:{ apply Z.div_pos; lia. }
      fold X4 Z4 ub. replace ((4 * (z / 4) + c) / 4) with (z / 4).
      2:{ rewrite Z.mul_comm, Z.div_add_l by lia. rewrite (Z.div_small c 4) by lia. lia. }
      rewrite OFF. subst k. rewrite CB. ring.
    + replace ((4 * (z / 4) + c) mod 4) with (c mod 4); [ring|].
      rewrite Z.add_comm, Z.mul_comm, Z_mod_plus_full. reflexivity.
  - cbn [a_decomp av_reads]. unfold reads_of. rewrite map_flat_map_single. apply map_ext. intro k.
    rewrite OFF, CB. f_equal. ring.
Qed.
End ZSET.

Section XLZ_TOP.
Variable H : hdr.
Hypothesis W : wf3 H = true.
Hypothesis D : default_layout H.
Let F := wf3_facts H W.

Lemma read_crossline_default xl : 0 <= xl < s_nxl H ->
  exists v, rd_read_crossline H xl = Return v /\ av_shape v = [s_nil H; s_ns H] /\
    (forall i z, 0 <= i < s_nil H -> 0 <= z < s_ns H -> av_cell v [i; z] = spec_cell3 H i xl z) /\
    av_reads v = map (fun j => (s_ub3 H * unit_index3 H j (xl / 4) 0, s_ub3 H * (s_PZ H / 4))) (zrange 0 (s_PI H / 4)).
Proof.
  intro Hxl. unfold rd_read_crossline.
  rewrite (r_not2d H F), (r_bs0 H F), (r_bs1 H F), (r_nil H F), (r_nxl H F), (r_ns H F).
  destruct D as [D0 D1]. rewrite D0, D1. cbv iota.
  replace ((0 <=? xl) && (xl <? s_nxl H)) with true by lia. cbn [negb]. cbv iota.
  change ((4 =? 4) && (4 =? 4)) with true. cbv iota.
  pose proof (Z.div_mod xl 4 ltac:(lia)) as DM. pose proof (Z.mod_pos_bound xl 4 ltac:(lia)) as MB.
  destruct (xl_set_ok H W (conj D0 D1) (4 * (xl / 4))) as (v & Ev & Sv & Cv & Rv).
  { assert (0 <= xl / 4) by (apply Z.div_pos; lia). lia. }
  { rewrite Z.mul_comm. apply Z_mod_mult. }
  rewrite Ev. cbn [bind].
  destruct (f_PI H F) as (PI1 & _ & _ & _). destruct (f_PZ H F) as (PZ1 & _ & _ & _).
  pose proof (f_nil H F). pose proof (f_ns H F).
  unfold a_slice. rewrite Sv. cbn [subs_ok slice_shape].
  replace ((- (4) <=? xl mod 4) && (xl mod 4 <? 4) && true) with true by lia. cbn [negb bind].
  rewrite !norm_bound_in by lia. rewrite !Z.sub_0_r.
  replace (Z.max 0 (s_nil H)) with (s_nil H) by lia. replace (Z.max 0 (s_ns H)) with (s_ns H) by lia.
  eexists. split; [reflexivity|]. cbn [av_shape av_cell av_reads]. split; [reflexivity|]. split.
  - intros i z Hi Hz. rewrite in_shape2 by lia. cbn [slice_index].
    replace (xl mod 4 <? 0) with false by lia. rewrite !norm_bound_in by lia. rewrite !Z.add_0_l.
    rewrite Cv by lia. f_equal. lia.
  - rewrite Rv. replace (4 * (xl / 4) / 4) with (xl / 4); [reflexivity|].
    rewrite Z.mul_comm, Z_div_mult by lia. reflexivity.
Qed.

Lemma read_zslice_default z : 0 <= z < s_ns H ->
  exists v, rd_read_zslice H z = Return v /\ av_shape v = [s_nil H; s_nxl H] /\
    (forall i x, 0 <= i < s_nil H -> 0 <= x < s_nxl H -> av_cell v [i; x] = spec_cell3 H i x z) /\
    av_reads v = map (fun k => (s_ub3 H * (k * (s_PZ H / 4) + z / 4), s_ub3 H)) (zrange 0 ((s_PI H / 4) * (s_PX H / 4))).
Proof.
  intro Hz. unfold rd_read_zslice.
  rewrite (r_not2d H F), (r_fl_p2 H F), (r_fl_bs2 H F), (r_bs0 H F), (r_bs1 H F), (r_bs2 H F), (r_nil H F),
    (r_nxl H F), (r_ns H F), (r_P0 H F), (r_P1 H F), (r_P2 H F).
  destruct D as [D0 D1]. rewrite D0, D1. cbn [orb]. cbv iota.
  replace ((0 <=? z) && (z <? s_ns H)) with true by lia. cbn [negb]. cbv iota.
  change ((4 =? 4) && (4 =? 4)) with true. cbv iota.
  destruct (f_PI H F) as (PI1 & _ & _ & _). destruct (f_PX H F) as (PX1 & _ & _ & _).
  destruct (f_PZ H F) as (PZ1 & _ & _ & _).
  destruct (zslice_set_ok H W (conj D0 D1) z (s_PZ H / s_bs2 H)) as (v & Ev & Sv & Cv & Rv); [lia|].
  rewrite Ev. cbn [bind].
  pose proof (f_nil H F). pose proof (f_nxl H F).
  pose proof (Z.div_mod z 4 ltac:(lia)) as DM. pose proof (Z.mod_pos_bound z 4 ltac:(lia)) as MB.
  unfold a_slice. rewrite Sv. cbn [subs_ok slice_shape].
  replace ((- (4) <=? z mod 4) && (z mod 4 <? 4) && true) with true by lia. cbn [negb bind].
  rewrite !norm_bound_in by lia. rewrite !Z.sub_0_r.
  replace (Z.max 0 (s_nil H)) with (s_nil H) by lia. replace (Z.max 0 (s_nxl H)) with (s_nxl H) by lia.
  eexists. split; [reflexivity|]. cbn [av_shape av_cell av_reads]. split; [reflexivity|]. split.
  - intros i x Hi Hx. rewrite in_shape2 by lia. cbn [slice_index].
    replace (z mod 4 <? 0) with false by lia. rewrite !norm_bound_in by lia. rewrite !Z.add_0_l.
    rewrite Cv by lia. f_equal. lia.
  - exact Rv.
Qed.
End XLZ_TOP.
