(* C14: every read method refuses arguments outside the REAL extent -- directly from the generated guards. *)
From Coq Require Import ZArith List Bool Lia.
Import ListNotations.
From SZ Require Import Lib.Py Gen.Utils Gen.Version Gen.Reader Spec.Container Proofs.PyLemmas Proofs.Layout.
Open Scope Z_scope.

Ltac bool_lia :=
  repeat match goal with
  | |- context [?a <=? ?b] => let E := fresh "E" in destruct (a <=? b) eqn:E; [apply Z.leb_le in E | apply Z.leb_gt in E]
  | |- context [?a <? ?b] => let E := fresh "E" in destruct (a <? b) eqn:E; [apply Z.ltb_lt in E | apply Z.ltb_ge in E]
  | |- context [?a >? ?b] => let E := fresh "E" in destruct (a >? b) eqn:E; [apply Z.gtb_lt in E | rewrite Z.gtb_ltb in E; apply Z.ltb_ge in E]
  end; cbn [andb orb negb]; try reflexivity; try lia.

Section BOUNDS3.
Variable H : hdr.
Variable mask_nth : Z -> outcome Z.
Hypothesis N2 : (rd_blockshape0_v1 H =? 1) = false.       (* a 3D file *)

Lemma inline_oob il : ~ (0 <= il < rd_n_ilines H) -> rd_read_inline H il = Raise IndexErr.
Proof.
  intro O. unfold rd_read_inline. rewrite N2. cbv iota.
  replace ((0 <=? il) && (il <? rd_n_ilines H)) with false by lia. reflexivity.
Qed.
Lemma crossline_oob xl : ~ (0 <= xl < rd_n_xlines H) -> rd_read_crossline H xl = Raise IndexErr.
Proof.
  intro O. unfold rd_read_crossline. rewrite N2. cbv iota.
  replace ((0 <=? xl) && (xl <? rd_n_xlines H)) with false by lia. reflexivity.
Qed.
Lemma zslice_oob z : ~ (0 <= z < rd_n_samples H) -> rd_read_zslice H z = Raise IndexErr.
Proof.
  intro O. unfold rd_read_zslice. rewrite N2. cbv iota.
  replace ((0 <=? z) && (z <? rd_n_samples H)) with false by lia. reflexivity.
Qed.

(* sub-volume, public entry (access_padding = false): every box that is not 0 <= min < max <= n on all three
   axes is refused, whatever `multithreading` is *)
Lemma subvolume_oob a b c d e f mt :
  ~ (0 <= a < b /\ b <= rd_n_ilines H /\ 0 <= c < d /\ d <= rd_n_xlines H /\ 0 <= e < f /\ f <= rd_n_samples H) ->
  rd_read_subvolume H a b c d e f false mt = Raise IndexErr.
Proof.
  intro O. unfold rd_read_subvolume. rewrite N2. cbv iota.
  set (NI := rd_n_ilines H) in *. set (NX := rd_n_xlines H) in *. set (NS := rd_n_samples H) in *.
  destruct (negb ((0 <=? a) && (a <? NI) && ((0 <? b) && (b <=? NI)) && (b >? a))) eqn:G1; [reflexivity|].
  destruct (negb ((0 <=? c) && (c <? NX) && ((0 <? d) && (d <=? NX)) && (d >? c))) eqn:G2; [reflexivity|].
  destruct (negb ((0 <=? e) && (e <? NS) && ((0 <? f) && (f <=? NS)) && (f >? e))) eqn:G3; [reflexivity|].
  exfalso. apply O.
  apply negb_false_iff in G1, G2, G3. rewrite !andb_true_iff in G1, G2, G3. lia.
Qed.

(* trace ordinal (structured file or override): refused outside [0, n_il*n_xl); sample window refused unless
   0 <= lo < hi <= n_samples *)
Lemma trace_oob_index i lo hi :
  ((rd_tracecount H =? rd_n_ilines H * rd_n_xlines H) = true) ->
  ~ (0 <= i < rd_n_ilines H * rd_n_xlines H) -> rd_get_trace mask_nth H i lo hi false = Raise IndexErr.
Proof.
  intros S O. unfold rd_get_trace. rewrite N2.
  destruct lo, hi; cbv iota; rewrite S; cbn [negb andb]; cbv iota;
    replace ((0 <=? i) && (i <? rd_n_ilines H * rd_n_xlines H)) with false by lia; reflexivity.
Qed.

Lemma trace_oob_window i lo hi ov :
  ((rd_tracecount H =? rd_n_ilines H * rd_n_xlines H) = true) ->
  0 <= i < rd_n_ilines H * rd_n_xlines H ->
  ~ (0 <= lo < hi /\ hi <= rd_n_samples H) -> rd_get_trace mask_nth H i (Some lo) (Some hi) ov = Raise IndexErr.
Proof.
  intros S I O. unfold rd_get_trace. rewrite N2. cbv iota. rewrite S. cbn [negb andb]. cbv iota.
  replace ((0 <=? i) && (i <? rd_n_ilines H * rd_n_xlines H)) with true by lia. cbn [negb]. cbv iota.
  replace ((0 <=? lo) && (lo <? hi) && (hi <=? rd_n_samples H)) with false by lia. reflexivity.
Qed.

Lemma cd_oob cd a b lo hi : ~ (- rd_n_xlines H < cd < rd_n_ilines H) ->
  rd_read_correlated_diagonal mask_nth H cd a b lo hi = Raise IndexErr.
Proof.
  intro O. unfold rd_read_correlated_diagonal. rewrite N2.
  replace ((- rd_n_xlines H <? cd) && (cd <? rd_n_ilines H)) with false by lia.
  destruct a, b, lo, hi; reflexivity.
Qed.
Lemma ad_oob ad a b lo hi : ~ (0 <= ad < rd_n_ilines H + rd_n_xlines H - 1) ->
  rd_read_anticorrelated_diagonal mask_nth H ad a b lo hi = Raise IndexErr.
Proof.
  intro O. unfold rd_read_anticorrelated_diagonal. rewrite N2.
  replace ((0 <=? ad) && (ad <? rd_n_ilines H + rd_n_xlines H - 1)) with false by lia.
  destruct a, b, lo, hi; reflexivity.
Qed.

Lemma subplane_wrongdim a b c d ap : rd_read_subplane H a b c d ap = Raise WrongDim.
Proof. unfold rd_read_subplane. rewrite N2. reflexivity. Qed.
End BOUNDS3.

Section BOUNDS2.
Variable H : hdr.
Variable mask_nth : Z -> outcome Z.
Hypothesis Is2 : (rd_blockshape0_v1 H =? 1) = true.       (* a 2D file *)

Lemma inline_2d il : rd_read_inline H il = Raise WrongDim.
Proof. unfold rd_read_inline. rewrite Is2. reflexivity. Qed.
Lemma crossline_2d x : rd_read_crossline H x = Raise WrongDim.
Proof. unfold rd_read_crossline. rewrite Is2. reflexivity. Qed.
Lemma zslice_2d z : rd_read_zslice H z = Raise WrongDim.
Proof. unfold rd_read_zslice. rewrite Is2. reflexivity. Qed.
Lemma subvolume_2d a b c d e f ap mt : rd_read_subvolume H a b c d e f ap mt = Raise WrongDim.
Proof. unfold rd_read_subvolume. rewrite Is2. reflexivity. Qed.
Lemma volume_2d : rd_read_volume H = Raise WrongDim.
Proof. unfold rd_read_volume. rewrite subvolume_2d. reflexivity. Qed.
Lemma cd_2d cd a b lo hi : rd_read_correlated_diagonal mask_nth H cd a b lo hi = Raise WrongDim.
Proof. unfold rd_read_correlated_diagonal. rewrite Is2. destruct a, b, lo, hi; reflexivity. Qed.
Lemma ad_2d ad a b lo hi : rd_read_anticorrelated_diagonal mask_nth H ad a b lo hi = Raise WrongDim.
Proof. unfold rd_read_anticorrelated_diagonal. rewrite Is2. destruct a, b, lo, hi; reflexivity. Qed.

Lemma trace_2d_oob i lo hi ov : ~ (0 <= i < rd_tracecount H) -> rd_get_trace mask_nth H i lo hi ov = Raise IndexErr.
Proof.
  intro O. unfold rd_get_trace. rewrite Is2.
  replace ((0 <=? i) && (i <? rd_tracecount H)) with false by lia.
  destruct lo, hi; reflexivity.
Qed.
Lemma trace_2d_oob_window i lo hi ov : 0 <= i < rd_tracecount H -> ~ (0 <= lo < hi /\ hi <= rd_n_samples H) ->
  rd_get_trace mask_nth H i (Some lo) (Some hi) ov = Raise IndexErr.
Proof.
  intros Hi O. unfold rd_get_trace. rewrite Is2.
  replace ((0 <=? i) && (i <? rd_tracecount H)) with true by lia. cbn [negb]. cbv iota.
  match goal with |- (if negb ?c then _ else _) = _ => replace c with false by lia end. reflexivity.
Qed.
Lemma subplane_oob a b c d :
  ~ (0 <= a < b /\ b <= rd_tracecount H /\ 0 <= c < d /\ d <= rd_n_samples H) ->
  rd_read_subplane H a b c d false = Raise IndexErr.
Proof.
  intro O. unfold rd_read_subplane. rewrite Is2. cbn [negb]. cbv iota.
  set (NT := rd_tracecount H) in *. set (NS := rd_n_samples H) in *.
  destruct (negb ((0 <=? a) && (a <? NT) && ((0 <? b) && (b <=? NT)) && (b >? a))) eqn:G1; [reflexivity|].
  destruct (negb ((0 <=? c) && (c <? NS) && ((0 <? d) && (d <=? NS)) && (d >? c))) eqn:G2; [reflexivity|].
  exfalso. apply O. apply negb_false_iff in G1, G2. rewrite !andb_true_iff in G1, G2. lia.
Qed.
End BOUNDS2.
