(* Proofs/GeometrySweepB.v -- C05, finite-domain computations (vm_compute) over the binary64 model, part B.
   Domain: EVERY sample interval d = 1..65535 us with the two extreme start times -32768 ms and 32767 ms (where the
   difference samples[1] - samples[0] loses the most bits): header exact, first 3 regenerated samples equal. *)
From Coq Require Import ZArith List Bool.
From SZ Require Import Lib.Py Gen.Geometry Model.Geometry.
Import ListNotations.
Open Scope Z_scope.

Theorem sweep_all_intervals_t0_min : forallb (fun d => zs_check d (-32768) 3) (zrange 1 65536) = true.
Proof. vm_compute. reflexivity. Qed.
Theorem sweep_all_intervals_t0_max : forallb (fun d => zs_check d 32767 3) (zrange 1 65536) = true.
Proof. vm_compute. reflexivity. Qed.
