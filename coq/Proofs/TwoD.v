(* C09, reader side: the 2D read paths (get_trace fast path / general path, read_subplane) of the GENERATED reader
   return exactly the cells the SPECIFICATION decoder (Spec/Container.v: spec_cell2) assigns, and issue exactly the
   range reads of the blocks intersected.  For every header with wf2 (all sizes, blockshapes (1,b1,b2), rates) --
   by arithmetic, no enumeration. *)
From Coq Require Import ZArith List Bool Lia.
Import ListNotations.
From SZ Require Import Lib.Py Gen.Utils Gen.Version Gen.Reader Spec.Container Proofs.PyLemmas Proofs.Layout.
Open Scope Z_scope.

(* The trace-count field (bytes 68-71) is only consulted by the reader for files written by a version newer than
   0.2.1 (generated rd_tracecount_v1); 2D files need it (their inline/crossline counts are zero). *)
Definition ver_gt_021 (H : hdr) : bool := rd_file_version_enc H >? version_to_encoding 0 2 1 false.
Definition wf2v (H : hdr) : bool := wf2 H && ver_gt_021 H.

Record facts2 (H : hdr) : Prop := {
  g_ntr : 1 <= s_ntr H; g_ns : 1 <= s_ns H;
  g_bs1 : 4 <= s_bs1 H; g_bs1m : s_bs1 H mod 4 = 0;
  g_bs2 : 4 <= s_bs2 H; g_bs2m : s_bs2 H mod 4 = 0;
  g_ub : 0 < s_ub2 H;
  g_block : (s_bs1 H / 4) * (s_bs2 H / 4) * s_ub2 H = 4096;
  g_PT : s_ntr H <= s_PT H /\ s_PT H mod s_bs1 H = 0 /\ s_PT H mod 4 = 0 /\ s_bs1 H <= s_PT H;
  g_PZ : s_ns H <= s_PZ H /\ s_PZ H mod s_bs2 H = 0 /\ s_PZ H mod 4 = 0 /\ s_bs2 H <= s_PZ H;
  (* the reader's derived quantities *)
  q_is2d : (rd_blockshape0_v1 H =? 1) = true;
  q_ntr : rd_tracecount H = s_ntr H; q_ns : rd_n_samples H = s_ns H;
  q_bs1 : rd_blockshape1 H = s_bs1 H; q_bs2 : rd_blockshape2 H = s_bs2 H;
  q_rn : rd_rate_n H = s_rn H; q_rd : rd_rate_d H = s_rd H;
  q_P1 : rd_shape_pad1 H = s_PT H; q_P2 : rd_shape_pad2 H = s_PZ H;
  q_ub : rd_unit_bytes H = s_ub2 H; q_bb : rd_block_bytes H = 4096;
  q_cb : rd_chunk_bytes H = 4096 * (s_PZ H / s_bs2 H);
  q_fl_bs2 : rd_blockshape2_isfloat H = false; q_fl_p2 : rd_shape_pad2_isfloat H = false;
  q_fl_cb : rd_chunk_bytes_isfloat H = false;
  q_ubof : unit_bytes_of (rd_rate_n H) (rd_rate_d H) 2 = s_ub2 H;
  q_init : rd_init H = Return tt
}.

Lemma wf2_unpack H : wf2 H = true ->
  s_bs0 H = 1 /\ 1 <= s_ntr H /\ 1 <= s_ns H /\ 4 <= s_bs1 H /\ s_bs1 H mod 4 = 0 /\ 4 <= s_bs2 H /\
  s_bs2 H mod 4 = 0 /\ s_rate_code H <> 0 /\ 0 < s_ub2 H /\
  8 * s_rd H * s_ub2 H = 16 * s_rn H /\ (s_bs1 H / 4) * (s_bs2 H / 4) * s_ub2 H = 4096.
Proof.
  unfold wf2. rewrite !andb_true_iff, negb_true_iff, !Z.leb_le, !Z.eqb_eq, Z.ltb_lt, Z.eqb_neq. tauto.
Qed.

Lemma wf2v_facts H : wf2v H = true -> facts2 H.
Proof.
  unfold wf2v. rewrite andb_true_iff. intros [W V].
  destruct (wf2_unpack H W) as (B0 & Hnt & Hns & B1 & B1m & B2 & B2m & Rc & Ub & Uex & Blk).
  assert (Leg : ((((rd_blockshape0_v1 H) =? 0) || ((rd_blockshape1_v1 H) =? 0)) && ((rd_blockshape2_v1 H) =? 0)) = false).
  { unfold rd_blockshape0_v1, rd_blockshape1_v1, rd_blockshape2_v1. unfold s_bs0, s_bs1, s_bs2 in *.
    replace (h_u32_52 H =? 0) with false by lia. apply andb_false_r. }
  assert (E0 : rd_blockshape0 H = 1).
  { unfold rd_blockshape0, rd_blockshape0_v2. rewrite Leg. exact B0. }
  assert (E1 : rd_blockshape1 H = s_bs1 H).
  { unfold rd_blockshape1, rd_blockshape1_v2. rewrite Leg. reflexivity. }
  assert (E2 : rd_blockshape2 H = s_bs2 H).
  { unfold rd_blockshape2, rd_blockshape2_v2. rewrite Leg. reflexivity. }
  assert (F2 : rd_blockshape2_isfloat H = false).
  { unfold rd_blockshape2_isfloat, rd_blockshape2_v2_isfloat. rewrite Leg. reflexivity. }
  assert (I2d : (rd_blockshape0_v1 H =? 1) = true).
  { unfold rd_blockshape0_v1. unfold s_bs0 in *. lia. }
  assert (Rn : rd_rate_n H = s_rn H) by reflexivity.
  assert (Rd : rd_rate_d H = s_rd H) by reflexivity.
  assert (Rdpos : 0 < s_rd H). { unfold s_rd. destruct (s_rate_code H <? 0) eqn:Q; lia. }
  assert (Rnpos : 0 < s_rn H). { unfold s_rn. destruct (s_rate_code H <? 0) eqn:Q; lia. }
  assert (TC : rd_tracecount H = s_ntr H).
  { unfold rd_tracecount, rd_tracecount_v1. unfold ver_gt_021, rd_file_version_enc in V. rewrite V. reflexivity. }
  pose proof (pad_to_spec (s_ntr H) (s_bs1 H) ltac:(lia)) as (PT1 & PT2 & _).
  pose proof (pad_to_spec (s_ns H) (s_bs2 H) ltac:(lia)) as (PZ1 & PZ2 & _).
  pose proof (pad_to_pos (s_ntr H) (s_bs1 H) ltac:(lia) Hnt) as PT3.
  pose proof (pad_to_pos (s_ns H) (s_bs2 H) ltac:(lia) Hns) as PZ3.
  fold (s_PT H) in PT1, PT2, PT3. fold (s_PZ H) in PZ1, PZ2, PZ3.
  assert (P1 : rd_shape_pad1 H = s_PT H).
  { unfold rd_shape_pad1, rd_shape_pad1_v1. rewrite I2d. fold (rd_blockshape1 H) (rd_tracecount H). rewrite E1, TC.
    rewrite pad_is_pad_to by lia. reflexivity. }
  assert (P2 : rd_shape_pad2 H = s_PZ H).
  { unfold rd_shape_pad2, rd_shape_pad2_v1. fold (rd_blockshape2 H). rewrite E2.
    unfold rd_n_samples_v1. fold (s_ns H). rewrite pad_is_pad_to by lia. reflexivity. }
  assert (Q16 : Z.quot (16 * s_rn H) (s_rd H) = 8 * s_ub2 H).
  { apply quot_exact; lia. }
  assert (UB : rd_unit_bytes H = s_ub2 H).
  { unfold rd_unit_bytes, rd_unit_bytes_v1. rewrite I2d. fold (rd_rate_n H) (rd_rate_d H). rewrite Rn, Rd.
    replace (4 * 4 * s_rn H) with (16 * s_rn H) by ring. rewrite Q16.
    rewrite Z.mul_comm. apply Z_div_mult. lia. }
  assert (UBof : unit_bytes_of (rd_rate_n H) (rd_rate_d H) 2 = s_ub2 H).
  { unfold unit_bytes_of. rewrite Rn, Rd. change (4 ^ Z.of_nat 2) with 16. rewrite Q16.
    rewrite Z.mul_comm. apply Z_div_mult. lia. }
  assert (BB : rd_block_bytes H = 4096).
  { unfold rd_block_bytes, rd_block_bytes_v1. fold (rd_blockshape0 H) (rd_blockshape1 H) (rd_blockshape2 H).
    fold (rd_rate_n H) (rd_rate_d H). rewrite E0, E1, E2, Rn, Rd.
    rewrite (quot_exact _ _ (8 * 4096)); try lia; [reflexivity|].
    rewrite (exact_div (s_bs1 H) 4 ltac:(lia) B1m) at 1.
    rewrite (exact_div (s_bs2 H) 4 ltac:(lia) B2m) at 1. nia. }
  assert (CB : rd_chunk_bytes H = 4096 * (s_PZ H / s_bs2 H)).
  { unfold rd_chunk_bytes, rd_chunk_bytes_v1. fold (rd_block_bytes H) (rd_shape_pad2 H) (rd_blockshape2 H).
    rewrite BB, P2, E2. reflexivity. }
  assert (FP2 : rd_shape_pad2_isfloat H = false).
  { unfold rd_shape_pad2_isfloat, rd_shape_pad2_v1_isfloat. fold (rd_blockshape2_isfloat H). exact F2. }
  assert (FCB : rd_chunk_bytes_isfloat H = false).
  { unfold rd_chunk_bytes_isfloat, rd_chunk_bytes_v1_isfloat. fold (rd_shape_pad2_isfloat H) (rd_blockshape2_isfloat H).
    rewrite FP2, F2. reflexivity. }
  assert (INIT : rd_init H = Return tt).
  { unfold rd_init. fold (rd_block_bytes H) (rd_unit_bytes H) (rd_chunk_bytes H). rewrite BB, UB, CB.
    assert (M1 : 4096 mod s_ub2 H = 0).
    { rewrite <- Blk. apply Z_mod_mult. }
    rewrite M1. cbn [Z.eqb negb].
    rewrite (Z.mul_comm 4096), Z_mod_mult. reflexivity. }
  constructor; try assumption; try reflexivity.
  - repeat split; try lia. apply (mod4_of_mod (s_bs1 H)); lia.
  - repeat split; try lia. apply (mod4_of_mod (s_bs2 H)); lia.
Qed.

(* ---------------- generic: zeros-then-fill with at most one fill containing an index ---------------- *)
Lemma fill_lookup_none shape fills idx :
  (forall f, In f fills -> fill_hit shape (fst f) idx = None) -> fill_lookup shape fills idx = None.
Proof.
  induction fills as [|[subs v] rest IH]; intro Hn; cbn [fill_lookup]; [reflexivity|].
  rewrite IH by (intros; apply Hn; right; assumption).
  pose proof (Hn (subs, v) (or_introl eq_refl)) as Hh. cbn [fst] in Hh. rewrite Hh. reflexivity.
Qed.

Lemma fill_lookup_some_inv shape fills idx p :
  fill_lookup shape fills idx = Some p ->
  exists subs v j, In (subs, v) fills /\ fill_hit shape subs idx = Some j /\
    p = av_cell v (if Nat.eqb (length (av_shape v)) 0 then [] else j).
Proof.
  induction fills as [|[subs v] rest IH]; cbn [fill_lookup]; [discriminate|].
  destruct (fill_lookup shape rest idx) as [q|] eqn:E.
  - intro Hq. injection Hq as <-. destruct (IH eq_refl) as (s' & v' & j' & Hin & Hh & Hp).
    exists s', v', j'. split; [right; exact Hin | split; assumption].
  - destruct (fill_hit shape subs idx) as [j|] eqn:Eh; [|discriminate].
    intro Hq. injection Hq as <-. exists subs, v, j. split; [left; reflexivity | split; [exact Eh | reflexivity]].
Qed.

Lemma fill_lookup_not_none shape fills idx subs v j :
  In (subs, v) fills -> fill_hit shape subs idx = Some j -> fill_lookup shape fills idx <> None.
Proof.
  induction fills as [|[s0 v0] rest IH]; intros Hin Hh; [destruct Hin|]. cbn [fill_lookup].
  destruct (fill_lookup shape rest idx) as [q|] eqn:E; [discriminate|].
  destruct Hin as [Heq|Hin].
  - injection Heq as -> ->. rewrite Hh. discriminate.
  - exfalso. exact (IH Hin Hh eq_refl).
Qed.

(* exactly one fill (as a list element) contains idx: its value decides *)
Lemma fill_lookup_unique shape fills idx subs v j :
  In (subs, v) fills -> fill_hit shape subs idx = Some j ->
  (forall s' v' j', In (s', v') fills -> fill_hit shape s' idx = Some j' ->
     av_cell v' (if Nat.eqb (length (av_shape v')) 0 then [] else j') =
     av_cell v (if Nat.eqb (length (av_shape v)) 0 then [] else j)) ->
  fill_lookup shape fills idx = Some (av_cell v (if Nat.eqb (length (av_shape v)) 0 then [] else j)).
Proof.
  intros Hin Hh Hu.
  destruct (fill_lookup shape fills idx) as [p|] eqn:E.
  - destruct (fill_lookup_some_inv _ _ _ _ E) as (s' & v' & j' & Hin' & Hh' & ->).
    f_equal. exact (Hu s' v' j' Hin' Hh').
  - exfalso. exact (fill_lookup_not_none _ _ _ _ _ _ Hin Hh E).
Qed.

Lemma fill_hit2 S1 S2 lo hi lo' hi' a c :
  0 <= lo <= S1 -> 0 <= hi <= S1 -> 0 <= lo' <= S2 -> 0 <= hi' <= S2 ->
  fill_hit [S1; S2] [SRng lo hi; SRng lo' hi'] [a; c] =
    if (lo <=? a) && (a <? hi) && ((lo' <=? c) && (c <? hi')) then Some [a - lo; c - lo'] else None.
Proof.
  intros H1 H2 H3 H4. cbn [fill_hit]. rewrite !norm_bound_in by lia.
  destruct ((lo <=? a) && (a <? hi)); cbn [andb]; [|reflexivity].
  destruct ((lo' <=? c) && (c <? hi')); reflexivity.
Qed.

(* ---------------- the 2D layout ---------------- *)
Section TWOD.
Variable H : hdr.
Hypothesis W : wf2v H = true.
Let F := wf2v_facts H W.

Definition nbz2 (H : hdr) := s_PZ H / s_bs2 H.

Lemma u1pos : 0 < s_bs1 H / 4.
Proof. apply Z.div_str_pos. pose proof (g_bs1 H F). lia. Qed.
Lemma u2pos : 0 < s_bs2 H / 4.
Proof. apply Z.div_str_pos. pose proof (g_bs2 H F). lia. Qed.
Lemma bs1_u1 : s_bs1 H = 4 * (s_bs1 H / 4).
Proof. apply exact_div; [lia | apply (g_bs1m H F)]. Qed.
Lemma bs2_u2 : s_bs2 H = 4 * (s_bs2 H / 4).
Proof. apply exact_div; [lia | apply (g_bs2m H F)]. Qed.
Lemma nbz_pos : 0 < nbz2 H.
Proof.
  unfold nbz2. destruct (g_PZ H F) as (_ & _ & _ & L). pose proof (g_bs2 H F).
  apply Z.div_str_pos. lia.
Qed.
Lemma PZ_nbz : s_PZ H = s_bs2 H * nbz2 H.
Proof. unfold nbz2. destruct (g_PZ H F) as (_ & M & _ & _). pose proof (g_bs2 H F). apply exact_div; [lia | exact M]. Qed.

(* a cell of block (x, z), local coordinates (a, c): which unit of the data section *)
Lemma unit_index2_block x z a c : 0 <= a < s_bs1 H -> 0 <= c < s_bs2 H ->
  s_ub2 H * unit_index2 H ((s_bs1 H * x + a) / 4) ((s_bs2 H * z + c) / 4) =
  4096 * (x * nbz2 H + z) + ((a / 4) * (s_bs2 H / 4) + c / 4) * s_ub2 H.
Proof.
  intros Ha Hc. unfold unit_index2. fold (nbz2 H).
  pose proof u1pos as U1. pose proof u2pos as U2. pose proof bs1_u1 as E1. pose proof bs2_u2 as E2.
  pose proof (g_block H F) as Blk.
  set (u1 := s_bs1 H / 4) in *. set (u2 := s_bs2 H / 4) in *. set (ub := s_ub2 H) in *.
  assert (A4 : 0 <= a / 4 < u1).
  { split; [apply Z.div_pos; lia | apply Z.div_lt_upper_bound; lia]. }
  assert (C4 : 0 <= c / 4 < u2).
  { split; [apply Z.div_pos; lia | apply Z.div_lt_upper_bound; lia]. }
  assert (Xu : (s_bs1 H * x + a) / 4 = x * u1 + a / 4).
  { rewrite E1. replace (4 * u1 * x + a) with (a + (x * u1) * 4) by ring. rewrite Z.div_add by lia. ring. }
  assert (Zu : (s_bs2 H * z + c) / 4 = z * u2 + c / 4).
  { rewrite E2. replace (4 * u2 * z + c) with (c + (z * u2) * 4) by ring. rewrite Z.div_add by lia. ring. }
  rewrite Xu, Zu.
  assert (Q1 : (x * u1 + a / 4) / u1 = x).
  { rewrite Z.add_comm, Z.div_add by lia. rewrite (Z.div_small (a / 4) u1) by lia. ring. }
  assert (M1 : (x * u1 + a / 4) mod u1 = a / 4).
  { rewrite Z.add_comm, Z_mod_plus_full. apply Z.mod_small. lia. }
  assert (Q2 : (z * u2 + c / 4) / u2 = z).
  { rewrite Z.add_comm, Z.div_add by lia. rewrite (Z.div_small (c / 4) u2) by lia. ring. }
  assert (M2 : (z * u2 + c / 4) mod u2 = c / 4).
  { rewrite Z.add_comm, Z_mod_plus_full. apply Z.mod_small. lia. }
  rewrite Q1, M1, Q2, M2. rewrite <- Blk. ring.
Qed.

Lemma cell_mod a b c : b mod 4 = 0 -> (b * c + a) mod 4 = a mod 4.
Proof.
  intro Hb. rewrite (exact_div b 4 ltac:(lia) Hb). replace (4 * (b / 4) * c + a) with (a + (b / 4 * c) * 4) by ring.
  apply Z_mod_plus_full.
Qed.


Lemma spec_off t z :
  s_ub2 H * unit_index2 H (t / 4) (z / 4) =
  4096 * (t / s_bs1 H * nbz2 H + z / s_bs2 H) +
  ((t mod s_bs1 H) / 4 * (s_bs2 H / 4) + (z mod s_bs2 H) / 4) * s_ub2 H.
Proof.
  pose proof (g_bs1 H F). pose proof (g_bs2 H F).
  rewrite (Z.div_mod t (s_bs1 H)) at 1 by lia. rewrite (Z.div_mod z (s_bs2 H)) at 1 by lia.
  apply unit_index2_block; apply Z.mod_pos_bound; lia.
Qed.

Lemma PZ4_nbz : s_PZ H / 4 = nbz2 H * (s_bs2 H / 4).
Proof.
  destruct (g_PZ H F) as (_ & M & _ & _). unfold nbz2.
  apply div4_split; [pose proof (g_bs2 H F); lia | apply (g_bs2m H F) | exact M].
Qed.

Lemma div4_lt2 a P : 0 <= a < P -> P mod 4 = 0 -> 0 <= a / 4 < P / 4.
Proof.
  intros Ha Hm. split; [apply Z.div_pos; lia|].
  apply Z.div_lt_upper_bound; [lia|]. rewrite <- (exact_div P 4) by lia. lia.
Qed.

(* ---------------- fast path: blockshape (1, 4, N), one trace group = one contiguous chunk ---------------- *)
Lemma trace_range_ok g : 0 <= g -> s_bs1 H = 4 ->
  exists v, ld_read_and_decompress_trace_range H (4 * g) (4 * g + 4) = Return v /\
    av_shape v = [4; s_PZ H] /\
    (forall a z, 0 <= a < 4 -> 0 <= z < s_PZ H -> av_cell v [a; z] = spec_cell2 H (4 * g + a) z) /\
    av_reads v = [(4096 * (g * nbz2 H), 4096 * nbz2 H)].
Proof.
  intros Hg B4. unfold ld_read_and_decompress_trace_range.
  rewrite (q_fl_cb H F), (q_fl_p2 H F). cbv iota.
  eexists. split; [reflexivity|].
  rewrite (q_bs1 H F), (q_P2 H F), (q_cb H F), B4. fold (nbz2 H).
  assert (D0 : 4 * g / 4 = g) by (rewrite Z.mul_comm; apply Z_div_mult; lia).
  assert (D1 : (4 * g + 4 + 4 - 1) / 4 = g + 1).
  { replace (4 * g + 4 + 4 - 1) with (3 + (g + 1) * 4) by ring. rewrite Z.div_add by lia. reflexivity. }
  rewrite D0, D1.
  destruct (g_PZ H F) as (_ & _ & PZ4 & _). pose proof (g_ub H F) as Ub. pose proof (g_block H F) as Blk.
  rewrite B4 in Blk. change (4 / 4) with 1 in Blk.
  pose proof PZ4_nbz as PN. pose proof nbz_pos as NB. pose proof u2pos as U2.
  split; [reflexivity|]. split.
  - intros a z Ha Hz. cbn [a_decomp av_cell].
    pose proof (div4_lt2 z _ Hz PZ4) as Hz4.
    assert (K : unit_no [4; s_PZ H] [a; z] 0 = z / 4).
    { cbn [unit_no]. rewrite !cdiv_exact by (assumption || reflexivity). change (4 / 4) with 1.
      rewrite (Z.div_small a 4) by lia. ring. }
    set (k := z / 4) in *. set (ub := s_ub2 H) in *. set (u2 := s_bs2 H / 4) in *. set (nbz := nbz2 H) in *.
    assert (K1 : 0 <= k * ub) by nia.
    assert (K2 : (k + 1) * ub <= 4096 * nbz * (g + 1 - g)) by nia.
    erewrite decomp_cell_hit with (ub := ub) (k := k);
      [ | apply in_shape2; lia | apply (q_ubof H F) | exact Ub | exact K
        | intros r1 r2 [<-|[]] [<-|[]]; left; reflexivity | left; reflexivity | cbn [rd_lo]; lia | cbn [rd_hi]; lia ].
    unfold spec_cell2. cbn [rd_src cell_no]. f_equal.
    + rewrite spec_off. rewrite B4. fold nbz ub u2.
      assert (T4 : (4 * g + a) / 4 = g).
      { rewrite Z.mul_comm, Z.div_add_l by lia. rewrite (Z.div_small a 4) by lia. lia. }
      assert (TM : (4 * g + a) mod 4 = a).
      { rewrite Z.add_comm, Z.mul_comm, Z_mod_plus_full. apply Z.mod_small. lia. }
      rewrite T4, TM. rewrite (Z.div_small a 4) by lia.
      pose proof (g_bs2 H F) as B2. pose proof (g_bs2m H F) as B2m.
      assert (ZS : k = z / s_bs2 H * u2 + z mod s_bs2 H / 4).
      { subst k u2. pose proof bs2_u2 as E2. set (u := s_bs2 H / 4) in *.
        rewrite (Z.div_mod z (s_bs2 H) ltac:(lia)) at 1. rewrite E2 at 1.
        replace (4 * u * (z / s_bs2 H) + z mod s_bs2 H) with ((z / s_bs2 H * u) * 4 + z mod s_bs2 H) by ring.
        rewrite Z.div_add_l by lia. reflexivity. }
      rewrite ZS. rewrite <- Blk. ring.
    + rewrite (cell_mod a 4 g) by reflexivity. ring.
  - cbn [a_decomp av_reads reads_of map]. f_equal. f_equal; ring.
Qed.


(* ---------------- general path: block by block into a zero array ---------------- *)
Definition blk2 (H : hdr) (x0 z0 x z : Z) : list sub * arrv :=
  ([SRng ((x - x0) * s_bs1 H) ((x - x0 + 1) * s_bs1 H); SRng ((z - z0) * s_bs2 H) ((z - z0 + 1) * s_bs2 H)],
   a_decomp (rd_rate_n H) (rd_rate_d H) [(4096 * (s_PZ H / s_bs2 H) * x + 4096 * z, 4096, 0)] [s_bs1 H; s_bs2 H]).

Definition blocks2 (H : hdr) (x0 x1 z0 z1 : Z) : list (list sub * arrv) :=
  flat_map (fun x => flat_map (fun z => [blk2 H x0 z0 x z]) (zrange z0 z1)) (zrange x0 x1).

Lemma in_blocks2 x0 x1 z0 z1 f :
  In f (blocks2 H x0 x1 z0 z1) <-> exists x z, x0 <= x < x1 /\ z0 <= z < z1 /\ f = blk2 H x0 z0 x z.
Proof.
  unfold blocks2. rewrite in_flat_map. split.
  - intros (x & Hx & Hin). rewrite in_flat_map in Hin. destruct Hin as (z & Hz & [<-|[]]).
    rewrite in_zrange in Hx, Hz. exists x, z. auto.
  - intros (x & z & Hx & Hz & ->). exists x. rewrite in_zrange. split; [exact Hx|].
    rewrite in_flat_map. exists z. rewrite in_zrange. split; [exact Hz | left; reflexivity].
Qed.

Lemma reads_blocks2 x0 z0 lx lz :
  flat_map (fun f : list sub * arrv => av_reads (snd f))
    (flat_map (fun x => flat_map (fun z => [blk2 H x0 z0 x z]) lz) lx) =
  flat_map (fun x => map (fun z => (4096 * (x * nbz2 H + z), 4096)) lz) lx.
Proof.
  induction lx as [|x xs IHx]; cbn [flat_map]; [reflexivity|].
  rewrite flat_map_app, IHx. f_equal. clear IHx.
  induction lz as [|z zs IHz]; cbn [flat_map map app]; [reflexivity|].
  rewrite IHz. cbn [blk2 snd a_decomp av_reads reads_of map app]. f_equal. f_equal. unfold nbz2. ring.
Qed.

Lemma block_cell x z a c : 0 <= a < s_bs1 H -> 0 <= c < s_bs2 H ->
  av_cell (snd (blk2 H 0 0 x z)) [a; c] = spec_cell2 H (s_bs1 H * x + a) (s_bs2 H * z + c).
Proof.
  intros Ha Hc. cbn [blk2 snd a_decomp av_cell].
  pose proof (g_ub H F) as Ub. pose proof (g_block H F) as Blk.
  pose proof (g_bs1m H F) as B1m. pose proof (g_bs2m H F) as B2m.
  pose proof (div4_lt2 a _ Ha B1m) as Ha4. pose proof (div4_lt2 c _ Hc B2m) as Hc4.
  assert (K : unit_no [s_bs1 H; s_bs2 H] [a; c] 0 = a / 4 * (s_bs2 H / 4) + c / 4).
  { cbn [unit_no]. rewrite !cdiv_exact by assumption. ring. }
  set (u1 := s_bs1 H / 4) in *. set (u2 := s_bs2 H / 4) in *. set (ub := s_ub2 H) in *.
  set (k := a / 4 * u2 + c / 4) in *.
  assert (K0 : 0 <= k < u1 * u2) by (subst k; nia).
  assert (K1 : 0 <= k * ub) by nia.
  assert (K2 : (k + 1) * ub <= 4096) by nia.
  erewrite decomp_cell_hit with (ub := ub) (k := k);
    [ | apply in_shape2; lia | apply (q_ubof H F) | exact Ub | exact K
      | intros r1 r2 [<-|[]] [<-|[]]; left; reflexivity | left; reflexivity | cbn [rd_lo]; lia | cbn [rd_hi]; lia ].
  unfold spec_cell2. cbn [rd_src cell_no]. f_equal.
  - rewrite (unit_index2_block x z a c Ha Hc). fold u2 ub k. unfold nbz2. ring.
  - rewrite (cell_mod a _ x B1m), (cell_mod c _ z B2m). ring.
Qed.

Lemma chunk_range_2d_ok x0 x1 z0 z1 : 0 <= x0 < x1 -> 0 <= z0 < z1 ->
  exists v, ld_read_unshuffle_and_decompress_chunk_range_2d H (s_bs1 H * x1) (s_bs2 H * z1) (s_bs1 H * x0) (s_bs2 H * z0)
              = Return v /\
    av_shape v = [(x1 - x0) * s_bs1 H; (z1 - z0) * s_bs2 H] /\
    (forall a c, 0 <= a < (x1 - x0) * s_bs1 H -> 0 <= c < (z1 - z0) * s_bs2 H ->
       av_cell v [a; c] = spec_cell2 H (s_bs1 H * x0 + a) (s_bs2 H * z0 + c)) /\
    av_reads v = flat_map (fun x => map (fun z => (4096 * (x * nbz2 H + z), 4096)) (zrange z0 z1)) (zrange x0 x1).
Proof.
  intros Hx Hz. unfold ld_read_unshuffle_and_decompress_chunk_range_2d.
  rewrite (q_fl_bs2 H F), (q_fl_cb H F). cbv iota.
  rewrite (q_bs1 H F), (q_bs2 H F), (q_cb H F), (q_bb H F).
  pose proof (g_bs1 H F) as B1. pose proof (g_bs2 H F) as B2.
  assert (Dx0 : s_bs1 H * x0 / s_bs1 H = x0) by (rewrite Z.mul_comm; apply Z_div_mult; lia).
  assert (Dz0 : s_bs2 H * z0 / s_bs2 H = z0) by (rewrite Z.mul_comm; apply Z_div_mult; lia).
  assert (Dx1 : (s_bs1 H * x1 + s_bs1 H - 1) / s_bs1 H = x1).
  { replace (s_bs1 H * x1 + s_bs1 H - 1) with ((s_bs1 H - 1) + x1 * s_bs1 H) by ring.
    rewrite Z.div_add by lia. rewrite Z.div_small by lia. ring. }
  assert (Dz1 : (s_bs2 H * z1 + s_bs2 H - 1) / s_bs2 H = z1).
  { replace (s_bs2 H * z1 + s_bs2 H - 1) with ((s_bs2 H - 1) + z1 * s_bs2 H) by ring.
    rewrite Z.div_add by lia. rewrite Z.div_small by lia. ring. }
  rewrite Dx0, Dz0, Dx1, Dz1.
  replace (x0 + (x1 - x0)) with x1 by lia. replace (z0 + (z1 - z0)) with z1 by lia.
  rewrite (flat_mapM_Return _ (fun x => flat_map (fun z => [blk2 H x0 z0 x z]) (zrange z0 z1))).
  2:{ intros x _. rewrite (flat_mapM_Return _ (fun z => [blk2 H x0 z0 x z])) by (intros; reflexivity). reflexivity. }
  cbn [bind]. fold (blocks2 H x0 x1 z0 z1).
  set (S1 := (x1 - x0) * s_bs1 H). set (S2 := (z1 - z0) * s_bs2 H).
  (* sub-array bounds of block (x, z) *)
  assert (BND : forall x z, x0 <= x < x1 -> z0 <= z < z1 ->
            (0 <= (x - x0) * s_bs1 H <= S1 /\ 0 <= (x - x0 + 1) * s_bs1 H <= S1) /\
            (0 <= (z - z0) * s_bs2 H <= S2 /\ 0 <= (z - z0 + 1) * s_bs2 H <= S2)).
  { intros x z Hx' Hz'. subst S1 S2. repeat split; nia. }
  assert (OK : forallb (fill_ok [S1; S2]) (blocks2 H x0 x1 z0 z1) = true).
  { apply forallb_forall. intros f Hf. apply in_blocks2 in Hf. destruct Hf as (x & z & Hx' & Hz' & ->).
    destruct (BND x z Hx' Hz') as ((X1 & X2) & (Z1 & Z2)).
    unfold fill_ok, blk2. cbn [fst snd subs_ok slice_shape a_decomp av_shape andb].
    rewrite !norm_bound_in by lia.
    replace (Z.max 0 ((x - x0 + 1) * s_bs1 H - (x - x0) * s_bs1 H)) with (s_bs1 H) by lia.
    replace (Z.max 0 ((z - z0 + 1) * s_bs2 H - (z - z0) * s_bs2 H)) with (s_bs2 H) by lia.
    unfold list_eqb. cbn [length Nat.eqb combine forallb fst snd andb]. rewrite !Z.eqb_refl. reflexivity. }
  unfold a_zeros_fill. rewrite OK. cbn [negb]. cbv iota. cbn [bind].
  eexists. split; [reflexivity|]. cbn [av_shape av_cell av_reads]. split; [reflexivity|]. split.
  - intros a c Ha Hc. rewrite in_shape2 by assumption. unfold fill_cell.
    pose proof (Z.div_mod a (s_bs1 H) ltac:(lia)) as DMa. pose proof (Z.mod_pos_bound a (s_bs1 H) ltac:(lia)) as MBa.
    pose proof (Z.div_mod c (s_bs2 H) ltac:(lia)) as DMc. pose proof (Z.mod_pos_bound c (s_bs2 H) ltac:(lia)) as MBc.
    set (dx := a / s_bs1 H) in *. set (dz := c / s_bs2 H) in *.
    assert (DX : 0 <= dx < x1 - x0).
    { split; [apply Z.div_pos; lia | apply Z.div_lt_upper_bound; [lia|]; subst S1; lia]. }
    assert (DZ : 0 <= dz < z1 - z0).
    { split; [apply Z.div_pos; lia | apply Z.div_lt_upper_bound; [lia|]; subst S2; lia]. }
    (* which blocks contain [a; c] *)
    assert (HIT : forall x z, x0 <= x < x1 -> z0 <= z < z1 ->
              fill_hit [S1; S2] (fst (blk2 H x0 z0 x z)) [a; c] =
              if (x =? x0 + dx) && (z =? z0 + dz) then Some [a mod s_bs1 H; c mod s_bs2 H] else None).
    { intros x z Hx' Hz'. destruct (BND x z Hx' Hz') as ((X1 & X2) & (Z1 & Z2)).
      cbn [blk2 fst]. rewrite fill_hit2 by assumption.
      destruct ((x =? x0 + dx) && (z =? z0 + dz)) eqn:E.
      - apply andb_true_iff in E. destruct E as [E1 E2]. apply Z.eqb_eq in E1, E2. subst x z.
        replace (x0 + dx - x0) with dx by lia. replace (z0 + dz - z0) with dz by lia.
        replace (((dx * s_bs1 H <=? a) && (a <? (dx + 1) * s_bs1 H)) && ((dz * s_bs2 H <=? c) && (c <? (dz + 1) * s_bs2 H)))
          with true by lia.
        f_equal. f_equal; [lia | f_equal; lia].
      - apply andb_false_iff in E.
        replace (((x - x0) * s_bs1 H <=? a) && (a <? (x - x0 + 1) * s_bs1 H) &&
                 (((z - z0) * s_bs2 H <=? c) && (c <? (z - z0 + 1) * s_bs2 H))) with false; [reflexivity|].
        symmetry. apply not_true_is_false. intro T. rewrite !andb_true_iff, !Z.leb_le, !Z.ltb_lt in T.
        destruct T as ((T1 & T2) & (T3 & T4)).
        assert (x - x0 = dx) by (apply (Z.div_unique a (s_bs1 H) (x - x0) (a - (x - x0) * s_bs1 H)); lia).
        assert (z - z0 = dz) by (apply (Z.div_unique c (s_bs2 H) (z - z0) (c - (z - z0) * s_bs2 H)); lia).
        destruct E as [E|E]; apply Z.eqb_neq in E; lia. }
    erewrite (fill_lookup_unique [S1; S2] (blocks2 H x0 x1 z0 z1) [a; c]
               (fst (blk2 H x0 z0 (x0 + dx) (z0 + dz))) (snd (blk2 H x0 z0 (x0 + dx) (z0 + dz)))
               [a mod s_bs1 H; c mod s_bs2 H]).
    + cbn [blk2 snd a_decomp av_shape length Nat.eqb]. cbv iota.
      pose proof (block_cell (x0 + dx) (z0 + dz) (a mod s_bs1 H) (c mod s_bs2 H) MBa MBc) as BC.
      etransitivity; [exact BC | f_equal; lia].
    + rewrite <- surjective_pairing. apply in_blocks2. exists (x0 + dx), (z0 + dz). repeat split; lia.
    + rewrite HIT by lia. rewrite !Z.eqb_refl. reflexivity.
    + intros s' v' j' Hin' Hh'. apply in_blocks2 in Hin'. destruct Hin' as (x & z & Hx' & Hz' & E').
      assert (Es : s' = fst (blk2 H x0 z0 x z)) by (rewrite <- E'; reflexivity).
      assert (Ev : v' = snd (blk2 H x0 z0 x z)) by (rewrite <- E'; reflexivity).
      rewrite Es in Hh'. rewrite (HIT x z Hx' Hz') in Hh'.
      destruct ((x =? x0 + dx) && (z =? z0 + dz)) eqn:E; [|discriminate].
      apply andb_true_iff in E. destruct E as [E1 E2]. apply Z.eqb_eq in E1, E2. subst x z.
      injection Hh' as <-. rewrite Ev. reflexivity.
  - apply reads_blocks2.
Qed.


(* ---------------- read_subplane ---------------- *)
Lemma cdiv_bounds a m : 0 < m -> a <= m * ((a + m - 1) / m) < a + m.
Proof.
  intro Hm. pose proof (Z.div_mod (a + m - 1) m ltac:(lia)) as D. pose proof (Z.mod_pos_bound (a + m - 1) m Hm). lia.
Qed.

Lemma subplane_gen (ap : bool) t0 t1 z0 z1 :
  0 <= t0 < t1 -> t1 <= (if ap then s_PT H else s_ntr H) ->
  0 <= z0 < z1 -> z1 <= (if ap then s_PZ H else s_ns H) ->
  exists v, rd_read_subplane H t0 t1 z0 z1 ap = Return v /\
    av_shape v = [t1 - t0; z1 - z0] /\
    (forall t z, 0 <= t < t1 - t0 -> 0 <= z < z1 - z0 -> av_cell v [t; z] = spec_cell2 H (t0 + t) (z0 + z)) /\
    av_reads v = flat_map (fun x => map (fun z => (4096 * (x * nbz2 H + z), 4096))
                                       (zrange (z0 / s_bs2 H) ((z1 + s_bs2 H - 1) / s_bs2 H)))
                          (zrange (t0 / s_bs1 H) ((t1 + s_bs1 H - 1) / s_bs1 H)).
Proof.
  intros Ht Ht1 Hz Hz1. unfold rd_read_subplane. rewrite (q_is2d H F). cbn [negb]. cbv iota.
  rewrite (q_P1 H F), (q_ntr H F), (q_P2 H F), (q_ns H F), (q_fl_bs2 H F), (q_bs1 H F), (q_bs2 H F).
  set (L1 := if ap then s_PT H else s_ntr H) in *. set (L2 := if ap then s_PZ H else s_ns H) in *.
  replace ((0 <=? t0) && (t0 <? L1) && ((0 <? t1) && (t1 <=? L1)) && (t1 >? t0)) with true by lia.
  replace ((0 <=? z0) && (z0 <? L2) && ((0 <? z1) && (z1 <=? L2)) && (z1 >? z0)) with true by lia.
  cbn [negb]. cbv iota.
  pose proof (g_bs1 H F) as B1. pose proof (g_bs2 H F) as B2.
  pose proof (Z.div_mod t0 (s_bs1 H) ltac:(lia)) as DMt. pose proof (Z.mod_pos_bound t0 (s_bs1 H) ltac:(lia)) as MBt.
  pose proof (Z.div_mod z0 (s_bs2 H) ltac:(lia)) as DMz. pose proof (Z.mod_pos_bound z0 (s_bs2 H) ltac:(lia)) as MBz.
  pose proof (cdiv_bounds t1 (s_bs1 H) ltac:(lia)) as CBt. pose proof (cdiv_bounds z1 (s_bs2 H) ltac:(lia)) as CBz.
  set (X0 := t0 / s_bs1 H) in *. set (X1 := (t1 + s_bs1 H - 1) / s_bs1 H) in *.
  set (Z0 := z0 / s_bs2 H) in *. set (Z1 := (z1 + s_bs2 H - 1) / s_bs2 H) in *.
  assert (HX : 0 <= X0 < X1).
  { split; [apply Z.div_pos; lia | nia]. }
  assert (HZ : 0 <= Z0 < Z1).
  { split; [apply Z.div_pos; lia | nia]. }
  destruct (chunk_range_2d_ok X0 X1 Z0 Z1 HX HZ) as (r & Er & Sr & Cr & Rr).
  rewrite Er. cbn [bind]. unfold a_slice. rewrite Sr. cbn [subs_ok slice_shape negb]. cbv iota.
  rewrite !norm_bound_in by lia.
  replace (Z.max 0 (t0 mod s_bs1 H + t1 - t0 - t0 mod s_bs1 H)) with (t1 - t0) by lia.
  replace (Z.max 0 (z0 mod s_bs2 H + z1 - z0 - z0 mod s_bs2 H)) with (z1 - z0) by lia.
  eexists. split; [reflexivity|]. cbn [av_shape av_cell av_reads]. split; [reflexivity|]. split.
  - intros t z Ht' Hz'. rewrite in_shape2 by lia. cbn [slice_index]. rewrite !norm_bound_in by lia.
    rewrite Cr by lia. f_equal; lia.
  - exact Rr.
Qed.

(* public entry: access_padding = false *)
Lemma subplane_coherent t0 t1 z0 z1 :
  0 <= t0 < t1 -> t1 <= s_ntr H -> 0 <= z0 < z1 -> z1 <= s_ns H ->
  exists v, rd_read_subplane H t0 t1 z0 z1 false = Return v /\
    av_shape v = [t1 - t0; z1 - z0] /\
    (forall t z, 0 <= t < t1 - t0 -> 0 <= z < z1 - z0 -> av_cell v [t; z] = spec_cell2 H (t0 + t) (z0 + z)) /\
    av_reads v = flat_map (fun x => map (fun z => (4096 * (x * nbz2 H + z), 4096))
                                       (zrange (z0 / s_bs2 H) ((z1 + s_bs2 H - 1) / s_bs2 H)))
                          (zrange (t0 / s_bs1 H) ((t1 + s_bs1 H - 1) / s_bs1 H)).
Proof. exact (subplane_gen false t0 t1 z0 z1). Qed.

(* the byte offset of block (x, z) is where the specification puts its first unit *)
Lemma block_offset_spec x z :
  4096 * (x * nbz2 H + z) = s_ub2 H * unit_index2 H (s_bs1 H * x / 4) (s_bs2 H * z / 4).
Proof.
  pose proof (g_bs1 H F). pose proof (g_bs2 H F).
  pose proof (unit_index2_block x z 0 0 ltac:(lia) ltac:(lia)) as E.
  rewrite !Z.add_0_r in E. rewrite E. change (0 / 4) with 0. ring.
Qed.

(* ---------------- get_trace on a 2D file ---------------- *)
(* the effective sample window of get_trace(index, min_sample_id, max_sample_id): None = from the start / to the end *)
Definition win_lo (lo : option Z) : Z := match lo with Some l => l | None => 0 end.
Definition win_hi (H : hdr) (hi : option Z) : Z := match hi with Some h => h | None => rd_n_samples H end.

(* the 2D branch of get_trace, common to all four (min_sample_id, max_sample_id) shapes *)
Definition gt2d_body (H : hdr) (index lo hi : Z) : outcome arrv :=
  if (negb ((0 <=? index) && (index <? (rd_tracecount H)))) then Raise IndexErr
  else if (negb ((0 <=? lo) && (lo <? hi) && (hi <=? (rd_n_samples H)))) then Raise IndexErr
  else if ((rd_blockshape1 H) =? 4) then
    bind (ld_read_and_decompress_trace_range H ((rd_blockshape1 H) * (index / (rd_blockshape1 H)))
            (((rd_blockshape1 H) * (index / (rd_blockshape1 H))) + (rd_blockshape1 H)))
         (fun r3 => a_slice r3 [SIdx (index mod (rd_blockshape1 H)); SRng lo hi])
  else
    bind (rd_read_subplane H ((rd_blockshape1 H) * (index / (rd_blockshape1 H)))
            (((rd_blockshape1 H) * (index / (rd_blockshape1 H))) + (rd_blockshape1 H)) 0 (rd_n_samples H) true)
         (fun r5 => a_slice r5 [SIdx (index mod (rd_blockshape1 H)); SRng lo hi]).

Lemma get_trace_2d_unfold mask_nth i lo hi ov :
  rd_get_trace mask_nth H i lo hi ov = gt2d_body H i (win_lo lo) (win_hi H hi).
Proof. unfold rd_get_trace, gt2d_body, win_lo, win_hi. rewrite (q_is2d H F). destruct lo, hi; reflexivity. Qed.

(* a window that is not 0 <= lo < hi <= n_samples is refused before any read *)
Lemma get_trace_2d_window_oob mask_nth i lo hi ov : 0 <= i < s_ntr H ->
  ~ (0 <= win_lo lo < win_hi H hi /\ win_hi H hi <= s_ns H) ->
  rd_get_trace mask_nth H i lo hi ov = Raise IndexErr.
Proof.
  intros Hi O. rewrite get_trace_2d_unfold. unfold gt2d_body. rewrite (q_ntr H F).
  replace ((0 <=? i) && (i <? s_ntr H)) with true by lia. cbn [negb]. cbv iota.
  rewrite (q_ns H F) in *. set (a := win_lo lo) in *. set (b := win_hi H hi) in *.
  replace ((0 <=? a) && (a <? b) && (b <=? s_ns H)) with false by lia. reflexivity.
Qed.

Lemma get_trace_2d_fast mask_nth i lo hi ov : s_bs1 H = 4 -> 0 <= i < s_ntr H ->
  0 <= win_lo lo < win_hi H hi -> win_hi H hi <= s_ns H ->
  exists v, rd_get_trace mask_nth H i lo hi ov = Return v /\ av_shape v = [win_hi H hi - win_lo lo] /\
    (forall z, 0 <= z < win_hi H hi - win_lo lo -> av_cell v [z] = spec_cell2 H i (win_lo lo + z)) /\
    av_reads v = [(4096 * (i / 4 * nbz2 H), 4096 * nbz2 H)].
Proof.
  intros B4 Hi Hw Hw1. rewrite get_trace_2d_unfold. unfold gt2d_body.
  set (a := win_lo lo) in *. set (b := win_hi H hi) in *.
  rewrite (q_ntr H F), (q_bs1 H F), (q_ns H F), B4.
  replace ((0 <=? i) && (i <? s_ntr H)) with true by lia. cbn [negb]. cbv iota.
  replace ((0 <=? a) && (a <? b) && (b <=? s_ns H)) with true by lia. cbn [negb]. cbv iota.
  change (4 =? 4) with true. cbv iota.
  pose proof (Z.div_mod i 4 ltac:(lia)) as DM. pose proof (Z.mod_pos_bound i 4 ltac:(lia)) as MB.
  assert (G0 : 0 <= i / 4) by (apply Z.div_pos; lia).
  destruct (trace_range_ok (i / 4) G0 B4) as (r & Er & Sr & Cr & Rr).
  rewrite Er. cbn [bind]. unfold a_slice. rewrite Sr. cbn [subs_ok slice_shape].
  replace ((- (4) <=? i mod 4) && (i mod 4 <? 4) && true) with true by lia. cbn [negb]. cbv iota.
  destruct (g_PZ H F) as (PZ1 & _ & _ & _). pose proof (g_ns H F) as NS.
  rewrite !norm_bound_in by lia. replace (Z.max 0 (b - a)) with (b - a) by lia.
  eexists. split; [reflexivity|]. cbn [av_shape av_cell av_reads]. split; [reflexivity|]. split.
  - intros z Hz. rewrite in_shape1 by lia. cbn [slice_index].
    replace (i mod 4 <? 0) with false by lia. rewrite !norm_bound_in by lia.
    rewrite Cr by lia. f_equal. lia.
  - exact Rr.
Qed.

Lemma zrange_single a : zrange a (a + 1) = [a].
Proof. unfold zrange. replace (a + 1 - a) with 1 by lia. reflexivity. Qed.

Lemma get_trace_2d_general mask_nth i lo hi ov : s_bs1 H <> 4 -> 0 <= i < s_ntr H ->
  0 <= win_lo lo < win_hi H hi -> win_hi H hi <= s_ns H ->
  exists v, rd_get_trace mask_nth H i lo hi ov = Return v /\ av_shape v = [win_hi H hi - win_lo lo] /\
    (forall z, 0 <= z < win_hi H hi - win_lo lo -> av_cell v [z] = spec_cell2 H i (win_lo lo + z)) /\
    av_reads v = map (fun z => (4096 * (i / s_bs1 H * nbz2 H + z), 4096)) (zrange 0 (nbz2 H)).
Proof.
  intros B4 Hi Hw Hw1. rewrite get_trace_2d_unfold. unfold gt2d_body.
  set (a := win_lo lo) in *. set (b := win_hi H hi) in *.
  rewrite (q_ntr H F), (q_bs1 H F), (q_ns H F).
  replace ((0 <=? i) && (i <? s_ntr H)) with true by lia. cbn [negb]. cbv iota.
  replace ((0 <=? a) && (a <? b) && (b <=? s_ns H)) with true by lia. cbn [negb]. cbv iota.
  replace (s_bs1 H =? 4) with false by lia. cbv iota.
  pose proof (g_bs1 H F) as B1. pose proof (g_bs2 H F) as B2. pose proof (g_ns H F) as NS.
  destruct (g_PT H F) as (PT1 & PTm & _ & _). destruct (g_PZ H F) as (PZ1 & _ & _ & _).
  pose proof (Z.div_mod i (s_bs1 H) ltac:(lia)) as DM. pose proof (Z.mod_pos_bound i (s_bs1 H) ltac:(lia)) as MB.
  pose proof (exact_div (s_PT H) (s_bs1 H) ltac:(lia) PTm) as PTe.
  set (G := i / s_bs1 H) in *.
  assert (G0 : 0 <= G) by (apply Z.div_pos; lia).
  assert (G1 : s_bs1 H * G + s_bs1 H <= s_PT H).
  { assert (G < s_PT H / s_bs1 H) by nia. nia. }
  destruct (subplane_gen true (s_bs1 H * G) (s_bs1 H * G + s_bs1 H) 0 (s_ns H)) as (r & Er & Sr & Cr & Rr);
    [nia | exact G1 | lia | exact PZ1 |].
  rewrite Er. cbn [bind]. unfold a_slice. rewrite Sr. cbn [subs_ok slice_shape].
  replace (s_bs1 H * G + s_bs1 H - s_bs1 H * G) with (s_bs1 H) in * by lia. rewrite Z.sub_0_r in *.
  replace ((- s_bs1 H <=? i mod s_bs1 H) && (i mod s_bs1 H <? s_bs1 H) && true) with true by lia.
  cbn [negb]. cbv iota.
  rewrite !norm_bound_in by lia. replace (Z.max 0 (b - a)) with (b - a) by lia.
  eexists. split; [reflexivity|]. cbn [av_shape av_cell av_reads]. split; [reflexivity|]. split.
  - intros z Hz. rewrite in_shape1 by lia. cbn [slice_index].
    replace (i mod s_bs1 H <? 0) with false by lia. rewrite !norm_bound_in by lia.
    rewrite Cr by lia. f_equal; lia.
  - rewrite Rr.
    assert (D0 : s_bs1 H * G / s_bs1 H = G) by (rewrite Z.mul_comm; apply Z_div_mult; lia).
    assert (D1 : (s_bs1 H * G + s_bs1 H + s_bs1 H - 1) / s_bs1 H = G + 1).
    { replace (s_bs1 H * G + s_bs1 H + s_bs1 H - 1) with ((s_bs1 H - 1) + (G + 1) * s_bs1 H) by ring.
      rewrite Z.div_add by lia. rewrite Z.div_small by lia. ring. }
    rewrite D0, D1, zrange_single. cbn [flat_map]. rewrite app_nil_r.
    change (0 / s_bs2 H) with 0.
    destruct (pad_to_spec (s_ns H) (s_bs2 H) ltac:(lia)) as (_ & _ & PD). fold (s_PZ H) in PD.
    unfold nbz2. rewrite PD. reflexivity.
Qed.

(* without a window: the whole trace *)
Lemma win_none : win_lo None = 0 /\ win_hi H None = s_ns H.
Proof. split; [reflexivity | apply (q_ns H F)]. Qed.

(* ---------------- what the reader reports, and the refusals ---------------- *)
Lemma counts_2d : rd_tracecount H = s_ntr H /\ rd_n_samples H = s_ns H /\ rd_init H = Return tt.
Proof. split; [apply (q_ntr H F) | split; [apply (q_ns H F) | apply (q_init H F)]]. Qed.

Lemma volume_reads_refused_2d mask_nth :
  (forall il, rd_read_inline H il = Raise WrongDim) /\ (forall x, rd_read_crossline H x = Raise WrongDim) /\
  (forall z, rd_read_zslice H z = Raise WrongDim) /\
  (forall a b c d e f ap mt, rd_read_subvolume H a b c d e f ap mt = Raise WrongDim) /\
  rd_read_volume H = Raise WrongDim /\
  (forall cd a b lo hi, rd_read_correlated_diagonal mask_nth H cd a b lo hi = Raise WrongDim) /\
  (forall ad a b lo hi, rd_read_anticorrelated_diagonal mask_nth H ad a b lo hi = Raise WrongDim).
Proof.
  pose proof (q_is2d H F) as I.
  assert (SV : forall a b c d e f ap mt, rd_read_subvolume H a b c d e f ap mt = Raise WrongDim).
  { intros. unfold rd_read_subvolume. rewrite I. reflexivity. }
  repeat split; intros.
  - unfold rd_read_inline. rewrite I. reflexivity.
  - unfold rd_read_crossline. rewrite I. reflexivity.
  - unfold rd_read_zslice. rewrite I. reflexivity.
  - apply SV.
  - unfold rd_read_volume. rewrite SV. reflexivity.
  - unfold rd_read_correlated_diagonal. rewrite I. destruct a, b, lo, hi; reflexivity.
  - unfold rd_read_anticorrelated_diagonal. rewrite I. destruct a, b, lo, hi; reflexivity.
Qed.

End TWOD.
