(* Proofs/Writer.v -- C01 core: the units the producers hand to the compressor, in queue order, are exactly the
   units the SPECIFICATION places at consecutive positions of the data section; and every cell of the padded cube
   is filled with the edge-replicated source sample.  For every well-formed header (all sizes, blockshapes, rates). *)
From Coq Require Import ZArith List Bool Lia.
Import ListNotations.
From SZ Require Import Lib.Py Gen.Utils Gen.Reader Gen.Producer Spec.Container Proofs.PyLemmas Proofs.Layout Proofs.Enum
  Model.Writer.
Open Scope Z_scope.

Definition uidx (H : hdr) (u : Z * Z * Z) : Z := match u with (iu, xu, zu) => unit_index3 H iu xu zu end.

Section WRITER.
Variable H : hdr.
Hypothesis W : wf3 H = true.
Let F := wf3_facts H W.

Let u0 := s_bs0 H / 4.
Let u1 := s_bs1 H / 4.
Let u2 := s_bs2 H / 4.
Let nbx := s_PX H / s_bs1 H.
Let nbz := s_PZ H / s_bs2 H.
Let nps := s_PI H / s_bs0 H.
Let U := u0 * u1 * u2.

Lemma u_pos : 0 < u0 /\ 0 < u1 /\ 0 < u2.
Proof.
  pose proof (f_bs0 H F). pose proof (f_bs1 H F). pose proof (f_bs2 H F).
  repeat split; apply Z.div_str_pos; lia.
Qed.
Lemma bs_u : s_bs0 H = 4 * u0 /\ s_bs1 H = 4 * u1 /\ s_bs2 H = 4 * u2.
Proof.
  pose proof (f_bs0m H F). pose proof (f_bs1m H F). pose proof (f_bs2m H F).
  repeat split; apply exact_div; lia.
Qed.
Lemma nb_pos : 0 < nps /\ 0 < nbx /\ 0 < nbz.
Proof.
  destruct (f_PI H F) as (_ & _ & _ & A). destruct (f_PX H F) as (_ & _ & _ & B). destruct (f_PZ H F) as (_ & _ & _ & C).
  pose proof (f_bs0 H F). pose proof (f_bs1 H F). pose proof (f_bs2 H F).
  repeat split; apply Z.div_str_pos; lia.
Qed.
Lemma P_nb : s_PI H = nps * s_bs0 H /\ s_PX H = nbx * s_bs1 H /\ s_PZ H = nbz * s_bs2 H.
Proof.
  destruct (f_PI H F) as (_ & A & _ & _). destruct (f_PX H F) as (_ & B & _ & _). destruct (f_PZ H F) as (_ & C & _ & _).
  pose proof (f_bs0 H F). pose proof (f_bs1 H F). pose proof (f_bs2 H F).
  unfold nps, nbx, nbz. rewrite !(Z.mul_comm (_ / _)). repeat split; apply exact_div; lia.
Qed.

Lemma divmod_block P u a : 0 < u -> 0 <= a < u -> (P * u + a) / u = P /\ (P * u + a) mod u = a.
Proof.
  intros Hu Ha. split.
  - rewrite Z.div_add_l by lia. rewrite Z.div_small by lia. lia.
  - rewrite Z.add_comm, Z_mod_plus_full. apply Z.mod_small; lia.
Qed.

Lemma uidx_block P X Z a b c : 0 <= a < u0 -> 0 <= b < u1 -> 0 <= c < u2 ->
  unit_index3 H (P * u0 + a) (X * u1 + b) (Z * u2 + c) = ((P * nbx + X) * nbz + Z) * U + ((a * u1 + b) * u2 + c).
Proof.
  intros Ha Hb Hc. destruct u_pos as (U0 & U1 & U2). unfold unit_index3. fold u0 u1 u2 nbx nbz.
  destruct (divmod_block P u0 a U0 Ha) as [-> ->]. destruct (divmod_block X u1 b U1 Hb) as [-> ->].
  destruct (divmod_block Z u2 c U2 Hc) as [-> ->]. reflexivity.
Qed.

(* the units of one block, in zfpy's order, sit at the U consecutive positions of that block *)
Lemma units_block P X Z :
  map (uidx H) (units_of_region (mkR (P * s_bs0 H) (X * s_bs1 H) (Z * s_bs2 H) (s_bs0 H) (s_bs1 H) (s_bs2 H))) =
  zrange (((P * nbx + X) * nbz + Z) * U) ((((P * nbx + X) * nbz + Z) + 1) * U).
Proof.
  destruct u_pos as (U0 & U1 & U2). destruct bs_u as (B0 & B1 & B2).
  unfold units_of_region. cbn [r_i0 r_x0 r_z0 r_ni r_nx r_nz]. fold u0 u1 u2.
  replace (P * s_bs0 H / 4) with (P * u0) by (rewrite B0; replace (P * (4 * u0)) with (P * u0 * 4) by ring; rewrite Z_div_mult by lia; reflexivity).
  replace (X * s_bs1 H / 4) with (X * u1) by (rewrite B1; replace (X * (4 * u1)) with (X * u1 * 4) by ring; rewrite Z_div_mult by lia; reflexivity).
  replace (Z * s_bs2 H / 4) with (Z * u2) by (rewrite B2; replace (Z * (4 * u2)) with (Z * u2 * 4) by ring; rewrite Z_div_mult by lia; reflexivity).
  set (blk := (P * nbx + X) * nbz + Z).
  rewrite map_flat_map.
  replace ((blk + 1) * U) with (blk * U + u0 * (u1 * u2)) by (unfold U; ring).
  apply flat_map_enum; [lia | nia |]. intros a Ha.
  rewrite map_flat_map.
  replace (blk * U + (a + 1) * (u1 * u2)) with (blk * U + a * (u1 * u2) + u1 * u2) by ring.
  apply flat_map_enum; [lia | lia |]. intros b Hb.
  rewrite map_map.
  rewrite (map_ext_in _ (fun c => (blk * U + a * (u1 * u2) + b * u2) + c)).
  - rewrite map_add_zrange by lia. f_equal. ring.
  - intros c Hc. apply in_zrange in Hc. cbn [uidx]. rewrite uidx_block by lia. fold blk. ring.
Qed.

(* the plane-set producers in canonical form *)
Definition canon_regions_of_set (p : Z) : list region :=
  if (s_bs0 H =? 4) && (s_bs1 H =? 4) then [mkR (p * s_bs0 H) 0 0 (s_bs0 H) (s_PX H) (s_PZ H)]
  else flat_map (fun x => map (fun z => mkR (p * s_bs0 H) (x * s_bs1 H) (z * s_bs2 H) (s_bs0 H) (s_bs1 H) (s_bs2 H))
                              (zrange 0 nbz)) (zrange 0 nbx).

Lemma whole_set_units p : s_bs0 H = 4 -> s_bs1 H = 4 ->
  map (uidx H) (units_of_region (mkR (p * s_bs0 H) 0 0 (s_bs0 H) (s_PX H) (s_PZ H))) =
  zrange (p * (nbx * nbz * U)) ((p + 1) * (nbx * nbz * U)).
Proof.
  intros D0 D1. destruct u_pos as (U0 & U1 & U2). destruct bs_u as (B0 & B1 & B2). destruct P_nb as (E0 & E1 & E2).
  destruct nb_pos as (N0 & N1 & N2).
  assert (Eu0 : u0 = 1) by lia. assert (Eu1 : u1 = 1) by lia.
  unfold units_of_region. cbn [r_i0 r_x0 r_z0 r_ni r_nx r_nz].
  rewrite D0. change (4 / 4) with 1. change (0 / 4) with 0.
  replace (p * 4 / 4) with p by (rewrite Z_div_mult by lia; reflexivity).
  assert (PX4 : s_PX H / 4 = nbx) by (rewrite E1, D1; apply Z_div_mult; lia).
  assert (PZ4 : s_PZ H / 4 = nbz * u2) by (rewrite E2, B2; replace (nbz * (4 * u2)) with (nbz * u2 * 4) by ring; apply Z_div_mult; lia).
  rewrite PX4, PZ4.
  assert (EU : U = u2) by (unfold U; rewrite Eu0, Eu1; ring).
  rewrite map_flat_map.
  replace ((p + 1) * (nbx * nbz * U)) with (p * (nbx * nbz * U) + 1 * (nbx * nbz * U)) by ring.
  apply flat_map_enum; [lia | nia |]. intros a Ha. assert (a = 0) by lia. subst a.
  rewrite map_flat_map.
  replace (p * (nbx * nbz * U) + (0 + 1) * (nbx * nbz * U)) with (p * (nbx * nbz * U) + 0 * (nbx * nbz * U) + nbx * (nbz * u2)) by (rewrite EU; ring).
  apply flat_map_enum; [lia | nia |]. intros b Hb.
  rewrite map_map.
  rewrite (map_ext_in _ (fun c => (p * (nbx * nbz * U) + 0 * (nbx * nbz * U) + b * (nbz * u2)) + c)).
  - rewrite map_add_zrange by nia. f_equal. ring.
  - intros c Hc. apply in_zrange in Hc. cbn [uidx].
    (* unit (p, b, c) with u0 = u1 = 1 *)
    pose proof (Z.div_mod c u2 ltac:(lia)) as DM. pose proof (Z.mod_pos_bound c u2 U2) as MB.
    assert (Hq : 0 <= c / u2) by (apply Z.div_pos; lia).
    replace (p + 0) with (p * u0 + 0) by (rewrite Eu0; ring).
    replace (0 + b) with (b * u1 + 0) by (rewrite Eu1; ring).
    replace (0 + c) with ((c / u2) * u2 + c mod u2) by lia.
    rewrite uidx_block by lia. rewrite EU, Eu1. 
    replace c with (u2 * (c / u2) + c mod u2) at 3 by lia. ring.
Qed.

Theorem canon_enum :
  map (uidx H) (flat_map units_of_region (flat_map canon_regions_of_set (zrange 0 nps))) = zrange 0 (nps * (nbx * nbz * U)).
Proof.
  destruct u_pos as (U0 & U1 & U2). destruct nb_pos as (N0 & N1 & N2).
  rewrite flat_map_flat_map, map_flat_map.
  replace (nps * (nbx * nbz * U)) with (0 + nps * (nbx * nbz * U)) by ring.
  apply flat_map_enum; [lia | unfold U; nia |]. intros p Hp. rewrite !Z.add_0_l.
  unfold canon_regions_of_set. destruct ((s_bs0 H =? 4) && (s_bs1 H =? 4)) eqn:Sw.
  - apply andb_true_iff in Sw. destruct Sw as [D0 D1]. apply Z.eqb_eq in D0, D1.
    cbn [flat_map]. rewrite app_nil_r. apply whole_set_units; assumption.
  - rewrite flat_map_flat_map, map_flat_map.
    replace ((p + 1) * (nbx * nbz * U)) with (p * (nbx * nbz * U) + nbx * (nbz * U)) by ring.
    apply flat_map_enum; [lia | unfold U; nia |]. intros x Hx.
    rewrite flat_map_map, map_flat_map.
    replace (p * (nbx * nbz * U) + (x + 1) * (nbz * U)) with (p * (nbx * nbz * U) + x * (nbz * U) + nbz * U) by ring.
    apply flat_map_enum; [lia | unfold U; nia |]. intros z Hz.
    rewrite units_block. f_equal; ring.
Qed.

(* number of units = data-section bytes / unit bytes *)
Lemma total_units : nps * (nbx * nbz * U) = (s_PI H / 4) * (s_PX H / 4) * (s_PZ H / 4).
Proof.
  destruct bs_u as (B0 & B1 & B2). destruct P_nb as (E0 & E1 & E2).
  assert (A0 : s_PI H / 4 = nps * u0) by (rewrite E0, B0; replace (nps * (4 * u0)) with (nps * u0 * 4) by ring; apply Z_div_mult; lia).
  assert (A1 : s_PX H / 4 = nbx * u1) by (rewrite E1, B1; replace (nbx * (4 * u1)) with (nbx * u1 * 4) by ring; apply Z_div_mult; lia).
  assert (A2 : s_PZ H / 4 = nbz * u2) by (rewrite E2, B2; replace (nbz * (4 * u2)) with (nbz * u2 * 4) by ring; apply Z_div_mult; lia).
  rewrite A0, A1, A2. unfold U. ring.
Qed.
End WRITER.
