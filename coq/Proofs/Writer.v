(* Proofs/Writer.v -- C01 core: the units the producers hand to the compressor, in queue order, are exactly the
   units the SPECIFICATION places at consecutive positions of the data section; and every cell of the padded cube
   is filled with the edge-replicated source sample.  For every well-formed header (all sizes, blockshapes, rates). *)
From Coq Require Import ZArith List Bool Lia.
Import ListNotations.
From SZ Require Import Lib.Py Gen.Utils Gen.Reader Gen.Producer Spec.Container Proofs.PyLemmas Proofs.Layout Proofs.Enum
  Proofs.Tiling Model.Writer.
Open Scope Z_scope.

Definition uidx (H : hdr) (u : Z * Z * Z) : Z := match u with (iu, xu, zu) => unit_index3 H iu xu zu end.

Section WRITER.
Variable H : hdr.
Hypothesis W : wf3 H = true.
Let F := wf3_facts H W.

Let u0 := s_bs0 H / 4.
Let u1 := s_bs1 H / 4.
Let u2 := s_bs2 H / 4.
Let nbx := s_PX H / s_bs1 H.
Let nbz := s_PZ H / s_bs2 H.
Let nps := s_PI H / s_bs0 H.
Let U := u0 * u1 * u2.

Lemma u_pos : 0 < u0 /\ 0 < u1 /\ 0 < u2.
Proof.
  pose proof (f_bs0 H F). pose proof (f_bs1 H F). pose proof (f_bs2 H F).
  repeat split; apply Z.div_str_pos; lia.
Qed.
Lemma bs_u : s_bs0 H = 4 * u0 /\ s_bs1 H = 4 * u1 /\ s_bs2 H = 4 * u2.
Proof.
  pose proof (f_bs0m H F). pose proof (f_bs1m H F). pose proof (f_bs2m H F).
  repeat split; apply exact_div; lia.
Qed.
Lemma nb_pos : 0 < nps /\ 0 < nbx /\ 0 < nbz.
Proof.
  destruct (f_PI H F) as (_ & _ & _ & A). destruct (f_PX H F) as (_ & _ & _ & B). destruct (f_PZ H F) as (_ & _ & _ & C).
  pose proof (f_bs0 H F). pose proof (f_bs1 H F). pose proof (f_bs2 H F).
  repeat split; apply Z.div_str_pos; lia.
Qed.
Lemma P_nb : s_PI H = nps * s_bs0 H /\ s_PX H = nbx * s_bs1 H /\ s_PZ H = nbz * s_bs2 H.
Proof.
  destruct (f_PI H F) as (_ & A & _ & _). destruct (f_PX H F) as (_ & B & _ & _). destruct (f_PZ H F) as (_ & C & _ & _).
  pose proof (f_bs0 H F). pose proof (f_bs1 H F). pose proof (f_bs2 H F).
  unfold nps, nbx, nbz. rewrite !(Z.mul_comm (_ / _)). repeat split; apply exact_div; lia.
Qed.

Lemma divmod_block P u a : 0 < u -> 0 <= a < u -> (P * u + a) / u = P /\ (P * u + a) mod u = a.
Proof.
  intros Hu Ha. split.
  - rewrite Z.div_add_l by lia. rewrite Z.div_small by lia. lia.
  - rewrite Z.add_comm, Z_mod_plus_full. apply Z.mod_small; lia.
Qed.

Lemma uidx_block P X Z a b c : 0 <= a < u0 -> 0 <= b < u1 -> 0 <= c < u2 ->
  unit_index3 H (P * u0 + a) (X * u1 + b) (Z * u2 + c) = ((P * nbx + X) * nbz + Z) * U + ((a * u1 + b) * u2 + c).
Proof.
  intros Ha Hb Hc. destruct u_pos as (U0 & U1 & U2). unfold unit_index3. fold u0 u1 u2 nbx nbz.
  destruct (divmod_block P u0 a U0 Ha) as [-> ->]. destruct (divmod_block X u1 b U1 Hb) as [-> ->].
  destruct (divmod_block Z u2 c U2 Hc) as [-> ->]. reflexivity.
Qed.

(* the units of one block, in zfpy's order, sit at the U consecutive positions of that block *)
Lemma units_block P X Z :
  map (uidx H) (units_of_region (mkR (P * s_bs0 H) (X * s_bs1 H) (Z * s_bs2 H) (s_bs0 H) (s_bs1 H) (s_bs2 H))) =
  zrange (((P * nbx + X) * nbz + Z) * U) ((((P * nbx + X) * nbz + Z) + 1) * U).
Proof.
  destruct u_pos as (U0 & U1 & U2). destruct bs_u as (B0 & B1 & B2).
  unfold units_of_region. cbn [r_i0 r_x0 r_z0 r_ni r_nx r_nz]. fold u0 u1 u2.
  replace (P * s_bs0 H / 4) with (P * u0) by (rewrite B0; replace (P * (4 * u0)) with (P * u0 * 4) by ring; rewrite Z_div_mult by lia; reflexivity).
  replace (X * s_bs1 H / 4) with (X * u1) by (rewrite B1; replace (X * (4 * u1)) with (X * u1 * 4) by ring; rewrite Z_div_mult by lia; reflexivity).
  replace (Z * s_bs2 H / 4) with (Z * u2) by (rewrite B2; replace (Z * (4 * u2)) with (Z * u2 * 4) by ring; rewrite Z_div_mult by lia; reflexivity).
  set (blk := (P * nbx + X) * nbz + Z).
  rewrite map_flat_map.
  replace ((blk + 1) * U) with (blk * U + u0 * (u1 * u2)) by (unfold U; ring).
  apply flat_map_enum; [lia | nia |]. intros a Ha.
  rewrite map_flat_map.
  replace (blk * U + (a + 1) * (u1 * u2)) with (blk * U + a * (u1 * u2) + u1 * u2) by ring.
  apply flat_map_enum; [lia | lia |]. intros b Hb.
  rewrite map_map.
  rewrite (map_ext_in _ (fun c => (blk * U + a * (u1 * u2) + b * u2) + c)).
  - rewrite map_add_zrange by lia. f_equal. ring.
  - intros c Hc. apply in_zrange in Hc. cbn [uidx]. rewrite uidx_block by lia. fold blk. ring.
Qed.

(* the plane-set producers in canonical form *)
Definition canon_regions_of_set (p : Z) : list region :=
  if (s_bs0 H =? 4) && (s_bs1 H =? 4) then [mkR (p * s_bs0 H) 0 0 (s_bs0 H) (s_PX H) (s_PZ H)]
  else flat_map (fun x => map (fun z => mkR (p * s_bs0 H) (x * s_bs1 H) (z * s_bs2 H) (s_bs0 H) (s_bs1 H) (s_bs2 H))
                              (zrange 0 nbz)) (zrange 0 nbx).

Lemma whole_set_units p : s_bs0 H = 4 -> s_bs1 H = 4 ->
  map (uidx H) (units_of_region (mkR (p * s_bs0 H) 0 0 (s_bs0 H) (s_PX H) (s_PZ H))) =
  zrange (p * (nbx * nbz * U)) ((p + 1) * (nbx * nbz * U)).
Proof.
  intros D0 D1. destruct u_pos as (U0 & U1 & U2). destruct bs_u as (B0 & B1 & B2). destruct P_nb as (E0 & E1 & E2).
  destruct nb_pos as (N0 & N1 & N2).
  assert (Eu0 : u0 = 1) by lia. assert (Eu1 : u1 = 1) by lia.
  unfold units_of_region. cbn [r_i0 r_x0 r_z0 r_ni r_nx r_nz].
  rewrite D0. change (4 / 4) with 1. change (0 / 4) with 0.
  replace (p * 4 / 4) with p by (rewrite Z_div_mult by lia; reflexivity).
  assert (PX4 : s_PX H / 4 = nbx) by (rewrite E1, D1; apply Z_div_mult; lia).
  assert (PZ4 : s_PZ H / 4 = nbz * u2) by (rewrite E2, B2; replace (nbz * (4 * u2)) with (nbz * u2 * 4) by ring; apply Z_div_mult; lia).
  rewrite PX4, PZ4.
  assert (EU : U = u2) by (unfold U; rewrite Eu0, Eu1; ring).
  rewrite map_flat_map.
  replace ((p + 1) * (nbx * nbz * U)) with (p * (nbx * nbz * U) + 1 * (nbx * nbz * U)) by ring.
  apply flat_map_enum; [lia | nia |]. intros a Ha. assert (a = 0) by lia. subst a.
  rewrite map_flat_map.
  replace (p * (nbx * nbz * U) + (0 + 1) * (nbx * nbz * U)) with (p * (nbx * nbz * U) + 0 * (nbx * nbz * U) + nbx * (nbz * u2)) by (rewrite EU; ring).
  apply flat_map_enum; [lia | nia |]. intros b Hb.
  rewrite map_map.
  rewrite (map_ext_in _ (fun c => (p * (nbx * nbz * U) + 0 * (nbx * nbz * U) + b * (nbz * u2)) + c)).
  - rewrite map_add_zrange by nia. f_equal. ring.
  - intros c Hc. apply in_zrange in Hc. cbn [uidx].
    (* unit (p, b, c) with u0 = u1 = 1 *)
    pose proof (Z.div_mod c u2 ltac:(lia)) as DM. pose proof (Z.mod_pos_bound c u2 U2) as MB.
    assert (Hq : 0 <= c / u2) by (apply Z.div_pos; lia).
    replace (p + 0) with (p * u0 + 0) by (rewrite Eu0; ring).
    replace (0 + b) with (b * u1 + 0) by (rewrite Eu1; ring).
    replace (0 + c) with ((c / u2) * u2 + c mod u2) by lia.
    rewrite uidx_block by lia. rewrite EU, Eu1. 
    replace c with (u2 * (c / u2) + c mod u2) at 3 by lia. ring.
Qed.

Theorem canon_enum :
  map (uidx H) (flat_map units_of_region (flat_map canon_regions_of_set (zrange 0 nps))) = zrange 0 (nps * (nbx * nbz * U)).
Proof.
  destruct u_pos as (U0 & U1 & U2). destruct nb_pos as (N0 & N1 & N2).
  rewrite flat_map_flat_map, map_flat_map.
  replace (nps * (nbx * nbz * U)) with (0 + nps * (nbx * nbz * U)) by ring.
  apply flat_map_enum; [lia | unfold U; nia |]. intros p Hp. rewrite !Z.add_0_l.
  unfold canon_regions_of_set. destruct ((s_bs0 H =? 4) && (s_bs1 H =? 4)) eqn:Sw.
  - apply andb_true_iff in Sw. destruct Sw as [D0 D1]. apply Z.eqb_eq in D0, D1.
    cbn [flat_map]. rewrite app_nil_r. apply whole_set_units; assumption.
  - rewrite flat_map_flat_map, map_flat_map.
    replace ((p + 1) * (nbx * nbz * U)) with (p * (nbx * nbz * U) + nbx * (nbz * U)) by ring.
    apply flat_map_enum; [lia | unfold U; nia |]. intros x Hx.
    rewrite flat_map_map, map_flat_map.
    replace (p * (nbx * nbz * U) + (x + 1) * (nbz * U)) with (p * (nbx * nbz * U) + x * (nbz * U) + nbz * U) by ring.
    apply flat_map_enum; [lia | unfold U; nia |]. intros z Hz.
    rewrite units_block. f_equal; ring.
Qed.

(* number of units = data-section bytes / unit bytes *)
Lemma total_units : nps * (nbx * nbz * U) = (s_PI H / 4) * (s_PX H / 4) * (s_PZ H / 4).
Proof.
  destruct bs_u as (B0 & B1 & B2). destruct P_nb as (E0 & E1 & E2).
  assert (A0 : s_PI H / 4 = nps * u0) by (rewrite E0, B0; replace (nps * (4 * u0)) with (nps * u0 * 4) by ring; apply Z_div_mult; lia).
  assert (A1 : s_PX H / 4 = nbx * u1) by (rewrite E1, B1; replace (nbx * (4 * u1)) with (nbx * u1 * 4) by ring; apply Z_div_mult; lia).
  assert (A2 : s_PZ H / 4 = nbz * u2) by (rewrite E2, B2; replace (nbz * (4 * u2)) with (nbz * u2 * 4) by ring; apply Z_div_mult; lia).
  rewrite A0, A1, A2. unfold U. ring.
Qed.

(* ---------- every written unit lies in the padded unit grid ---------- *)
Definition in_ugrid (u : Z * Z * Z) : Prop :=
  match u with (iu, xu, zu) => 0 <= iu < s_PI H / 4 /\ 0 <= xu < s_PX H / 4 /\ 0 <= zu < s_PZ H / 4 end.

Lemma P4 : s_PI H / 4 = nps * u0 /\ s_PX H / 4 = nbx * u1 /\ s_PZ H / 4 = nbz * u2.
Proof.
  destruct bs_u as (B0 & B1 & B2). destruct P_nb as (E0 & E1 & E2).
  repeat split.
  - rewrite E0, B0; replace (nps * (4 * u0)) with (nps * u0 * 4) by ring; apply Z_div_mult; lia.
  - rewrite E1, B1; replace (nbx * (4 * u1)) with (nbx * u1 * 4) by ring; apply Z_div_mult; lia.
  - rewrite E2, B2; replace (nbz * (4 * u2)) with (nbz * u2 * 4) by ring; apply Z_div_mult; lia.
Qed.

Lemma region_units_in (r : region) u : In u (units_of_region r) ->
  match u with (iu, xu, zu) => r_i0 r / 4 <= iu < r_i0 r / 4 + r_ni r / 4 /\ r_x0 r / 4 <= xu < r_x0 r / 4 + r_nx r / 4 /\
                               r_z0 r / 4 <= zu < r_z0 r / 4 + r_nz r / 4 end.
Proof.
  unfold units_of_region. intro Hin. apply in_flat_map in Hin. destruct Hin as (a & Ha & Hin).
  apply in_flat_map in Hin. destruct Hin as (b & Hb & Hin). apply in_map_iff in Hin. destruct Hin as (c & <- & Hc).
  apply in_zrange in Ha, Hb, Hc. lia.
Qed.

Lemma div4_mul q u : (q * (4 * u)) / 4 = q * u.
Proof. replace (q * (4 * u)) with (q * u * 4) by ring. apply Z_div_mult. lia. Qed.

Lemma canon_in_grid u : In u (flat_map units_of_region (flat_map canon_regions_of_set (zrange 0 nps))) -> in_ugrid u.
Proof.
  destruct u_pos as (U0 & U1 & U2). destruct bs_u as (B0 & B1 & B2). destruct P4 as (Q0 & Q1 & Q2).
  destruct P_nb as (E0 & E1 & E2).
  intro Hin. apply in_flat_map in Hin. destruct Hin as (r & Hr & Hu). apply in_flat_map in Hr. destruct Hr as (p & Hp & Hr).
  apply in_zrange in Hp. apply region_units_in in Hu. destruct u as [[iu xu] zu]. unfold in_ugrid.
  unfold canon_regions_of_set in Hr. destruct ((s_bs0 H =? 4) && (s_bs1 H =? 4)) eqn:Sw.
  - destruct Hr as [<- | []]. cbn [r_i0 r_x0 r_z0 r_ni r_nx r_nz] in Hu. change (0 / 4) with 0 in Hu.
    rewrite B0 in Hu at 1. rewrite div4_mul in Hu. rewrite B0 in Hu at 1. rewrite div4_mul in Hu.
    replace (s_bs0 H / 4) with u0 in Hu by reflexivity. rewrite Q0, Q1, Q2. rewrite Q1, Q2 in Hu. nia.
  - apply in_flat_map in Hr. destruct Hr as (x & Hx & Hr). apply in_map_iff in Hr. destruct Hr as (z & <- & Hz).
    apply in_zrange in Hx, Hz. cbn [r_i0 r_x0 r_z0 r_ni r_nx r_nz] in Hu.
    rewrite B0 in Hu at 1. rewrite div4_mul in Hu. rewrite B0 in Hu at 1. rewrite div4_mul in Hu.
    rewrite B1 in Hu at 1. rewrite div4_mul in Hu. rewrite B1 in Hu at 1. rewrite div4_mul in Hu.
    rewrite B2 in Hu at 1. rewrite div4_mul in Hu. rewrite B2 in Hu at 1. rewrite div4_mul in Hu.
    fold u0 u1 u2 in Hu. rewrite Q0, Q1, Q2. nia.
Qed.

Lemma uidx_is_tiling iu xu zu : unit_index3 H iu xu zu = tuidx u0 u1 u2 nbx nbz iu xu zu.
Proof. reflexivity. Qed.

(* THE POSITION THEOREM: the unit the specification places at index k = unit_index3 (iu,xu,zu) is the k-th unit written *)
Theorem canon_written_at iu xu zu : in_ugrid (iu, xu, zu) ->
  nth_error (flat_map units_of_region (flat_map canon_regions_of_set (zrange 0 nps)))
            (Z.to_nat (unit_index3 H iu xu zu)) = Some (iu, xu, zu).
Proof.
  intro G. destruct u_pos as (U0 & U1 & U2). destruct nb_pos as (N0 & N1 & N2). destruct P4 as (Q0 & Q1 & Q2).
  set (l := flat_map units_of_region (flat_map canon_regions_of_set (zrange 0 nps))).
  pose proof canon_enum as EN. fold l in EN.
  assert (GB : 0 <= unit_index3 H iu xu zu < nps * nbx * nbz * (u0 * u1 * u2)).
  { rewrite uidx_is_tiling. apply tuidx_bound; try lia. unfold in_ugrid in G. unfold in_grid. rewrite <- Q0, <- Q1, <- Q2. exact G. }
  set (k := unit_index3 H iu xu zu) in *.
  assert (LEN : length l = Z.to_nat (nps * (nbx * nbz * U))).
  { rewrite <- (map_length (uidx H)), EN, zrange_length. f_equal. lia. }
  destruct (nth_error l (Z.to_nat k)) as [u'|] eqn:NE.
  2:{ apply nth_error_None in NE. unfold U in LEN. nia. }
  assert (KU : uidx H u' = k).
  { pose proof (map_nth_error (uidx H) _ _ NE) as M. rewrite EN in M.
    unfold zrange in M. clear - M GB.
    assert (forall n lo j v, nth_error (zrange_nat lo n) j = Some v -> v = lo + Z.of_nat j) as Z1.
    { induction n as [|n IH]; intros lo j v; destruct j; cbn [zrange_nat nth_error]; try congruence.
      - intro E; inversion E; lia.
      - intro E. apply IH in E. lia. }
    apply Z1 in M. lia. }
  assert (GU : in_ugrid u') by (apply canon_in_grid; eapply nth_error_In; exact NE).
  destruct u' as [[iu' xu'] zu']. cbn [uidx] in KU. unfold k in KU. rewrite !uidx_is_tiling in KU.
  apply (tuidx_inj u0 u1 u2 nps nbx nbz U0 U1 U2) in KU.
  - destruct KU as (-> & -> & ->). reflexivity.
  - unfold in_grid. unfold in_ugrid in GU. rewrite <- Q0, <- Q1, <- Q2. exact GU.
  - unfold in_grid. unfold in_ugrid in G. rewrite <- Q0, <- Q1, <- Q2. exact G.
Qed.

(* ---------- the generated producers are the canonical enumeration ---------- *)
Local Notation n_il := (s_nil H).
Local Notation n_xl := (s_nxl H).
Local Notation ns := (s_ns H).
Local Notation b0 := (s_bs0 H).
Local Notation b1 := (s_bs1 H).
Local Notation b2 := (s_bs2 H).

Lemma gen_pad : pad n_il b0 = s_PI H /\ pad n_xl b1 = s_PX H /\ pad ns b2 = s_PZ H.
Proof.
  pose proof (f_bs0 H F). pose proof (f_bs1 H F). pose proof (f_bs2 H F).
  unfold s_PI, s_PX, s_PZ. rewrite !pad_is_pad_to by lia. repeat split.
Qed.

(* a plane set p < nps that is "last" holds exactly the n_il mod bs0 remaining planes *)
Lemma last_set_rows p : 0 <= p < nps -> (p + 1) * b0 > n_il -> n_il mod b0 = n_il - p * b0 /\ 0 < n_il - p * b0 < b0.
Proof.
  intros Hp Hl. destruct P_nb as (E0 & _ & _). destruct (f_PI H F) as (A & _ & _ & _).
  pose proof (pad_to_spec (s_nil H) (s_bs0 H) ltac:(pose proof (f_bs0 H F); lia)) as (S1 & _ & _). fold (s_PI H) in S1.
  pose proof (f_bs0 H F) as B.
  assert (P1 : p * b0 <= (nps - 1) * b0) by nia.
  assert (R : 0 < n_il - p * b0 < b0) by nia.
  split; [|exact R]. symmetry. apply (Z.mod_unique_pos n_il b0 p (n_il - p * b0)); lia.
Qed.

Lemma np_set_canon p : 0 <= p < nps -> np_regions_of_set n_il n_xl ns b0 b1 b2 p = canon_regions_of_set p.
Proof.
  intro Hp. destruct gen_pad as (G0 & G1 & G2). destruct P_nb as (E0 & E1 & E2). pose proof (f_bs0 H F) as B0.
  pose proof (f_bs1 H F) as B1. pose proof (f_bs2 H F) as B2.
  assert (S0 : np_buf_shape0 n_il n_xl ns b0 b1 b2 p = b0).
  { unfold np_buf_shape0, np_buf_rows, np_row_hi, np_row_lo, np_padw_i, np_last_set.
    destruct ((p + 1) * b0 >? n_il) eqn:L.
    - destruct (last_set_rows p Hp ltac:(lia)) as (M & R). lia.
    - lia. }
  assert (S1 : np_buf_shape1 n_il n_xl ns b0 b1 b2 p = s_PX H).
  { unfold np_buf_shape1, np_padw_x. rewrite G1. destruct (np_last_set _ _ _ _ _ _ _); lia. }
  assert (S2 : np_buf_shape2 n_il n_xl ns b0 b1 b2 p = s_PZ H).
  { unfold np_buf_shape2, np_padw_z. rewrite G2. destruct (np_last_set _ _ _ _ _ _ _); lia. }
  unfold np_regions_of_set, canon_regions_of_set. rewrite S0, S1, S2.
  unfold np_whole_set. destruct ((b0 =? 4) && (b1 =? 4)); [reflexivity|].
  unfold np_nblocks_x, np_nblocks_z. rewrite G1, G2. fold nbx nbz.
  apply flat_map_ext_in. intros x Hx. apply in_zrange in Hx. apply map_ext_in. intros z Hz. apply in_zrange in Hz.
  unfold np_block_x_lo, np_block_x_hi, np_block_z_lo, np_block_z_hi.
  f_equal; nia.
Qed.

Theorem np_regions_canon : np_regions n_il n_xl ns b0 b1 b2 = flat_map canon_regions_of_set (zrange 0 nps).
Proof.
  unfold np_regions, np_n_plane_sets. destruct gen_pad as (G0 & _ & _). rewrite G0. fold nps.
  apply flat_map_ext_in. intros p Hp. apply in_zrange in Hp. apply np_set_canon. exact Hp.
Qed.

Lemma sf_set_canon p : 0 <= p < nps -> sf_regions_of_set n_il n_xl ns b0 b1 b2 p = canon_regions_of_set p.
Proof.
  intro Hp. destruct gen_pad as (G0 & G1 & G2). destruct P_nb as (E0 & E1 & E2).
  pose proof (f_bs1 H F) as B1. pose proof (f_bs2 H F) as B2.
  unfold sf_regions_of_set, canon_regions_of_set, sf_padded1, sf_padded2. rewrite G1, G2.
  unfold sf_whole_set. destruct ((b0 =? 4) && (b1 =? 4)); [reflexivity|].
  unfold sf_nblocks_x, sf_nblocks_z. rewrite G1, G2. fold nbx nbz.
  apply flat_map_ext_in. intros x Hx. apply in_zrange in Hx. apply map_ext_in. intros z Hz. apply in_zrange in Hz.
  unfold sf_block_x_lo, sf_block_x_hi, sf_block_z_lo, sf_block_z_hi.
  f_equal; nia.
Qed.

Theorem sf_regions_canon : sf_regions n_il n_xl ns b0 b1 b2 = flat_map canon_regions_of_set (zrange 0 nps).
Proof.
  unfold sf_regions, sf_n_plane_sets. destruct gen_pad as (G0 & _ & _). rewrite G0. fold nps.
  apply flat_map_ext_in. intros p Hp. apply in_zrange in Hp. apply sf_set_canon. exact Hp.
Qed.

(* ---------- every cell of the padded cube holds the edge-replicated source sample ---------- *)
Lemma set_of_row i : 0 <= i < s_PI H -> 0 <= i / b0 < nps /\ i = (i / b0) * b0 + i mod b0 /\ 0 <= i mod b0 < b0.
Proof.
  intro Hi. pose proof (f_bs0 H F) as B.  destruct P_nb as (E0 & _ & _). 
  pose proof (Z.div_mod i b0 ltac:(lia)) as DM. pose proof (Z.mod_pos_bound i b0 ltac:(lia)) as MB.
  repeat split; try lia.
  - apply Z.div_pos; lia.
  - apply Z.div_lt_upper_bound; lia.
Qed.

Theorem np_cell_src_edge i x z : 0 <= i < s_PI H ->
  np_cell_src n_il n_xl ns b0 b1 b2 i x z = edge_src n_il n_xl ns i x z.
Proof.
  intro Hi. destruct (set_of_row i Hi) as (Hp & Ei & Ha). set (p := i / b0) in *. set (a := i mod b0) in *.
  unfold np_cell_src, np_buf_src, edge_src. fold p a.
  apply (f_equal2 pair); [apply (f_equal2 pair); [|reflexivity] | reflexivity].
  unfold np_buf_rows, np_row_hi, np_row_lo, np_last_set. destruct ((p + 1) * b0 >? n_il) eqn:L.
  - destruct (last_set_rows p Hp ltac:(lia)) as (M & R). lia.
  - lia.
Qed.

Theorem sf_cell_src_edge minimal i x z : 0 <= i < s_PI H -> 0 <= x -> 0 <= z ->
  sf_cell_src n_il n_xl ns b0 b1 b2 minimal i x z = edge_src n_il n_xl ns i x z.
Proof.
  intros Hi Hx Hz. destruct (set_of_row i Hi) as (Hp & Ei & Ha). set (p := i / b0) in *. set (a := i mod b0) in *.
  pose proof (f_nxl H F) as NX. pose proof (f_ns H F) as NS.
  unfold sf_cell_src, sf_buf_src, sf_row_line, edge_src. fold p a.
  unfold io_min_line, io_seg_line, io_xpad_from, io_xpad_src, io_zpad_from, io_zpad_src, io_xl_lo, sf_planes_to_read.
  assert (ROW : (if a <? (if (p + 1) * b0 >? n_il then n_il mod b0 else b0) then p * b0 + a
                 else p * b0 + (if (p + 1) * b0 >? n_il then n_il mod b0 else b0) - 1) = Z.min i (n_il - 1)).
  { destruct ((p + 1) * b0 >? n_il) eqn:L.
    - destruct (last_set_rows p Hp ltac:(lia)) as (M & R). rewrite M. destruct (a <? n_il - p * b0) eqn:Q; lia.
    - destruct (a <? b0) eqn:Q; lia. }
  apply (f_equal2 pair); [apply (f_equal2 pair)|].
  - destruct minimal.
    + rewrite <- ROW. destruct ((p + 1) * b0 >? n_il); destruct (a <? _); lia.
    + rewrite <- ROW. destruct ((p + 1) * b0 >? n_il); destruct (a <? _); lia.
  - destruct minimal; destruct (x <? n_xl) eqn:Q; destruct (a <? _); lia.
  - destruct (z <? ns) eqn:Q; lia.
Qed.
End WRITER.

(* ---------- corollaries about the generated producers themselves ---------- *)
Definition dims_np (H : hdr) := np_written_units (s_nil H) (s_nxl H) (s_ns H) (s_bs0 H) (s_bs1 H) (s_bs2 H).
Definition dims_sf (H : hdr) := sf_written_units (s_nil H) (s_nxl H) (s_ns H) (s_bs0 H) (s_bs1 H) (s_bs2 H).
Definition data_units (H : hdr) : Z := (s_PI H / 4) * (s_PX H / 4) * (s_PZ H / 4).

Lemma np_unit_order H : wf3 H = true -> map (uidx H) (dims_np H) = zrange 0 (data_units H).
Proof.
  intro W. unfold dims_np, np_written_units. rewrite (np_regions_canon H W). rewrite (canon_enum H W).
  f_equal. apply total_units. exact W.
Qed.
Lemma sf_unit_order H : wf3 H = true -> map (uidx H) (dims_sf H) = zrange 0 (data_units H).
Proof.
  intro W. unfold dims_sf, sf_written_units. rewrite (sf_regions_canon H W). rewrite (canon_enum H W).
  f_equal. apply total_units. exact W.
Qed.
Lemma np_unit_at H : wf3 H = true -> forall iu xu zu, 0 <= iu < s_PI H / 4 -> 0 <= xu < s_PX H / 4 -> 0 <= zu < s_PZ H / 4 ->
  nth_error (dims_np H) (Z.to_nat (unit_index3 H iu xu zu)) = Some (iu, xu, zu).
Proof.
  intros W iu xu zu Hi Hx Hz. unfold dims_np, np_written_units. rewrite (np_regions_canon H W).
  apply (canon_written_at H W). unfold in_ugrid. auto.
Qed.
Lemma sf_unit_at H : wf3 H = true -> forall iu xu zu, 0 <= iu < s_PI H / 4 -> 0 <= xu < s_PX H / 4 -> 0 <= zu < s_PZ H / 4 ->
  nth_error (dims_sf H) (Z.to_nat (unit_index3 H iu xu zu)) = Some (iu, xu, zu).
Proof.
  intros W iu xu zu Hi Hx Hz. unfold dims_sf, sf_written_units. rewrite (sf_regions_canon H W).
  apply (canon_written_at H W). unfold in_ugrid. auto.
Qed.
Lemma written_count H : wf3 H = true -> length (dims_np H) = Z.to_nat (data_units H) /\ length (dims_sf H) = Z.to_nat (data_units H).
Proof.
  intro W. split.
  - rewrite <- (map_length (uidx H)), (np_unit_order H W), zrange_length. f_equal. lia.
  - rewrite <- (map_length (uidx H)), (sf_unit_order H W), zrange_length. f_equal. lia.
Qed.

(* the data section the writers produce has exactly the size the specification derives from the header *)
Lemma data_units_bytes H : s_ub3 H * data_units H = s_data_bytes3 H.
Proof. unfold data_units, s_data_bytes3. ring. Qed.

(* write-then-read, voxel by voxel *)
Lemma voxel_fidelity H : wf3 H = true -> forall i x z, 0 <= i < s_nil H -> 0 <= x < s_nxl H -> 0 <= z < s_ns H ->
  let k := unit_index3 H (i / 4) (x / 4) (z / 4) in
  spec_cell3 H i x z = PUnit (s_ub3 H * k) (((i mod 4) * 4 + x mod 4) * 4 + z mod 4) /\
  nth_error (dims_np H) (Z.to_nat k) = Some (i / 4, x / 4, z / 4) /\
  nth_error (dims_sf H) (Z.to_nat k) = Some (i / 4, x / 4, z / 4) /\
  (forall da db dc, 0 <= da < 4 -> 0 <= db < 4 -> 0 <= dc < 4 ->
     let s := edge_src (s_nil H) (s_nxl H) (s_ns H) (4 * (i / 4) + da) (4 * (x / 4) + db) (4 * (z / 4) + dc) in
     np_cell_src (s_nil H) (s_nxl H) (s_ns H) (s_bs0 H) (s_bs1 H) (s_bs2 H) (4 * (i / 4) + da) (4 * (x / 4) + db) (4 * (z / 4) + dc) = s /\
     (forall minimal, sf_cell_src (s_nil H) (s_nxl H) (s_ns H) (s_bs0 H) (s_bs1 H) (s_bs2 H) minimal
                        (4 * (i / 4) + da) (4 * (x / 4) + db) (4 * (z / 4) + dc) = s)) /\
  edge_src (s_nil H) (s_nxl H) (s_ns H) i x z = (i, x, z).
Proof.
  intros W i x z Hi Hx Hz k. pose (F := wf3_facts H W).
  destruct (f_PI H F) as (PI1 & _ & PI4 & _). destruct (f_PX H F) as (PX1 & _ & PX4 & _). destruct (f_PZ H F) as (PZ1 & _ & PZ4 & _).
  assert (Gi : 0 <= i / 4 < s_PI H / 4) by (split; [apply Z.div_pos; lia | apply Z.div_lt_upper_bound; [lia|]; rewrite <- (exact_div (s_PI H) 4) by lia; lia]).
  assert (Gx : 0 <= x / 4 < s_PX H / 4) by (split; [apply Z.div_pos; lia | apply Z.div_lt_upper_bound; [lia|]; rewrite <- (exact_div (s_PX H) 4) by lia; lia]).
  assert (Gz : 0 <= z / 4 < s_PZ H / 4) by (split; [apply Z.div_pos; lia | apply Z.div_lt_upper_bound; [lia|]; rewrite <- (exact_div (s_PZ H) 4) by lia; lia]).
  split; [reflexivity|]. split; [apply np_unit_at; assumption|]. split; [apply sf_unit_at; assumption|]. split.
  - intros da db dc Ha Hb Hc s.
    assert (R : 0 <= 4 * (i / 4) + da < s_PI H).
    { pose proof (exact_div (s_PI H) 4 ltac:(lia) PI4). lia. }
    split; [apply np_cell_src_edge; assumption|]. intro minimal. apply sf_cell_src_edge; try assumption; lia.
  - unfold edge_src. f_equal; [f_equal|]; lia.
Qed.
